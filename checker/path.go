package main

// PATH engine (DESIGN §3.1): depth-first enumeration of the paths of one function's SSA
// CFG with trivial infeasibility pruning. Facts are kept about SSA values; φ-nodes are
// resolved by the edge taken; local allocs are followed; repeated loads of the same
// struct field through the same base are the same symbolic value unless a store to the
// field or a call whose cone may store to it lies in between (field-based mod analysis).

import (
	"fmt"
	"go/constant"
	"go/token"
	"go/types"
	"os"
	"sort"
	"strings"

	"golang.org/x/tools/go/ssa"
)

type Fact struct {
	nilK   int8 // 0 unknown, 1 nil, 2 non-nil
	eq     *ssa.Global
	ne     []*ssa.Global
	boolK  int8 // 0 unknown, 1 true, 2 false
	hasLo  bool
	hasHi  bool
	lo, hi int64
	neInts []int64
}

// Rel is a relation between two (resolved) non-constant values that holds on the path.
type Rel struct {
	X  ssa.Value
	Op token.Token
	Y  ssa.Value
}

type UserState interface{ Clone() UserState }

type PState struct {
	facts  map[ssa.Value]Fact
	allocs map[*ssa.Alloc]ssa.Value
	phis   map[*ssa.Phi]ssa.Value
	visits map[*ssa.BasicBlock]int
	fields map[string]ssa.Value // field-load numbering: address key -> canonical load
	rels   []Rel
	trace  []*ssa.BasicBlock
	U      UserState
	// canon maps every `len(param)` call to one representative per parameter: the length
	// of a slice parameter never changes, so all such calls are one value (shared, read-only)
	canon map[ssa.Value]ssa.Value
	// PATH inlining of new helper functions (Ctx.IsNew): parameter bindings, results of the
	// calls already walked through, and the return stack
	params  map[*ssa.Parameter]ssa.Value
	fvars   map[*ssa.FreeVar]ssa.Value
	callres map[*ssa.Call][]ssa.Value
	stack   []inlFrame
}

type inlFrame struct {
	call   *ssa.Call
	block  *ssa.BasicBlock // caller block to resume
	idx    int             // index of the instruction after the call
	visits map[*ssa.BasicBlock]int
}

func newPState() *PState {
	return &PState{facts: map[ssa.Value]Fact{}, allocs: map[*ssa.Alloc]ssa.Value{},
		phis: map[*ssa.Phi]ssa.Value{}, visits: map[*ssa.BasicBlock]int{}, fields: map[string]ssa.Value{}}
}

func (p *PState) clone() *PState {
	q := &PState{facts: make(map[ssa.Value]Fact, len(p.facts)), allocs: make(map[*ssa.Alloc]ssa.Value, len(p.allocs)),
		phis: make(map[*ssa.Phi]ssa.Value, len(p.phis)), visits: make(map[*ssa.BasicBlock]int, len(p.visits)),
		fields: make(map[string]ssa.Value, len(p.fields))}
	for k, v := range p.facts {
		q.facts[k] = v
	}
	for k, v := range p.allocs {
		q.allocs[k] = v
	}
	for k, v := range p.phis {
		q.phis[k] = v
	}
	for k, v := range p.visits {
		q.visits[k] = v
	}
	for k, v := range p.fields {
		q.fields[k] = v
	}
	q.rels = append([]Rel(nil), p.rels...)
	q.trace = append([]*ssa.BasicBlock(nil), p.trace...)
	q.canon = p.canon
	if len(p.params) > 0 {
		q.params = make(map[*ssa.Parameter]ssa.Value, len(p.params))
		for k, v := range p.params {
			q.params[k] = v
		}
	}
	if len(p.fvars) > 0 {
		q.fvars = make(map[*ssa.FreeVar]ssa.Value, len(p.fvars))
		for k, v := range p.fvars {
			q.fvars[k] = v
		}
	}
	if len(p.callres) > 0 {
		q.callres = make(map[*ssa.Call][]ssa.Value, len(p.callres))
		for k, v := range p.callres {
			q.callres[k] = v
		}
	}
	q.stack = append([]inlFrame(nil), p.stack...)
	if p.U != nil {
		q.U = p.U.Clone()
	}
	return q
}

// Walker enumerates paths of one function.
type Walker struct {
	C        *Ctx
	Fn       *ssa.Function
	MaxSteps int
	MaxVisit int // visits per block per path (default 2)
	// Instr is called for every instruction in path order, after the walker has updated
	// its own state for it. Returning false abandons the path.
	Instr func(p *PState, ins ssa.Instruction) bool
	// Branch is called for each feasible successor of an If.
	Branch func(p *PState, ins *ssa.If, taken bool)
	// Exit is called at Return and Panic instructions.
	Exit func(p *PState, ins ssa.Instruction)
	// Revisit is called when a path is cut because a block was already visited MaxVisit
	// times (loop back edge).
	Revisit func(p *PState, b *ssa.BasicBlock)

	// NoInline disables stepping into new helper functions (Ctx.IsNew).
	NoInline bool
	// EnterCall is called with the call instruction the walker is about to step into (clients that
	// treat calls as events see the helper call as well as what happens inside it).
	EnterCall func(p *PState, call *ssa.Call)
	// EnterInline is called before the walker steps into a new helper function (again),
	// while the facts about the helper's values from a previous walk are still present.
	EnterInline func(p *PState, callee *ssa.Function)
	// PhiAssign is called when a block is entered along an edge, with its φ-nodes and the
	// (resolved) incoming values, before the assignment takes effect.
	PhiAssign func(p *PState, phis []*ssa.Phi, vals []ssa.Value)
	// Reenter is called when a block is entered again on the same path (loop), before the
	// facts about the values it defines are dropped.
	Reenter func(p *PState, b *ssa.BasicBlock)
	// Sig, when set, enables merging: a block entered again with the same signature of
	// live facts (plus the client's own signature) is not walked again.
	Sig func(p *PState) string

	steps    int
	Paths    int
	Merged   int
	Overflow bool
	canon    map[ssa.Value]ssa.Value
	live     map[*ssa.BasicBlock]*liveInfo
	seenSig  map[*ssa.BasicBlock]map[string]bool
}

type liveInfo struct {
	vals   map[ssa.Value]bool
	fields map[string]bool // fieldIDs loaded in reachable blocks
	blocks []*ssa.BasicBlock
}

func (w *Walker) liveAt(b *ssa.BasicBlock) *liveInfo {
	if w.live == nil {
		w.live = map[*ssa.BasicBlock]*liveInfo{}
	}
	if li, ok := w.live[b]; ok {
		return li
	}
	li := &liveInfo{vals: map[ssa.Value]bool{}, fields: map[string]bool{}}
	seen := map[*ssa.BasicBlock]bool{}
	var rec func(x *ssa.BasicBlock)
	rec = func(x *ssa.BasicBlock) {
		if seen[x] {
			return
		}
		seen[x] = true
		li.blocks = append(li.blocks, x)
		var ops []*ssa.Value
		for _, ins := range x.Instrs {
			ops = ins.Operands(ops[:0])
			for _, o := range ops {
				if *o != nil {
					li.vals[*o] = true
				}
			}
			if u, ok := ins.(*ssa.UnOp); ok && u.Op == token.MUL {
				for a := u.X; ; {
					fa, ok := a.(*ssa.FieldAddr)
					if !ok {
						break
					}
					if f := fieldOfAddr(fa); f != nil {
						li.fields[fieldID(f)] = true
					}
					a = fa.X
				}
			}
		}
		for _, s := range x.Succs {
			rec(s)
		}
	}
	rec(b)
	w.live[b] = li
	return li
}

func (w *Walker) signature(b, pred *ssa.BasicBlock, p *PState) string {
	li := w.liveAt(b)
	live := map[ssa.Value]bool{}
	var parts []string
	var mark func(v ssa.Value)
	mark = func(v ssa.Value) {
		if v == nil || live[v] {
			return
		}
		live[v] = true
		switch x := v.(type) {
		case *ssa.Phi:
			if r, ok := p.phis[x]; ok {
				parts = append(parts, fmt.Sprintf("phi %p=%p", x, r))
				mark(r)
			}
		case *ssa.Alloc:
			if r, ok := p.allocs[x]; ok {
				parts = append(parts, fmt.Sprintf("alloc %p=%p", x, r))
				mark(r)
			}
		case *ssa.UnOp:
			mark(x.X)
		case *ssa.ChangeInterface:
			mark(x.X)
		case *ssa.ChangeType:
			mark(x.X)
		}
	}
	for v := range li.vals {
		mark(v)
	}
	for k, v := range p.fields {
		i := strings.Index(k, "|")
		for _, part := range strings.Split(k[i+1:], ".") {
			if li.fields[part] {
				parts = append(parts, fmt.Sprintf("fld %s=%p", k, v))
				mark(v)
				break
			}
		}
	}
	for v := range live {
		if f, ok := p.facts[v]; ok {
			parts = append(parts, fmt.Sprintf("f %p %d %p %v %d %v%v %d %d %v", v, f.nilK, f.eq, f.ne, f.boolK, f.hasLo, f.hasHi, f.lo, f.hi, f.neInts))
		}
	}
	for _, r := range p.rels {
		if live[r.X] && live[r.Y] {
			parts = append(parts, fmt.Sprintf("r %p %s %p", r.X, r.Op, r.Y))
		}
	}
	for _, x := range li.blocks {
		if n := p.visits[x]; n > 0 {
			parts = append(parts, fmt.Sprintf("v%d=%d", x.Index, n))
		}
	}
	sort.Strings(parts)
	ps := ""
	if pred != nil {
		ps = fmt.Sprint(pred.Index)
	}
	return ps + ";" + strings.Join(parts, ";") + "#" + w.Sig(p)
}

func (w *Walker) Run(init UserState) {
	if w.Fn == nil || w.Fn.Blocks == nil {
		return
	}
	w.RunFrom(w.Fn.Blocks[0], nil, init)
}

// RunFrom starts the walk at block b as if entered from pred (may be nil).
func (w *Walker) RunFrom(b, pred *ssa.BasicBlock, init UserState) {
	if w.MaxSteps == 0 {
		w.MaxSteps = 400000
	}
	if w.MaxVisit == 0 {
		w.MaxVisit = 2
	}
	p := newPState()
	p.U = init
	p.canon = w.lenCanon()
	w.walk(b, pred, p)
}

func (w *Walker) lenCanon() map[ssa.Value]ssa.Value {
	if w.canon != nil {
		return w.canon
	}
	w.canon = map[ssa.Value]ssa.Value{}
	first := map[*ssa.Parameter]ssa.Value{}
	for _, b := range w.Fn.Blocks {
		for _, ins := range b.Instrs {
			call, ok := ins.(*ssa.Call)
			if !ok {
				continue
			}
			bi, ok := call.Call.Value.(*ssa.Builtin)
			if !ok || bi.Name() != "len" {
				continue
			}
			if pr, ok := call.Call.Args[0].(*ssa.Parameter); ok {
				if first[pr] == nil {
					first[pr] = call
				}
				w.canon[call] = first[pr]
			}
		}
	}
	return w.canon
}

func (w *Walker) walk(b, pred *ssa.BasicBlock, p *PState) {
	w.walkFrom(b, pred, p, 0)
}

// walkFrom walks block b starting at instruction index start; start > 0 resumes a caller
// block after an inlined helper call returned (no visit accounting, no φ transfer).
func (w *Walker) walkFrom(b, pred *ssa.BasicBlock, p *PState, start int) {
	if w.Overflow {
		return
	}
	if start > 0 {
		w.instrs(b, p, start)
		return
	}
	if b == w.Fn.Recover {
		return
	}
	if p.visits[b] >= w.MaxVisit {
		if w.Revisit != nil {
			w.Revisit(p, b)
		}
		return
	}
	// no merging inside an inlined helper: the live-value signature of a helper block says nothing
	// about the caller's continuation (which call site, which facts of the caller)
	if w.Sig != nil && len(b.Preds) > 1 && len(p.stack) == 0 {
		sg := w.signature(b, pred, p)
		if w.seenSig == nil {
			w.seenSig = map[*ssa.BasicBlock]map[string]bool{}
		}
		if w.seenSig[b] == nil {
			w.seenSig[b] = map[string]bool{}
		}
		if w.seenSig[b][sg] {
			w.Merged++
			return
		}
		w.seenSig[b][sg] = true
	}
	// integer values arriving at φ-nodes that are known exactly on this path (a loop counter over a
	// constant range): computed before a re-entry forgets the values defined in b
	var phiExact map[*ssa.Phi]int64
	if pred != nil {
		for _, ins := range b.Instrs {
			ph, ok := ins.(*ssa.Phi)
			if !ok {
				break
			}
			if !isIntegerType(ph.Type()) {
				continue
			}
			for i, pb := range b.Preds {
				if pb == pred {
					if k, okK := foldInt(p, ph.Edges[i], 0); okK {
						if phiExact == nil {
							phiExact = map[*ssa.Phi]int64{}
						}
						phiExact[ph] = k
					}
					break
				}
			}
		}
	}
	if p.visits[b] > 0 {
		// loop re-entry: the values defined in b denote new dynamic values from now on
		if w.Reenter != nil {
			w.Reenter(p, b)
		}
		def := map[ssa.Value]bool{}
		for _, ins := range b.Instrs {
			if v, ok := ins.(ssa.Value); ok {
				if _, stable := p.canon[v]; stable {
					continue
				}
				def[v] = true
				delete(p.facts, v)
			}
		}
		for a, v := range p.allocs {
			if def[v] {
				delete(p.allocs, a)
			}
		}
		for ph, v := range p.phis {
			if def[v] && ph.Block() != b {
				delete(p.phis, ph)
			}
		}
		for k, v := range p.fields {
			if def[v] {
				delete(p.fields, k)
			}
		}
		if len(p.rels) > 0 {
			var keep []Rel
			for _, r := range p.rels {
				if !def[r.X] && !def[r.Y] {
					keep = append(keep, r)
				}
			}
			p.rels = keep
		}
	}
	p.visits[b]++
	p.trace = append(p.trace, b)
	// φ-nodes: parallel assignment from the edge taken
	if pred != nil {
		var phis []*ssa.Phi
		var vals []ssa.Value
		for _, ins := range b.Instrs {
			ph, ok := ins.(*ssa.Phi)
			if !ok {
				break
			}
			for i, pb := range b.Preds {
				if pb == pred {
					phis = append(phis, ph)
					vals = append(vals, p.Resolve(ph.Edges[i]))
					break
				}
			}
		}
		if w.PhiAssign != nil && len(phis) > 0 {
			w.PhiAssign(p, phis, vals)
		}
		for i, ph := range phis {
			p.phis[ph] = vals[i]
			delete(p.facts, ph)
			if k, okK := phiExact[ph]; okK {
				p.facts[ph] = Fact{hasLo: true, hasHi: true, lo: k, hi: k}
			}
		}
	}
	w.instrs(b, p, 0)
}

func (w *Walker) instrs(b *ssa.BasicBlock, p *PState, start int) {
	for i := start; i < len(b.Instrs); i++ {
		ins := b.Instrs[i]
		w.steps++
		if w.steps > w.MaxSteps {
			w.Overflow = true
			return
		}
		if call, ok := ins.(*ssa.Call); ok && !w.NoInline {
			if cal := call.Call.StaticCallee(); cal != nil && (w.C.IsNew(cal) || w.C.tinyPure(cal)) && len(p.stack) < 4 && !onStack(p, cal) && len(cal.Params) == len(call.Call.Args) {
				// step into the helper: bind parameters, forget what a previous walk through it established
				if p.params == nil {
					p.params = map[*ssa.Parameter]ssa.Value{}
				}
				for j, prm := range cal.Params {
					p.params[prm] = p.Resolve(call.Call.Args[j])
				}
				if mc, isMC := call.Call.Value.(*ssa.MakeClosure); isMC {
					if p.fvars == nil {
						p.fvars = map[*ssa.FreeVar]ssa.Value{}
					}
					for j, fv := range cal.FreeVars {
						if j < len(mc.Bindings) {
							p.fvars[fv] = p.Resolve(mc.Bindings[j])
						}
					}
				}
				if w.EnterCall != nil {
					w.EnterCall(p, call)
				}
				if w.EnterInline != nil {
					w.EnterInline(p, cal)
				}
				for v := range p.facts {
					if v.Parent() == cal {
						if _, isParam := v.(*ssa.Parameter); !isParam {
							delete(p.facts, v)
						}
					}
				}
				for ph := range p.phis {
					if ph.Parent() == cal {
						delete(p.phis, ph)
					}
				}
				for a := range p.allocs {
					if a.Parent() == cal {
						delete(p.allocs, a)
					}
				}
				saved := map[*ssa.BasicBlock]int{}
				for _, cb := range cal.Blocks {
					if n, ok := p.visits[cb]; ok {
						saved[cb] = n
						delete(p.visits, cb)
					}
				}
				p.stack = append(p.stack, inlFrame{call: call, block: b, idx: i + 1, visits: saved})
				w.walk(cal.Blocks[0], nil, p)
				return
			}
		}
		switch x := ins.(type) {
		case *ssa.Phi:
			continue
		case *ssa.Store:
			w.doStore(p, x)
		case *ssa.UnOp:
			if x.Op == token.MUL {
				w.doLoad(p, x)
			}
		case *ssa.Defer:
			// deferred calls run at exit; conservatively nothing here
		}
		if w.Instr != nil && !w.Instr(p, ins) {
			return
		}
		if call, ok := ins.(*ssa.Call); ok {
			// the client saw the state before the call; now forget what the callee may change
			w.invalidateForCall(p, call)
		}
		switch x := ins.(type) {
		case *ssa.If:
			p2 := p.clone()
			okT := w.applyCond(p, x.Cond, true)
			okF := w.applyCond(p2, x.Cond, false)
			if okT {
				if w.Branch != nil {
					w.Branch(p, x, true)
				}
				w.walk(b.Succs[0], b, p)
			}
			if okF {
				if w.Branch != nil {
					w.Branch(p2, x, false)
				}
				w.walk(b.Succs[1], b, p2)
			}
			return
		case *ssa.Jump:
			w.walk(b.Succs[0], b, p)
			return
		case *ssa.Return:
			if n := len(p.stack); n > 0 && p.stack[n-1].call.Call.StaticCallee() == b.Parent() {
				fr := p.stack[n-1]
				p.stack = p.stack[:n-1]
				rs := make([]ssa.Value, len(x.Results))
				for j, rv := range x.Results {
					rs[j] = p.Resolve(rv)
				}
				if p.callres == nil {
					p.callres = map[*ssa.Call][]ssa.Value{}
				}
				p.callres[fr.call] = rs
				for cb, nv := range fr.visits {
					p.visits[cb] = nv
				}
				w.walkFrom(fr.block, nil, p, fr.idx)
				return
			}
			w.Paths++
			if w.Exit != nil {
				w.Exit(p, x)
			}
			return
		case *ssa.Panic:
			w.Paths++
			if w.Exit != nil {
				w.Exit(p, x)
			}
			return
		}
	}
}

// ---- value resolution ----

// Resolve maps a value to its canonical representative on this path.
func (p *PState) Resolve(v ssa.Value) ssa.Value {
	for i := 0; i < 32; i++ {
		if cv, ok := p.canon[v]; ok {
			return cv
		}
		switch x := v.(type) {
		case *ssa.FreeVar:
			if r, ok := p.fvars[x]; ok && r != v {
				v = r
				continue
			}
			return v
		case *ssa.Parameter:
			if r, ok := p.params[x]; ok && r != v {
				v = r
				continue
			}
			return v
		case *ssa.Call:
			if rs, ok := p.callres[x]; ok && len(rs) == 1 {
				v = rs[0]
				continue
			}
			return v
		case *ssa.Extract:
			if call, isCall := x.Tuple.(*ssa.Call); isCall {
				if rs, ok := p.callres[call]; ok && x.Index < len(rs) {
					v = rs[x.Index]
					continue
				}
			}
			return v
		case *ssa.Phi:
			if r, ok := p.phis[x]; ok {
				v = r
				continue
			}
			// a φ whose edges are all the same value
			return v
		case *ssa.UnOp:
			if x.Op == token.MUL {
				addr := x.X
				if fv, isFV := addr.(*ssa.FreeVar); isFV {
					addr = p.Resolve(fv) // captured variable of an inlined closure
				}
				if a, ok := addr.(*ssa.Alloc); ok {
					if r, ok := p.allocs[a]; ok {
						v = r
						continue
					}
				}
				if g, ok := x.X.(*ssa.Global); ok {
					return g // all loads of one package-level variable are one value (GL keeps them immutable)
				}
				if k := addrKey(p, x.X); k != "" {
					if r, ok := p.fields[k]; ok && r != v {
						v = r
						continue
					}
				}
				// a field of a local that was assigned as a whole from a row of a local table
				if fa, isFA := x.X.(*ssa.FieldAddr); isFA {
					if a, isA := fa.X.(*ssa.Alloc); isA {
						if whole, has := p.allocs[a]; has {
							if os.Getenv("XZV_TRACE") == "fov" {
								r, ok := fieldOfValue(p, whole, fa.Field, 0)
								fmt.Fprintf(os.Stderr, "FOV alloc=%s whole=%v (%T) field=%d -> %v %v\n", a.Name(), whole, whole, fa.Field, r, ok)
							}
							if r, ok := fieldOfValue(p, whole, fa.Field, 0); ok && r != v {
								v = r
								continue
							}
						}
					}
				}
			}
			return v
		case *ssa.ChangeInterface:
			v = x.X
			continue
		case *ssa.ChangeType:
			v = x.X
			continue
		case *ssa.Field:
			// a field of a row of a local table (an array literal that is filled once and then only
			// read), the row index being known on this path
			if r, ok := localTableField(p, x); ok && r != v {
				v = r
				continue
			}
		}
		return v
	}
	return v
}

// localTableField: x = (*&arr[i]).f with arr a local array written only by the stores of its
// composite literal, i a known constant on the path: the value stored into arr[i].f.
func localTableField(p *PState, x *ssa.Field) (ssa.Value, bool) {
	ld, ok := x.X.(*ssa.UnOp)
	if !ok || ld.Op != token.MUL {
		return nil, false
	}
	ia, ok := ld.X.(*ssa.IndexAddr)
	if !ok {
		return nil, false
	}
	al, ok := ia.X.(*ssa.Alloc)
	if !ok || al.Referrers() == nil {
		return nil, false
	}
	idx, ok := foldInt(p, ia.Index, 0)
	if !ok {
		return nil, false
	}
	var found ssa.Value
	for _, ref := range *al.Referrers() {
		switch y := ref.(type) {
		case *ssa.IndexAddr:
			k, isK := constInt(y.Index)
			if y.Referrers() == nil {
				continue
			}
			for _, r2 := range *y.Referrers() {
				switch z := r2.(type) {
				case *ssa.FieldAddr:
					if z.Referrers() == nil {
						continue
					}
					for _, r3 := range *z.Referrers() {
						st, isSt := r3.(*ssa.Store)
						if !isSt {
							if _, isLd := r3.(*ssa.UnOp); isLd {
								continue
							}
							return nil, false
						}
						if !isK {
							return nil, false // a store at a computed index: not a table
						}
						if k == idx && z.Field == x.Field {
							if found != nil {
								return nil, false
							}
							found = st.Val
						}
					}
				case *ssa.UnOp, *ssa.DebugRef:
				case *ssa.Store:
					return nil, false // whole rows stored: not handled
				default:
					return nil, false
				}
			}
		case *ssa.DebugRef:
		case *ssa.UnOp:
		case *ssa.Slice:
			// ranging over arr[:] reads only
		default:
			return nil, false
		}
	}
	if found == nil {
		return nil, false
	}
	return p.Resolve(found), true
}

// addrKey gives a path-stable key for a field address: root identity + field chain.
func addrKey(p *PState, a ssa.Value) string {
	var chain []string
	for {
		fa, ok := a.(*ssa.FieldAddr)
		if !ok {
			break
		}
		f := fieldOfAddr(fa)
		if f == nil {
			return ""
		}
		chain = append(chain, fieldID(f))
		a = fa.X
	}
	if len(chain) == 0 {
		return ""
	}
	root := p.Resolve(a)
	// reverse
	for i, j := 0, len(chain)-1; i < j; i, j = i+1, j-1 {
		chain[i], chain[j] = chain[j], chain[i]
	}
	rk := fmt.Sprintf("%p", root)
	if al, isAl := root.(*ssa.Alloc); isAl && theCtx != nil {
		if theCtx.privRoots == nil {
			theCtx.privRoots = map[string]bool{}
		}
		if _, seen := theCtx.privRoots[rk]; !seen {
			theCtx.privRoots[rk] = privateAlloc(theCtx, al, 0)
		}
	}
	return rk + "|" + strings.Join(chain, ".")
}

func fieldID(f *types.Var) string {
	return fmt.Sprintf("%s@%d", f.Name(), f.Pos())
}

// frozenLoad: the value loaded from addr when addr is an element/field (constant indices on this
// path) of a package-level table that is never written after initialisation.
func frozenLoad(c *Ctx, p *PState, addr ssa.Value, idxEval func(ssa.Value) (int64, bool)) (aval, bool) {
	a, ok := frozenLoad0(c, p, addr, idxEval)
	if os.Getenv("XZV_DEBUG_FROZEN") == "2" {
		fmt.Fprintf(os.Stderr, "frozenLoad(%v in %v) = %v %v\n", addr, addr.Parent(), a, ok)
	}
	return a, ok
}

func frozenLoad0(c *Ctx, p *PState, addr ssa.Value, idxEval func(ssa.Value) (int64, bool)) (aval, bool) {
	type step struct {
		field int
		idx   int64
		isIdx bool
	}
	var steps []step
	v := addr
	for i := 0; i < 16; i++ {
		if p != nil {
			v = p.Resolve(v)
		}
		switch x := v.(type) {
		case *ssa.FieldAddr:
			steps = append(steps, step{field: x.Field})
			v = x.X
			continue
		case *ssa.IndexAddr:
			var k int64
			// (the index itself, not its resolved form: what a φ resolves to is an expression over the
			// values of the previous iteration, foldInt knows the value the φ has now)
			iv := x.Index
			if kk, ok := foldInt(p, iv, 0); ok {
				k = kk
				if os.Getenv("XZV_DEBUG_FROZEN") == "2" && idxEval != nil {
					k2, ok2 := idxEval(x.Index)
					f, okF := factOf(p, x.Index)
					fmt.Fprintf(os.Stderr, "   index %v: foldInt %d, term %d %v, fact %+v %v, resolved %v\n", x.Index, kk, k2, ok2, f, okF, iv)
				}
			} else if idxEval != nil {
				kk, ok := idxEval(x.Index)
				if !ok {
					if os.Getenv("XZV_DEBUG_FROZEN") != "" {
						fmt.Fprintf(os.Stderr, "frozenLoad: index %v of %v not constant\n", x.Index, x)
					}
					return aval{}, false
				}
				k = kk
			} else {
				return aval{}, false
			}
			steps = append(steps, step{idx: k, isIdx: true})
			v = x.X
			continue
		case *ssa.Global:
			cell := c.initialCell(x)
			if cell == nil {
				if os.Getenv("XZV_DEBUG_FROZEN") != "" {
					fmt.Fprintf(os.Stderr, "frozenLoad: no initial cell for %s (frozen=%v)\n", x.Name(), c.frozenGlobal(x))
				}
				return aval{}, false
			}
			for j := len(steps) - 1; j >= 0; j-- {
				st := steps[j]
				if st.isIdx {
					if cell.elems == nil || st.idx < 0 || int(st.idx) >= len(cell.elems) {
						if os.Getenv("XZV_DEBUG_FROZEN") != "" {
							fmt.Fprintf(os.Stderr, "frozenLoad: %s steps %v: no element %d\n", x.Name(), steps, st.idx)
						}
						return aval{}, false
					}
					cell = cell.elems[st.idx]
				} else {
					if cell.fields == nil || cell.fields[st.field] == nil {
						return aval{}, false
					}
					cell = cell.fields[st.field]
				}
			}
			if cell.v.k == kConst && cell.v.c != nil {
				return cell.v, true
			}
			if os.Getenv("XZV_DEBUG_FROZEN") != "" {
				fmt.Fprintf(os.Stderr, "frozenLoad %s steps %v: cell %+v\n", x.Name(), steps, cell.v)
			}
			return aval{}, false
		}
		if os.Getenv("XZV_DEBUG_FROZEN") != "" {
			fmt.Fprintf(os.Stderr, "frozenLoad: base %T %v\n", v, v)
		}
		return aval{}, false
	}
	return aval{}, false
}

// foldInt: the integer v denotes on this path (constants, exact facts, + and - of such).
func foldInt(p *PState, v ssa.Value, depth int) (int64, bool) {
	if f, ok := factOf(p, v); ok && f.hasLo && f.hasHi && f.lo == f.hi {
		return f.lo, true // (a φ keeps the exact value it was assigned on this path)
	}
	_, wasPhi := v.(*ssa.Phi)
	if p != nil {
		v = p.Resolve(v)
	}
	if k, ok := constInt(v); ok {
		return k, true
	}
	if wasPhi {
		// a φ resolves to the expression that arrived on the edge taken; inside a loop that expression
		// is over the values of the previous iteration, which the facts no longer describe
		return 0, false
	}
	if f, ok := factOf(p, v); ok && f.hasLo && f.hasHi && f.lo == f.hi {
		return f.lo, true
	}
	if depth > 6 {
		return 0, false
	}
	switch x := v.(type) {
	case *ssa.Convert:
		if isIntegerType(x.Type()) && isIntegerType(x.X.Type()) {
			if k, ok := foldInt(p, x.X, depth+1); ok && k >= 0 && k < 1<<31 {
				return k, true
			}
		}
	case *ssa.BinOp:
		if x.Op == token.ADD || x.Op == token.SUB {
			a, ok1 := foldInt(p, x.X, depth+1)
			b, ok2 := foldInt(p, x.Y, depth+1)
			if ok1 && ok2 {
				if x.Op == token.ADD {
					return a + b, true
				}
				return a - b, true
			}
		}
	}
	return 0, false
}

func factOf(p *PState, v ssa.Value) (Fact, bool) {
	if p == nil {
		return Fact{}, false
	}
	f, ok := p.facts[v]
	return f, ok
}

func (w *Walker) doLoad(p *PState, x *ssa.UnOp) {
	if av, ok := frozenLoad(w.C, p, x.X, nil); ok {
		if k, isInt := av.Int(); isInt && isIntegerType(x.Type()) {
			f := p.facts[x]
			f.hasLo, f.hasHi, f.lo, f.hi = true, true, k, k
			p.facts[x] = f
		} else if b, isB := av.Bool(); isB {
			f := p.facts[x]
			f.boolK = 2
			if b {
				f.boolK = 1
			}
			p.facts[x] = f
		}
	}
	k := addrKey(p, x.X)
	if k == "" {
		return
	}
	if fa, ok := x.X.(*ssa.FieldAddr); ok {
		if f := fieldOfAddr(fa); f != nil && w.C.escapingField(f) {
			return
		}
	}
	if _, ok := p.fields[k]; !ok {
		p.fields[k] = x
	}
}

func (w *Walker) doStore(p *PState, x *ssa.Store) {
	val := p.Resolve(x.Val)
	switch a := x.Addr.(type) {
	case *ssa.Alloc:
		p.allocs[a] = val
		// a whole-struct store to a local invalidates numbered fields below it
		w.invalidateRoot(p, a)
		return
	case *ssa.FieldAddr:
		f := fieldOfAddr(a)
		if f == nil {
			return
		}
		w.invalidateField(p, f)
		// the stored value is what a following load yields
		if k := addrKey(p, a); k != "" && !w.C.escapingField(f) {
			p.fields[k] = val
		}
		return
	}
	// store through another pointer: if it points to a struct, all its fields change
	if pt, ok := x.Addr.Type().Underlying().(*types.Pointer); ok {
		for _, f := range structFieldsDeep(pt.Elem()) {
			w.invalidateField(p, f)
		}
	}
}

func (w *Walker) invalidateRoot(p *PState, root ssa.Value) {
	pre := fmt.Sprintf("%p|", root)
	for k := range p.fields {
		if strings.HasPrefix(k, pre) {
			delete(p.fields, k)
		}
	}
}

func (w *Walker) invalidateField(p *PState, f *types.Var) {
	id := fieldID(f)
	for k := range p.fields {
		i := strings.Index(k, "|")
		for _, part := range strings.Split(k[i+1:], ".") {
			if part == id {
				delete(p.fields, k)
				break
			}
		}
	}
}

func (w *Walker) invalidateForCall(p *PState, call *ssa.Call) {
	if len(p.fields) == 0 {
		return
	}
	if b, ok := call.Call.Value.(*ssa.Builtin); ok {
		_ = b
		return
	}
	mod := w.C.callMods(w.Fn, call)
	if mod == nil {
		return
	}
	if mod.all {
		for k := range p.fields {
			if i := strings.Index(k, "|"); i > 0 && w.C.privRoots[k[:i]] {
				continue
			}
			delete(p.fields, k)
		}
		return
	}
	for k := range p.fields {
		i := strings.Index(k, "|")
		if i > 0 && w.C.privRoots[k[:i]] {
			continue
		}
		for _, part := range strings.Split(k[i+1:], ".") {
			if mod.ids[part] {
				delete(p.fields, k)
				break
			}
		}
	}
}

// ---- mod analysis (field-based) ----

type modSet struct {
	all bool
	ids map[string]bool
}

type modCache struct {
	direct   map[*ssa.Function]*modSet
	reach    map[*ssa.Function]*modSet
	escaping map[*types.Var]bool
	escDone  bool
}

var mods = map[*Ctx]*modCache{}

func (c *Ctx) mc() *modCache {
	m := mods[c]
	if m == nil {
		m = &modCache{direct: map[*ssa.Function]*modSet{}, reach: map[*ssa.Function]*modSet{}, escaping: map[*types.Var]bool{}}
		mods[c] = m
	}
	return m
}

func structFieldsDeep(t types.Type) []*types.Var {
	var r []*types.Var
	st, ok := t.Underlying().(*types.Struct)
	if !ok {
		return nil
	}
	for i := 0; i < st.NumFields(); i++ {
		r = append(r, st.Field(i))
		r = append(r, structFieldsDeep(st.Field(i).Type())...)
	}
	return r
}

func (c *Ctx) directMods(fn *ssa.Function) *modSet {
	m := c.mc()
	if s, ok := m.direct[fn]; ok {
		return s
	}
	s := &modSet{ids: map[string]bool{}}
	m.direct[fn] = s
	for _, b := range fn.Blocks {
		for _, ins := range b.Instrs {
			st, ok := ins.(*ssa.Store)
			if !ok {
				continue
			}
			switch a := st.Addr.(type) {
			case *ssa.FieldAddr:
				if f := fieldOfAddr(a); f != nil {
					s.ids[fieldID(f)] = true
					for _, g := range structFieldsDeep(f.Type()) {
						s.ids[fieldID(g)] = true
					}
				}
			case *ssa.Alloc, *ssa.Global:
			default:
				if pt, ok := st.Addr.Type().Underlying().(*types.Pointer); ok {
					for _, f := range structFieldsDeep(pt.Elem()) {
						s.ids[fieldID(f)] = true
					}
				}
			}
		}
	}
	return s
}

// reachMods: fields possibly stored by fn or anything reachable from it in the call graph.
func (c *Ctx) reachMods(fn *ssa.Function) *modSet {
	m := c.mc()
	if s, ok := m.reach[fn]; ok {
		return s
	}
	s := &modSet{ids: map[string]bool{}}
	seen := map[*ssa.Function]bool{}
	var walk func(f *ssa.Function)
	walk = func(f *ssa.Function) {
		if f == nil || seen[f] {
			return
		}
		seen[f] = true
		if c.InModule(f) {
			for k := range c.directMods(f).ids {
				s.ids[k] = true
			}
		}
		if n := c.CG.Nodes[f]; n != nil {
			for _, e := range n.Out {
				walk(e.Callee.Func)
			}
		}
		for _, af := range f.AnonFuncs {
			walk(af)
		}
	}
	walk(fn)
	m.reach[fn] = s
	return s
}

func (c *Ctx) callMods(caller *ssa.Function, call ssa.CallInstruction) *modSet {
	callees := c.Callees(caller, call)
	if len(callees) == 0 {
		// unresolved dynamic call (func value / interface without VTA edge): a foreign
		// implementation cannot reach unexported fields except through module methods,
		// which VTA would list; keep numbering.
		return nil
	}
	if len(callees) == 1 {
		return c.reachMods(callees[0])
	}
	u := &modSet{ids: map[string]bool{}}
	for _, f := range callees {
		for k := range c.reachMods(f).ids {
			u.ids[k] = true
		}
	}
	return u
}

// escapingField: the field's address is used for something other than an immediate
// load/store/sub-field (so stores through aliases are possible): never numbered.
func (c *Ctx) escapingField(f *types.Var) bool {
	m := c.mc()
	if !m.escDone {
		m.escDone = true
		for _, fn := range c.modFuncs {
			for _, b := range fn.Blocks {
				for _, ins := range b.Instrs {
					fa, ok := ins.(*ssa.FieldAddr)
					if !ok {
						continue
					}
					fv := fieldOfAddr(fa)
					if fv == nil || fa.Referrers() == nil {
						continue
					}
					for _, r := range *fa.Referrers() {
						switch rr := r.(type) {
						case *ssa.UnOp:
							if rr.Op == token.MUL {
								continue
							}
						case *ssa.Store:
							if rr.Addr == fa {
								continue
							}
						case *ssa.FieldAddr:
							continue
						case *ssa.IndexAddr:
							continue // indexing an array field: element stores are not field stores we number
						case *ssa.DebugRef:
							continue
						case *ssa.Slice:
							continue // slicing an array field
						case *ssa.Call:
							// method call on the field's address (e.g. w.buf.Len()): the callee's
							// stores are covered by the mod analysis
							if rr.Call.Value == fa || (len(rr.Call.Args) > 0 && rr.Call.Args[0] == fa) {
								continue
							}
						}
						m.escaping[fv] = true
					}
				}
			}
		}
	}
	return m.escaping[f]
}

// ---- conditions ----

func isNilConst(v ssa.Value) bool {
	c, ok := v.(*ssa.Const)
	return ok && c.Value == nil && !isBasic(c.Type())
}

func isBasic(t types.Type) bool {
	_, ok := t.Underlying().(*types.Basic)
	return ok
}

func constInt(v ssa.Value) (int64, bool) {
	c, ok := v.(*ssa.Const)
	if !ok {
		// a field of the one entry of a frozen package-level table: `ft, ok := table[id]; ... ft.len`
		if fv, isF := v.(*ssa.Field); isF {
			if e, okE := singleEntryOf(fv.X); okE && e.k == kStruct {
				if k, isInt := e.flds[fv.Field].Int(); isInt {
					return k, true
				}
			}
		}
		// the same through the local the entry was spilled into
		if ld, isLd := v.(*ssa.UnOp); isLd && ld.Op == token.MUL {
			if fa, isFA := ld.X.(*ssa.FieldAddr); isFA {
				if al, isAl := fa.X.(*ssa.Alloc); isAl && al.Referrers() != nil {
					var src ssa.Value
					n := 0
					for _, ref := range *al.Referrers() {
						if st, isSt := ref.(*ssa.Store); isSt && st.Addr == ssa.Value(al) {
							src = st.Val
							n++
						}
					}
					if n == 1 {
						if e, okE := singleEntryOf(src); okE && e.k == kStruct {
							if k, isInt := e.flds[fa.Field].Int(); isInt {
								return k, true
							}
						}
					}
				}
			}
		}
		return 0, false
	}
	if c.Value == nil || c.Value.Kind() != constant.Int {
		return 0, false
	}
	if i, ok := constant.Int64Val(c.Value); ok {
		return i, true
	}
	// large unsigned constants
	if u, ok := constant.Uint64Val(c.Value); ok {
		return int64(u), u <= 1<<63-1
	}
	return 0, false
}

func constBool(v ssa.Value) (bool, bool) {
	c, ok := v.(*ssa.Const)
	if !ok || c.Value == nil || c.Value.Kind() != constant.Bool {
		return false, false
	}
	return constant.BoolVal(c.Value), true
}

func negateOp(op token.Token) token.Token {
	switch op {
	case token.EQL:
		return token.NEQ
	case token.NEQ:
		return token.EQL
	case token.LSS:
		return token.GEQ
	case token.GEQ:
		return token.LSS
	case token.GTR:
		return token.LEQ
	case token.LEQ:
		return token.GTR
	}
	return op
}

func flipOp(op token.Token) token.Token {
	switch op {
	case token.LSS:
		return token.GTR
	case token.GTR:
		return token.LSS
	case token.LEQ:
		return token.GEQ
	case token.GEQ:
		return token.LEQ
	}
	return op
}

func isCmp(op token.Token) bool {
	switch op {
	case token.EQL, token.NEQ, token.LSS, token.LEQ, token.GTR, token.GEQ:
		return true
	}
	return false
}

// errorsIsCall recognises errors.Is(v, G).
func errorsIsCall(v ssa.Value) (x, y ssa.Value, ok bool) {
	call, isCall := v.(*ssa.Call)
	if !isCall {
		return nil, nil, false
	}
	fn := call.Call.StaticCallee()
	if fn == nil || fn.Pkg == nil || fn.Pkg.Pkg.Path() != "errors" || fn.Name() != "Is" || len(call.Call.Args) != 2 {
		return nil, nil, false
	}
	return call.Call.Args[0], call.Call.Args[1], true
}

// applyCond records that cond evaluated to val; false means the path is infeasible.
func (w *Walker) applyCond(p *PState, cond ssa.Value, val bool) bool {
	cond = p.Resolve(cond)
	if b, ok := constBool(cond); ok {
		return b == val
	}
	switch x := cond.(type) {
	case *ssa.UnOp:
		if x.Op == token.NOT {
			return w.applyCond(p, x.X, !val)
		}
	case *ssa.Call:
		if a, b, ok := errorsIsCall(x); ok {
			return w.applyCmp(p, a, token.EQL, b, val)
		}
	case *ssa.BinOp:
		if isCmp(x.Op) {
			if !w.applyCmp(p, x.X, x.Op, x.Y, val) {
				return false
			}
		}
	}
	// remember the truth value of the condition itself
	f := p.facts[cond]
	want := int8(1)
	if !val {
		want = 2
	}
	if f.boolK != 0 && f.boolK != want {
		return false
	}
	f.boolK = want
	p.facts[cond] = f
	return true
}

func (w *Walker) applyCmp(p *PState, xv ssa.Value, op token.Token, yv ssa.Value, val bool) bool {
	if !val {
		op = negateOp(op)
	}
	x, y := p.Resolve(xv), p.Resolve(yv)
	// put the "subject" left, the constant/sentinel right
	if isNilConst(x) || isGlobalVal(x) && !isGlobalVal(y) && !isNilConst(y) {
		x, y = y, x
		op = flipOp(op)
	} else if _, ok := x.(*ssa.Const); ok {
		if _, ok2 := y.(*ssa.Const); !ok2 {
			x, y = y, x
			op = flipOp(op)
		}
	}
	switch {
	case isNilConst(y):
		if isNilConst(x) {
			return op != token.NEQ
		}
		f := p.facts[x]
		switch op {
		case token.EQL:
			if f.nilK == 2 || f.eq != nil || p.NonNil(x) {
				return false
			}
			f.nilK = 1
		case token.NEQ:
			if f.nilK == 1 {
				return false
			}
			f.nilK = 2
		default:
			return true
		}
		if isGlobalVal(x) && f.nilK == 1 {
			return false // sentinels are non-nil
		}
		if _, ok := x.(*ssa.MakeInterface); ok && f.nilK == 1 {
			return false
		}
		p.facts[x] = f
		return true
	case isGlobalVal(y):
		g := y.(*ssa.Global)
		if gx, ok := x.(*ssa.Global); ok {
			same := gx == g
			return (op == token.EQL) == same || (op != token.EQL && op != token.NEQ)
		}
		f := p.facts[x]
		switch op {
		case token.EQL:
			if f.nilK == 1 {
				return false
			}
			if f.eq != nil && f.eq != g {
				return false
			}
			for _, n := range f.ne {
				if n == g {
					return false
				}
			}
			f.eq = g
			f.nilK = 2
		case token.NEQ:
			if f.eq == g {
				return false
			}
			f.ne = append(append([]*ssa.Global(nil), f.ne...), g)
		}
		p.facts[x] = f
		return true
	}
	if k, ok := constInt(y); ok && isIntegerType(x.Type()) {
		if kx, ok := constInt(x); ok {
			return cmpInt(kx, op, k)
		}
		f := p.facts[x]
		if nonNegativeValue(x) && (!f.hasLo || f.lo < 0) {
			f.hasLo, f.lo = true, 0 // lengths and unsigned values: x != 0 is x >= 1
		}
		if !narrow(&f, op, k) {
			return false
		}
		p.facts[x] = f
		return true
	}
	if b, ok := constBool(y); ok {
		if op == token.EQL || op == token.NEQ {
			return w.applyCond(p, x, (op == token.EQL) == b)
		}
		return true
	}
	// relation between two symbolic values
	if isIntegerType(x.Type()) || op == token.EQL || op == token.NEQ {
		for _, r := range p.rels {
			if contradicts(r, Rel{x, op, y}) {
				return false
			}
		}
		p.rels = append(p.rels, Rel{x, op, y})
	}
	return true
}

func isGlobalVal(v ssa.Value) bool {
	_, ok := v.(*ssa.Global)
	return ok
}

func isIntegerType(t types.Type) bool {
	b, ok := t.Underlying().(*types.Basic)
	return ok && b.Info()&types.IsInteger != 0
}

func cmpInt(a int64, op token.Token, b int64) bool {
	switch op {
	case token.EQL:
		return a == b
	case token.NEQ:
		return a != b
	case token.LSS:
		return a < b
	case token.LEQ:
		return a <= b
	case token.GTR:
		return a > b
	case token.GEQ:
		return a >= b
	}
	return true
}

func narrow(f *Fact, op token.Token, k int64) bool {
	setLo := func(v int64) {
		if !f.hasLo || v > f.lo {
			f.hasLo, f.lo = true, v
		}
	}
	setHi := func(v int64) {
		if !f.hasHi || v < f.hi {
			f.hasHi, f.hi = true, v
		}
	}
	switch op {
	case token.EQL:
		setLo(k)
		setHi(k)
	case token.NEQ:
		f.neInts = append(append([]int64(nil), f.neInts...), k)
		if f.hasLo && f.lo == k && k < 1<<62 {
			f.lo = k + 1
		}
		if f.hasHi && f.hi == k && k > -1<<62 {
			f.hi = k - 1
		}
	case token.LSS:
		if k == -1<<63 {
			return false
		}
		setHi(k - 1)
	case token.LEQ:
		setHi(k)
	case token.GTR:
		if k == 1<<63-1 {
			return false
		}
		setLo(k + 1)
	case token.GEQ:
		setLo(k)
	}
	if f.hasLo && f.hasHi {
		if f.lo > f.hi {
			return false
		}
		if f.lo == f.hi {
			for _, n := range f.neInts {
				if n == f.lo {
					return false
				}
			}
		}
	}
	return true
}

func contradicts(a, b Rel) bool {
	same := a.X == b.X && a.Y == b.Y
	swapped := a.X == b.Y && a.Y == b.X
	if !same && !swapped {
		return false
	}
	bo := b.Op
	if swapped {
		bo = flipOp(bo)
	}
	// a.Op and bo over the same ordered pair
	sets := map[token.Token]int{token.LSS: 1, token.EQL: 2, token.GTR: 4, token.LEQ: 3, token.GEQ: 6, token.NEQ: 5}
	return sets[a.Op]&sets[bo] == 0
}

// ---- queries on a path state ----

func (p *PState) IsNil(v ssa.Value) bool {
	v = p.Resolve(v)
	if isNilConst(v) {
		return true
	}
	return p.facts[v].nilK == 1
}

// NonNil: the value is provably a non-nil error/pointer on this path.
func (p *PState) NonNil(v ssa.Value) bool {
	v = p.Resolve(v)
	if isGlobalVal(v) {
		return true // error sentinel (package-level variables holding errors are never nil: checked by GL)
	}
	f := p.facts[v]
	if f.nilK == 2 || f.eq != nil {
		return true
	}
	switch x := v.(type) {
	case *ssa.MakeInterface:
		return true
	case *ssa.Alloc:
		return true
	case *ssa.Call:
		if fn := x.Call.StaticCallee(); fn != nil && fn.Pkg != nil {
			pp := fn.Pkg.Pkg.Path()
			if (pp == "errors" && fn.Name() == "New") || (pp == "fmt" && fn.Name() == "Errorf") {
				return true
			}
		}
	}
	return false
}

// EqGlobal returns the sentinel the value is known to equal (or is a load of).
func (p *PState) EqGlobal(v ssa.Value) *ssa.Global {
	v = p.Resolve(v)
	if g, ok := v.(*ssa.Global); ok {
		return g
	}
	return p.facts[v].eq
}

func (p *PState) NeGlobal(v ssa.Value, g *ssa.Global) bool {
	v = p.Resolve(v)
	if gx, ok := v.(*ssa.Global); ok {
		return gx != g
	}
	f := p.facts[v]
	if f.eq != nil && f.eq != g {
		return true
	}
	for _, n := range f.ne {
		if n == g {
			return true
		}
	}
	return false
}

// Visited: the path went through block b.
func (p *PState) Visited(b *ssa.BasicBlock) bool { return p.visits[b] > 0 }

func (p *PState) BoolOf(v ssa.Value) (val, known bool) {
	v = p.Resolve(v)
	if b, ok := constBool(v); ok {
		return b, true
	}
	f := p.facts[v]
	if f.boolK == 0 {
		if u, ok := v.(*ssa.UnOp); ok && u.Op == token.NOT {
			b, k := p.BoolOf(u.X)
			return !b, k
		}
		return false, false
	}
	return f.boolK == 1, true
}

// TraceStrings renders the block trace of the path as file:line list.
func (w *Walker) TraceStrings(p *PState) []string {
	var out []string
	last := ""
	for _, b := range p.trace {
		pos := "-"
		for _, ins := range b.Instrs {
			if ins.Pos().IsValid() {
				pos = w.C.Pos(ins.Pos())
				break
			}
		}
		s := fmt.Sprintf("block %d (%s) %s", b.Index, b.Comment, pos)
		if s != last {
			out = append(out, s)
		}
		last = s
	}
	return out
}

func isErrType(t types.Type) bool {
	return types.Identical(t, types.Universe.Lookup("error").Type())
}

func isEOF(g *ssa.Global) bool {
	return g != nil && g.Pkg != nil && g.Pkg.Pkg.Path() == "io" && g.Name() == "EOF"
}

func sortedKeys(m map[string]bool) []string {
	var r []string
	for k := range m {
		r = append(r, k)
	}
	sort.Strings(r)
	return r
}

func onStack(p *PState, fn *ssa.Function) bool {
	for _, fr := range p.stack {
		if fr.call.Call.StaticCallee() == fn {
			return true
		}
	}
	return false
}

// tinyPure: a one-block module function without calls, stores or allocation that returns a
// boolean built from comparisons (EOS(): r.cstate == stop). The walker steps through it so
// that `if r.EOS()` and `if r.cstate == stop` are the same test. (Getters returning a field
// are handled by stripConv; they stay visible as calls.)
func (c *Ctx) tinyPure(fn *ssa.Function) bool {
	if fn == nil || len(fn.Blocks) != 1 || !c.InModule(fn) || fn.Signature.Results().Len() != 1 || !isBoolType(fn.Signature.Results().At(0).Type()) {
		return false
	}
	for _, ins := range fn.Blocks[0].Instrs {
		switch x := ins.(type) {
		case *ssa.FieldAddr, *ssa.UnOp, *ssa.BinOp, *ssa.Convert, *ssa.Return, *ssa.DebugRef:
			_ = x
		default:
			return false
		}
	}
	return true
}

// fieldOfValue: field fld of the struct value v, when v is (a row of) a local composite literal
// whose parts were each stored exactly once.
func fieldOfValue(p *PState, v ssa.Value, fld int, depth int) (ssa.Value, bool) {
	if depth > 4 {
		return nil, false
	}
	switch x := v.(type) {
	case *ssa.UnOp:
		if x.Op != token.MUL {
			return nil, false
		}
		a, ok := x.X.(*ssa.Alloc)
		if !ok || a.Referrers() == nil {
			return nil, false
		}
		var found ssa.Value
		for _, ref := range *a.Referrers() {
			switch y := ref.(type) {
			case *ssa.FieldAddr:
				if y.Referrers() == nil {
					continue
				}
				for _, r2 := range *y.Referrers() {
					if st, isSt := r2.(*ssa.Store); isSt {
						if y.Field == fld {
							if found != nil {
								return nil, false
							}
							found = st.Val
						}
					}
				}
			case *ssa.Store:
				if y.Addr == ssa.Value(a) {
					return nil, false
				}
			}
		}
		if found == nil {
			return nil, false
		}
		return p.Resolve(found), true
	case *ssa.Index:
		k, ok := foldInt(p, x.Index, 0)
		if !ok {
			return nil, false
		}
		ld, ok := x.X.(*ssa.UnOp)
		if !ok || ld.Op != token.MUL {
			return nil, false
		}
		arr, ok := ld.X.(*ssa.Alloc)
		if !ok || arr.Referrers() == nil {
			return nil, false
		}
		var row, cell ssa.Value
		for _, ref := range *arr.Referrers() {
			ia, isIA := ref.(*ssa.IndexAddr)
			if !isIA || ia.Referrers() == nil {
				continue
			}
			kk, isK := constInt(ia.Index)
			for _, r2 := range *ia.Referrers() {
				if st, isSt := r2.(*ssa.Store); isSt && st.Addr == ssa.Value(ia) {
					if !isK {
						return nil, false
					}
					if kk == k {
						if row != nil {
							return nil, false
						}
						row = st.Val
					}
				}
				// the row filled field by field: &arr[k].f = v
				if fa, isFA := r2.(*ssa.FieldAddr); isFA && fa.Referrers() != nil {
					for _, r3 := range *fa.Referrers() {
						if st, isSt := r3.(*ssa.Store); isSt && st.Addr == ssa.Value(fa) {
							if !isK {
								return nil, false
							}
							if kk == k && fa.Field == fld {
								if cell != nil {
									return nil, false
								}
								cell = st.Val
							}
						}
					}
				}
			}
		}
		if cell != nil && row == nil {
			return p.Resolve(cell), true
		}
		if row == nil {
			return nil, false
		}
		return fieldOfValue(p, row, fld, depth+1)
	}
	return nil, false
}

// nonNegativeValue: a length, a capacity or a value of an unsigned type.
func nonNegativeValue(v ssa.Value) bool {
	if call, ok := v.(*ssa.Call); ok {
		if bi, isB := call.Call.Value.(*ssa.Builtin); isB && (bi.Name() == "len" || bi.Name() == "cap") {
			return true
		}
	}
	if bt, ok := v.Type().Underlying().(*types.Basic); ok && bt.Info()&types.IsUnsigned != 0 {
		return true
	}
	return false
}

package main

// GL engine (DESIGN §3.6): package-level state, lockset for the logger, and sources of
// nondeterminism / sharing in the reader and writer cones (C14).

import (
	"fmt"
	"go/token"
	"go/types"
	"sort"
	"strings"

	"golang.org/x/tools/go/ssa"
)

var glPkgs = []string{"", "lzma", "internal/hash", "internal/xlog"}

// immutableType: values of this type cannot be used to mutate shared state.
func immutableType(t types.Type) bool {
	switch u := t.Underlying().(type) {
	case *types.Basic:
		return true
	case *types.Signature:
		return true
	case *types.Interface:
		return isErrType(t)
	case *types.Struct:
		for i := 0; i < u.NumFields(); i++ {
			if !immutableType(u.Field(i).Type()) {
				return false
			}
		}
		return true
	case *types.Array:
		return immutableType(u.Elem())
	}
	return false
}

// readOnlyStdParam: stdlib functions that only read the given reference argument.
func readOnlyStdCall(name string, argIdx int) bool {
	switch name {
	case "bytes.Equal", "bytes.Compare", "bytes.HasPrefix", "bytes.HasSuffix":
		return true
	case "hash/crc64.New", "hash/crc64.Update", "hash/crc64.Checksum", "hash/crc32.New", "hash/crc32.Update", "hash/crc32.Checksum":
		return true // the table argument is only read by the digest
	}
	return false
}

type glAnalysis struct {
	c        *Ctx
	roMemo   map[*ssa.Parameter]int // 0 unknown, 1 in progress, 2 read-only, 3 not
	problems []string
}

// readOnly: all uses of a reference-typed value only read the referenced object.
func (g *glAnalysis) readOnly(v ssa.Value, why *string, depth int) bool {
	if depth > 12 {
		*why = "use chain too deep"
		return false
	}
	if v.Referrers() == nil {
		return true
	}
	for _, ref := range *v.Referrers() {
		switch x := ref.(type) {
		case *ssa.DebugRef:
		case *ssa.IndexAddr:
			if x.X != v {
				continue // used as index
			}
			if x.Referrers() != nil {
				for _, r2 := range *x.Referrers() {
					switch y := r2.(type) {
					case *ssa.UnOp:
						if y.Op != token.MUL {
							*why = "element address used at " + g.c.InstrPos(y)
							return false
						}
						if !immutableType(y.Type()) && !g.readOnly(y, why, depth+1) {
							return false
						}
					case *ssa.DebugRef:
					default:
						*why = "element is written or its address escapes at " + g.c.InstrPos(r2)
						return false
					}
				}
			}
		case *ssa.Index, *ssa.Lookup:
			val := ref.(ssa.Value)
			if _, isTuple := val.Type().(*types.Tuple); isTuple {
				// comma-ok lookup: look at the extracted components
				for _, r2 := range *val.Referrers() {
					if ex, ok := r2.(*ssa.Extract); ok && !immutableType(ex.Type()) && !g.readOnly(ex, why, depth+1) {
						return false
					}
				}
				continue
			}
			if !immutableType(val.Type()) && !g.readOnly(val, why, depth+1) {
				return false
			}
		case *ssa.Extract:
		case *ssa.Range, *ssa.Next:
		case *ssa.Slice:
			if !g.readOnly(x, why, depth+1) {
				return false
			}
		case *ssa.ChangeType, *ssa.Convert, *ssa.ChangeInterface, *ssa.Phi:
			if !g.readOnly(ref.(ssa.Value), why, depth+1) {
				return false
			}
		case *ssa.MakeInterface:
			if !immutableType(x.X.Type()) && !g.readOnly(x, why, depth+1) {
				return false
			}
		case *ssa.BinOp:
			if !isCmp(x.Op) {
				*why = "used in arithmetic at " + g.c.InstrPos(x)
				return false
			}
		case *ssa.UnOp:
			if x.Op == token.MUL {
				// pointer deref load
				if !immutableType(x.Type()) && !g.readOnly(x, why, depth+1) {
					return false
				}
			}
		case *ssa.FieldAddr:
			// field of a pointed-to struct: loads only
			if x.Referrers() != nil {
				for _, r2 := range *x.Referrers() {
					if u, ok := r2.(*ssa.UnOp); ok && u.Op == token.MUL {
						if !immutableType(u.Type()) && !g.readOnly(u, why, depth+1) {
							return false
						}
						continue
					}
					if _, ok := r2.(*ssa.DebugRef); ok {
						continue
					}
					*why = "field of the shared object is written or its address escapes at " + g.c.InstrPos(r2)
					return false
				}
			}
		case *ssa.Call:
			if x.Call.Value == v {
				if x.Call.IsInvoke() && !isErrType(v.Type()) {
					// a method of the shared object is invoked through an interface: it may change it
					*why = "method " + x.Call.Method.Name() + " invoked on the shared object at " + g.c.InstrPos(x)
					return false
				}
				continue // calling the function value
			}
			if b, ok := x.Call.Value.(*ssa.Builtin); ok {
				switch b.Name() {
				case "len", "cap":
					continue
				case "copy":
					if x.Call.Args[0] == v {
						*why = "destination of copy at " + g.c.InstrPos(x)
						return false
					}
					continue
				case "append":
					if x.Call.Args[0] == v {
						*why = "first argument of append at " + g.c.InstrPos(x)
						return false
					}
					continue
				}
				*why = "builtin " + b.Name() + " at " + g.c.InstrPos(x)
				return false
			}
			idx := -1
			for i, a := range x.Call.Args {
				if a == v {
					idx = i
				}
			}
			if callee := x.Call.StaticCallee(); callee != nil && idx >= 0 {
				if g.c.InModule(callee) && callee.Blocks != nil && idx < len(callee.Params) {
					if !g.paramReadOnly(callee.Params[idx], why, depth+1) {
						return false
					}
					continue
				}
				if readOnlyStdCall(stdCalleeName(x), idx) {
					continue
				}
				if callee.Pkg != nil && (callee.Pkg.Pkg.Path() == "fmt" || callee.Pkg.Pkg.Path() == "errors") {
					continue
				}
			}
			*why = "passed to " + stdCalleeName(x) + " at " + g.c.InstrPos(x)
			return false
		case *ssa.Store:
			if x.Val == v {
				if _, isAlloc := x.Addr.(*ssa.Alloc); isAlloc {
					// stored in a local: follow loads of the local
					al := x.Addr.(*ssa.Alloc)
					// loads of the local and of its fields / elements see the shared object
					var follow func(addr ssa.Value, d int) bool
					follow = func(addr ssa.Value, d int) bool {
						if d > 6 || addr.Referrers() == nil {
							return true
						}
						for _, r2 := range *addr.Referrers() {
							switch y := r2.(type) {
							case *ssa.UnOp:
								if y.Op == token.MUL && !immutableType(y.Type()) && !g.readOnly(y, why, depth+1) {
									return false
								}
							case *ssa.FieldAddr:
								if !follow(y, d+1) {
									return false
								}
							case *ssa.IndexAddr:
								if y.X == addr && !follow(y, d+1) {
									return false
								}
							}
						}
						return true
					}
					if !follow(al, 0) {
						return false
					}
					continue
				}
				*why = "shared object stored into instance state at " + g.c.InstrPos(x)
				return false
			}
			*why = "written through at " + g.c.InstrPos(x)
			return false
		case *ssa.Return:
			*why = "shared object returned at " + g.c.InstrPos(x)
			return false
		case *ssa.MapUpdate:
			*why = "map updated at " + g.c.InstrPos(x)
			return false
		default:
			*why = fmt.Sprintf("used by %T at %s", ref, g.c.InstrPos(ref))
			return false
		}
	}
	return true
}

func (g *glAnalysis) paramReadOnly(p *ssa.Parameter, why *string, depth int) bool {
	switch g.roMemo[p] {
	case 1, 2:
		return true
	case 3:
		*why = "parameter " + p.Name() + " of " + FnName(p.Parent()) + " is not read-only"
		return false
	}
	g.roMemo[p] = 1
	ok := g.readOnly(p, why, depth)
	if ok {
		g.roMemo[p] = 2
	} else {
		g.roMemo[p] = 3
	}
	return ok
}

func isInitFunc(fn *ssa.Function) bool {
	// the package initialiser and init#k functions - not a method that happens to be called init
	// (lengthCodec.init, literalCodec.init, ...)
	if fn.Signature.Recv() != nil || fn.Parent() != nil {
		return false
	}
	return fn.Name() == "init" || strings.HasPrefix(fn.Name(), "init#")
}

// ruleGlobals: every package-level variable of the library packages is read-only after
// initialisation (xlog.std is handled by the lockset rule).
func ruleGlobals(c *Ctx, r *Report, prefix string) {
	rule := prefix + "GL-GLOBAL"
	g := &glAnalysis{c: c, roMemo: map[*ssa.Parameter]int{}}
	type use struct {
		fn  *ssa.Function
		ins ssa.Instruction
	}
	uses := map[*ssa.Global][]use{}
	var globals []*ssa.Global
	for _, pk := range glPkgs {
		sp := c.Pkg(pk)
		if sp == nil {
			continue
		}
		for _, m := range sp.Members {
			if gv, ok := m.(*ssa.Global); ok && gv.Name() != "init$guard" {
				globals = append(globals, gv)
			}
		}
	}
	sort.Slice(globals, func(i, j int) bool { return globals[i].String() < globals[j].String() })
	isTracked := map[*ssa.Global]bool{}
	for _, gv := range globals {
		isTracked[gv] = true
	}
	var ops []*ssa.Value
	for fn := range c.All {
		if fn.Blocks == nil {
			continue
		}
		for _, b := range theCtx.GB(fn) {
			for _, ins := range b.Instrs {
				ops = ins.Operands(ops[:0])
				for _, o := range ops {
					if gv, ok := (*o).(*ssa.Global); ok && isTracked[gv] {
						uses[gv] = append(uses[gv], use{fn, ins})
					}
				}
			}
		}
	}
	stdG := c.Global("internal/xlog", "std")
	for _, gv := range globals {
		key := strings.TrimPrefix(gv.String(), modPath)
		key = strings.TrimPrefix(key, "/")
		if key == "" {
			key = gv.Name()
		}
		elem := gv.Type().(*types.Pointer).Elem()
		var problem string
		n := 0
		for _, u := range uses[gv] {
			if isInitFunc(u.fn) && pkgPathOf(u.fn) == gv.Pkg.Pkg.Path() {
				continue
			}
			n++
			switch x := u.ins.(type) {
			case *ssa.UnOp:
				if x.Op == token.MUL && x.X == gv {
					if gv == stdG {
						continue // methods on the logger: lockset rule
					}
					if !immutableType(elem) {
						var why string
						if !g.readOnly(x, &why, 0) {
							problem = fmt.Sprintf("loaded in %s and %s", FnName(u.fn), why)
						}
					}
					continue
				}
				problem = fmt.Sprintf("unexpected use in %s at %s", FnName(u.fn), c.InstrPos(u.ins))
			case *ssa.Store:
				if x.Addr == gv {
					problem = fmt.Sprintf("assigned outside package initialisation in %s at %s", FnName(u.fn), c.InstrPos(u.ins))
				} else {
					problem = fmt.Sprintf("address stored in %s at %s", FnName(u.fn), c.InstrPos(u.ins))
				}
			case *ssa.FieldAddr, *ssa.IndexAddr:
				// element/field of a struct or array global: loads only
				val := u.ins.(ssa.Value)
				if val.Referrers() != nil {
					for _, r2 := range *val.Referrers() {
						switch y := r2.(type) {
						case *ssa.UnOp:
							if y.Op == token.MUL && !immutableType(y.Type()) {
								var why string
								if !g.readOnly(y, &why, 0) {
									problem = fmt.Sprintf("element loaded in %s and %s", FnName(u.fn), why)
								}
							}
						case *ssa.DebugRef:
						default:
							problem = fmt.Sprintf("element written or its address escapes in %s at %s", FnName(u.fn), c.InstrPos(r2))
						}
					}
				}
			case *ssa.DebugRef:
			default:
				problem = fmt.Sprintf("address of the variable escapes (%T) in %s at %s", u.ins, FnName(u.fn), c.InstrPos(u.ins))
			}
			if problem != "" {
				break
			}
		}
		if problem != "" && c.frozenGlobal(gv) {
			// every use is a load, or an element/field address (through any number of steps) that is
			// only loaded from: a table
			problem = ""
		}
		if problem != "" {
			r.Fail(rule, key, c.Pos(gv.Pos()), fmt.Sprintf("package-level variable %s is mutable shared state: %s. Two independent reader/writer instances would share it (data race / cross-talk / nondeterminism)", gv.Name(), problem))
		} else {
			r.Pass(rule, key, c.Pos(gv.Pos()), "never assigned after initialisation; its contents are only read", n+1)
		}
	}
	r.Floor(rule, 25)
}

// ruleLoggerLockset: every access to Logger.{prefix,flag,out,buf} happens with Logger.mu held.
func ruleLoggerLockset(c *Ctx, r *Report, prefix string) {
	rule := prefix + "GL-LOCKSET"
	logT := c.Type("internal/xlog", "Logger")
	if logT == nil {
		return
	}
	st := logT.Underlying().(*types.Struct)
	var muF *types.Var
	guarded := map[*types.Var]bool{}
	for i := 0; i < st.NumFields(); i++ {
		f := st.Field(i)
		if refNameOf(f) == "mu" {
			muF = f
		} else {
			guarded[f] = true
		}
	}
	if muF == nil {
		c.miss("field internal/xlog.Logger.mu")
		return
	}
	fns := c.ModFuncs("internal/xlog")
	// entryLocked: functions all of whose in-module callers call them with the lock held
	type site struct {
		fn   *ssa.Function
		held bool
	}
	accessHeld := map[*ssa.Function][]bool{} // per access: lock held locally?
	callsHeld := map[*ssa.Function][]site{}  // callee -> call sites with held flag
	isNew := func(fn *ssa.Function) bool { return fn.Name() == "New" }
	for _, fn := range fns {
		if isNew(fn) || fn.Blocks == nil {
			continue
		}
		w := &Walker{C: c, Fn: fn}
		type lk struct{ held bool }
		w.Sig = func(p *PState) string { return fmt.Sprint(p.U.(*lockState).held) }
		w.Instr = func(p *PState, ins ssa.Instruction) bool {
			ls := p.U.(*lockState)
			switch x := ins.(type) {
			case *ssa.Call:
				name := stdCalleeName(x)
				if name == "(*sync.Mutex).Lock" {
					ls.held = true
				} else if name == "(*sync.Mutex).Unlock" {
					ls.held = false
				} else if callee := x.Call.StaticCallee(); callee != nil && pkgPathOf(callee) == full("internal/xlog") {
					callsHeld[callee] = append(callsHeld[callee], site{fn, ls.held})
				}
			case *ssa.FieldAddr:
				if f := fieldOfAddr(x); f != nil && guarded[f] {
					if pt, ok := x.X.Type().(*types.Pointer); ok && types.Identical(pt.Elem(), logT) {
						accessHeld[fn] = append(accessHeld[fn], ls.held)
					}
				}
			}
			return true
		}
		w.Run(&lockState{})
	}
	// fixpoint: a function is "entered locked" if every call site holds the lock (locally or by being entered locked itself)
	enteredLocked := map[*ssa.Function]bool{}
	for iter := 0; iter < 5; iter++ {
		for _, fn := range fns {
			sites := callsHeld[fn]
			if len(sites) == 0 || fn.Object() != nil && fn.Object().Exported() {
				continue
			}
			all := true
			for _, s := range sites {
				if !s.held && !enteredLocked[s.fn] {
					all = false
				}
			}
			enteredLocked[fn] = all
		}
	}
	n := 0
	for _, fn := range fns {
		acc := accessHeld[fn]
		if len(acc) == 0 {
			continue
		}
		ok := true
		for _, h := range acc {
			if !h && !enteredLocked[fn] {
				ok = false
			}
		}
		n++
		r.Check(ok, rule, FnName(fn), c.Pos(fn.Pos()), fmt.Sprintf("%d accesses to Logger state, all with Logger.mu held (locally or in every caller)", len(acc)),
			FnName(fn)+" accesses Logger.{prefix,flag,out,buf} without holding Logger.mu: the package-level logger is shared by all readers and writers")
	}
	r.Floor(rule, 5)
}

type lockState struct{ held bool }

func (l *lockState) Clone() UserState { return &lockState{l.held} }

// ruleNondeterminism: the reader and writer cones contain no source of nondeterminism or
// cross-instance sharing.
func ruleNondeterminism(c *Ctx, r *Report, prefix string) {
	rule := prefix + "GL-NONDET"
	cone := moduleOnly(c, unionCones(readerCone(c), writerCone(c)))
	banned := func(name string) string {
		for _, p := range []string{"time.", "math/rand.", "math/rand/v2.", "crypto/rand.", "os.Getpid", "os.Getenv", "os.Hostname", "runtime.", "(*sync.Pool).", "unsafe.", "(*sync.Map)."} {
			if strings.HasPrefix(name, p) {
				return p
			}
		}
		return ""
	}
	bad := 0
	for _, fn := range sortedFuncs(cone) {
		if pkgPathOf(fn) == full("internal/xlog") {
			continue // logging is guarded by its mutex and silent for debug output by default
		}
		for _, b := range theCtx.GB(fn) {
			for _, ins := range b.Instrs {
				var what string
				switch x := ins.(type) {
				case *ssa.Go:
					what = "starts a goroutine"
				case *ssa.Select:
					what = "select statement"
				case *ssa.Send:
					what = "channel send"
				case *ssa.MakeChan:
					what = "creates a channel"
				case *ssa.Range:
					if _, isMap := x.X.Type().Underlying().(*types.Map); isMap {
						what = "iterates over a map (random order)"
					}
				case *ssa.UnOp:
					if x.Op == token.ARROW {
						what = "channel receive"
					}
				case *ssa.Call:
					if p := banned(stdCalleeName(x)); p != "" {
						what = "calls " + stdCalleeName(x)
					}
				}
				if what != "" {
					bad++
					r.Fail(rule, FnName(fn)+":"+strings.ReplaceAll(what, " ", "-"), c.InstrPos(ins), fmt.Sprintf("%s in %s, which is reachable from the reader/writer API: output must depend only on configuration and input, and instances must not share state", what, FnName(fn)))
				}
			}
		}
	}
	if bad == 0 {
		r.Pass(rule, "reader+writer-cones", "", fmt.Sprintf("%d functions reachable from the reader and writer APIs contain no goroutine, channel, select, map iteration, time, rand, pid/env, runtime, sync.Pool/Map or unsafe use", len(cone)), len(cone))
	}
}

package main

import (
	"fmt"
	"go/constant"
	"go/token"
	"go/types"
	"math"

	"golang.org/x/tools/go/ssa"
)

// ---- CE-MATCHLEN: buffer.matchLen stops at the physical end of the ring ----
// matchLen(dist, p) compares p with the ring starting `dist` bytes behind rear; a negative start is
// wrapped once to the end of the array, but the comparison never runs past the physical end. The
// hash-table matcher depends on exactly that: it probes data[rear-dist+n] for the best length n so
// far with a wrap for negative indices only. Evaluated on every state of small rings over {0,1}.
func ruleMatchLen(c *Ctx, r *Report, prefix string) {
	rule := prefix + "CE-MATCHLEN"
	fn := c.Func("lzma", "buffer.matchLen")
	bt := c.Type("lzma", "buffer")
	if fn == nil || bt == nil || len(fn.Params) != 3 {
		return
	}
	st, _ := bt.Underlying().(*types.Struct)
	iData, iFront, iRear := fieldIndex(bt, "data"), fieldIndex(bt, "front"), fieldIndex(bt, "rear")
	if st == nil || iData < 0 || iFront < 0 || iRear < 0 {
		return
	}
	prefixLen := func(a, b []byte) int {
		n := 0
		for n < len(a) && n < len(b) && a[n] == b[n] {
			n++
		}
		return n
	}
	ref := func(data []byte, rear, dist int, p []byte) int {
		n := 0
		i := rear - dist
		if i < 0 {
			if n = prefixLen(p, data[len(data)+i:]); n < -i {
				return n
			}
			p = p[n:]
			i = 0
		}
		return n + prefixLen(p, data[i:])
	}
	bad, cnt := "", 0
	for _, L := range []int{3, 4} {
		for dv := 0; dv < 1<<uint(L) && bad == ""; dv++ {
			data := make([]byte, L)
			for i := range data {
				data[i] = byte(dv >> uint(i) & 1)
			}
			for rear := 0; rear < L && bad == ""; rear++ {
				for dist := 1; dist < L && bad == ""; dist++ {
					for k := 1; k <= L && bad == ""; k++ {
						for pv := 0; pv < 1<<uint(k); pv++ {
							p := make([]byte, k)
							for i := range p {
								p[i] = byte(pv >> uint(i) & 1)
							}
							in := NewInterp(c)
							in.MaxSteps = 20000
							cl := in.newCellOf(bt)
							cl.field(iData).v = aBytes(in, data, st.Field(iData).Type())
							cl.field(iFront).v = aInt(int64(rear), types.Typ[types.Int])
							cl.field(iRear).v = aInt(int64(rear), types.Typ[types.Int])
							res := in.Call(fn, []aval{{k: kPtr, cell: cl}, aInt(int64(dist), types.Typ[types.Int]), aBytes(in, p, fn.Params[2].Type())})
							cnt++
							if !res.OK || len(res.Rets) != 1 {
								bad = fmt.Sprintf("cannot evaluate matchLen(data=%v rear=%d dist=%d p=%v): %s", data, rear, dist, p, in.Undecided)
								break
							}
							want := ref(data, rear, dist, p)
							if res.Panicked {
								bad = fmt.Sprintf("matchLen(data=%v rear=%d dist=%d p=%v) panics", data, rear, dist, p)
								break
							}
							if got, _ := res.Rets[0].Int(); got != int64(want) {
								bad = fmt.Sprintf("matchLen(data=%v rear=%d dist=%d p=%v) = %d, the ring compared up to its physical end gives %d: the hash-table matcher probes data[rear-dist+n] without wrapping upwards and runs out of the array (or matches are cut short)", data, rear, dist, p, got, want)
								break
							}
						}
					}
				}
			}
		}
	}
	r.Check(bad == "", rule, "buffer.matchLen", c.Pos(fn.Pos()), fmt.Sprintf("agrees with the reference (one downward wrap, stop at the physical end) on %d ring states", cnt), bad)
}

// ---- WR-LZMA-HDRDICT: the classic header announces the window the encoder really uses ----
func ruleLzmaHeaderDict(c *Ctx, r *Report, prefix string) {
	rule := prefix + "WR-LZMA-HDRDICT"
	nw := c.Func("lzma", "WriterConfig.NewWriter")
	hd := c.Func("lzma", "WriterConfig.header")
	ned := c.Func("lzma", "newEncoderDict")
	fH := c.Field("lzma", "header.dictCap")
	fC := c.Field("lzma", "WriterConfig.DictCap")
	if nw == nil || hd == nil || ned == nil || fH == nil || fC == nil {
		return
	}
	// (a) the header's dictCap is the configured DictCap itself
	okHdr, nSt, got := true, 0, ""
	for _, fn := range []*ssa.Function{hd, nw} {
		for _, b := range c.GB(fn) {
			for _, ins := range b.Instrs {
				if st, ok := storeToField(ins, fH); ok {
					nSt++
					if !isFieldLoadOf(stripConv(st.Val), fC) {
						if f, isF := stripConv(st.Val).(*ssa.Field); !isF || fieldOfField(f) != fC {
							okHdr = false
							got = st.Val.Name() + " at " + c.InstrPos(ins)
						}
					}
				}
			}
		}
	}
	r.Check(okHdr && nSt >= 1, rule, FnName(hd), c.Pos(hd.Pos()), "header.dictCap = WriterConfig.DictCap",
		"the dictionary size written into the .lzma header is "+got+", not the configured DictCap the encoder works with: a decoder that allocates the announced window cannot resolve the farthest matches")
	// (b) the encoder dictionary is created with that value
	okEnc, nCall := true, 0
	for _, b := range c.GB(nw) {
		for _, ins := range b.Instrs {
			if call, ok := callTo(ins, ned); ok && len(call.Call.Args) >= 1 {
				nCall++
				a := stripConv(call.Call.Args[0])
				if !isFieldLoadOf(a, fH) && !isFieldLoadOf(a, fC) {
					if f, isF := a.(*ssa.Field); !isF || (fieldOfField(f) != fC && fieldOfField(f) != fH) {
						okEnc = false
					}
				}
			}
		}
	}
	r.Check(okEnc && nCall >= 1, rule, FnName(nw), c.Pos(nw.Pos()), "newEncoderDict gets the header's / the configured dictionary capacity",
		"the classic writer creates its encoder dictionary with a capacity that is neither header.dictCap nor WriterConfig.DictCap")
	// (c) nothing else in the classic writer's cone changes the announced size on its way into the stream,
	// except through a function g(dictCap, size) that never announces less than a match can reach back:
	// g >= min(dictCap, size) for a known size, g == dictCap otherwise (evaluated, CE, on a grid around the
	// sizes 2^n and 3*2^(n-1) the reference encoder rounds to).
	fS := c.Field("lzma", "header.size")
	cone := c.Cone(nonNilFns(c.Func("lzma", "NewWriter"), nw, c.Func("lzma", "Writer.Write"), c.Func("lzma", "Writer.Close"))...)
	nFn, nOther, bad := 0, 0, ""
	for _, fn := range sortedFuncs(cone) {
		if fn == hd || fn == nw || fn.Blocks == nil || pkgPathOf(fn) != full("lzma") || c.IsNew(fn) {
			continue // new helpers are scanned with the known function that calls them (GB)
		}
		nFn++
		for _, b := range c.GB(fn) {
			if b.Parent() == hd || b.Parent() == nw {
				continue
			}
			for _, ins := range b.Instrs {
				st, ok := storeToField(ins, fH)
				if !ok {
					continue
				}
				nOther++
				v := stripConv(st.Val)
				if isFieldLoadOf(v, fH) || isFieldLoadOf(v, fC) {
					continue
				}
				if msg := hdrDictFuncOK(c, v, fH, fS); msg != "" && bad == "" {
					bad = "the dictionary size of the .lzma header is overwritten at " + c.InstrPos(ins) + ": " + msg
				}
			}
		}
	}
	r.Check(bad == "" && nFn >= 5, rule, "writer-cone:header.dictCap", c.Pos(nw.Pos()),
		fmt.Sprintf("%d functions of the classic writer's cone scanned, %d further stores to header.dictCap, none announces less than the encoder's matches can reach", nFn, nOther), bad)
}

// hdrDictFuncOK: v is a call g(..) of a module function whose arguments are the header's dictCap and size;
// g is evaluated on a grid. Returns "" when g never announces too little.
func hdrDictFuncOK(c *Ctx, v ssa.Value, fH, fS *types.Var) string {
	call, ok := v.(*ssa.Call)
	if !ok {
		return "the new value is neither the configured DictCap nor a function of (dictCap, size) that can be evaluated"
	}
	g := call.Call.StaticCallee()
	if g == nil || !c.InModule(g) || g.Blocks == nil || call.Call.IsInvoke() {
		return "the new value comes from a call that cannot be evaluated"
	}
	role := make([]int, len(call.Call.Args)) // 1 dictCap, 2 size
	for i, a := range call.Call.Args {
		switch {
		case isFieldLoadOf(a, fH):
			role[i] = 1
		case fS != nil && isFieldLoadOf(a, fS):
			role[i] = 2
		default:
			return "argument " + fmt.Sprint(i) + " of " + FnName(g) + " is neither header.dictCap nor header.size"
		}
	}
	caps := []int64{4096, 6144, 8192, 65536, 1<<20 + 4096, 8 << 20}
	var sizes []int64
	sizes = append(sizes, -1, 0, 1, 100)
	for n := uint(12); n <= 23; n++ {
		p := int64(1) << n
		for _, b := range []int64{p, p + p/2} {
			sizes = append(sizes, b-1, b, b+1, b+b/8, b+b/3)
		}
	}
	n := 0
	for _, dc := range caps {
		for _, sz := range sizes {
			var args []aval
			for i, ro := range role {
				t := g.Signature.Params().At(i).Type()
				if ro == 1 {
					args = append(args, aInt(dc, t))
				} else {
					args = append(args, aInt(sz, t))
				}
			}
			res := NewInterp(c).Call(g, args)
			if !res.OK || res.Panicked || len(res.Rets) != 1 {
				return fmt.Sprintf("%s(dictCap=%d, size=%d) cannot be evaluated", FnName(g), dc, sz)
			}
			got, isInt := res.Rets[0].Int()
			if !isInt {
				return fmt.Sprintf("%s(dictCap=%d, size=%d) has no concrete value", FnName(g), dc, sz)
			}
			need := dc
			if sz >= 0 && sz < dc {
				need = sz
			}
			if got < need || (sz < 0 && got != dc) {
				return fmt.Sprintf("%s(dictCap=%d, size=%d) = %d: the encoder finds matches up to %d bytes back, a decoder that allocates the announced window cannot resolve them", FnName(g), dc, sz, got, need)
			}
			n++
		}
	}
	return ""
}

// ---- CE-DEFAULT-CTYPE: what the LZMA2 writer announces for the next compressed chunk ----
// 'S' (start): everything is reset; 'R' (after a raw chunk that reset the dictionary): new
// properties + state reset; 'L' and 'U': plain continuation. After a raw chunk the writer restores
// the encoder state to the snapshot taken at the start of that chunk (it does not reset it), so 'U'
// must announce no reset.
func ruleDefaultChunkType(c *Ctx, r *Report, t *chunkTables, prefix string) {
	rule := prefix + "CE-DEFAULT-CTYPE"
	fn := c.Func("lzma", "chunkState.defaultChunkType")
	if fn == nil || !t.ok {
		return
	}
	want := map[byte]int{'S': kLZMAAll, 'R': kLZMAProps, 'L': kLZMA, 'U': kLZMA}
	bad := ""
	for st, kind := range want {
		in := NewInterp(c)
		res := in.Call(fn, []aval{aInt(int64(st), fn.Params[0].Type())})
		if !res.OK || res.Panicked || len(res.Rets) != 1 {
			bad = fmt.Sprintf("cannot evaluate defaultChunkType(%q): %s", st, in.Undecided)
			break
		}
		got, _ := res.Rets[0].Int()
		if got != t.vals[kind] {
			bad = fmt.Sprintf("in state %q the writer announces chunk type %d for the next compressed chunk, expected %s (%d): the header would promise resets the encoder does not perform (or omit one it needs)", st, got, kindNames[kind], t.vals[kind])
			break
		}
	}
	r.Check(bad == "", rule, "defaultChunkType", c.Pos(fn.Pos()), "S: all resets, R: properties + state reset, L and U: continuation", bad)
}

// ---- OB-DICTCAP-RANGE: both dictionaries accept capacities 1 .. MaxDictCap inclusive ----
func ruleDictCapRange(c *Ctx, r *Report, prefix string) {
	rule := prefix + "OB-DICTCAP-RANGE"
	maxDC, ok := namedConstInt(c, "lzma", "MaxDictCap")
	if !ok {
		return
	}
	r.Check(maxDC == math.MaxUint32, rule, "MaxDictCap", "", "MaxDictCap = 2^32 - 1", fmt.Sprintf("MaxDictCap is %d", maxDC))
	for _, name := range []string{"newDecoderDict", "newEncoderDict"} {
		fn := c.Func("lzma", name)
		if fn == nil || fn.Name() != name {
			continue
		}
		o := newOb(c, r, rule, fn)
		dc := roleParam(fn, "dictCap")
		o.rel(name+":lower", dc, roleConst(1), token.LSS, "dictionary capacity < 1")
		o.rel(name+":upper", dc, roleConstExact(constant.MakeInt64(maxDC).ExactString()), token.GTR, "dictionary capacity > MaxDictCap (2^32-1, the size code 40 stands for, is accepted)")
	}
}

// ---- WR-BLOCKSIZE-DEFAULT: an unset BlockSize means "one block" ----
func ruleBlockSizeDefault(c *Ctx, r *Report, prefix string) {
	rule := prefix + "WR-BLOCKSIZE-DEFAULT"
	fn := c.Func("", "WriterConfig.fill")
	fBS := c.Field("", "WriterConfig.BlockSize")
	if fn == nil || fBS == nil {
		return
	}
	n, bad := 0, ""
	for _, b := range c.GB(fn) {
		for _, ins := range b.Instrs {
			if st, ok := storeToField(ins, fBS); ok {
				n++
				if k, isK := constInt(stripConv(st.Val)); !isK || k != math.MaxInt64 {
					bad = "the default block size is " + st.Val.Name() + ", not maxInt64: every xz block starts a new LZMA2 dictionary, so a default-configured stream would lose all matches across the block boundary"
				}
			}
		}
	}
	r.Check(bad == "" && n >= 1, rule, FnName(fn), c.Pos(fn.Pos()), "BlockSize == 0 is replaced by maxInt64 (a single block)", bad)
}

// ---- CE-HASHCHAIN: the hash chains of the default match finder reach every position in the window ----
// putEntry / getMatches are evaluated as a data structure, without the rolling hash: after every
// insertion of a sequence of hash values into a table with a ring of C chain links, getMatches(h) has
// to return exactly the positions in the window [hoff+1-buffered, hoff] that were inserted with the
// same table slot, most recent first (up to the length of the result slice). A chain that loses
// positions after the ring has wrapped still round-trips, but repeats inside the dictionary are no
// longer found (C17).
func ruleHashChain(c *Ctx, r *Report, prefix string) {
	rule := prefix + "CE-HASHCHAIN"
	put := c.Func("lzma", "hashTable.putEntry")
	get := c.Func("lzma", "hashTable.getMatches")
	ht := c.Type("lzma", "hashTable")
	if put == nil || get == nil || ht == nil || put.Name() != "putEntry" || get.Name() != "getMatches" {
		return
	}
	st, _ := ht.Underlying().(*types.Struct)
	iT, iData, iFront, iMask, iHoff := fieldIndex(ht, "t"), fieldIndex(ht, "data"), fieldIndex(ht, "front"), fieldIndex(ht, "mask"), fieldIndex(ht, "hoff")
	if st != nil && (iT < 0 || iData < 0 || iFront < 0 || iMask < 0 || iHoff < 0) {
		// renamed fields: identify them by their types (all plain int fields start at 0 anyway)
		iT, iData, iMask, iHoff, iFront = -1, -1, -1, -1, -1
		uniq := func(cur *int, i int) {
			if *cur == -1 {
				*cur = i
			} else {
				*cur = -2
			}
		}
		for i := 0; i < st.NumFields(); i++ {
			switch st.Field(i).Type().String() {
			case "[]int64":
				uniq(&iT, i)
			case "[]uint32":
				uniq(&iData, i)
			case "uint64":
				uniq(&iMask, i)
			case "int64":
				uniq(&iHoff, i)
			case "int":
				if iFront < 0 {
					iFront = i
				}
			}
		}
	}
	if st == nil || iT < 0 || iData < 0 || iFront < 0 || iMask < 0 || iHoff < 0 {
		r.Undecided(rule, "hashTable", c.Pos(get.Pos()), "cannot identify the table, the chain ring, the mask and the offset of hashTable")
		return
	}
	mkSlice := func(in *Interp, n int, t types.Type) aval {
		el := t.Underlying().(*types.Slice).Elem()
		arr := make([]*cell, n)
		for i := range arr {
			arr[i] = in.newCellOf(el)
			arr[i].v = aInt(0, el)
		}
		return aval{k: kSlice, arr: arr, lo: 0, hi: n, typ: t}
	}
	bad, calls := "", 0
	run := func(C int, seq []int) {
		in := NewInterp(c)
		in.MaxSteps = 1 << 30
		cl := in.newCellOf(ht)
		cl.field(iT).v = mkSlice(in, 4, st.Field(iT).Type())
		cl.field(iData).v = mkSlice(in, C, st.Field(iData).Type())
		for i := 0; i < st.NumFields(); i++ {
			if st.Field(i).Type().String() == "int" {
				cl.field(i).v = aInt(0, types.Typ[types.Int])
			}
		}
		cl.field(iMask).v = aInt(3, st.Field(iMask).Type())
		cl.field(iHoff).v = aInt(-1, types.Typ[types.Int64])
		recv := aval{k: kPtr, cell: cl}
		for pos, h := range seq {
			cl.field(iHoff).v = aInt(int64(pos), types.Typ[types.Int64])
			res := in.Call(put, []aval{recv, aInt(int64(h), put.Params[1].Type()), aInt(int64(pos), types.Typ[types.Int64])})
			calls++
			if !res.OK || res.Panicked {
				bad = fmt.Sprintf("cannot evaluate putEntry (ring %d, step %d): %s", C, pos, in.Undecided)
				return
			}
			buffered := pos + 1
			if buffered > C {
				buffered = C
			}
			for q := 0; q < 2; q++ {
				out := mkSlice(in, 4, get.Params[2].Type())
				res := in.Call(get, []aval{recv, aInt(int64(q), get.Params[1].Type()), out})
				calls++
				if !res.OK || res.Panicked || len(res.Rets) != 1 {
					bad = fmt.Sprintf("cannot evaluate getMatches (ring %d, step %d): %s", C, pos, in.Undecided)
					return
				}
				n, _ := res.Rets[0].Int()
				var got, want []int64
				for i := 0; i < int(n) && i < 4; i++ {
					v, _ := out.arr[i].v.Int()
					got = append(got, v)
				}
				for j := pos; j > pos-buffered && len(want) < 4; j-- {
					if seq[j] == q {
						want = append(want, int64(j))
					}
				}
				if fmt.Sprint(got) != fmt.Sprint(want) {
					bad = fmt.Sprintf("ring of %d links, hash values %v inserted: getMatches(%d) = %v, the positions in the window with that hash are %v: earlier occurrences inside the dictionary are not found (or positions outside it are offered)", C, seq[:pos+1], q, got, want)
					return
				}
			}
		}
	}
	for v := 0; v < 256 && bad == ""; v++ {
		seq := make([]int, 8)
		for i := range seq {
			seq[i] = v >> uint(i) & 1
		}
		run(3, seq)
	}
	x := uint32(12345)
	for k := 0; k < 48 && bad == ""; k++ {
		seq := make([]int, 11)
		for i := range seq {
			x = x*1664525 + 1013904223
			seq[i] = int(x >> 30 & 1)
		}
		run(4, seq)
	}
	r.Check(bad == "", rule, "hashTable.getMatches", c.Pos(get.Pos()), fmt.Sprintf("chains return exactly the same-hash positions of the window on %d evaluated calls (rings of 3 and 4 links, before and after the ring wraps)", calls), bad)
}

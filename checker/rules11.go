package main

import (
	"fmt"
	"go/constant"
	"go/token"
	"go/types"
	"math"

	"golang.org/x/tools/go/ssa"
)

// ---- CE-MATCHLEN: buffer.matchLen stops at the physical end of the ring ----
// matchLen(dist, p) compares p with the ring starting `dist` bytes behind rear; a negative start is
// wrapped once to the end of the array, but the comparison never runs past the physical end. The
// hash-table matcher depends on exactly that: it probes data[rear-dist+n] for the best length n so
// far with a wrap for negative indices only. Evaluated on every state of small rings over {0,1}.
func ruleMatchLen(c *Ctx, r *Report, prefix string) {
	rule := prefix + "CE-MATCHLEN"
	fn := c.Func("lzma", "buffer.matchLen")
	bt := c.Type("lzma", "buffer")
	if fn == nil || bt == nil || len(fn.Params) != 3 {
		return
	}
	st, _ := bt.Underlying().(*types.Struct)
	iData, iFront, iRear := fieldIndex(bt, "data"), fieldIndex(bt, "front"), fieldIndex(bt, "rear")
	if st == nil || iData < 0 || iFront < 0 || iRear < 0 {
		return
	}
	prefixLen := func(a, b []byte) int {
		n := 0
		for n < len(a) && n < len(b) && a[n] == b[n] {
			n++
		}
		return n
	}
	ref := func(data []byte, rear, dist int, p []byte) int {
		n := 0
		i := rear - dist
		if i < 0 {
			if n = prefixLen(p, data[len(data)+i:]); n < -i {
				return n
			}
			p = p[n:]
			i = 0
		}
		return n + prefixLen(p, data[i:])
	}
	bad, cnt := "", 0
	for _, L := range []int{3, 4} {
		for dv := 0; dv < 1<<uint(L) && bad == ""; dv++ {
			data := make([]byte, L)
			for i := range data {
				data[i] = byte(dv >> uint(i) & 1)
			}
			for rear := 0; rear < L && bad == ""; rear++ {
				for dist := 1; dist < L && bad == ""; dist++ {
					for k := 1; k <= L && bad == ""; k++ {
						for pv := 0; pv < 1<<uint(k); pv++ {
							p := make([]byte, k)
							for i := range p {
								p[i] = byte(pv >> uint(i) & 1)
							}
							in := NewInterp(c)
							in.MaxSteps = 20000
							cl := in.newCellOf(bt)
							cl.field(iData).v = aBytes(in, data, st.Field(iData).Type())
							cl.field(iFront).v = aInt(int64(rear), types.Typ[types.Int])
							cl.field(iRear).v = aInt(int64(rear), types.Typ[types.Int])
							res := in.Call(fn, []aval{{k: kPtr, cell: cl}, aInt(int64(dist), types.Typ[types.Int]), aBytes(in, p, fn.Params[2].Type())})
							cnt++
							if !res.OK || len(res.Rets) != 1 {
								bad = fmt.Sprintf("cannot evaluate matchLen(data=%v rear=%d dist=%d p=%v): %s", data, rear, dist, p, in.Undecided)
								break
							}
							want := ref(data, rear, dist, p)
							if res.Panicked {
								bad = fmt.Sprintf("matchLen(data=%v rear=%d dist=%d p=%v) panics", data, rear, dist, p)
								break
							}
							if got, _ := res.Rets[0].Int(); got != int64(want) {
								bad = fmt.Sprintf("matchLen(data=%v rear=%d dist=%d p=%v) = %d, the ring compared up to its physical end gives %d: the hash-table matcher probes data[rear-dist+n] without wrapping upwards and runs out of the array (or matches are cut short)", data, rear, dist, p, got, want)
								break
							}
						}
					}
				}
			}
		}
	}
	r.Check(bad == "", rule, "buffer.matchLen", c.Pos(fn.Pos()), fmt.Sprintf("agrees with the reference (one downward wrap, stop at the physical end) on %d ring states", cnt), bad)
}

// ---- WR-LZMA-HDRDICT: the classic header announces the window the encoder really uses ----
func ruleLzmaHeaderDict(c *Ctx, r *Report, prefix string) {
	rule := prefix + "WR-LZMA-HDRDICT"
	nw := c.Func("lzma", "WriterConfig.NewWriter")
	hd := c.Func("lzma", "WriterConfig.header")
	ned := c.Func("lzma", "newEncoderDict")
	fH := c.Field("lzma", "header.dictCap")
	fC := c.Field("lzma", "WriterConfig.DictCap")
	if nw == nil || hd == nil || ned == nil || fH == nil || fC == nil {
		return
	}
	// (a) the header's dictCap is the configured DictCap itself
	okHdr, nSt, got := true, 0, ""
	for _, fn := range []*ssa.Function{hd, nw} {
		for _, b := range c.GB(fn) {
			for _, ins := range b.Instrs {
				if st, ok := storeToField(ins, fH); ok {
					nSt++
					if !isFieldLoadOf(stripConv(st.Val), fC) {
						if f, isF := stripConv(st.Val).(*ssa.Field); !isF || fieldOfField(f) != fC {
							okHdr = false
							got = st.Val.Name() + " at " + c.InstrPos(ins)
						}
					}
				}
			}
		}
	}
	r.Check(okHdr && nSt >= 1, rule, FnName(hd), c.Pos(hd.Pos()), "header.dictCap = WriterConfig.DictCap",
		"the dictionary size written into the .lzma header is "+got+", not the configured DictCap the encoder works with: a decoder that allocates the announced window cannot resolve the farthest matches")
	// (b) the encoder dictionary is created with that value
	okEnc, nCall := true, 0
	for _, b := range c.GB(nw) {
		for _, ins := range b.Instrs {
			if call, ok := callTo(ins, ned); ok && len(call.Call.Args) >= 1 {
				nCall++
				a := stripConv(call.Call.Args[0])
				if !isFieldLoadOf(a, fH) && !isFieldLoadOf(a, fC) {
					if f, isF := a.(*ssa.Field); !isF || (fieldOfField(f) != fC && fieldOfField(f) != fH) {
						okEnc = false
					}
				}
			}
		}
	}
	r.Check(okEnc && nCall >= 1, rule, FnName(nw), c.Pos(nw.Pos()), "newEncoderDict gets the header's / the configured dictionary capacity",
		"the classic writer creates its encoder dictionary with a capacity that is neither header.dictCap nor WriterConfig.DictCap")
}

// ---- CE-DEFAULT-CTYPE: what the LZMA2 writer announces for the next compressed chunk ----
// 'S' (start): everything is reset; 'R' (after a raw chunk that reset the dictionary): new
// properties + state reset; 'L' and 'U': plain continuation. After a raw chunk the writer restores
// the encoder state to the snapshot taken at the start of that chunk (it does not reset it), so 'U'
// must announce no reset.
func ruleDefaultChunkType(c *Ctx, r *Report, t *chunkTables, prefix string) {
	rule := prefix + "CE-DEFAULT-CTYPE"
	fn := c.Func("lzma", "chunkState.defaultChunkType")
	if fn == nil || !t.ok {
		return
	}
	want := map[byte]int{'S': kLZMAAll, 'R': kLZMAProps, 'L': kLZMA, 'U': kLZMA}
	bad := ""
	for st, kind := range want {
		in := NewInterp(c)
		res := in.Call(fn, []aval{aInt(int64(st), fn.Params[0].Type())})
		if !res.OK || res.Panicked || len(res.Rets) != 1 {
			bad = fmt.Sprintf("cannot evaluate defaultChunkType(%q): %s", st, in.Undecided)
			break
		}
		got, _ := res.Rets[0].Int()
		if got != t.vals[kind] {
			bad = fmt.Sprintf("in state %q the writer announces chunk type %d for the next compressed chunk, expected %s (%d): the header would promise resets the encoder does not perform (or omit one it needs)", st, got, kindNames[kind], t.vals[kind])
			break
		}
	}
	r.Check(bad == "", rule, "defaultChunkType", c.Pos(fn.Pos()), "S: all resets, R: properties + state reset, L and U: continuation", bad)
}

// ---- OB-DICTCAP-RANGE: both dictionaries accept capacities 1 .. MaxDictCap inclusive ----
func ruleDictCapRange(c *Ctx, r *Report, prefix string) {
	rule := prefix + "OB-DICTCAP-RANGE"
	maxDC, ok := namedConstInt(c, "lzma", "MaxDictCap")
	if !ok {
		return
	}
	r.Check(maxDC == math.MaxUint32, rule, "MaxDictCap", "", "MaxDictCap = 2^32 - 1", fmt.Sprintf("MaxDictCap is %d", maxDC))
	for _, name := range []string{"newDecoderDict", "newEncoderDict"} {
		fn := c.Func("lzma", name)
		if fn == nil || fn.Name() != name {
			continue
		}
		o := newOb(c, r, rule, fn)
		dc := roleParam(fn, "dictCap")
		o.rel(name+":lower", dc, roleConst(1), token.LSS, "dictionary capacity < 1")
		o.rel(name+":upper", dc, roleConstExact(constant.MakeInt64(maxDC).ExactString()), token.GTR, "dictionary capacity > MaxDictCap (2^32-1, the size code 40 stands for, is accepted)")
	}
}

// ---- WR-BLOCKSIZE-DEFAULT: an unset BlockSize means "one block" ----
func ruleBlockSizeDefault(c *Ctx, r *Report, prefix string) {
	rule := prefix + "WR-BLOCKSIZE-DEFAULT"
	fn := c.Func("", "WriterConfig.fill")
	fBS := c.Field("", "WriterConfig.BlockSize")
	if fn == nil || fBS == nil {
		return
	}
	n, bad := 0, ""
	for _, b := range c.GB(fn) {
		for _, ins := range b.Instrs {
			if st, ok := storeToField(ins, fBS); ok {
				n++
				if k, isK := constInt(stripConv(st.Val)); !isK || k != math.MaxInt64 {
					bad = "the default block size is " + st.Val.Name() + ", not maxInt64: every xz block starts a new LZMA2 dictionary, so a default-configured stream would lose all matches across the block boundary"
				}
			}
		}
	}
	r.Check(bad == "" && n >= 1, rule, FnName(fn), c.Pos(fn.Pos()), "BlockSize == 0 is replaced by maxInt64 (a single block)", bad)
}

package main

func init() {
	register(&propCheck{
		id: "C13",
		explain: "Decided: (SEQ-STICKY) every possibly-non-nil error return (io.EOF included) of Reader2.Read and uncompressedReader.Read is preceded on its path by " +
			"the store of that error into the sticky field, and the entry test returns it; decoder.eos is cleared only in Reopen; (SEQ-R0) in the Read methods " +
			"xz.Reader.Read, lzma.Reader2.Read, decoder.Read (reached from lzma.Reader.Read) every error / end-of-stream return lies behind an edge n < len(p): nothing is " +
			"reported when nothing was requested; (SEQ-NOPROGRESS) Reader2's own no-data error is raised only for (0, nil) from the chunk reader, never for a legitimate " +
			"(0, io.EOF) at a chunk end; (WMC-READ) the places that call Read on an io.Reader directly are a frozen set where short reads are tolerated - fixed-size " +
			"structures are read with io.ReadFull / io.CopyN; EOF discipline of breader / loops (EF-EOF). NOT decided: equality of the delivered byte sequence under all " +
			"schedules and fragmentations (value statement).",
		run: func(c *Ctx, r *Report) {
			ruleSticky(c, r, "", c.Func("lzma", "Reader2.Read"), c.Field("lzma", "Reader2.err"))
			ruleSticky(c, r, "", c.Func("lzma", "uncompressedReader.Read"), c.Field("lzma", "uncompressedReader.err"))
			ruleEOSWriters(c, r, "")
			ruleR0(c, r, "", c.Func("", "Reader.Read"), nil)
			ruleR0(c, r, "", c.Func("lzma", "Reader2.Read"), c.Field("lzma", "Reader2.err"))
			ruleR0(c, r, "", c.Func("lzma", "decoder.Read"), nil)
			ruleR0(c, r, "", c.Func("lzma", "Reader.Read"), nil)
			ruleNoProgress(c, r, "")
			ruleMultiStream(c, r, "")
			ruleXZReaderChecks(c, r, "")
			ruleBlockEnd(c, r, "")
			ruleReaderFrom(c, r, "")
			ruleWriterTo(c, r, "")
			ruleReader2ChunkEOF(c, r, "")
			ruleBlockSource(c, r, "")
			ruleRawEOFFlag(c, r, "")
			ruleLoopAdvanceExact(c, r, "")
			ruleBlockReadOnlySize(c, r, "")
			ruleSameSource(c, r, "")
			ruleNilOnErr(c, r, "")
			ruleDecoderBounds(c, r, "")
			ruleCounting(c, r, "", "read")
			ruleDecoderReadErr(c, r, "")
			ruleReadInvokes(c, r, "")
			ruleEOF(c, r, readerAPI(c), readerCone(c), "")
			r.Floor("SEQ-STICKY", 2)
			r.Floor("SEQ-R0", 4)
		},
	})
}

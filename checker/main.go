// xzverify decides structural clauses of the 18 properties of ulikunitz/xz by static
// analysis of /repo's current working tree (see /verif/DESIGN.md).
package main

import (
	"encoding/json"
	"fmt"
	"os"
	"sort"
	"strings"
)

type propCheck struct {
	id      string
	explain string
	assume  []string
	run     func(c *Ctx, r *Report)
}

var registry = map[string]*propCheck{}

func register(p *propCheck) { registry[p.id] = p }

func usage() {
	fmt.Fprintln(os.Stderr, `usage:
  xzverify check <Cxx> [--tier quick|thorough]
  xzverify explain <replay.json>
  xzverify list`)
	os.Exit(2)
}

func main() {
	if len(os.Args) < 2 {
		usage()
	}
	switch os.Args[1] {
	case "check":
		if len(os.Args) < 3 {
			usage()
		}
		tier := os.Getenv("VERIF_TIER")
		for i := 3; i < len(os.Args); i++ {
			if os.Args[i] == "--tier" && i+1 < len(os.Args) {
				tier = os.Args[i+1]
			}
		}
		if tier != "thorough" {
			tier = "quick"
		}
		os.Exit(runCheck(os.Args[2], tier))
	case "explain":
		if len(os.Args) < 3 {
			usage()
		}
		os.Exit(explain(os.Args[2]))
	case "debug":
		if len(os.Args) < 3 {
			usage()
		}
		if strings.HasPrefix(os.Args[2], "sterm:") {
			os.Exit(runDebugSTerm(strings.TrimPrefix(os.Args[2], "sterm:")))
		}
		if strings.HasPrefix(os.Args[2], "terms:") {
			os.Exit(runDebugTerms(strings.TrimPrefix(os.Args[2], "terms:")))
		}
		if strings.HasPrefix(os.Args[2], "paths:") {
			os.Exit(runDebugPaths(strings.TrimPrefix(os.Args[2], "paths:")))
		}
		if strings.HasPrefix(os.Args[2], "rule:") {
			os.Exit(runDebugRule(strings.TrimPrefix(os.Args[2], "rule:")))
		}
		os.Exit(runDebug(os.Args[2]))
	case "list":
		var ids []string
		for id := range registry {
			ids = append(ids, id)
		}
		sort.Strings(ids)
		for _, id := range ids {
			fmt.Println(id)
		}
	default:
		usage()
	}
}

func runCheck(id, tier string) int {
	p := registry[id]
	if p == nil {
		fmt.Fprintln(os.Stderr, "no check registered for", id)
		return 2
	}
	archs := []string{""}
	if tier == "thorough" {
		archs = append(archs, "386")
	}
	rep := NewReport(id, tier)
	rep.Explain = p.explain + " The rule set of this check has grown since this summary was written: per_rule in this file lists " +
		"every rule that ran with its obligation counts; DESIGN.md sections 12.4-12.7 give the one-line necessary condition of each added rule."
	rep.Assume = append(rep.Assume, p.assume...)
	rep.Assume = append(rep.Assume,
		"go/types + go/ssa (x/tools v0.29.0) model the program faithfully; VTA call graph over-approximates dynamic calls",
		"field-based heap abstraction: one abstract cell per struct field",
		"only non-test files of the default build configuration (plus GOARCH=386 in the thorough tier) are analysed")
	var last *Ctx
	for _, arch := range archs {
		c, err := Load(repoDir(), arch)
		if err != nil {
			rep.Arch = arch
			return rep.Finish(nil, err)
		}
		last = c
		sub := rep
		if arch != "" {
			// second architecture: obligations are prefixed so keys stay unique
			sub = NewReport(id, tier)
		}
		func() {
			defer func() {
				if e := recover(); e != nil {
					sub.Undecided("PANIC", "analyser", "-", fmt.Sprintf("analyser panicked: %v", e))
				}
			}()
			p.run(c, sub)
		}()
		if arch != "" {
			for _, o := range sub.Obs {
				o.Rule = o.Rule + "@" + arch
				rep.add(o)
			}
			for k, v := range sub.floors {
				rep.floors[k+"@"+arch] = v
			}
			for _, u := range c.unresolved {
				last.miss(u + "@" + arch)
			}
		}
	}
	if tier == "thorough" {
		thoroughExtras(last, rep)
	}
	return rep.Finish(last, nil)
}

// thoroughExtras is filled in by mutants.go (mutation self-validation of the checker).
var thoroughExtras = func(c *Ctx, r *Report) {}

func explain(path string) int {
	b, err := os.ReadFile(path)
	if err != nil {
		fmt.Fprintln(os.Stderr, err)
		return 2
	}
	var rep struct {
		Property, Rule, Instance, At, Status, Message string
		Trace                                         []string
	}
	if err := json.Unmarshal(b, &rep); err != nil {
		fmt.Fprintln(os.Stderr, err)
		return 2
	}
	fmt.Printf("replaying property=%s rule=%s instance=%s (recorded at %s)\n", rep.Property, rep.Rule, rep.Instance, rep.At)
	p := registry[rep.Property]
	if p == nil {
		return 2
	}
	c, err := Load(repoDir(), "")
	r := NewReport(rep.Property, "quick")
	if err != nil {
		fmt.Println("load error:", err)
		return 1
	}
	p.run(c, r)
	found := false
	for _, o := range r.Obs {
		if o.Rule == strings.TrimSuffix(rep.Rule, "@386") && o.Key == rep.Instance {
			found = true
			fmt.Printf("%s %s %s at %s: %s\n", o.Status, o.Rule, o.Key, o.Pos, o.Msg)
			for _, t := range o.Trace {
				fmt.Println("   ", t)
			}
			if o.Status != OK {
				return 1
			}
		}
	}
	if !found {
		fmt.Println("instance not present on the current tree (rule instances are keyed by construct; the construct changed or the anchor is gone)")
		for _, u := range c.unresolved {
			fmt.Println("unresolved anchor:", u)
		}
		return 1
	}
	return 0
}

package main

// Rules for the classic LZMA format (C06, C07) and the xz writer's container
// marshalling (C02).

import (
	"fmt"
	"go/token"
	"go/types"
	"hash/crc32"
	"os"
	"strings"

	"golang.org/x/tools/go/ssa"
)

// ruleLzmaHeaderCodec: 13-byte header both ways by CE (OB-H1: the all-ones sentinel is
// written exactly when size < 0).
func ruleLzmaHeaderCodec(c *Ctx, r *Report, prefix string) {
	rule := prefix + "CE-LZMAHDR"
	mar := c.Func("lzma", "header.marshalBinary")
	unm := c.Func("lzma", "header.unmarshalBinary")
	hT := c.Type("lzma", "header")
	prT := c.Type("lzma", "Properties")
	if mar == nil || unm == nil || hT == nil || prT == nil {
		return
	}
	fp, fd, fs := fieldIndex(hT, "properties"), fieldIndex(hT, "dictCap"), fieldIndex(hT, "size")
	if fp < 0 || fd < 0 || fs < 0 {
		c.miss("fields of lzma.header")
		return
	}
	it := types.Typ[types.Int]
	le := func(v uint64, n int) []int64 {
		out := make([]int64, n)
		for i := 0; i < n; i++ {
			out[i] = int64(v >> (8 * uint(i)) & 0xff)
		}
		return out
	}
	dictCaps := []int64{4096, 1 << 16, 1<<23 + 5, 1 << 30}
	if c.Arch != "386" {
		dictCaps = append(dictCaps, 1<<32-1)
	}
	sizes := []int64{-1, 0, 1, 255, 256, 1 << 32, 1<<62 + 12345}
	bad, n := 0, 0
	for _, pr := range [][3]int64{{3, 0, 2}, {0, 0, 0}, {8, 4, 4}, {1, 2, 3}} {
		for _, dc := range dictCaps {
			for _, sz := range sizes {
				n++
				in := NewInterp(c)
				cl := in.newCellOf(hT)
				in.storeCell(cl, aval{k: kStruct, typ: hT, flds: map[int]aval{
					fp: {k: kStruct, typ: prT, flds: map[int]aval{fieldIndex(prT, "LC"): aInt(pr[0], it), fieldIndex(prT, "LP"): aInt(pr[1], it), fieldIndex(prT, "PB"): aInt(pr[2], it)}},
					fd: aInt(dc, it), fs: aInt(sz, types.Typ[types.Int64])}}, hT)
				res := in.Call(mar, []aval{{k: kPtr, cell: cl}})
				key := fmt.Sprintf("marshal(props=%v,dict=%d,size=%d)", pr, dc, sz)
				if !res.OK || res.Panicked || len(res.Rets) != 2 {
					r.Undecided(rule, key, c.Pos(mar.Pos()), "cannot evaluate: "+in.Undecided)
					bad++
					continue
				}
				want := []int64{(pr[2]*5+pr[1])*9 + pr[0]}
				want = append(want, le(uint64(dc), 4)...)
				if sz < 0 {
					want = append(want, le(^uint64(0), 8)...)
				} else {
					want = append(want, le(uint64(sz), 8)...)
				}
				got, okB := sliceBytes(res.Rets[0])
				if !okB || !isNilErr(res.Rets[1]) || !eqInt64s(got, want) {
					r.Fail(rule, key, c.Pos(mar.Pos()), fmt.Sprintf("the .lzma header for properties %v, dictionary %d, size %d is %x; the format requires %x (size field: the value itself when known, all ones only when unknown)", pr, dc, sz, got, want))
					bad++
					continue
				}
				// and back
				in2 := NewInterp(c)
				cl2 := in2.newCellOf(hT)
				bs := make([]byte, 13)
				for i, w := range want {
					bs[i] = byte(w)
				}
				res2 := in2.Call(unm, []aval{{k: kPtr, cell: cl2}, byteSlice(bs)})
				if !res2.OK || res2.Panicked || len(res2.Rets) != 1 {
					r.Undecided(rule, "un"+key, c.Pos(unm.Pos()), "cannot evaluate: "+in2.Undecided)
					bad++
					continue
				}
				back := in2.loadCell(cl2, hT)
				bd, _ := back.flds[fd].Int()
				bsz, _ := back.flds[fs].Int()
				if !isNilErr(res2.Rets[0]) || bd != dc || bsz != sz {
					r.Fail(rule, "un"+key, c.Pos(unm.Pos()), fmt.Sprintf("header bytes %x are read back as dictionary %d, size %d (error=%v); want %d, %d", bs, bd, bsz, !isNilErr(res2.Rets[0]), dc, sz))
					bad++
				}
			}
		}
	}
	if bad == 0 {
		r.Pass(rule, "lzma-header-codec", c.Pos(mar.Pos()), "13-byte header: properties byte, dictionary size LE32, size LE64 with all-ones exactly for 'unknown' (size < 0); unmarshalBinary is the inverse", n)
	}
}

// ruleLzmaWriterContract: explicit-size contract and end-marker plumbing (C06).
func ruleLzmaWriterContract(c *Ctx, r *Report, prefix string) {
	rule := prefix + "OB-LZMAW"
	wClose, wWrite := c.Func("lzma", "Writer.Close"), c.Func("lzma", "Writer.Write")
	encClose := c.Func("lzma", "encoder.Close")
	comp, buffered := c.Func("lzma", "encoder.Compressed"), c.Func("lzma", "encoderDict.Buffered")
	fSize := c.Field("lzma", "header.size")
	errSize := c.Global("lzma", "errSize")
	if wClose == nil || wWrite == nil || encClose == nil || comp == nil || buffered == nil || fSize == nil || errSize == nil {
		return
	}
	soFar := roleBinOp(token.ADD, roleCallTo(comp), roleCallTo(buffered))
	// Close: size >= 0 && written != size => errSize, before encoder.Close
	{
		o := newOb(c, r, rule, wClose)
		g := o.rel("close-size", soFar, roleFieldLoad(fSize), token.NEQ, "bytes written (Compressed()+Buffered()) != size announced in the header")
		if g != nil {
			okDom := false
			for _, b := range theCtx.GB(wClose) {
				for _, ins := range b.Instrs {
					if isCallTo(ins, encClose) {
						okDom = true
						// every path to encoder.Close passes the test or the size < 0 edge: the guard's
						// block is reached only under size >= 0; check domination of the join
						if !(theCtx.Dom(g.iff.Block().Succs[1], b) || blockReachableOnlyVia(wClose, b, g.iff)) {
							okDom = false
						}
					}
				}
			}
			r.Check(okDom, rule, "close-size-before-encoder-close:"+FnName(wClose), c.InstrPos(g.iff), "the size test precedes encoder.Close", "encoder.Close can run although the announced size was not reached")
		}
	}
	// Write: p is cut to size - written (clipped at 0) and ErrNoSpace is reported
	{
		okExpr, okTrunc := false, false
		// as a linear form: size - Compressed() - Buffered(), however it is bracketed
		{
			env := newLinEnv(c)
			var sizes, comps, bufs, subs []ssa.Value
			for _, b := range theCtx.GB(wWrite) {
				for _, ins := range b.Instrs {
					switch x := ins.(type) {
					case *ssa.UnOp:
						if roleFieldLoad(fSize)(x) {
							sizes = append(sizes, x)
						}
					case *ssa.Call:
						if x.Call.StaticCallee() == comp {
							comps = append(comps, x)
						}
						if x.Call.StaticCallee() == buffered {
							bufs = append(bufs, x)
						}
					case *ssa.BinOp:
						if x.Op == token.SUB {
							subs = append(subs, x)
						}
					}
				}
			}
			for _, sv := range sizes {
				for _, cv := range comps {
					for _, bv := range bufs {
						want := env.of(sv).add(env.of(cv), -1).add(env.of(bv), -1)
						for _, sub := range subs {
							if env.of(sub).eq(want) {
								okExpr = true
							}
						}
					}
				}
			}
		}
		for _, b := range theCtx.GB(wWrite) {
			for _, ins := range b.Instrs {
				if bo, ok := ins.(*ssa.BinOp); ok && bo.Op == token.SUB && roleFieldLoad(fSize)(bo.X) && soFar(bo.Y) {
					okExpr = true
				}
				if sl, ok := ins.(*ssa.Slice); ok && sl.X == wWrite.Params[1] && sl.Low == nil && sl.High != nil {
					okTrunc = true
				}
			}
		}
		r.Check(okExpr, rule, "write-remaining:"+FnName(wWrite), c.Pos(wWrite.Pos()), "remaining = size - (Compressed() + Buffered())",
			"Writer.Write does not compute the remaining space as size - (encoder.Compressed() + dict.Buffered()): bytes still in the look-ahead buffer would not be counted and surplus data accepted")
		r.Check(okTrunc, rule, "write-truncate:"+FnName(wWrite), c.Pos(wWrite.Pos()), "surplus bytes are cut off (p = p[:m])", "Writer.Write does not cut the data to the remaining space")
		// ErrNoSpace on truncation: the truncating edge sets err = ErrNoSpace
		errNoSpace := c.Global("lzma", "ErrNoSpace")
		okErr := false
		for _, b := range theCtx.GB(wWrite) {
			hasSlice := false
			for _, ins := range b.Instrs {
				if sl, ok := ins.(*ssa.Slice); ok && sl.X == wWrite.Params[1] {
					hasSlice = true
				}
			}
			if hasSlice {
				// a φ downstream takes ErrNoSpace from this block
				for _, b2 := range theCtx.GB(wWrite) {
					for _, ins := range b2.Instrs {
						if ph, ok := ins.(*ssa.Phi); ok && isErrType(ph.Type()) {
							for i, e := range ph.Edges {
								if roleGlobalLoad(errNoSpace)(e) && (b2.Preds[i] == b || theCtx.Dom(b, b2.Preds[i])) {
									okErr = true
								}
							}
						}
					}
				}
			}
		}
		r.Check(okErr, rule, "write-errnospace:"+FnName(wWrite), c.Pos(wWrite.Pos()), "truncation is reported as ErrNoSpace", "Writer.Write truncates without reporting ErrNoSpace")
	}
	// encoder.Close writes the end marker iff marker
	{
		fMarker := c.Field("lzma", "encoder.marker")
		writeMatch := c.Func("lzma", "encoder.writeMatch")
		reClose := c.Func("lzma", "rangeEncoder.Close")
		eos := c.Global("lzma", "eosMatch")
		if fMarker != nil && writeMatch != nil && reClose != nil && eos != nil {
			for _, mk := range []bool{true, false} {
				m := mk
				spec := SeqSpec{Fn: encClose}
				spec.Assume = func(w *Walker, p *PState, ins ssa.Instruction) {
					if u, ok := loadOfField(ins, fMarker); ok {
						setBoolFact(p, p.Resolve(u), m)
					}
				}
				spec.Event = func(w *Walker, p *PState, ins ssa.Instruction) string {
					if call, ok := callTo(ins, writeMatch); ok {
						if roleGlobalLoad(eos)(call.Call.Args[1]) {
							return "eos"
						}
						return "match?"
					}
					if isCallTo(ins, reClose) {
						return "re.Close"
					}
					return ""
				}
				paths, _ := CollectPaths(c, spec)
				ok, n := len(paths) > 0, 0
				for _, sp := range paths {
					if !sp.ErrNil && !sp.Has("re.Close") {
						continue
					}
					if !sp.Has("re.Close") {
						continue
					}
					n++
					want := []string{"re.Close"}
					if m {
						want = []string{"eos", "re.Close"}
					}
					if !eqLabels(sp.Labels(), want) {
						ok = false
					}
				}
				r.Check(ok && n > 0, rule, fmt.Sprintf("eos-marker=%v:%s", m, FnName(encClose)), c.Pos(encClose.Pos()), "the end marker is written before the range coder is flushed exactly when the encoder was created with the marker flag",
					fmt.Sprintf("encoder.Close with marker=%v does not write exactly %d end marker(s) before flushing the range coder", m, map[bool]int{true: 1, false: 0}[m]))
			}
			// newEncoder: marker = flags & eosMarker != 0
			if ne := c.Func("lzma", "newEncoder"); ne != nil {
				ok := false
				for _, b := range theCtx.GB(ne) {
					for _, ins := range b.Instrs {
						if st, isSt := storeToField(ins, fMarker); isSt {
							if bo, isB := st.Val.(*ssa.BinOp); isB && bo.Op == token.NEQ && roleConst(0)(bo.Y) {
								if and, isA := bo.X.(*ssa.BinOp); isA && and.Op == token.AND {
									ok = true
								}
							}
						}
					}
				}
				r.Check(ok, rule, "marker-flag:"+FnName(ne), c.Pos(ne.Pos()), "encoder.marker = flags & eosMarker != 0", "newEncoder does not derive the marker from the eosMarker flag")
			}
		}
	}
	// WriterConfig.fill guarantees SizeInHeader || EOSMarker
	if fill := c.Func("lzma", "WriterConfig.fill"); fill != nil {
		cfgT := c.Type("lzma", "WriterConfig")
		if cfgT != nil {
			iS, iSz, iE := fieldIndex(cfgT, "SizeInHeader"), fieldIndex(cfgT, "Size"), fieldIndex(cfgT, "EOSMarker")
			bad, n := 0, 0
			for _, sih := range []bool{false, true} {
				for _, eos := range []bool{false, true} {
					for _, sz := range []int64{-5, 0, 1, 1 << 40} {
						n++
						in := NewInterp(c)
						cl := in.newCellOf(cfgT)
						cl.field(iS).v, cl.field(iE).v, cl.field(iSz).v = aBool(sih), aBool(eos), aInt(sz, types.Typ[types.Int64])
						res := in.Call(fill, []aval{{k: kPtr, cell: cl}})
						if !res.OK || res.Panicked {
							r.Undecided(rule, "config-fill", c.Pos(fill.Pos()), "cannot evaluate: "+in.Undecided)
							bad++
							continue
						}
						s2, _ := cl.field(iS).v.Bool()
						e2, _ := cl.field(iE).v.Bool()
						if !(s2 || e2) || (sih && !s2) || (eos && !e2) || (sz > 0 && !s2) {
							r.Fail(rule, "config-fill", c.Pos(fill.Pos()), fmt.Sprintf("WriterConfig{SizeInHeader:%v, Size:%d, EOSMarker:%v}.fill() yields SizeInHeader=%v EOSMarker=%v: a stream needs a size in the header or an end marker", sih, sz, eos, s2, e2))
							bad++
						}
					}
				}
			}
			if bad == 0 {
				r.Pass(rule, "config-fill", c.Pos(fill.Pos()), "after fill(): SizeInHeader || EOSMarker, and explicit requests are kept", n)
			}
		}
	}
	r.Floor(rule, 8)
}

// blockReachableOnlyVia: every predecessor path of b passes through iff's block or
// through a block that bypasses it by a test of the same first operand (size < 0).
func blockReachableOnlyVia(fn *ssa.Function, b *ssa.BasicBlock, iff *ssa.If) bool {
	// simple form: the If's block and b share the dominator that tests `size >= 0`
	d := iff.Block().Idom()
	return d != nil && theCtx.Dom(d, b)
}

// ruleSizeBeforeOp (SEQ-D1): on every path of decoder.decompress the declared size is
// tested before the first operation is read.
func ruleSizeBeforeOp(c *Ctx, r *Report, prefix string) {
	rule := prefix + "SEQ-D1"
	fn := c.Func("lzma", "decoder.decompress")
	readOp := c.Func("lzma", "decoder.readOp")
	fSize := c.Field("lzma", "decoder.size")
	if fn == nil || readOp == nil || fSize == nil {
		return
	}
	spec := SeqSpec{Fn: fn}
	spec.Event = func(w *Walker, p *PState, ins ssa.Instruction) string {
		if isCallTo(ins, readOp) {
			tested := false
			for _, e := range p.U.(*seqState).evs {
				if e.Label == "size-test" {
					tested = true
				}
			}
			if !tested {
				// the size is unknown (negative) on this path?
				for k, v := range p.fields {
					if strings.HasSuffix(k, fieldID(fSize)) {
						if f := p.facts[v]; f.hasHi && f.hi < 0 {
							tested = true
						}
					}
				}
			}
			if tested {
				return "readOp"
			}
			return "readOp!untested"
		}
		if iff, ok := ins.(*ssa.If); ok {
			if bo, ok := iff.Cond.(*ssa.BinOp); ok {
				dec := c.Func("lzma", "decoder.Decompressed")
				if (isFieldLoadOf(bo.X, fSize) || isFieldLoadOf(bo.Y, fSize)) && (roleCallTo(dec)(bo.X) || roleCallTo(dec)(bo.Y)) {
					return "size-test"
				}
			}
		}
		// the same comparison evaluated as a value (the right operand of && in a new boolean helper)
		if bo, ok := ins.(*ssa.BinOp); ok && isCmp(bo.Op) && c.IsNew(bo.Parent()) {
			dec := c.Func("lzma", "decoder.Decompressed")
			if (isFieldLoadOf(bo.X, fSize) || isFieldLoadOf(bo.Y, fSize)) && (roleCallTo(dec)(bo.X) || roleCallTo(dec)(bo.Y)) {
				return "size-test"
			}
		}
		return ""
	}
	paths, over := CollectPaths(c, spec)
	if over {
		r.Undecided(rule, FnName(fn), c.Pos(fn.Pos()), "path budget exceeded")
		return
	}
	n := 0
	for _, sp := range paths {
		if sp.Has("readOp") {
			n++
		}
		// only the FIRST operation read matters (later ones follow an apply and the loop's own test)
		for _, e := range sp.Events {
			if e.Label == "readOp" {
				break
			}
			if e.Label == "readOp!untested" {
				r.Fail(rule, FnName(fn), c.InstrPos(e.Ins), "decoder.decompress reads an operation on a path that has not compared Decompressed() with the declared size first: a stream whose declared size is already reached (e.g. size 0, no end marker) fails with 'unexpected EOF' instead of ending", sp.Trace...)
				return
			}
		}
	}
	if n > 0 {
		r.Pass(rule, FnName(fn), c.Pos(fn.Pos()), "the first readOp on every path is preceded by the test of Decompressed() against the declared size (or the size is unknown)", len(paths))
	} else {
		r.Undecided(rule, FnName(fn), c.Pos(fn.Pos()), "no path reads an operation")
	}
}

// ---------- xz writer container marshalling (C02) ----------

// ruleCheckEncoding: CRC32 / CRC64 check values are stored little-endian (shared by reader and
// writer: a symmetric change keeps every round trip green but rejects / produces foreign files).
func ruleCheckEncoding(c *Ctx, r *Report, prefix string) {
	rule := prefix + "TM-XZW"
	putLE32 := c.Func("", "putUint32LE")
	putLE64 := c.Func("", "putUint64LE")
	if putLE32 == nil || putLE64 == nil {
		return
	}
	// little-endian helpers by CE
	for _, h := range []struct {
		fn *ssa.Function
		n  int
		t  types.Type
	}{{putLE32, 4, types.Typ[types.Uint32]}, {putLE64, 8, types.Typ[types.Uint64]}} {
		ok := true
		for _, x := range []uint64{0, 1, 0x01020304, 0xfffefdfc, 0x0102030405060708, 0xf1e2d3c4b5a69788} {
			if h.n == 4 {
				x &= 0xffffffff
			}
			in := NewInterp(c)
			buf := byteSlice(make([]byte, h.n))
			res := in.Call(h.fn, []aval{buf, aConst(constantFromUint64(x), h.t)})
			got, okB := sliceBytes(buf)
			if !res.OK || !okB {
				ok = false
				continue
			}
			for i := 0; i < h.n; i++ {
				if got[i] != int64(x>>(8*uint(i))&0xff) {
					ok = false
				}
			}
		}
		r.Check(ok, rule, FnName(h.fn), c.Pos(h.fn.Pos()), "stores the value little-endian", FnName(h.fn)+" does not store its value in little-endian byte order")
	}
	// check values are encoded with these helpers
	for _, hs := range []struct{ typ, put string }{{"crc32Hash", "putUint32LE"}, {"crc64Hash", "putUint64LE"}} {
		fn := c.Func("", hs.typ+".Sum")
		if fn == nil {
			continue
		}
		want := putLE32
		sumName := "Sum32"
		if hs.put == "putUint64LE" {
			want, sumName = putLE64, "Sum64"
		}
		ok := false
		for _, b := range theCtx.GB(fn) {
			for _, ins := range b.Instrs {
				if call, isC := callTo(ins, want); isC {
					if sc, isS := call.Call.Args[1].(*ssa.Call); isS && sc.Call.IsInvoke() && sc.Call.Method.Name() == sumName {
						// the buffer is what gets appended
						ok = true
					}
				}
			}
		}
		r.Check(ok, rule, hs.typ+".Sum", c.Pos(fn.Pos()), "check value encoded little-endian via "+hs.put, hs.typ+".Sum does not encode the check value with "+hs.put+" (the .xz format stores CRC32/CRC64 little-endian; reader and writer share this method, so round trips cannot notice)")
	}
}

func ruleXZWriterFormat(c *Ctx, r *Report, prefix string) {
	rule := prefix + "TM-XZW"
	putUvarint := c.Func("", "putUvarint")
	putLE32 := c.Func("", "putUint32LE")
	if putUvarint == nil || putLE32 == nil {
		return
	}
	ruleCheckEncoding(c, r, prefix)
	// uvarint by CE on boundary values
	{
		ok := true
		for _, x := range []uint64{0, 1, 127, 128, 300, 16383, 16384, 1<<32 - 1, 1<<63 - 1} {
			in := NewInterp(c)
			buf := byteSlice(make([]byte, 10))
			res := in.Call(putUvarint, []aval{buf, aConst(constantFromUint64(x), types.Typ[types.Uint64])})
			if !res.OK || len(res.Rets) != 1 {
				ok = false
				continue
			}
			n, _ := res.Rets[0].Int()
			var want []int64
			for v := x; ; {
				if v >= 0x80 {
					want = append(want, int64(v&0x7f|0x80))
					v >>= 7
				} else {
					want = append(want, int64(v))
					break
				}
			}
			got, _ := sliceBytes(buf)
			if int(n) != len(want) || !eqInt64s(got[:len(want)], want) {
				ok = false
			}
		}
		r.Check(ok, rule, "putUvarint", c.Pos(putUvarint.Pos()), "multibyte integer encoding (7 bits per byte, little-endian, continuation bit)", "putUvarint does not produce the .xz variable-length integer encoding")
	}
	varintEncoders := map[*ssa.Function]bool{putUvarint: true}
	// any other encoder of this kind in the package (a function that shifts a uint64 right by 7:
	// an append-style sibling of putUvarint) must produce the same encoding
	for _, fn := range c.modFuncs {
		if fn == putUvarint || fn.Blocks == nil || pkgPathOf(fn) != full("") || fn.Signature.Recv() != nil || len(fn.Params) != 2 || fn.Signature.Results().Len() != 1 {
			continue
		}
		if _, isSl := fn.Params[0].Type().Underlying().(*types.Slice); !isSl {
			continue
		}
		if bt, isB := fn.Params[1].Type().Underlying().(*types.Basic); !isB || bt.Kind() != types.Uint64 {
			continue
		}
		shifts := false
		for _, b := range fn.Blocks {
			for _, ins := range b.Instrs {
				if bo, isBo := ins.(*ssa.BinOp); isBo && bo.Op == token.SHR {
					if k, isK := constInt(bo.Y); isK && k == 7 {
						shifts = true
					}
				}
			}
		}
		if !shifts {
			continue
		}
		_, appendStyle := fn.Signature.Results().At(0).Type().Underlying().(*types.Slice)
		ok, why := true, ""
		for _, x := range []uint64{0, 1, 127, 128, 129, 255, 300, 16383, 16384, 16511, 2097151, 2097152, 1<<32 - 1, 1<<63 - 1} {
			var want []int64
			for v := x; ; {
				if v >= 0x80 {
					want = append(want, int64(v&0x7f|0x80))
					v >>= 7
				} else {
					want = append(want, int64(v))
					break
				}
			}
			in := NewInterp(c)
			var got []int64
			if appendStyle {
				res := in.Call(fn, []aval{byteSlice([]byte{0xAA}), aConst(constantFromUint64(x), types.Typ[types.Uint64])})
				if !res.OK || len(res.Rets) != 1 {
					ok, why = false, "cannot evaluate: "+in.Undecided
					break
				}
				all, okB := sliceBytes(res.Rets[0])
				if !okB || len(all) < 1 || all[0] != 0xAA {
					ok, why = false, fmt.Sprintf("for %d the result does not keep the bytes already in the buffer", x)
					break
				}
				got = all[1:]
			} else {
				buf := byteSlice(make([]byte, 10))
				res := in.Call(fn, []aval{buf, aConst(constantFromUint64(x), types.Typ[types.Uint64])})
				if !res.OK || len(res.Rets) != 1 {
					ok, why = false, "cannot evaluate: "+in.Undecided
					break
				}
				n, _ := res.Rets[0].Int()
				all, _ := sliceBytes(buf)
				if n < 0 || int(n) > len(all) {
					ok, why = false, fmt.Sprintf("for %d the reported length is %d", x, n)
					break
				}
				got = all[:n]
			}
			if !eqInt64s(got, want) {
				ok, why = false, fmt.Sprintf("%s encodes %d as %v; the .xz multibyte integer is %v", FnName(fn), x, got, want)
				break
			}
		}
		r.Check(ok, rule, "uvarint-encoder:"+FnName(fn), c.Pos(fn.Pos()), "produces the .xz multibyte integer encoding on the boundary values", why)
		if ok {
			varintEncoders[fn] = true
		}
	}
	// header / footer / block header CRC coverage on the marshal side
	crcPut := func(fn *ssa.Function, fed role, dst role) bool {
		for _, b := range theCtx.GB(fn) {
			for _, ins := range b.Instrs {
				if call, ok := callTo(ins, putLE32); ok {
					if dst(call.Call.Args[0]) && roleSum32Fed(fed)(call.Call.Args[1]) {
						return true
					}
				}
			}
		}
		return false
	}
	isMade := func(n int64) role {
		return func(v ssa.Value) bool {
			ln := bufLen(stripConv(v))
			if ln == nil {
				return false
			}
			k, isK := constInt(ln)
			return isK && k == n
		}
	}
	if fn := c.Func("", "header.MarshalBinary"); fn != nil {
		c.curRoot, c.bindParam = fn, nil // shared helpers are looked at through this function
		r.Check(crcPut(fn, roleSlice(isMade(12), 6, 8), roleSlice(isMade(12), 8, -1)), rule, "header-crc:"+FnName(fn), c.Pos(fn.Pos()),
			"stream header: CRC32 of data[6:8] stored at data[8:12]", "header.MarshalBinary does not store the CRC32 of the stream flags data[6:8] at data[8:12]")
		// flags at data[7], data[6] stays zero
		ok := false
		for _, b := range theCtx.GB(fn) {
			for _, ins := range b.Instrs {
				if st, isSt := ins.(*ssa.Store); isSt {
					if ia, isIA := st.Addr.(*ssa.IndexAddr); isIA {
						if k, isK := constInt(ia.Index); isK && k == 7 && isFieldLoadOf(st.Val, c.Field("", "header.flags")) {
							ok = true
						}
					}
				}
			}
		}
		r.Check(ok, rule, "header-flags:"+FnName(fn), c.Pos(fn.Pos()), "check id stored at data[7]", "header.MarshalBinary does not store the check id at data[7]")
	}
	if fn := c.Func("", "footer.MarshalBinary"); fn != nil {
		c.curRoot, c.bindParam = fn, nil // shared helpers are looked at through this function
		r.Check(crcPut(fn, roleSlice(isMade(12), 4, 10), roleSlice(isMade(12), 0, -1)), rule, "footer-crc:"+FnName(fn), c.Pos(fn.Pos()),
			"stream footer: CRC32 of data[4:10] stored at data[0:4]", "footer.MarshalBinary does not store the CRC32 of data[4:10] at data[0:4]")
		// backward size = indexSize/4 - 1 at data[4:8]
		fIS := c.Field("", "footer.indexSize")
		ok := false
		for _, b := range theCtx.GB(fn) {
			for _, ins := range b.Instrs {
				if call, isC := callTo(ins, putLE32); isC && roleSlice(isMade(12), 4, -1)(call.Call.Args[0]) {
					if roleBinOp(token.SUB, roleBinOp(token.QUO, roleFieldLoad(fIS), roleConst(4)), roleConst(1))(call.Call.Args[1]) {
						ok = true
					}
				}
			}
		}
		r.Check(ok, rule, "footer-backward-size:"+FnName(fn), c.Pos(fn.Pos()), "backward size = indexSize/4 - 1 stored at data[4:8]", "footer.MarshalBinary does not store indexSize/4 - 1 at data[4:8]")
	}
	if fn := c.Func("", "blockHeader.MarshalBinary"); fn != nil {
		c.curRoot, c.bindParam = fn, nil // shared helpers are looked at through this function
		// CRC over data[:len-4] stored at data[len-4:]
		ok := false
		for _, b := range theCtx.GB(fn) {
			for _, ins := range b.Instrs {
				call, isC := callTo(ins, putLE32)
				if !isC {
					continue
				}
				dst, ok1 := sliceRefOf(call.Call.Args[0])
				sc, isS := call.Call.Args[1].(*ssa.Call)
				// the one-shot form over an appended buffer: n := len(data); data = append(data, 0, 0, 0, 0);
				// putUint32LE(data[n:], crc32.ChecksumIEEE(data[:n]))
				if ok1 && isS && stdCalleeName(sc) == "hash/crc32.ChecksumIEEE" {
					src, ok2 := sliceRefOf(sc.Call.Args[0])
					if ok2 && src.root == dst.root && src.lo == 0 && src.hi == -2 && dst.lo == -1 && dst.hi == -1 && sameValDeep(src.symHi, dst.symLo) {
						if roleBinOp(token.SUB, roleLenOf(roleIs(stripConv(src.root))), roleConst(4))(src.symHi) || lenBeforeAppend4(src.symHi, src.root) {
							ok = true
						}
					}
					continue
				}
				if !ok1 || !isS || !sc.Call.IsInvoke() || sc.Call.Method.Name() != "Sum32" {
					continue
				}
				// find the Write on the same hash
				for _, ref := range *sc.Call.Value.Referrers() {
					if wc, isW := ref.(*ssa.Call); isW && wc.Call.IsInvoke() && wc.Call.Method.Name() == "Write" {
						src, ok2 := sliceRefOf(wc.Call.Args[0])
						if ok2 && src.root == dst.root && src.lo == 0 && src.hi == -2 && dst.lo == -1 && sameValDeep(src.symHi, dst.symLo) {
							if roleBinOp(token.SUB, roleLenOf(roleIs(stripConv(src.root))), roleConst(4))(src.symHi) {
								ok = true
							}
						}
					}
				}
			}
		}
		// append style: every successful return hands back crcAppend(data, 0): the CRC of everything before it, stored last
		crcAppended := false
		if !ok {
			n, good := 0, 0
			for _, b := range fn.Blocks {
				ret, isR := b.Instrs[len(b.Instrs)-1].(*ssa.Return)
				if !isR || len(ret.Results) != 2 || !isNilConst(ret.Results[1]) {
					continue
				}
				n++
				if _, isApp := crcAppendedResult(c, ret.Results[0]); isApp {
					good++
				}
			}
			if n > 0 && good == n {
				ok, crcAppended = true, true
			}
		}
		r.Check(ok, rule, "blockheader-crc:"+FnName(fn), c.Pos(fn.Pos()), "block header: CRC32 of data[:len-4] stored at data[len-4:]", "blockHeader.MarshalBinary does not store the CRC32 of data[:len-4] at data[len-4:]")
		// size byte = len/4 - 1
		okSize := false
		for _, b := range theCtx.GB(fn) {
			for _, ins := range b.Instrs {
				if st, isSt := ins.(*ssa.Store); isSt {
					if ia, isIA := st.Addr.(*ssa.IndexAddr); isIA {
						if k, isK := constInt(ia.Index); isK && k == 0 {
							if roleBinOp(token.SUB, roleBinOp(token.QUO, roleLenOf(roleAny()), roleConst(4)), roleConst(1))(st.Val) {
								okSize = true
							}
							// measured before the four CRC bytes are appended: (len + 4)/4 - 1
							if crcAppended && roleBinOp(token.SUB, roleBinOp(token.QUO, roleBinOp(token.ADD, roleLenOf(roleAny()), roleConst(4)), roleConst(4)), roleConst(1))(st.Val) {
								okSize = true
							}
						}
					}
				}
			}
		}
		r.Check(okSize, rule, "blockheader-size:"+FnName(fn), c.Pos(fn.Pos()), "block header size byte = len/4 - 1", "blockHeader.MarshalBinary does not store len(data)/4 - 1 in data[0]")
		// flag bits <-> field order: compressedSize first with 0x40, uncompressedSize second with 0x80
		fC, fU := c.Field("", "blockHeader.compressedSize"), c.Field("", "blockHeader.uncompressedSize")
		var order []string
		flagOK := map[string]bool{}
		for _, b := range theCtx.GB(fn) {
			for _, ins := range b.Instrs {
				if call, isC := ins.(*ssa.Call); isC && b.Parent() == fn && call.Call.StaticCallee() != nil && varintEncoders[call.Call.StaticCallee()] && len(call.Call.Args) == 2 {
					switch {
					case roleFieldLoad(fC)(call.Call.Args[1]):
						order = append(order, "c@"+fmt.Sprint(call.Pos()))
					case roleFieldLoad(fU)(call.Call.Args[1]):
						order = append(order, "u@"+fmt.Sprint(call.Pos()))
					}
				}
				// a new helper that encodes one of its parameters with putUvarint, called once per field
				if call, isC := ins.(*ssa.Call); isC && b.Parent() == fn {
					if hp := call.Call.StaticCallee(); hp != nil && theCtx.IsNew(hp) && !varintEncoders[hp] {
						for _, hb := range hp.Blocks {
							for _, hi := range hb.Instrs {
								pc, isP := hi.(*ssa.Call)
								if !isP || pc.Call.StaticCallee() == nil || !varintEncoders[pc.Call.StaticCallee()] || len(pc.Call.Args) != 2 {
									continue
								}
								prm, isPrm := stripConvNoLook(pc.Call.Args[1]).(*ssa.Parameter)
								if !isPrm {
									continue
								}
								for i, q := range hp.Params {
									if q == prm && i < len(call.Call.Args) {
										switch {
										case roleFieldLoad(fC)(call.Call.Args[i]):
											order = append(order, "c@"+fmt.Sprint(call.Pos()))
										case roleFieldLoad(fU)(call.Call.Args[i]):
											order = append(order, "u@"+fmt.Sprint(call.Pos()))
										}
									}
								}
							}
						}
					}
				}
				if bo, isB := ins.(*ssa.BinOp); isB && bo.Op == token.OR {
					if k, isK := constInt(bo.Y); isK {
						// the OR happens in the then-block of `field >= 0`
						if p := b.Idom(); p != nil {
							if iff, isIf := p.Instrs[len(p.Instrs)-1].(*ssa.If); isIf {
								if cmp, isCmp := iff.Cond.(*ssa.BinOp); isCmp && cmp.Op == token.GEQ {
									if k == 0x40 && roleFieldLoad(fC)(cmp.X) {
										flagOK["c"] = true
									}
									if k == 0x80 && roleFieldLoad(fU)(cmp.X) {
										flagOK["u"] = true
									}
								}
							}
						}
					}
				}
			}
		}
		if os.Getenv("XZV_TRACE") != "" {
			fmt.Println("blockheader-sizes order", order, "flagOK", flagOK)
		}
		okOrder := len(order) == 2 && strings.HasPrefix(order[0], "c@") && strings.HasPrefix(order[1], "u@") && order[0][2:] < order[1][2:] || (len(order) == 2 && order[0][0] == 'c' && order[1][0] == 'u')
		r.Check(okOrder && flagOK["c"] && flagOK["u"], rule, "blockheader-sizes:"+FnName(fn), c.Pos(fn.Pos()), "flag 0x40 <-> compressed size (first), flag 0x80 <-> uncompressed size (second)",
			"blockHeader.MarshalBinary does not write compressed size (flag 0x40) before uncompressed size (flag 0x80)")
	}
	// index: all parts go through the CRC'd multi-writer, the CRC itself to the plain writer; record order
	if fn := c.Func("", "writeIndex"); fn != nil {
		c.curRoot, c.bindParam = fn, nil // shared helpers are looked at through this function
		// on every successful path: data writes go to the CRC'd multi-writer, then the CRC is
		// taken, then exactly one write goes to the plain sink (the CRC); nothing else
		spec := SeqSpec{Fn: fn, NoMerge: true}
		spec.Event = func(w *Walker, p *PState, ins ssa.Instruction) string {
			call, isC := ins.(*ssa.Call)
			if !isC {
				return ""
			}
			if !call.Call.IsInvoke() {
				// a running CRC kept by hand: crc = crc32.Update(crc, crc32.IEEETable, p) next to the write of p
				if stdCalleeName(call) == "hash/crc32.Update" && len(call.Call.Args) == 3 {
					if ld, isLd := call.Call.Args[1].(*ssa.UnOp); isLd {
						if g, isG := ld.X.(*ssa.Global); isG && g.Name() == "IEEETable" {
							return "upd"
						}
					}
					return "other"
				}
				if call.Call.StaticCallee() == putLE32 {
					return "put"
				}
				return ""
			}
			switch call.Call.Method.Name() {
			case "Sum32":
				return "sum"
			case "Write":
				switch rv := p.Resolve(call.Call.Value).(type) {
				case *ssa.Parameter:
					if rv == fn.Params[0] {
						return "w"
					}
				case *ssa.Call:
					if stdCalleeName(rv) == "io.MultiWriter" {
						return "mw"
					}
				}
				return "other"
			}
			return ""
		}
		paths, over := CollectPaths(c, spec)
		okOrder, nOK, mwWrites, wWrites := !over, 0, 0, 0
		for _, sp := range paths {
			// normal form of the event word: a plain write directly followed by the CRC update of the same
			// call is a write through the CRC ("mw"); without a hash object the CRC is taken where it is encoded
			var l []string
			raw := sp.Labels()
			for i := 0; i < len(raw); i++ {
				switch {
				case raw[i] == "w" && i+1 < len(raw) && raw[i+1] == "upd":
					l = append(l, "mw")
					i++
				case raw[i] == "upd":
					l = append(l, "other")
				default:
					l = append(l, raw[i])
				}
			}
			hasSum := false
			for _, x := range l {
				if x == "sum" {
					hasSum = true
				}
			}
			var l2 []string
			for _, x := range l {
				if x == "put" {
					if !hasSum {
						l2 = append(l2, "sum")
						hasSum = true
					}
					continue
				}
				l2 = append(l2, x)
			}
			l = l2
			is, nsum := -1, 0
			for i, x := range l {
				if x == "sum" {
					if is < 0 {
						is = i
					}
					nsum++
				}
			}
			if sp.ErrNonNil && is < 0 {
				continue // an early error return
			}
			nOK++
			if is < 0 || nsum != 1 {
				okOrder = false
				continue
			}
			for k, x := range l {
				switch {
				case x == "other":
					okOrder = false
				case x == "mw" && k > is, x == "w" && k < is:
					okOrder = false
				}
			}
			mwWrites, wWrites = 0, 0
			for _, x := range l {
				if x == "mw" {
					mwWrites++
				}
				if x == "w" {
					wWrites++
				}
			}
			if mwWrites < 3 || wWrites != 1 {
				okOrder = false
			}
		}
		// the index assembled in memory: the only write hands crcAppend(padAppend(p), 0) to the sink
		inMemory, inMemoryPad := false, false
		if !(okOrder && nOK > 0) {
			var writes []*ssa.Call
			for _, b := range theCtx.GB(fn) {
				for _, ins := range b.Instrs {
					if call, isC := ins.(*ssa.Call); isC && call.Call.IsInvoke() && call.Call.Method.Name() == "Write" {
						writes = append(writes, call)
					}
				}
			}
			if len(writes) == 1 && writes[0].Call.Value == ssa.Value(fn.Params[0]) {
				if buf, isApp := crcAppendedResult(c, writes[0].Call.Args[0]); isApp {
					inMemory = true
					if pc, isC := stripConvNoLook(buf).(*ssa.Call); isC && pc.Call.StaticCallee() != nil && padAppender(c, pc.Call.StaticCallee()) {
						inMemoryPad = true
					}
				}
			}
		}
		r.Check((okOrder && nOK > 0) || inMemory, rule, "index-crc:"+FnName(fn), c.Pos(fn.Pos()),
			"indicator, count, records and padding go through the CRC32 multi-writer; the CRC is taken afterwards and written to the plain sink",
			fmt.Sprintf("writeIndex: on a successful path %d writes go through the CRC multi-writer (want >= 3: indicator, count, padding, plus one per record) and %d to the plain sink (want 1: the CRC), in the order multi-writer* . Sum32 . plain", mwWrites, wWrites))
		// padding = padLen(n)
		padLen := c.Func("", "padLen")
		okPad := false
		for _, b := range theCtx.GB(fn) {
			for _, ins := range b.Instrs {
				if ms, isM := ins.(*ssa.MakeSlice); isM {
					if pc, isP := stripConv(ms.Len).(*ssa.Call); isP && pc.Call.StaticCallee() == padLen {
						okPad = true
					}
				}
			}
		}
		r.Check(okPad || inMemoryPad, rule, "index-padding:"+FnName(fn), c.Pos(fn.Pos()), "index padding = padLen(bytes so far)", "writeIndex does not pad the index with padLen(n) zero bytes")
	}
	if fn := c.Func("", "record.MarshalBinary"); fn != nil {
		c.curRoot, c.bindParam = fn, nil // shared helpers are looked at through this function
		fUp, fUn := c.Field("", "record.unpaddedSize"), c.Field("", "record.uncompressedSize")
		var seq []string
		for _, b := range theCtx.GB(fn) {
			for _, ins := range b.Instrs {
				if call, isC := ins.(*ssa.Call); isC && call.Call.StaticCallee() != nil && varintEncoders[call.Call.StaticCallee()] && len(call.Call.Args) == 2 {
					switch {
					case roleFieldLoad(fUp)(call.Call.Args[1]):
						seq = append(seq, "unpadded")
					case roleFieldLoad(fUn)(call.Call.Args[1]):
						seq = append(seq, "uncompressed")
					}
				}
			}
		}
		okW := eqLabels(seq, []string{"unpadded", "uncompressed"})
		// reader side: first uvarint -> unpaddedSize, second -> uncompressedSize
		okR := false
		if rr := c.Func("", "readRecord"); rr != nil {
			var st []string
			for _, b := range theCtx.GB(rr) {
				for _, ins := range b.Instrs {
					if s, isSt := ins.(*ssa.Store); isSt {
						if fa, isFA := s.Addr.(*ssa.FieldAddr); isFA {
							st = append(st, refNameOf(fieldOfAddr(fa)))
						}
					}
				}
			}
			okR = eqLabels(st, []string{"unpaddedSize", "uncompressedSize"})
		}
		r.Check(okW && okR, rule, "record-order", c.Pos(fn.Pos()), "index record = unpadded size then uncompressed size, in writer and reader", "the index record fields are not (unpadded size, uncompressed size) in both record.MarshalBinary and readRecord")
	}
	// writer-side unpadded size and block trailer
	if fn := c.Func("", "blockWriter.unpaddedSize"); fn != nil {
		c.curRoot, c.bindParam = fn, nil // shared helpers are looked at through this function
		ruleUnpaddedSize(c, r, rule, fn, c.Field("", "blockWriter.headerLen"), c.Field("", "countingWriter.n"), c.Field("", "blockWriter.hash"))
	}
	if fn := c.Func("", "blockWriter.Close"); fn != nil {
		c.curRoot, c.bindParam = fn, nil // shared helpers are looked at through this function
		padLen := c.Func("", "padLen")
		fCWn := c.Field("", "countingWriter.n")
		okBuf, okSum := false, false
		var buf, trailerBuf ssa.Value
		for _, b := range theCtx.GB(fn) {
			for _, ins := range b.Instrs {
				if ms, isM := ins.(*ssa.MakeSlice); isM {
					// make([]byte, k+s) with k = padLen(cxz.n), s = hash.Size()
					if roleBinOp(token.ADD, roleCallTo(padLen, roleFieldLoad(fCWn)), func(v ssa.Value) bool {
						cl, ok := stripConv(v).(*ssa.Call)
						return ok && cl.Call.IsInvoke() && cl.Call.Method.Name() == "Size"
					})(ms.Len) {
						okBuf = true
						buf = ms
					}
				}
				// the append idiom: w.Write(hash.Sum(make([]byte, k, k+s))) with k = padLen(cxz.n)
				if call, isC := ins.(*ssa.Call); isC && call.Call.IsInvoke() && call.Call.Method.Name() == "Sum" {
					if ms, isM := stripConv(call.Call.Args[0]).(*ssa.MakeSlice); isM && roleCallTo(padLen, roleFieldLoad(fCWn))(ms.Len) && call.Referrers() != nil {
						for _, ref := range *call.Referrers() {
							if wc, isW := ref.(*ssa.Call); isW && wc.Call.IsInvoke() && wc.Call.Method.Name() == "Write" && len(wc.Call.Args) == 1 && wc.Call.Args[0] == ssa.Value(call) {
								okBuf, okSum = true, true
								trailerBuf = call
							}
						}
					}
				}
				if call, isC := ins.(*ssa.Call); isC && call.Call.IsInvoke() && call.Call.Method.Name() == "Sum" && buf != nil {
					// Sum(p[k:k]) appends the check behind the padding
					if sl, isS := call.Call.Args[0].(*ssa.Slice); isS && sl.X == buf && sl.Low != nil && sl.High != nil && sameValDeep(sl.Low, sl.High) {
						if pc, isP := stripConv(sl.Low).(*ssa.Call); isP && pc.Call.StaticCallee() == padLen {
							okSum = true
						}
					}
				}
			}
		}
		r.Check(okBuf && okSum, rule, "block-trailer:"+FnName(fn), c.Pos(fn.Pos()), "block trailer = padLen(compressed size) zero bytes followed by the check value",
			"blockWriter.Close does not write padLen(compressed size) zero bytes followed by hash.Sum as the block trailer")
		// ... and no successful path of Close leaves the trailer out (the padding is due also when the check is empty)
		if okBuf && okSum {
			spec := SeqSpec{Fn: fn, NoMerge: true}
			spec.Event = func(w *Walker, p *PState, ins ssa.Instruction) string {
				call, isC := ins.(*ssa.Call)
				if !isC || !call.Call.IsInvoke() || call.Call.Method.Name() != "Write" || len(call.Call.Args) != 1 {
					return ""
				}
				a := stripConv(call.Call.Args[0])
				if a == trailerBuf || (buf != nil && a == buf) {
					return "trailer"
				}
				return ""
			}
			paths, over := CollectPaths(c, spec)
			bad := ""
			nOK := 0
			for _, sp := range paths {
				if sp.Panic || sp.ErrNonNil || sp.ErrGlobal != nil {
					continue
				}
				nOK++
				if !sp.Has("trailer") {
					bad = "blockWriter.Close returns without an error at " + c.InstrPos(sp.Exit) + " on a path that does not write the block trailer: the padding of the block (and its check) is missing from the stream"
				}
			}
			if over {
				r.Undecided(rule, "block-trailer-always:"+FnName(fn), c.Pos(fn.Pos()), "too many paths")
			} else {
				r.Check(bad == "" && nOK > 0, rule, "block-trailer-always:"+FnName(fn), c.Pos(fn.Pos()), "every successful path of Close writes the trailer", bad)
			}
		}
	}
	r.Floor(rule, 14)
}

func sameValDeep(a, b ssa.Value) bool {
	if a == nil || b == nil {
		return false
	}
	a, b = stripConv(a), stripConv(b)
	if a == b || sameVal(a, b) {
		return true
	}
	switch x := a.(type) {
	case *ssa.BinOp:
		y, ok := b.(*ssa.BinOp)
		return ok && x.Op == y.Op && sameValDeep(x.X, y.X) && sameValDeep(x.Y, y.Y)
	case *ssa.Const:
		y, ok := b.(*ssa.Const)
		return ok && x.Value != nil && y.Value != nil && x.Value.ExactString() == y.Value.ExactString()
	case *ssa.Call:
		y, ok := b.(*ssa.Call)
		if !ok {
			return false
		}
		bx, ok1 := x.Call.Value.(*ssa.Builtin)
		by, ok2 := y.Call.Value.(*ssa.Builtin)
		return ok1 && ok2 && bx.Name() == by.Name() && bx.Name() == "len" && sameValDeep(x.Call.Args[0], y.Call.Args[0])
	}
	return false
}

// lenBeforeAppend4: n is len(prev) and root is append(prev, <four bytes>): n = len(root) - 4.
func lenBeforeAppend4(n, root ssa.Value) bool {
	lc, ok := stripConvNoLook(n).(*ssa.Call)
	if !ok {
		return false
	}
	if bi, isB := lc.Call.Value.(*ssa.Builtin); !isB || bi.Name() != "len" {
		return false
	}
	ac, ok := stripConvNoLook(root).(*ssa.Call)
	if !ok {
		return false
	}
	if bi, isB := ac.Call.Value.(*ssa.Builtin); !isB || bi.Name() != "append" || len(ac.Call.Args) != 2 {
		return false
	}
	if !sameValDeep(ac.Call.Args[0], lc.Call.Args[0]) {
		return false
	}
	// the appended elements: a varargs array of 4
	sl, ok := ac.Call.Args[1].(*ssa.Slice)
	if !ok {
		return false
	}
	al, ok := sl.X.(*ssa.Alloc)
	if !ok {
		return false
	}
	at, ok := al.Type().(*types.Pointer).Elem().Underlying().(*types.Array)
	return ok && at.Len() == 4 && sl.Low == nil && sl.High == nil
}

// crcAppender: fn(p []byte[, start int]) []byte appends the little-endian CRC-32 of p[start:] to p
// (decided by evaluating it on small byte strings). Returns the index of the start parameter (-1: none).
func crcAppender(c *Ctx, fn *ssa.Function) (startIdx int, ok bool) {
	if fn == nil || fn.Blocks == nil || fn.Signature.Recv() != nil || fn.Signature.Results().Len() != 1 || len(fn.Params) < 1 || len(fn.Params) > 2 {
		return 0, false
	}
	if _, isSl := fn.Params[0].Type().Underlying().(*types.Slice); !isSl {
		return 0, false
	}
	if _, isSl := fn.Signature.Results().At(0).Type().Underlying().(*types.Slice); !isSl {
		return 0, false
	}
	startIdx = -1
	if len(fn.Params) == 2 {
		if !isIntegerType(fn.Params[1].Type()) {
			return 0, false
		}
		startIdx = 1
	}
	uses := false
	for _, b := range fn.Blocks {
		for _, ins := range b.Instrs {
			if call, isC := ins.(*ssa.Call); isC && strings.HasPrefix(stdCalleeName(call), "hash/crc32.") {
				uses = true
			}
		}
	}
	if !uses {
		return 0, false
	}
	for _, tc := range []struct {
		p     []byte
		start int
	}{{[]byte{1, 2, 3}, 0}, {[]byte{9, 1, 2, 3, 250}, 1}, {[]byte{}, 0}, {[]byte{0, 0, 0, 0, 7}, 0}} {
		if startIdx < 0 && tc.start != 0 {
			continue
		}
		in := NewInterp(c)
		args := []aval{byteSlice(tc.p)}
		if startIdx >= 0 {
			args = append(args, aInt(int64(tc.start), fn.Params[1].Type()))
		}
		res := in.Call(fn, args)
		if !res.OK || res.Panicked || len(res.Rets) != 1 {
			return 0, false
		}
		got, okB := sliceBytes(res.Rets[0])
		if !okB || len(got) != len(tc.p)+4 {
			return 0, false
		}
		sum := crc32.ChecksumIEEE(tc.p[tc.start:])
		for i := range tc.p {
			if got[i] != int64(tc.p[i]) {
				return 0, false
			}
		}
		for i := 0; i < 4; i++ {
			if got[len(tc.p)+i] != int64(sum>>(8*uint(i))&0xff) {
				return 0, false
			}
		}
	}
	return startIdx, true
}

// padAppender: fn(p []byte) []byte appends zero bytes up to the next multiple of four (by evaluation).
func padAppender(c *Ctx, fn *ssa.Function) bool {
	if fn == nil || fn.Blocks == nil || fn.Signature.Recv() != nil || fn.Signature.Results().Len() != 1 || len(fn.Params) != 1 {
		return false
	}
	if _, isSl := fn.Params[0].Type().Underlying().(*types.Slice); !isSl {
		return false
	}
	for n := 0; n < 9; n++ {
		p := make([]byte, n)
		for i := range p {
			p[i] = byte(i + 1)
		}
		in := NewInterp(c)
		res := in.Call(fn, []aval{byteSlice(p)})
		if !res.OK || res.Panicked || len(res.Rets) != 1 {
			return false
		}
		got, okB := sliceBytes(res.Rets[0])
		want := (n + 3) / 4 * 4
		if !okB || len(got) != want {
			return false
		}
		for i := range got {
			if (i < n && got[i] != int64(p[i])) || (i >= n && got[i] != 0) {
				return false
			}
		}
	}
	return true
}

// crcAppendedResult: v is the result of a call to a crcAppender over the whole buffer (start 0);
// returns the buffer argument.
func crcAppendedResult(c *Ctx, v ssa.Value) (ssa.Value, bool) {
	call, ok := stripConvNoLook(v).(*ssa.Call)
	if !ok {
		return nil, false
	}
	h := call.Call.StaticCallee()
	if h == nil || !c.IsNew(h) {
		return nil, false
	}
	si, isApp := crcAppender(c, h)
	if !isApp {
		return nil, false
	}
	if si >= 0 {
		if k, isK := constInt(call.Call.Args[si]); !isK || k != 0 {
			return nil, false
		}
	}
	return call.Call.Args[0], true
}

package main

// temporary stubs, replaced as the engines are implemented

func ruleLenObligations(c *Ctx, r *Report) {}
func ruleWPub(c *Ctx, r *Report)           {}

func rulePanicCensus(c *Ctx, r *Report, roots interface{}, which string) {}

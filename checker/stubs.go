package main

// temporary stubs, replaced as the engines are implemented

func ruleLenObligations(c *Ctx, r *Report) {}

package main

import (
	"fmt"
	"go/token"
	"go/types"
	"strings"

	"golang.org/x/tools/go/ssa"
)

// ---- CE-LZMA-VERIFY: the classic writer admits every property triple of the format ----
// WriterConfig.Verify (classic .lzma) returns nil for lc 0..8, lp 0..4, pb 0..4 - the lc+lp <= 4
// restriction belongs to LZMA2 (OB-LCLP) only. Finite-domain evaluation of Properties.verify, which
// WriterConfig.Verify delegates to, plus: no comparison of LC+LP in the classic Verify itself.
func ruleClassicVerify(c *Ctx, r *Report, prefix string) {
	rule := prefix + "CE-LZMA-VERIFY"
	pv := c.Func("lzma", "Properties.verify")
	wv := c.Func("lzma", "WriterConfig.Verify")
	pt := c.Type("lzma", "Properties")
	fLC, fLP := c.Field("lzma", "Properties.LC"), c.Field("lzma", "Properties.LP")
	if pv == nil || wv == nil || pt == nil || fLC == nil || fLP == nil {
		return
	}
	bad, n := "", 0
	iLC, iLP, iPB := fieldIndex(pt, "LC"), fieldIndex(pt, "LP"), fieldIndex(pt, "PB")
	for lc := int64(0); lc <= 9 && bad == ""; lc++ {
		for lp := int64(0); lp <= 5 && bad == ""; lp++ {
			for pb := int64(0); pb <= 5; pb++ {
				in := NewInterp(c)
				cl := in.newCellOf(pt)
				cl.field(iLC).v = aInt(lc, types.Typ[types.Int])
				cl.field(iLP).v = aInt(lp, types.Typ[types.Int])
				cl.field(iPB).v = aInt(pb, types.Typ[types.Int])
				var arg aval
				if _, isPtr := pv.Params[0].Type().Underlying().(*types.Pointer); isPtr {
					arg = aval{k: kPtr, cell: cl}
				} else {
					arg = in.loadCell(cl, pt)
				}
				res := in.Call(pv, []aval{arg})
				n++
				if !res.OK || res.Panicked || len(res.Rets) != 1 {
					bad = fmt.Sprintf("cannot evaluate Properties.verify{%d %d %d}: %s", lc, lp, pb, in.Undecided)
					break
				}
				isNil := res.Rets[0].k == kNil
				want := lc <= 8 && lp <= 4 && pb <= 4
				if isNil != want {
					bad = fmt.Sprintf("Properties{LC:%d LP:%d PB:%d}.verify() accepts=%v, the format admits it: %v", lc, lp, pb, isNil, want)
					break
				}
			}
		}
	}
	r.Check(bad == "", rule, "Properties.verify", c.Pos(pv.Pos()), fmt.Sprintf("accepts exactly lc<=8, lp<=4, pb<=4 (%d triples)", n), bad)
	// the classic Verify does not restrict the sum of lc and lp
	sum := ""
	for _, b := range c.GB(wv) {
		for _, ins := range b.Instrs {
			bo, ok := ins.(*ssa.BinOp)
			if !ok || bo.Op != token.ADD {
				continue
			}
			if (isFieldLoadOf(stripConv(bo.X), fLC) && isFieldLoadOf(stripConv(bo.Y), fLP)) || (isFieldLoadOf(stripConv(bo.X), fLP) && isFieldLoadOf(stripConv(bo.Y), fLC)) {
				sum = c.InstrPos(ins)
			}
		}
	}
	r.Check(sum == "", rule, FnName(wv), c.Pos(wv.Pos()), "the classic WriterConfig.Verify puts no condition on lc+lp",
		"WriterConfig.Verify of the classic .lzma writer tests lc+lp at "+sum+": the restriction lc+lp <= 4 exists in LZMA2 only, valid .lzma configurations (lc up to 8) would be refused")
}

// ---- OB-EOS-DIST: the end marker is recognised by its distance alone ----
func ruleEOSTest(c *Ctx, r *Report, prefix string) {
	rule := prefix + "OB-EOS-DIST"
	fn := c.Func("lzma", "decoder.readOp")
	errEOS := c.Global("lzma", "errEOS")
	if fn == nil || errEOS == nil {
		return
	}
	ok, why := false, "no test of the distance against 0xffffffff guards the return of errEOS"
	for _, b := range c.GB(fn) {
		if len(b.Instrs) == 0 || len(b.Succs) != 2 {
			continue
		}
		iff, isIf := b.Instrs[len(b.Instrs)-1].(*ssa.If)
		if !isIf {
			continue
		}
		// does the true edge return errEOS?
		retEOS := false
		for _, ins := range b.Succs[0].Instrs {
			if ret, isR := ins.(*ssa.Return); isR && len(ret.Results) == 2 {
				if u, isU := ret.Results[1].(*ssa.UnOp); isU && u.X == ssa.Value(errEOS) {
					retEOS = true
				}
			}
		}
		if !retEOS {
			continue
		}
		bo, isB := iff.Cond.(*ssa.BinOp)
		if !isB || bo.Op != token.EQL {
			why = "the condition that leads to errEOS at " + c.InstrPos(iff) + " is not a single equality of the distance with the marker value"
			continue
		}
		isMarker := func(v ssa.Value) bool {
			k, isK := v.(*ssa.Const)
			return isK && k.Value != nil && (k.Value.ExactString() == "4294967295" || k.Value.ExactString() == "4294967296")
		}
		other := bo.X
		if isMarker(bo.X) {
			other = bo.Y
		} else if !isMarker(bo.Y) {
			why = "the condition that leads to errEOS at " + c.InstrPos(iff) + " does not compare with 0xffffffff (distance of the end marker)"
			continue
		}
		if _, isStruct := other.Type().Underlying().(*types.Struct); isStruct {
			why = "the end marker is recognised by comparing a whole operation: its length field takes part, a marker of another length is not recognised"
			continue
		}
		ok = true
	}
	r.Check(ok, rule, FnName(fn), c.Pos(fn.Pos()), "errEOS is returned exactly when the decoded distance is 0xffffffff, whatever the length", why+" (the format defines the end marker by its distance only)")
}

// ---- SEQ-R2-EOF: Reader2.Read never hands out the end of a chunk as its own end ----
func ruleReader2ChunkEOF(c *Ctx, r *Report, prefix string) {
	rule := prefix + "SEQ-R2-EOF"
	fn := c.Func("lzma", "Reader2.Read")
	fCR := c.Field("lzma", "Reader2.chunkReader")
	if fn == nil || fCR == nil {
		return
	}
	var last *ssa.Call
	spec := SeqSpec{Fn: fn, NoMerge: true}
	spec.Event = func(w *Walker, p *PState, ins ssa.Instruction) string {
		if call, ok := ins.(*ssa.Call); ok && call.Call.IsInvoke() && call.Call.Method.Name() == "Read" && isFieldLoadOf(stripConv(call.Call.Value), fCR) {
			last = call
			return "chunk.Read"
		}
		return ""
	}
	paths, over := CollectPaths(c, spec)
	if over {
		r.Undecided(rule, FnName(fn), c.Pos(fn.Pos()), "path budget exceeded")
		return
	}
	bad := ""
	n := 0
	for _, sp := range paths {
		if last == nil || !sp.Has("chunk.Read") || len(sp.Rets) != 2 {
			continue
		}
		n++
		ev := errValueOfCall(last)
		if ev == nil {
			continue
		}
		ret := sp.P.Resolve(sp.Rets[1])
		if ret == sp.P.Resolve(ev) {
			// the chunk reader's own error is returned: it must be known not to be io.EOF
			if g := sp.P.EqGlobal(ret); g != nil && isEOF(g) {
				bad = "Reader2.Read returns the io.EOF of the chunk reader itself: the end of one chunk would end the whole chunk sequence (the next chunk header is never read)"
			} else if !sp.P.NeEOF(ret) && !sp.P.IsNil(ret) {
				bad = "Reader2.Read can return the chunk reader's error without having excluded io.EOF: the end of one chunk (0, io.EOF) would end the whole chunk sequence"
			}
		}
	}
	r.Check(bad == "" && n > 0, rule, FnName(fn), c.Pos(fn.Pos()), "an io.EOF of the chunk reader always leads to startChunk, never to a return", bad)
}

// NeEOF: the value is known to differ from io.EOF on this path.
func (p *PState) NeEOF(v ssa.Value) bool {
	f := p.facts[p.Resolve(v)]
	for _, g := range f.ne {
		if isEOF(g) {
			return true
		}
	}
	if f.eq != nil && !isEOF(f.eq) {
		return true
	}
	return false
}

// ---- WR-BLOCK-SOURCE: padding and check are read from the very reader the block data came from ----
func ruleBlockSource(c *Ctx, r *Report, prefix string) {
	rule := prefix + "WR-BLOCK-SOURCE"
	fn := c.Func("", "ReaderConfig.newBlockReader")
	fR := c.Field("", "countingReader.r")
	if fn == nil || fR == nil {
		return
	}
	var xz *ssa.Parameter
	for _, p := range fn.Params {
		if isRefParam(p, "xz") {
			xz = p
		}
	}
	n, bad := 0, ""
	for _, b := range c.GB(fn) {
		for _, ins := range b.Instrs {
			if st, ok := storeToField(ins, fR); ok {
				n++
				if xz == nil || stripConv(st.Val) != ssa.Value(xz) {
					bad = "the block's counting reader does not read from the stream reader itself (" + st.Val.Name() + " at " + c.InstrPos(ins) + "): blockReader.Read also takes padding and check from it, a limited or wrapped reader ends before them"
				}
			}
		}
	}
	r.Check(bad == "" && n >= 1, rule, FnName(fn), c.Pos(fn.Pos()), "countingReader.r of the block is the stream's reader (parameter xz)", bad)
}

// ---- SEQ-W2-SPLIT: how Writer2.Write cuts a payload into chunk budgets ----
// q = p[n : n+m] (or p[n:]) with m = maxUncompressed - written(); a chunk is flushed when the encoder
// reports ErrLimit or the budget m is used up (k == m) - not after every call.
func ruleWriter2Split(c *Ctx, r *Report, prefix string) {
	rule := prefix + "SEQ-W2-SPLIT"
	fn := c.Func("lzma", "Writer2.Write")
	written := c.Func("lzma", "Writer2.written")
	flush := c.Func("lzma", "Writer2.flushChunk")
	encWrite := c.Func("lzma", "encoder.Write")
	if fn == nil || written == nil || flush == nil || encWrite == nil {
		return
	}
	isBudget := func(v ssa.Value) bool {
		bo, ok := stripConv(v).(*ssa.BinOp)
		if !ok || bo.Op != token.SUB {
			return false
		}
		cl, isC := stripConv(bo.Y).(*ssa.Call)
		_, isK := constInt(stripConv(bo.X))
		return isK && isC && cl.Call.StaticCallee() == written
	}
	pParam := fn.Params[1]
	okSlice, nSlice, badSlice := true, 0, ""
	var kVal ssa.Value
	for _, b := range c.GB(fn) {
		for _, ins := range b.Instrs {
			if sl, ok := ins.(*ssa.Slice); ok && stripConv(sl.X) == ssa.Value(pParam) && sl.High != nil {
				nSlice++
				// high = low + budget, possibly clamped to len(p) (a phi of the two)
				var highOK func(v ssa.Value, depth int) bool
				highOK = func(v ssa.Value, depth int) bool {
					v = stripConv(v)
					if depth > 4 || sl.Low == nil {
						return false
					}
					switch x := v.(type) {
					case *ssa.BinOp:
						return x.Op == token.ADD && ((x.X == sl.Low && isBudget(x.Y)) || (x.Y == sl.Low && isBudget(x.X)))
					case *ssa.Call:
						if bi, isB := x.Call.Value.(*ssa.Builtin); isB && bi.Name() == "len" {
							return stripConv(x.Call.Args[0]) == ssa.Value(pParam)
						}
					case *ssa.Phi:
						for _, e := range x.Edges {
							if !highOK(e, depth+1) {
								return false
							}
						}
						return len(x.Edges) > 0
					}
					return false
				}
				good := highOK(sl.High, 0)
				if !good {
					okSlice = false
					badSlice = "the part of p handed to the encoder at " + c.InstrPos(ins) + " is not p[n : n+m] with m = maxUncompressed - written(): from the second chunk of one Write on the bounds are wrong"
				}
			}
			if call, ok := callTo(ins, encWrite); ok && call.Referrers() != nil {
				for _, ref := range *call.Referrers() {
					if ex, isE := ref.(*ssa.Extract); isE && ex.Index == 0 {
						kVal = ex
					}
				}
			}
		}
	}
	if !(okSlice && nSlice >= 1) || kVal == nil {
		// the flag form: a helper cuts the segment and says whether the chunk is full; decided per path
		if ok, why, n := writer2SplitByPaths(c, fn, encWrite, flush, isBudget); ok {
			r.Pass(rule, FnName(fn)+":slice", c.Pos(fn.Pos()), "on every path the segment handed to the encoder is p[..:budget] or shorter than the budget", n)
			r.Pass(rule, FnName(fn)+":flush", c.Pos(fn.Pos()), "on every path a segment that fills the budget is followed by flushChunk", n)
			return
		} else if why != "" {
			badSlice = why
		}
	}
	r.Check(okSlice && nSlice >= 1, rule, FnName(fn)+":slice", c.Pos(fn.Pos()), "p is cut as p[n : n+m], m the remaining chunk budget", badSlice)
	// the flush condition
	okFlush, why := false, "no comparison k == m (budget used up) guards flushChunk"
	for _, b := range c.GB(fn) {
		for _, ins := range b.Instrs {
			bo, ok := ins.(*ssa.BinOp)
			if !ok || bo.Op != token.EQL || kVal == nil {
				continue
			}
			var other ssa.Value
			if bo.X == kVal {
				other = bo.Y
			} else if bo.Y == kVal {
				other = bo.X
			} else {
				continue
			}
			if isBudget(other) {
				okFlush = true
			} else {
				why = "the number of bytes the encoder took is compared with " + other.Name() + " at " + c.InstrPos(ins) + ", not with the chunk budget m: the chunk would be closed after every Write call (or never)"
			}
		}
	}
	r.Check(okFlush, rule, FnName(fn)+":flush", c.Pos(fn.Pos()), "a chunk is flushed on ErrLimit or when k == m", why)
}

// ---- WMW-PROPS: a configuration's Properties are not rewritten behind the caller's back ----
func rulePropsWriters(c *Ctx, r *Report, prefix string) {
	rule := prefix + "WMW-PROPS"
	pt := c.Type("lzma", "Properties")
	if pt == nil {
		return
	}
	bad := ""
	n := 0
	for _, fn := range c.modFuncs {
		if fn.Blocks == nil || pkgPathOf(fn) != full("lzma") && pkgPathOf(fn) != full("") {
			continue
		}
		for _, b := range fn.Blocks {
			for _, ins := range b.Instrs {
				st, ok := ins.(*ssa.Store)
				if !ok {
					continue
				}
				fa, isFA := st.Addr.(*ssa.FieldAddr)
				if !isFA {
					continue
				}
				ptr, isP := fa.X.Type().Underlying().(*types.Pointer)
				if !isP || !types.Identical(ptr.Elem(), pt) {
					continue
				}
				n++
				// allowed: the object was allocated in this function (a fresh value being filled)
				base := fa.X
				if _, isAlloc := base.(*ssa.Alloc); isAlloc {
					continue
				}
				bad = fmt.Sprintf("%s stores into a Properties value it did not create at %s: configurations hold *Properties, so the caller's (possibly shared) value is changed", FnName(fn), c.InstrPos(ins))
			}
		}
	}
	r.Check(bad == "", rule, "lzma.Properties", c.Pos(pt.(*types.Named).Obj().Pos()), fmt.Sprintf("fields of Properties are stored only into freshly allocated values (%d stores)", n), bad)
}

// writer2SplitByPaths decides SEQ-W2-SPLIT when the segment and the "chunk is full" decision are made
// in another shape than `q = p[n:n+m] ... k == m`. Along every path of Writer2.Write (new helpers
// inlined) each call of encoder.Write gets a segment q that is
//
//	exact:  a slice whose upper bound is (low +) budget, budget = maxUncompressed - written(): it
//	        fills the chunk, so flushChunk must follow before the next encoder.Write or a return
//	        without error;
//	short:  a value whose length the path has compared strictly below the budget: no flush needed.
//
// Any other segment (length only known to be <= budget, or unrelated to it) is not accepted here.
func writer2SplitByPaths(c *Ctx, fn, encWrite, flush *ssa.Function, isBudget func(ssa.Value) bool) (ok bool, why string, n int) {
	type ev struct {
		kind string // "exact", "short", "flush"
		pos  string
	}
	ok = true
	w := &Walker{C: c, Fn: fn, MaxSteps: 400000}
	w.Instr = func(p *PState, ins ssa.Instruction) bool {
		st := p.U.(*w2State)
		if _, isF := callTo(ins, flush); isF {
			st.evs = append(st.evs, "flush")
			return true
		}
		call, isW := callTo(ins, encWrite)
		if !isW || len(call.Call.Args) < 2 {
			return true
		}
		q := p.Resolve(call.Call.Args[1])
		kind := ""
		if sl, isSl := q.(*ssa.Slice); isSl && sl.High != nil {
			h := p.Resolve(sl.High)
			switch {
			case sl.Low == nil && isBudget(h):
				kind = "exact"
			default:
				if bo, isB := h.(*ssa.BinOp); isB && bo.Op == token.ADD && sl.Low != nil {
					lo := p.Resolve(sl.Low)
					if (p.Resolve(bo.X) == lo && isBudget(p.Resolve(bo.Y))) || (p.Resolve(bo.Y) == lo && isBudget(p.Resolve(bo.X))) {
						kind = "exact"
					}
				}
			}
		}
		if kind == "" {
			for _, rl := range p.rels {
				x, y, op := rl.X, rl.Y, rl.Op
				if op == token.GTR {
					x, y, op = y, x, token.LSS
				}
				if op != token.LSS || !isBudget(p.Resolve(y)) {
					continue
				}
				if lc, isC := x.(*ssa.Call); isC {
					if bi, isB := lc.Call.Value.(*ssa.Builtin); isB && bi.Name() == "len" && p.Resolve(lc.Call.Args[0]) == q {
						kind = "short"
					}
				}
			}
		}
		if kind == "" {
			kind = "other@" + c.InstrPos(ins)
		}
		st.evs = append(st.evs, kind)
		return true
	}
	w.Exit = func(p *PState, ins ssa.Instruction) {
		n++
		st := p.U.(*w2State)
		retOK := false
		if ret, isRet := ins.(*ssa.Return); isRet {
			for _, rv := range ret.Results {
				if isErrType(rv.Type()) && !p.NonNil(rv) {
					retOK = true
				}
			}
		}
		for i, e := range st.evs {
			switch {
			case strings.HasPrefix(e, "other@"):
				ok = false
				why = "the segment handed to the encoder at " + strings.TrimPrefix(e, "other@") + " is neither p[..:budget] nor compared strictly below the chunk budget maxUncompressed - written() on the path: a chunk can exceed its budget, or be filled exactly without being terminated"
			case e == "exact":
				next := ""
				if i+1 < len(st.evs) {
					next = st.evs[i+1]
				}
				if next != "flush" && (next != "" || retOK) {
					ok = false
					why = "a segment that fills the chunk budget exactly is not followed by flushChunk: the next Write finds no room left in the chunk"
				}
			}
		}
	}
	w.Revisit = func(p *PState, b *ssa.BasicBlock) {}
	w.Run(&w2State{})
	if w.Overflow {
		return false, "path budget exceeded", n
	}
	if n == 0 {
		return false, "", 0
	}
	return ok, why, n
}

type w2State struct{ evs []string }

func (s *w2State) Clone() UserState { return &w2State{evs: append([]string(nil), s.evs...)} }

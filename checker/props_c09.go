package main

func init() {
	register(&propCheck{
		id: "C09",
		explain: "Structural clause of C09 decided for every I/O origin (sink write, source read; enumerated per run) in the cones of " +
			"all reader and writer entry points: on every path the error of the call is consumed (returned, wrapped, stored, passed on) " +
			"or the enclosing function returns a provably non-nil error; a failing source read in the library returns that error or a " +
			"wrapper unless an unrelated condition decided (EF-IO); never a clean EOF (EF-EOF); fallible non-I/O results are not dropped " +
			"(EF-DROP); explicit panics reachable from the writer API are discharged (PN); Writer.bw is published only after the block " +
			"header was written (SEQ-W-PUB). NOT decided: implicit panics (index/nil) after a fault; that a complete valid stream was accepted.",
		run: func(c *Ctx, r *Report) {
			cone := unionCones(readerCone(c), writerCone(c))
			ruleIO(c, r, cone, "", true)
			ruleFlushFailStop(c, r, "")
			ruleDeferFlush(c, r, "", "", "lzma")
			r.Floor("EF-IO", 40)
			ruleEOF(c, r, readerAPI(c), readerCone(c), "")
			ruleWPub(c, r)
			rulePanicCensus(c, r, writerAPI(c), "writer")
			ruleNewAPI(c, r, true, true)
		},
	})
}

package main

// SEQ rules about Read schedules and sticky state (C13, C11) and about publishing the
// block writer (C09).

import (
	"fmt"
	"go/token"
	"go/types"
	"sort"
	"strings"

	"golang.org/x/tools/go/ssa"
)

// ruleWPub: Writer.bw is assigned only after writeHeader succeeded (SEQ-W-PUB).
func ruleWPub(c *Ctx, r *Report) {
	rule := "SEQ-W-PUB"
	fBW := c.Field("", "Writer.bw")
	writeHeader := c.Func("", "blockWriter.writeHeader")
	if fBW == nil || writeHeader == nil {
		return
	}
	n := 0
	for _, fn := range c.ModFuncs("") {
		has := false
		for _, b := range theCtx.GB(fn) {
			for _, ins := range b.Instrs {
				if _, ok := storeToField(ins, fBW); ok {
					has = true
				}
			}
		}
		if !has {
			continue
		}
		var whCall *ssa.Call
		spec := SeqSpec{Fn: fn}
		spec.Event = func(w *Walker, p *PState, ins ssa.Instruction) string {
			if call, ok := callTo(ins, writeHeader); ok {
				whCall = call
				return "writeHeader"
			}
			if _, ok := storeToField(ins, fBW); ok {
				return "bw="
			}
			return ""
		}
		paths, over := CollectPaths(c, spec)
		key := FnName(fn)
		if over {
			r.Undecided(rule, key, c.Pos(fn.Pos()), "path budget exceeded")
			continue
		}
		bad := false
		for _, sp := range paths {
			i := sp.Index("bw=")
			if i < 0 {
				continue
			}
			j := sp.Index("writeHeader")
			// at the time of the store the header write must have happened and succeeded:
			// the store comes after the call, and the call's error is nil on the path
			if j < 0 || j > i || whCall == nil || !sp.P.IsNil(whCall) {
				r.Fail(rule, key, c.InstrPos(sp.Events[i].Ins), "Writer.bw is assigned before (or without) the block header having been written successfully: after a failed header write a later Close reaches blockWriter.unpaddedSize and panics 'xz: block header not written'", sp.Trace...)
				bad = true
				break
			}
		}
		if !bad {
			n++
			r.Pass(rule, key, c.Pos(fn.Pos()), "every store to Writer.bw is preceded on its path by writeHeader() == nil", len(paths))
		}
	}
	r.Floor(rule, 1)
}

// ruleSticky: every possibly-non-nil error return of fn is preceded by a store of that
// error into the sticky field; an entry test returns the stored error.
func ruleSticky(c *Ctx, r *Report, prefix string, fn *ssa.Function, f *types.Var) {
	rule := prefix + "SEQ-STICKY"
	if fn == nil || f == nil {
		return
	}
	spec := SeqSpec{Fn: fn, NoMerge: true}
	stored := map[*PState][]ssa.Value{}
	_ = stored
	spec.Event = func(w *Walker, p *PState, ins ssa.Instruction) string {
		if st, ok := storeToField(ins, f); ok {
			return fmt.Sprintf("store:%p", p.Resolve(st.Val))
		}
		return ""
	}
	paths, over := CollectPaths(c, spec)
	key := FnName(fn)
	if over {
		r.Undecided(rule, key, c.Pos(fn.Pos()), "path budget exceeded")
		return
	}
	nErr := 0
	for _, sp := range paths {
		if sp.Panic || sp.ErrVal == nil || sp.ErrNil {
			continue
		}
		nErr++
		// returned value is a load of the sticky field (entry test) or equals a stored value
		if isFieldLoadOf(sp.ErrVal, f) {
			continue
		}
		want := fmt.Sprintf("store:%p", sp.ErrVal)
		if !sp.Has(want) {
			r.Fail(rule, key, c.InstrPos(sp.Exit), fmt.Sprintf("%s can return an error (possibly io.EOF) without recording it in the sticky field %s: a later Read would continue with a reader in an inconsistent state instead of reporting the same result again", FnName(fn), f.Name()), sp.Trace...)
			return
		}
	}
	// entry: if the field is set, it is returned without any effect
	okEntry := false
	b0 := fn.Blocks[0]
	if iff, ok := b0.Instrs[len(b0.Instrs)-1].(*ssa.If); ok {
		if bo, ok := iff.Cond.(*ssa.BinOp); ok && bo.Op == token.NEQ && isFieldLoadOf(bo.X, f) && isNilConst(bo.Y) {
			then := b0.Succs[0]
			if ret, ok := then.Instrs[len(then.Instrs)-1].(*ssa.Return); ok {
				for _, rv := range ret.Results {
					if isErrType(rv.Type()) && isFieldLoadOf(rv, f) {
						okEntry = true
					}
				}
			}
		}
	}
	if !okEntry {
		r.Fail(rule, key+":entry", c.Pos(fn.Pos()), FnName(fn)+" does not start by returning the recorded error when one is set")
		return
	}
	if nErr == 0 {
		r.Undecided(rule, key, c.Pos(fn.Pos()), "no error-returning path found")
		return
	}
	r.Pass(rule, key, c.Pos(fn.Pos()), fmt.Sprintf("all %d error-returning paths store the error in %s first; the entry test returns it", nErr, f.Name()), len(paths))
}

// ruleR0: end of stream / errors are reported only when something was requested: every
// possibly-non-nil error return lies on a path with a fact `x < len(p)`.
func ruleR0(c *Ctx, r *Report, prefix string, fn *ssa.Function, sticky *types.Var) {
	rule := prefix + "SEQ-R0"
	if fn == nil || len(fn.Params) < 2 {
		return
	}
	pParam := fn.Params[1]
	// p itself, or what is left of it (`p = p[k:]` in a loop: a phi of p and its suffixes)
	visiting := map[ssa.Value]bool{}
	var fromP func(v ssa.Value, depth int) bool
	fromP = func(v ssa.Value, depth int) bool {
		if v == ssa.Value(pParam) || visiting[v] {
			return true // (a loop-carried phi is what it is on all its other edges)
		}
		if depth > 6 {
			return false
		}
		switch x := v.(type) {
		case *ssa.Slice:
			return x.High == nil && fromP(x.X, depth+1)
		case *ssa.Phi:
			visiting[v] = true
			defer delete(visiting, v)
			for _, e := range x.Edges {
				if !fromP(e, depth+1) {
					return false
				}
			}
			return len(x.Edges) > 0
		}
		return false
	}
	isLenP := func(v ssa.Value) bool {
		call, ok := v.(*ssa.Call)
		if !ok {
			return false
		}
		b, ok := call.Call.Value.(*ssa.Builtin)
		return ok && b.Name() == "len" && fromP(call.Call.Args[0], 0)
	}
	paths, over := CollectPaths(c, SeqSpec{Fn: fn, NoMerge: true})
	key := FnName(fn)
	if over {
		r.Undecided(rule, key, c.Pos(fn.Pos()), "path budget exceeded")
		return
	}
	n := 0
	for _, sp := range paths {
		if sp.Panic || sp.ErrVal == nil || sp.ErrNil {
			continue
		}
		if sticky != nil && isFieldLoadOf(sp.ErrVal, sticky) {
			continue
		}
		// a forwarded result of another Read is judged there
		if ex, ok := sp.ErrVal.(*ssa.Extract); ok {
			if call, ok := ex.Tuple.(*ssa.Call); ok {
				if cal := call.Call.StaticCallee(); cal != nil && cal.Name() == "Read" && len(sp.Rets) == 2 {
					if ex0, ok := sp.Rets[0].(*ssa.Extract); ok && ex0.Tuple == call {
						continue
					}
				}
			}
		}
		n++
		found := false
		for _, rel := range sp.P.rels {
			if (isLenP(rel.Y) && (rel.Op == token.LSS)) || (isLenP(rel.X) && (rel.Op == token.GTR)) {
				found = true
			}
		}
		// len(p) compared with a constant: len(p) > 0 / != 0
		for v, f := range sp.P.facts {
			if isLenP(v) && (f.hasLo && f.lo >= 1) {
				found = true
			}
		}
		if !found {
			r.Fail(rule, key, c.InstrPos(sp.Exit), FnName(fn)+" can report an error / end of stream on a path that never established that the caller requested more than was delivered (no `n < len(p)` on the path): a zero-length Read could return io.EOF while data is still undelivered", sp.Trace...)
			return
		}
	}
	r.Pass(rule, key, c.Pos(fn.Pos()), fmt.Sprintf("all %d error-returning paths lie behind a `n < len(p)` edge", n), len(paths))
}

// ruleReadInvokes: the set of places that call Read on an io.Reader-typed value directly
// (where a short read must be tolerated) is frozen; fixed-size structures are read with
// io.ReadFull / io.CopyN.
func ruleReadInvokes(c *Ctx, r *Report, prefix string) {
	rule := prefix + "WMC-READ"
	allowed := map[string]string{
		"(*xz.countingReader).Read:countingReader.r": "forwards the caller's buffer and counts what was read",
		"(*xz.blockReader).Read:blockReader.r":       "the filter reader: delivers data to the caller, short reads are passed on",
		"(*lzma.breader).ReadByte:breader.Reader":    "one-byte adapter: n < 1 is handled",
		"(*lzma.Reader2).Read:Reader2.chunkReader":   "chunk reader: loops until the caller's buffer is full",
	}
	seen := map[string]bool{}
	for _, fn := range c.ModFuncs("", "lzma") {
		for _, b := range theCtx.GB(fn) {
			for _, ins := range b.Instrs {
				call, ok := ins.(*ssa.Call)
				if !ok || !call.Call.IsInvoke() || call.Call.Method.Name() != "Read" {
					continue
				}
				fld := "?"
				if u, ok := call.Call.Value.(*ssa.UnOp); ok {
					if fa, ok := u.X.(*ssa.FieldAddr); ok {
						fld = refNameOf(fieldOfAddr(fa))
						if pt, ok := fa.X.Type().Underlying().(*types.Pointer); ok {
							if nt, ok := pt.Elem().(*types.Named); ok {
								fld = refNameOf(nt.Obj()) + "." + fld
							}
						}
					}
				}
				key := FnName(fn) + ":" + fld
				if _, ok := allowed[key]; ok {
					if !seen[key] {
						seen[key] = true
						r.Pass(rule, key, c.InstrPos(ins), "direct Read call of the frozen set: "+allowed[key], 1)
					}
					continue
				}
				r.Fail(rule, key, c.InstrPos(ins), FnName(fn)+" calls Read directly on "+fld+": a single Read may return fewer bytes than asked for (fragmented source); fixed-size structures must be read with io.ReadFull / io.CopyN")
			}
		}
	}
	var missing []string
	for k := range allowed {
		if !seen[k] {
			missing = append(missing, k)
		}
	}
	sort.Strings(missing)
	r.Floor(rule, 3)
	_ = missing
}

// ruleNoProgress: Reader2.Read raises its own "no data" error only when the chunk reader
// returned no error.
func ruleNoProgress(c *Ctx, r *Report, prefix string) {
	rule := prefix + "SEQ-NOPROGRESS"
	fn := c.Func("lzma", "Reader2.Read")
	if fn == nil {
		return
	}
	var readCall *ssa.Call
	spec := SeqSpec{Fn: fn, NoMerge: true}
	spec.Event = func(w *Walker, p *PState, ins ssa.Instruction) string {
		if call, ok := ins.(*ssa.Call); ok && call.Call.IsInvoke() && call.Call.Method.Name() == "Read" {
			readCall = call
		}
		return ""
	}
	paths, over := CollectPaths(c, spec)
	if over {
		r.Undecided(rule, FnName(fn), c.Pos(fn.Pos()), "path budget exceeded")
		return
	}
	n := 0
	for _, sp := range paths {
		if sp.ErrVal == nil {
			continue
		}
		// error created here (errors.New / fmt.Errorf), possibly via the sticky field
		v := sp.ErrVal
		call, ok := v.(*ssa.Call)
		if !ok {
			continue
		}
		name := stdCalleeName(call)
		if !strings.HasPrefix(name, "errors.New") && !strings.HasPrefix(name, "fmt.Errorf") {
			continue
		}
		n++
		ev := errValueOfCall(readCall)
		if ev == nil || !sp.P.IsNil(ev) {
			r.Fail(rule, FnName(fn), c.InstrPos(sp.Exit), "Reader2.Read raises its own 'no data' error on a path where the chunk reader's error is not known to be nil: a legitimate (0, io.EOF) at a chunk end (1-byte or exact-fit reads) would become a sticky error", sp.Trace...)
			return
		}
	}
	if n > 0 {
		r.Pass(rule, FnName(fn), c.Pos(fn.Pos()), "the no-progress error is raised only when the chunk reader returned (0, nil)", len(paths))
	}
}

// ruleEOSWriters: decoder.eos is cleared only in Reopen.
func ruleEOSWriters(c *Ctx, r *Report, prefix string) {
	rule := prefix + "WMW-EOS"
	f := c.Field("lzma", "decoder.eos")
	if f == nil {
		return
	}
	var bad []string
	n := 0
	for _, fn := range c.ModFuncs("lzma") {
		for _, b := range theCtx.GB(fn) {
			for _, ins := range b.Instrs {
				if st, ok := storeToField(ins, f); ok {
					n++
					if bv, isB := constBool(st.Val); !isB || (!bv && fn.Name() != "Reopen") {
						bad = append(bad, FnName(fn))
					}
				}
			}
		}
	}
	r.Check(len(bad) == 0 && n > 0, rule, "decoder.eos", "", "decoder.eos is only set to true, and cleared only in Reopen (terminal state is sticky)",
		fmt.Sprintf("decoder.eos is cleared or assigned a non-constant in %v: end of stream would not be stable", bad))
}

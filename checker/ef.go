package main

// EF engine (DESIGN §3.3): error provenance and handling.
//
//   EF-EOF   a raw io.EOF produced by the underlying source must be replaced by another
//            error before it leaves an exported reader entry point or is interpreted as
//            "end of data" (frozen whitelist of legitimate boundary probes).
//   EF-IO    an error with I/O origins is never masked: on every path it is consumed or the
//            function returns a provably non-nil error (source side in the library: the
//            error itself or a wrapper, unless an unrelated condition decided).
//   EF-DROP  the same walk for fallible calls without I/O origins (validation results).

import (
	"fmt"
	"go/token"
	"go/types"
	"os"
	"sort"
	"strings"

	"golang.org/x/tools/go/ssa"
)

type oinfo struct {
	raw     bool // may be the source's io.EOF
	read    bool // source-side origin
	wrapped bool // reaches here inside a %w wrapper: `!= io.EOF` no longer tells, errors.Is still matches
}
type oset map[ssa.CallInstruction]oinfo

func (s oset) addAll(t oset, keepRaw bool) bool {
	ch := false
	for k, v := range t {
		if !keepRaw && !v.wrapped {
			v.raw = false
		}
		old, ok := s[k]
		if !ok {
			s[k] = v
			ch = true
		} else if v.raw && !old.raw || v.wrapped && !old.wrapped {
			old.raw = old.raw || v.raw
			old.wrapped = old.wrapped || v.wrapped
			s[k] = old
			ch = true
		}
	}
	return ch
}

func (s oset) hasRaw() bool {
	for _, v := range s {
		if v.raw {
			return true
		}
	}
	return false
}

type efFinding struct {
	Kind    string // EF-EOF-API, EF-EOF-INTERP, EF-IO-MASKED, EF-IO-REPLACED, EF-IO-DROPPED, EF-IO-OVERWRITTEN, EF-DROP
	Fn      *ssa.Function
	Key     string
	Pos     string
	Msg     string
	Origins []string // origin keys
	Trace   []string
}

type EF struct {
	sentinels  map[*ssa.Global]bool
	c          *Ctx
	fns        []*ssa.Function
	summary    map[*ssa.Function][]oset
	fieldOrig  map[*types.Var]oset
	mayFail    map[*ssa.Function]bool // has an error result that can be non-nil
	closed     map[*types.Var]bool
	changed    map[interface{}]bool // functions / fields whose summary changed in this pass
	deps       map[*ssa.Function]map[interface{}]bool
	findings   map[string]*efFinding
	originKey  map[ssa.CallInstruction]string
	originFn   map[ssa.CallInstruction]*ssa.Function
	Passes     int
	PathsFinal int
	judged     map[*ssa.Function]bool
	overflow   []string
	// translations: EOF tests on raw-tagged values whose equal edge replaces the error
	// (function + position-independent ordinal) -> origins translated there
	translations map[string]map[string]bool
	// validators: per function, the producers of returned errors (a helper or an error value) seen
	// on an exit where no source error is known to be non-nil: a validation that is performed and
	// reported whether or not the source failed
	validators map[*ssa.Function]map[string]bool
}

// producerKey names what produced a returned error: the helper called, or the value itself.
func producerKey(v ssa.Value) string {
	switch x := v.(type) {
	case *ssa.Call:
		if f := x.Call.StaticCallee(); f != nil {
			return "call:" + FnName(f)
		}
	case *ssa.Extract:
		if c, ok := x.Tuple.(*ssa.Call); ok {
			if f := c.Call.StaticCallee(); f != nil {
				return fmt.Sprintf("call:%s#%d", FnName(f), x.Index)
			}
		}
	}
	if v.Parent() != nil {
		return "val:" + FnName(v.Parent()) + ":" + v.Name()
	}
	return "val:" + v.Name()
}

var efCache = map[*Ctx]*EF{}

// GetEF runs the analysis once per loaded program.
func GetEF(c *Ctx) *EF {
	if e := efCache[c]; e != nil {
		return e
	}
	e := &EF{c: c, summary: map[*ssa.Function][]oset{}, fieldOrig: map[*types.Var]oset{},
		mayFail: map[*ssa.Function]bool{}, closed: map[*types.Var]bool{}, findings: map[string]*efFinding{},
		originKey: map[ssa.CallInstruction]string{}, originFn: map[ssa.CallInstruction]*ssa.Function{},
		deps: map[*ssa.Function]map[interface{}]bool{}, judged: map[*ssa.Function]bool{}}
	e.fns = c.ModFuncs("", "lzma", "cmd/gxz")
	e.fns = append(e.fns, newPublicRoots(c)...) // newapi.go
	e.computeClosedFields()
	e.computeMayFail()
	// fixpoint over summaries with a dependency-driven worklist
	dirty := map[*ssa.Function]bool{}
	for _, fn := range e.fns {
		dirty[fn] = true
	}
	for pass := 0; pass < 40 && len(dirty) > 0; pass++ {
		e.Passes++
		e.changed = map[interface{}]bool{}
		for _, fn := range e.fns {
			if dirty[fn] {
				(&efRun{e: e, fn: fn}).run()
			}
		}
		dirty = map[*ssa.Function]bool{}
		for _, fn := range e.fns {
			for d := range e.deps[fn] {
				if e.changed[d] {
					dirty[fn] = true
					break
				}
			}
		}
	}
	for _, fn := range e.fns {
		r := &efRun{e: e, fn: fn, final: true, strictRead: pkgPathOf(fn) != full("cmd/gxz")}
		r.run()
		e.PathsFinal += r.paths
		e.judged[fn] = true
	}
	efCache[c] = e
	return e
}

// ---- classification of calls ----

func hasMethodNamed(t types.Type, names ...string) bool {
	for _, tt := range []types.Type{t, types.NewPointer(t)} {
		ms := types.NewMethodSet(tt)
		for i := 0; i < ms.Len(); i++ {
			for _, n := range names {
				if ms.At(i).Obj().Name() == n {
					return true
				}
			}
		}
	}
	return false
}

// neverFailRecv: documented never-failing receivers (DESIGN Appendix C).
func neverFailRecv(t types.Type) bool {
	switch t.String() {
	case "hash.Hash", "hash.Hash32", "hash.Hash64", "*bytes.Buffer":
		return true
	}
	return false
}

func extAccess(sig *types.Signature) (io, read bool) {
	var ts []types.Type
	if sig.Recv() != nil {
		ts = append(ts, sig.Recv().Type())
	}
	for i := 0; i < sig.Params().Len(); i++ {
		ts = append(ts, sig.Params().At(i).Type())
	}
	for _, t := range ts {
		if hasMethodNamed(t, "Read", "ReadByte") {
			io, read = true, true
		}
		if hasMethodNamed(t, "Write", "WriteByte", "Flush", "Close") {
			io = true
		}
	}
	return
}

func errResultIdx(sig *types.Signature) []int {
	var r []int
	for i := 0; i < sig.Results().Len(); i++ {
		if isErrType(sig.Results().At(i).Type()) {
			r = append(r, i)
		}
	}
	return r
}

func (e *EF) dep(fn *ssa.Function, d interface{}) {
	m := e.deps[fn]
	if m == nil {
		m = map[interface{}]bool{}
		e.deps[fn] = m
	}
	m[d] = true
}

// keyOfOrigin gives a line-free key: function:callee#ordinal.
func (e *EF) keyOfOrigin(caller *ssa.Function, ci ssa.CallInstruction) string {
	if k, ok := e.originKey[ci]; ok {
		return k
	}
	k := callKey(caller, ci)
	e.originKey[ci] = k
	e.originFn[ci] = caller
	return k
}

func calleeName(ci ssa.CallInstruction) string {
	cc := ci.Common()
	if cc.IsInvoke() {
		return "(" + types.TypeString(cc.Value.Type(), func(p *types.Package) string { return p.Name() }) + ")." + cc.Method.Name()
	}
	if f := cc.StaticCallee(); f != nil {
		return FnName(f)
	}
	return "dynamic"
}

// callKey: "<function>:<callee>#<ordinal among calls to that callee in source order>".
func callKey(caller *ssa.Function, ci ssa.CallInstruction) string {
	name := calleeName(ci)
	type pc struct {
		pos token.Pos
		ci  ssa.CallInstruction
	}
	var same []pc
	for _, b := range theCtx.GB(caller) {
		for _, ins := range b.Instrs {
			if c2, ok := ins.(ssa.CallInstruction); ok && calleeName(c2) == name {
				same = append(same, pc{effectivePos(caller, c2, 0), c2})
			}
		}
	}
	sort.SliceStable(same, func(i, j int) bool { return same[i].pos < same[j].pos })
	ord := 0
	for i, s := range same {
		if s.ci == ci {
			ord = i + 1
		}
	}
	return fmt.Sprintf("%s:%s#%d", FnName(caller), name, ord)
}

// effectivePos: a call inside a new helper counts at the place where caller calls the helper
// (the ordinal of an origin does not change when the code around it moves into a helper).
func effectivePos(caller *ssa.Function, ci ssa.CallInstruction, depth int) token.Pos {
	h := ci.Parent()
	if h == caller || depth > 4 || !theCtx.IsNew(h) {
		return ci.Pos()
	}
	best := token.NoPos
	for _, s := range theCtx.callSites(h) {
		var p token.Pos
		if s.Parent() == caller {
			p = s.Pos()
		} else if theCtx.IsNew(s.Parent()) {
			p = effectivePos(caller, s, depth+1)
			if s.Parent() != caller && p == s.Pos() {
				continue // not reached from caller
			}
		} else {
			continue
		}
		if best == token.NoPos || p < best {
			best = p
		}
	}
	if best == token.NoPos {
		return ci.Pos()
	}
	return best
}

// callOrigins returns, per error result index, the origins of a call's error results.
// mayFail reports whether the error can be non-nil at all.
func (e *EF) callOrigins(caller *ssa.Function, ci ssa.CallInstruction) (out map[int]oset, mayFail bool) {
	cc := ci.Common()
	sig := cc.Signature()
	idx := errResultIdx(sig)
	if len(idx) == 0 {
		return nil, false
	}
	out = map[int]oset{}
	for _, i := range idx {
		out[i] = oset{}
	}
	addSite := func(raw, read bool) {
		e.keyOfOrigin(caller, ci)
		for _, i := range idx {
			out[i][ci] = oinfo{raw: raw, read: read}
		}
	}
	addSummary := func(fn *ssa.Function) {
		e.dep(caller, fn)
		if e.mayFail[fn] {
			mayFail = true
		}
		s := e.summary[fn]
		for _, i := range idx {
			if i < len(s) && s[i] != nil {
				out[i].addAll(s[i], true)
			}
		}
	}
	if cc.IsInvoke() {
		if neverFailRecv(cc.Value.Type()) {
			return out, false
		}
		if !e.closedValue(cc.Value) {
			mayFail = true
			switch cc.Method.Name() {
			case "Read", "ReadByte":
				addSite(true, true)
			case "Write", "WriteByte", "Flush", "Close", "WriteString":
				addSite(false, false)
			}
		}
		for _, f := range e.c.Callees(caller, ci) {
			if e.c.InModule(f) {
				addSummary(f)
			}
		}
		return out, mayFail
	}
	if fn := cc.StaticCallee(); fn != nil {
		if e.c.InModule(fn) {
			addSummary(fn)
			return out, mayFail
		}
		if fn.Signature.Recv() != nil && neverFailRecv(fn.Signature.Recv().Type()) {
			return out, false
		}
		mayFail = true
		io, read := extAccess(fn.Signature)
		if fn.Pkg != nil && fn.Pkg.Pkg.Path() == "os" {
			io = true
		}
		if io {
			addSite(read, read)
		}
		return out, mayFail
	}
	// dynamic call of a func value
	cs := e.c.Callees(caller, ci)
	if len(cs) == 0 {
		return out, true
	}
	for _, f := range cs {
		if e.c.InModule(f) {
			addSummary(f)
		} else {
			mayFail = true
		}
	}
	return out, mayFail
}

// closedValue: the interface value provably never holds a foreign type.
func (e *EF) closedValue(v ssa.Value) bool {
	if n, ok := v.Type().(*types.Named); ok {
		o := n.Obj()
		if o.Pkg() != nil && strings.HasPrefix(o.Pkg().Path(), modPath) && !o.Exported() {
			return true
		}
	}
	if u, ok := v.(*ssa.UnOp); ok && u.Op == token.MUL {
		if fa, ok := u.X.(*ssa.FieldAddr); ok {
			return e.closed[fieldOfAddr(fa)]
		}
	}
	return false
}

func (e *EF) computeClosedFields() {
	open := map[*types.Var]bool{}
	seen := map[*types.Var]bool{}
	for _, fn := range e.c.modFuncs {
		for _, b := range theCtx.GB(fn) {
			for _, ins := range b.Instrs {
				st, ok := ins.(*ssa.Store)
				if !ok {
					// composite literals of a struct value stored as a whole: be conservative
					continue
				}
				fa, ok := st.Addr.(*ssa.FieldAddr)
				if !ok || !types.IsInterface(st.Val.Type()) {
					continue
				}
				f := fieldOfAddr(fa)
				seen[f] = true
				switch x := st.Val.(type) {
				case *ssa.Const:
				case *ssa.MakeInterface:
					t := x.X.Type()
					if p, ok := t.(*types.Pointer); ok {
						t = p.Elem()
					}
					n, ok := t.(*types.Named)
					if !ok || n.Obj().Pkg() == nil || !strings.HasPrefix(n.Obj().Pkg().Path(), modPath) {
						open[f] = true
					}
				default:
					open[f] = true
				}
			}
		}
	}
	// a struct that is ever stored as a whole value (other than the zero value) could carry
	// an interface from anywhere: open all its interface fields
	for _, fn := range e.c.modFuncs {
		for _, b := range theCtx.GB(fn) {
			for _, ins := range b.Instrs {
				st, ok := ins.(*ssa.Store)
				if !ok {
					continue
				}
				if _, isFA := st.Addr.(*ssa.FieldAddr); isFA {
					continue
				}
				pt, ok := st.Addr.Type().Underlying().(*types.Pointer)
				if !ok {
					continue
				}
				if _, isC := st.Val.(*ssa.Const); isC {
					continue
				}
				for _, f := range structFieldsDeep(pt.Elem()) {
					if types.IsInterface(f.Type()) {
						open[f] = true
					}
				}
			}
		}
	}
	for f := range seen {
		if !open[f] {
			e.closed[f] = true
		}
	}
}

// computeMayFail: greatest fixpoint of "every returned error is nil or the result of a
// never-failing call".
func (e *EF) computeMayFail() {
	for _, fn := range e.fns {
		e.mayFail[fn] = false
	}
	for iter := 0; iter < 30; iter++ {
		ch := false
		for _, fn := range e.fns {
			if e.mayFail[fn] || len(errResultIdx(fn.Signature)) == 0 {
				continue
			}
			if e.fnMayFail(fn) {
				e.mayFail[fn] = true
				ch = true
			}
		}
		if !ch {
			break
		}
	}
}

func (e *EF) fnMayFail(fn *ssa.Function) bool {
	seen := map[ssa.Value]bool{}
	var nilLike func(v ssa.Value) bool
	nilLike = func(v ssa.Value) bool {
		if seen[v] {
			return true
		}
		seen[v] = true
		switch x := v.(type) {
		case *ssa.Const:
			return x.Value == nil
		case *ssa.Phi:
			for _, ed := range x.Edges {
				if !nilLike(ed) {
					return false
				}
			}
			return true
		case *ssa.Call:
			return !e.callMayFailStatic(fn, x)
		case *ssa.Extract:
			if c, ok := x.Tuple.(*ssa.Call); ok {
				return !e.callMayFailStatic(fn, c)
			}
		case *ssa.UnOp:
			if a, ok := x.X.(*ssa.Alloc); ok && x.Op == token.MUL {
				// local: every store must be nil-like
				if a.Referrers() == nil {
					return false
				}
				for _, r := range *a.Referrers() {
					if st, ok := r.(*ssa.Store); ok && st.Addr == a {
						if !nilLike(st.Val) {
							return false
						}
					}
				}
				return true
			}
		}
		return false
	}
	for _, b := range theCtx.GB(fn) {
		for _, ins := range b.Instrs {
			ret, ok := ins.(*ssa.Return)
			if !ok {
				continue
			}
			for _, r := range ret.Results {
				if isErrType(r.Type()) && !nilLike(r) {
					return true
				}
			}
		}
	}
	return false
}

func (e *EF) callMayFailStatic(caller *ssa.Function, c *ssa.Call) bool {
	cc := c.Common()
	if cc.IsInvoke() {
		if neverFailRecv(cc.Value.Type()) {
			return false
		}
		if !e.closedValue(cc.Value) {
			return true
		}
		cs := e.c.Callees(caller, c)
		if len(cs) == 0 {
			return true
		}
		for _, f := range cs {
			if !e.c.InModule(f) || e.mayFail[f] {
				return true
			}
		}
		return false
	}
	if fn := cc.StaticCallee(); fn != nil {
		if e.c.InModule(fn) {
			if _, known := e.mayFail[fn]; known {
				return e.mayFail[fn]
			}
			return true
		}
		if fn.Signature.Recv() != nil && neverFailRecv(fn.Signature.Recv().Type()) {
			return false
		}
		return true
	}
	return true
}

// ---- per-function run ----

type eofTest struct {
	v    ssa.Value
	site *ssa.If
	orig oset
}

type efState struct {
	consumed map[ssa.Value]bool
	defined  map[ssa.Value]oset // error values defined on this path (I/O origins, possibly empty for validation results)
	other    map[ssa.Value]bool // an unrelated branch was taken after definition
	tested   map[ssa.Value]bool
	eof      []eofTest
}

func (s *efState) Clone() UserState {
	q := &efState{consumed: map[ssa.Value]bool{}, defined: map[ssa.Value]oset{}, other: map[ssa.Value]bool{}, tested: map[ssa.Value]bool{}}
	for k, v := range s.consumed {
		q.consumed[k] = v
	}
	for k, v := range s.defined {
		q.defined[k] = v
	}
	for k, v := range s.other {
		q.other[k] = v
	}
	for k, v := range s.tested {
		q.tested[k] = v
	}
	q.eof = append([]eofTest(nil), s.eof...)
	return q
}

// efSig: the EF-relevant part of the client state (for path merging).
func efSig(p *PState) string {
	s := p.U.(*efState)
	var parts []string
	for v := range s.defined {
		parts = append(parts, fmt.Sprintf("%p c%v o%v t%v", v, s.consumed[v], s.other[v], s.tested[v]))
		f := p.facts[v]
		parts = append(parts, fmt.Sprintf("%p n%d e%p ne%v", v, f.nilK, f.eq, f.ne))
	}
	for _, t := range s.eof {
		g := p.EqGlobal(t.v)
		parts = append(parts, fmt.Sprintf("eof %p %p %p", t.v, t.site, g))
	}
	sort.Strings(parts)
	return strings.Join(parts, ",")
}

type efRun struct {
	e          *EF
	fn         *ssa.Function
	final      bool
	strictRead bool
	paths      int
	w          *Walker
}

func (r *efRun) report(kind, key string, pos token.Pos, msg string, o oset, trace []string) {
	f := &efFinding{Kind: kind, Fn: r.fn, Key: key, Pos: r.e.c.Pos(pos), Msg: msg, Trace: trace}
	for site := range o {
		f.Origins = append(f.Origins, r.e.originKey[site])
	}
	sort.Strings(f.Origins)
	k := kind + "|" + key
	if _, ok := r.e.findings[k]; !ok {
		r.e.findings[k] = f
	}
}

// wrapOrigins: fmt.Errorf("... %w ...", ..., err): the result carries the origins of the
// wrapped error(s), marked wrapped.
func (r *efRun) wrapOrigins(p *PState, call *ssa.Call) (oset, bool) {
	cal := call.Call.StaticCallee()
	if cal == nil || cal.Pkg == nil || cal.Pkg.Pkg.Path() != "fmt" || cal.Name() != "Errorf" || len(call.Call.Args) < 2 {
		return nil, false
	}
	if k, ok := call.Call.Args[0].(*ssa.Const); !ok || k.Value == nil || !strings.Contains(k.Value.ExactString(), "%w") {
		return nil, false
	}
	res := oset{}
	sl, ok := call.Call.Args[1].(*ssa.Slice)
	if !ok {
		return res, true
	}
	al, ok := sl.X.(*ssa.Alloc)
	if !ok || al.Referrers() == nil {
		return res, true
	}
	for _, ref := range *al.Referrers() {
		ia, ok := ref.(*ssa.IndexAddr)
		if !ok || ia.Referrers() == nil {
			continue
		}
		for _, r2 := range *ia.Referrers() {
			st, ok := r2.(*ssa.Store)
			if !ok {
				continue
			}
			v := st.Val
			if mi, isMI := v.(*ssa.MakeInterface); isMI {
				v = mi.X
			}
			if ci, isCI := v.(*ssa.ChangeInterface); isCI {
				v = ci.X
			}
			if !isErrType(v.Type()) {
				continue
			}
			for site, inf := range r.originsUnderFacts(p, v) {
				inf.wrapped = true
				res[site] = inf
			}
			p.U.(*efState).consumed[p.Resolve(v)] = true
		}
	}
	return res, true
}

func (r *efRun) baseOrigins(p *PState, v ssa.Value) (oset, bool) {
	v = p.Resolve(v)
	switch x := v.(type) {
	case *ssa.Call:
		if o, isWrap := r.wrapOrigins(p, x); isWrap {
			return o, true
		}
		if o, mf := r.e.callOrigins(r.fn, x); o != nil {
			return o[0], mf
		}
	case *ssa.Extract:
		if c, ok := x.Tuple.(*ssa.Call); ok {
			if o, mf := r.e.callOrigins(r.fn, c); o != nil {
				return o[x.Index], mf
			}
		}
	case *ssa.UnOp:
		if x.Op == token.MUL {
			if fa, ok := x.X.(*ssa.FieldAddr); ok {
				f := fieldOfAddr(fa)
				r.e.dep(r.fn, f)
				return r.e.fieldOrig[f], true
			}
		}
	}
	return nil, false
}

func (r *efRun) originsUnderFacts(p *PState, v ssa.Value) oset {
	v = p.Resolve(v)
	o, _ := r.baseOrigins(p, v)
	if len(o) == 0 {
		return nil
	}
	if p.IsNil(v) {
		return nil
	}
	res := oset{}
	keepRaw := true
	if g := p.EqGlobal(v); g != nil && !isEOF(g) {
		keepRaw = false
	}
	if eofG := r.e.c.eofGlobal(); eofG != nil && p.NeGlobal(v, eofG) {
		keepRaw = false
	}
	res.addAll(o, keepRaw)
	return res
}

func (c *Ctx) eofGlobal() *ssa.Global {
	if p := c.Prog.ImportedPackage("io"); p != nil {
		return p.Var("EOF")
	}
	return nil
}

func (r *efRun) run() {
	fn := r.fn
	e := r.e
	idx := errResultIdx(fn.Signature)
	if e.summary[fn] == nil {
		e.summary[fn] = make([]oset, fn.Signature.Results().Len())
		for _, i := range idx {
			e.summary[fn][i] = oset{}
		}
	}
	w := &Walker{C: e.c, Fn: fn}
	r.w = w
	w.Instr = r.instr
	w.Branch = func(p *PState, ins *ssa.If, taken bool) {}
	w.Exit = r.exit
	w.Reenter = func(p *PState, b *ssa.BasicBlock) {
		s := p.U.(*efState)
		for _, ins := range b.Instrs {
			v, ok := ins.(ssa.Value)
			if !ok {
				continue
			}
			if _, def := s.defined[v]; def {
				if r.final {
					r.checkRedef(p, v)
				}
				delete(s.defined, v)
				delete(s.consumed, v)
				delete(s.other, v)
				delete(s.tested, v)
			}
		}
	}
	w.EnterInline = func(p *PState, callee *ssa.Function) {
		s := p.U.(*efState)
		for v := range s.defined {
			if v.Parent() != callee {
				continue
			}
			if r.final {
				r.checkRedef(p, v)
			}
			delete(s.defined, v)
			delete(s.consumed, v)
			delete(s.other, v)
			delete(s.tested, v)
		}
	}
	if os.Getenv("XZVERIFY_NOMERGE") == "" {
		w.Sig = efSig
	}
	w.Run(&efState{consumed: map[ssa.Value]bool{}, defined: map[ssa.Value]oset{}, other: map[ssa.Value]bool{}, tested: map[ssa.Value]bool{}})
	r.paths = w.Paths
	if w.Overflow && r.final {
		e.overflow = append(e.overflow, FnName(fn))
	}
}

func (r *efRun) define(p *PState, v ssa.Value, o oset, mayFail bool) {
	s := p.U.(*efState)
	if len(o) == 0 && !mayFail {
		return
	}
	if _, ok := s.defined[v]; ok && r.final {
		r.checkRedef(p, v)
	}
	if o == nil {
		o = oset{}
	}
	s.defined[v] = o
	delete(s.consumed, v)
	delete(p.facts, v)
	delete(s.other, v)
	delete(s.tested, v)
}

func (r *efRun) valueKey(v ssa.Value) string {
	switch x := v.(type) {
	case *ssa.Call:
		return callKey(r.fn, x)
	case *ssa.Extract:
		if c, ok := x.Tuple.(*ssa.Call); ok {
			return callKey(r.fn, c)
		}
	}
	return FnName(r.fn) + ":" + v.Name()
}

func (r *efRun) handled(p *PState, v ssa.Value) bool {
	s := p.U.(*efState)
	if s.consumed[v] {
		return true
	}
	if p.IsNil(v) {
		return true
	}
	if g := p.EqGlobal(v); g != nil {
		return true // compared equal to a sentinel: handled by the code that tested it
	}
	return false
}

func (r *efRun) checkRedef(p *PState, v ssa.Value) {
	if r.handled(p, v) {
		return
	}
	s := p.U.(*efState)
	if len(errResultIdx(r.fn.Signature)) == 0 && s.tested[v] {
		return
	}
	// the value was produced and tested inside a new helper that has no error result (a predicate such as
	// hasValidHeader): handled locally there, as it would be if the helper were analysed on its own
	if ins, isIns := v.(ssa.Instruction); isIns && s.tested[v] {
		if pf := ins.Parent(); pf != nil && pf != r.fn && theCtx.IsNew(pf) && len(errResultIdx(pf.Signature)) == 0 {
			return
		}
	}
	kind := "EF-IO-OVERWRITTEN"
	if len(s.defined[v]) == 0 {
		kind = "EF-DROP"
	}
	r.report(kind, r.valueKey(v), v.Pos(), "error value is defined again (loop) before the previous one was handled", s.defined[v], r.w.TraceStrings(p))
}

func (r *efRun) instr(p *PState, ins ssa.Instruction) bool {
	s := p.U.(*efState)
	e := r.e
	switch x := ins.(type) {
	case *ssa.Store:
		val := p.Resolve(x.Val)
		if _, ok := x.Addr.(*ssa.Alloc); ok {
			return true
		}
		if r.strictRead && formatsWithoutWrapping(x) {
			// fmt.Errorf("...%v", err) / Sprintf: the text of the error is used, the error itself is
			// not passed on (errors.Is/As cannot find it): not a way of reporting a source error
			return true
		}
		s.consumed[val] = true
		if fa, ok := x.Addr.(*ssa.FieldAddr); ok && isErrType(x.Val.Type()) {
			fv := fieldOfAddr(fa)
			if e.fieldOrig[fv] == nil {
				e.fieldOrig[fv] = oset{}
			}
			if e.fieldOrig[fv].addAll(r.originsUnderFacts(p, val), true) {
				e.changed[fv] = true
			}
		}
	case *ssa.Call:
		for _, arg := range x.Call.Args {
			s.consumed[p.Resolve(arg)] = true
		}
		o, mf := e.callOrigins(r.fn, x)
		if wo, isWrap := r.wrapOrigins(p, x); isWrap {
			o, mf = map[int]oset{0: wo}, true
		}
		if o == nil {
			return true
		}
		if isErrType(x.Type()) {
			r.define(p, x, o[0], mf)
			if r.final && mf && (x.Referrers() == nil || len(*x.Referrers()) == 0) {
				kind := "EF-IO-DROPPED"
				if len(o[0]) == 0 {
					kind = "EF-DROP"
				}
				if !r.suppressed() {
					r.report(kind, callKey(r.fn, x), x.Pos(), "error result of "+calleeName(x)+" is never read", o[0], nil)
				}
			}
			return true
		}
		if _, isTuple := x.Type().(*types.Tuple); isTuple && r.final && mf {
			for idx, os := range o {
				used := false
				if x.Referrers() != nil {
					for _, rf := range *x.Referrers() {
						if ex, ok := rf.(*ssa.Extract); ok && ex.Index == idx {
							used = true
						}
					}
				}
				if !used && !r.suppressed() {
					kind := "EF-IO-DROPPED"
					if len(os) == 0 {
						kind = "EF-DROP"
					}
					r.report(kind, callKey(r.fn, x), x.Pos(), "error result of "+calleeName(x)+" is never read", os, nil)
				}
			}
		}
	case *ssa.Extract:
		if c, ok := x.Tuple.(*ssa.Call); ok && isErrType(x.Type()) {
			if o, mf := e.callOrigins(r.fn, c); o != nil {
				r.define(p, x, o[x.Index], mf)
			}
		}
	case *ssa.MakeInterface:
		s.consumed[p.Resolve(x.X)] = true
	case *ssa.BinOp:
		if isErrType(x.X.Type()) && isCmp(x.Op) {
			// the error is inspected (err == nil as a value, e.g. ValidHeader's result)
			s.tested[p.Resolve(x.X)] = true
			s.tested[p.Resolve(x.Y)] = true
		}
	case *ssa.Panic:
		s.consumed[p.Resolve(x.X)] = true
	case *ssa.Send:
		s.consumed[p.Resolve(x.X)] = true
	case *ssa.If:
		var involved ssa.Value
		cond := p.Resolve(x.Cond)
		if u, ok := cond.(*ssa.UnOp); ok && u.Op == token.NOT {
			cond = p.Resolve(u.X)
		}
		var cx, cy ssa.Value
		if bo, ok := cond.(*ssa.BinOp); ok && isErrType(bo.X.Type()) {
			cx, cy = bo.X, bo.Y
		} else if a, b, ok := errorsIsCall(cond); ok {
			cx, cy = a, b
		}
		if cx != nil {
			xx, yy := p.Resolve(cx), p.Resolve(cy)
			involved = xx
			if isNilConst(xx) || isGlobalVal(xx) {
				involved = yy
			}
			s.tested[involved] = true
			// EOF interpretation sites are recorded when the equal edge is taken (see branch)
		}
		if involved != nil {
			// from here on the error has been looked at: an unrelated condition decided earlier no
			// longer excuses what is returned later on this path
			delete(s.other, involved)
		}
		for v := range s.defined {
			// an unrelated condition decided before the error was looked at (declared size
			// exceeded AND the read failed) may choose a different error; once the error is known
			// to be non-nil, a later unrelated test only decides how to (mis)report it
			if v != involved && !p.NonNil(v) {
				s.other[v] = true
			}
		}
		// record EOF tests: done in exit via facts — we need the site; note candidates here
		if involved != nil {
			other := p.Resolve(cy)
			if involved == other {
				other = p.Resolve(cx)
			}
			if g, ok := other.(*ssa.Global); ok && isEOF(g) {
				if o := r.originsUnderFacts(p, involved); o.hasRaw() {
					s.eof = append(s.eof, eofTest{involved, x, o})
				}
			}
		}
	}
	return true
}

func (r *efRun) suppressed() bool {
	n := FnName(r.fn)
	// Named suppressions (DESIGN §3.3), one reason each:
	switch n {
	case "(*lzma.breader).ReadByte":
		// "data together with error" idiom: with n >= 1 the byte is delivered; the reader
		// reports the error again on the next call.
		return true
	case "(*gxz.writer).removeTmpFile":
		// signal handler: the process exits with status 7 right after.
		return true
	case "(*gxz.writer).discard":
		// best-effort cleanup; SEQ-DISCARD (C10) checks that every call site is on a path
		// that already returns a non-nil error.
		return true
	}
	return false
}

func (r *efRun) exit(p *PState, ins ssa.Instruction) {
	s := p.U.(*efState)
	e := r.e
	var retErr ssa.Value
	hasErrResult := len(errResultIdx(r.fn.Signature)) > 0
	if ret, ok := ins.(*ssa.Return); ok {
		for i, rv := range ret.Results {
			if !isErrType(rv.Type()) {
				continue
			}
			v := p.Resolve(rv)
			retErr = v
			if o := r.originsUnderFacts(p, v); len(o) > 0 {
				if e.summary[r.fn][i].addAll(o, true) {
					e.changed[r.fn] = true
				}
			}
			// `if err == io.EOF { return io.EOF }`: the source's io.EOF is handed on under its own name; it
			// stays the raw io.EOF of that origin for whoever receives it
			if g, isG := v.(*ssa.Global); isG && isEOF(g) {
				for _, t := range s.eof {
					if tg := p.EqGlobal(t.v); tg != nil && isEOF(tg) {
						// (where this function is the admitted interpreter of the origin, the io.EOF it
						// returns is its own, verified one)
						keep := oset{}
						for site, inf := range t.orig {
							admitted := false
							for _, wl := range eofWhitelist {
								if wl.origin == e.originKey[site] && wl.sink == FnName(r.fn) {
									admitted = true
								}
							}
							if !admitted {
								keep[site] = inf
							}
						}
						if len(keep) > 0 && e.summary[r.fn][i].addAll(keep, true) {
							e.changed[r.fn] = true
						}
					}
				}
			}
			s.consumed[v] = true
		}
	}
	if retErr != nil && !p.IsNil(retErr) {
		anyFailed := false
		for v := range s.defined {
			if p.NonNil(v) && !s.consumed[v] || p.Resolve(retErr) == v {
				anyFailed = true
			}
		}
		if !anyFailed {
			if e.validators == nil {
				e.validators = map[*ssa.Function]map[string]bool{}
			}
			if e.validators[r.fn] == nil {
				e.validators[r.fn] = map[string]bool{}
			}
			e.validators[r.fn][producerKey(p.Resolve(retErr))] = true
		}
	}
	if !r.final {
		return
	}
	_, isPanic := ins.(*ssa.Panic)
	// EF-IO / EF-DROP
	if !r.suppressed() {
		var vals []ssa.Value
		for v := range s.defined {
			vals = append(vals, v)
		}
		sort.Slice(vals, func(i, j int) bool { return vals[i].Pos() < vals[j].Pos() })
		for _, v := range vals {
			o := s.defined[v]
			if r.handled(p, v) || isPanic {
				continue
			}
			if retErr != nil && p.Resolve(retErr) == v {
				continue
			}
			if !hasErrResult && s.tested[v] {
				continue // function without error result: tested and handled locally
			}
			if vi, isIns := v.(ssa.Instruction); isIns && s.tested[v] {
				if pf := vi.Parent(); pf != nil && pf != r.fn && theCtx.IsNew(pf) && len(errResultIdx(pf.Signature)) == 0 {
					continue // the same for a new helper without error result that the walk stepped through
				}
			}
			strict := false
			if r.strictRead {
				for _, inf := range o {
					if inf.read {
						strict = true
					}
				}
			}
			retNonNil := retErr != nil && p.NonNil(retErr)
			// a control-flow sentinel (a package-level error that callers compare against and
			// handle, e.g. errNoSpace => start the next block) does not report the failure
			sentinel := false
			if retNonNil {
				if g := p.EqGlobal(retErr); g != nil && e.isSentinel(g) {
					sentinel = true
				}
			}
			if retNonNil && !sentinel && (!strict || s.other[v]) {
				continue
			}
			if retNonNil && !sentinel && strict && e.validators[r.fn][producerKey(p.Resolve(retErr))] {
				continue // the same validation error is returned when the source did not fail
			}
			var sites []string
			for site := range o {
				sites = append(sites, e.originKey[site])
			}
			sort.Strings(sites)
			kind := "EF-IO-MASKED"
			msg := fmt.Sprintf("error of %s may be non-nil here but the function returns without propagating it", calleeNameOfValue(v))
			if len(o) == 0 {
				kind = "EF-DROP"
				msg = fmt.Sprintf("result of fallible %s is not handled on this path", calleeNameOfValue(v))
			} else if sentinel {
				msg = fmt.Sprintf("error of %s may be non-nil here but the function returns the control-flow sentinel %s, which callers handle as a normal condition", calleeNameOfValue(v), p.EqGlobal(retErr).Name())
			} else if strict && retNonNil {
				kind = "EF-IO-REPLACED"
				msg = fmt.Sprintf("source error of %s is replaced by an unrelated error", calleeNameOfValue(v))
			}
			if len(sites) > 0 {
				msg += fmt.Sprintf(" (origins %v)", sites)
			}
			r.report(kind, r.valueKey(v), v.Pos(), msg, o, append(r.w.TraceStrings(p), "exit at "+e.c.InstrPos(ins)))
		}
	}
	// EF-EOF interpretation sites
	for _, t := range s.eof {
		// the equal edge was taken on this path?
		if g := p.EqGlobal(t.v); g == nil || !isEOF(g) {
			continue
		}
		ok := false
		if isPanic {
			ok = true
		}
		if retErr != nil {
			rv := p.Resolve(retErr)
			if g, isG := rv.(*ssa.Global); isG && isEOF(g) {
				continue // handed on as io.EOF: judged where it is received (summary above)
			}
			if g, isG := rv.(*ssa.Global); isG && !isEOF(g) {
				ok = true
			}
			if _, isMI := rv.(*ssa.MakeInterface); isMI {
				ok = true
			}
			if c, isC := rv.(*ssa.Call); isC && p.NonNil(c) {
				ok = true
			}
			if rv != t.v {
				if g := p.EqGlobal(rv); g != nil && !isEOF(g) {
					ok = true
				}
			}
		}
		if ok {
			k := r.eofTestKey(t.site)
			if e.translations == nil {
				e.translations = map[string]map[string]bool{}
			}
			if e.translations[k] == nil {
				e.translations[k] = map[string]bool{}
			}
			for site, inf := range t.orig {
				if inf.raw {
					e.translations[k][e.originKey[site]] = true
				}
			}
			continue
		}
		for site, inf := range t.orig {
			if !inf.raw {
				continue
			}
			ok2 := false
			for _, wl := range eofWhitelist {
				if wl.origin == e.originKey[site] && wl.sink == FnName(r.fn) {
					ok2 = true
				}
			}
			if ok2 {
				continue
			}
			one := oset{site: inf}
			r.report("EF-EOF-INTERP", FnName(r.fn)+"<-"+e.originKey[site], t.site.Cond.Pos(),
				fmt.Sprintf("a raw io.EOF from %s is taken for 'end of data' here: the equal edge of the io.EOF test does not replace it by another error", e.originKey[site]),
				one, append(r.w.TraceStrings(p), "exit at "+e.c.InstrPos(ins)))
		}
	}
}

// eofTestKey: "<function>:eof-test#<ordinal of the If among the function's io.EOF tests>".
func (r *efRun) eofTestKey(site *ssa.If) string {
	var poss []token.Pos
	for _, b := range theCtx.GB(r.fn) {
		for _, ins := range b.Instrs {
			iff, ok := ins.(*ssa.If)
			if !ok {
				continue
			}
			cond := iff.Cond
			if u, ok := cond.(*ssa.UnOp); ok && u.Op == token.NOT {
				cond = u.X
			}
			if bo, ok := cond.(*ssa.BinOp); ok && isErrType(bo.X.Type()) {
				for _, o := range []ssa.Value{bo.X, bo.Y} {
					if u, ok := o.(*ssa.UnOp); ok {
						if g, ok := u.X.(*ssa.Global); ok && isEOF(g) {
							poss = append(poss, iff.Cond.Pos())
						}
					}
				}
			}
		}
	}
	sort.Slice(poss, func(i, j int) bool { return poss[i] < poss[j] })
	ord := 0
	for i, p := range poss {
		if p == site.Cond.Pos() {
			ord = i + 1
		}
	}
	return fmt.Sprintf("%s:eof-test#%d", FnName(r.fn), ord)
}

func calleeNameOfValue(v ssa.Value) string {
	switch x := v.(type) {
	case *ssa.Call:
		return calleeName(x)
	case *ssa.Extract:
		if c, ok := x.Tuple.(*ssa.Call); ok {
			return calleeName(c)
		}
	}
	return v.Name()
}

// eofWhitelist (DESIGN §3.3): legitimate places where the source's io.EOF *is* the end.
// Keyed by origin (function:callee#ordinal) and the function allowed to interpret it or to
// hand it out.
var eofWhitelist = []struct{ origin, sink, reason string }{
	{"(xz.ReaderConfig).newStreamReader:io.ReadFull#1", "(*xz.Reader).Read",
		"EOF before the first of the four probe bytes is the end of a (multi-stream) file"},
	{"(*xz.Reader).Read:io.ReadFull#1", "(*xz.Reader).Read",
		"SingleStream: the one-byte probe must hit EOF"},
	{"(*lzma.uncompressedReader).fill:io.CopyN#1", "(*lzma.uncompressedReader).fill",
		"followed by the lr.N != 0 test: a short chunk becomes ErrUnexpectedEOF"},
	{"(*xz.blockReader).Read:(io.Reader).Read#1", "(*xz.blockReader).Read",
		"the filter reader's EOF is then verified against sizes, padding and check; the filter reader is itself an entry point"},
	{"(*xz.countingReader).Read:(io.Reader).Read#1", "(*xz.blockReader).Read",
		"VTA lets the counting reader itself flow into blockReader.r (newFilterReader starts from it; verifyFilters rejects the empty filter list, OB V29); its EOF is verified like the filter reader's"},
}

// APIRawEOF lists raw-EOF origins that may leave the given entry point unchanged.
func (e *EF) APIRawEOF(fn *ssa.Function) []string {
	var out []string
	for _, s := range e.summary[fn] {
		for site, inf := range s {
			if !inf.raw {
				continue
			}
			k := e.originKey[site]
			ok := false
			for _, wl := range eofWhitelist {
				if wl.origin == k && wl.sink == FnName(fn) {
					ok = true
				}
			}
			if !ok {
				out = append(out, k)
			}
		}
	}
	sort.Strings(out)
	return out
}

// Findings returns the findings whose function lies in the given set, sorted.
func (e *EF) Findings(in map[*ssa.Function]bool, kinds ...string) []*efFinding {
	var out []*efFinding
	for _, f := range e.findings {
		if in != nil && !in[f.Fn] {
			continue
		}
		ok := len(kinds) == 0
		for _, k := range kinds {
			if strings.HasPrefix(f.Kind, k) {
				ok = true
			}
		}
		if ok {
			out = append(out, f)
		}
	}
	sort.Slice(out, func(i, j int) bool {
		if out[i].Kind != out[j].Kind {
			return out[i].Kind < out[j].Kind
		}
		return out[i].Key < out[j].Key
	})
	return out
}

// Origins lists all I/O origins (keys) located in the given functions.
func (e *EF) Origins(in map[*ssa.Function]bool) (read, write []string) {
	seen := map[string]bool{}
	for _, fn := range e.fns {
		if in != nil && !in[fn] {
			continue
		}
		for _, b := range theCtx.GB(fn) {
			for _, ins := range b.Instrs {
				ci, ok := ins.(ssa.CallInstruction)
				if !ok {
					continue
				}
				if _, isDefer := ins.(*ssa.Defer); isDefer {
					continue
				}
				o, _ := e.callOrigins(fn, ci)
				for _, os := range o {
					if inf, ok := os[ci]; ok {
						k := e.originKey[ci]
						if seen[k] {
							continue
						}
						seen[k] = true
						if inf.read {
							read = append(read, k)
						} else {
							write = append(write, k)
						}
					}
				}
			}
		}
	}
	sort.Strings(read)
	sort.Strings(write)
	return
}

// isSentinel: the package-level error variable is compared with == / != somewhere in the
// module and not with nil only: callers branch on it.
func (e *EF) isSentinel(g *ssa.Global) bool {
	if e.sentinels == nil {
		e.sentinels = map[*ssa.Global]bool{}
		for _, fn := range e.c.modFuncs {
			for _, b := range fn.Blocks {
				for _, ins := range b.Instrs {
					bo, ok := ins.(*ssa.BinOp)
					if !ok || (bo.Op != token.EQL && bo.Op != token.NEQ) || !isErrType(bo.X.Type()) {
						continue
					}
					for _, o := range []ssa.Value{bo.X, bo.Y} {
						if u, ok := o.(*ssa.UnOp); ok && u.Op == token.MUL {
							if gg, ok := u.X.(*ssa.Global); ok {
								e.sentinels[gg] = true
							}
						}
					}
				}
			}
		}
	}
	return e.sentinels[g]
}

// formatsWithoutWrapping: the store puts a value into the argument array of a fmt formatting call
// whose constant format has no %w (fmt.Errorf without %w, Sprintf, Sprint, ...).
func formatsWithoutWrapping(st *ssa.Store) bool {
	ia, ok := st.Addr.(*ssa.IndexAddr)
	if !ok {
		return false
	}
	al, ok := ia.X.(*ssa.Alloc)
	if !ok || al.Referrers() == nil {
		return false
	}
	for _, ref := range *al.Referrers() {
		sl, isSl := ref.(*ssa.Slice)
		if !isSl || sl.Referrers() == nil {
			continue
		}
		for _, r2 := range *sl.Referrers() {
			call, isC := r2.(*ssa.Call)
			if !isC {
				continue
			}
			cal := call.Call.StaticCallee()
			if cal == nil || cal.Pkg == nil || cal.Pkg.Pkg.Path() != "fmt" {
				return false
			}
			switch cal.Name() {
			case "Errorf":
				if len(call.Call.Args) >= 1 {
					if k, isK := call.Call.Args[0].(*ssa.Const); isK && k.Value != nil && !strings.Contains(k.Value.ExactString(), "%w") {
						return true
					}
				}
				return false
			case "Sprintf", "Sprint", "Sprintln":
				return true
			}
			return false
		}
	}
	return false
}

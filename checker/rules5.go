package main

// Rules added after the third round of independently seeded changes.

import (
	"go/token"
	"go/types"
	"strings"

	"golang.org/x/tools/go/ssa"
)

// ---- TM-INDEX: the probability index of every decision bit is the specification's ----
//
// isMatch and isRepG0Long are indexed by state2 = (state << 4) | posState, the other four
// decision models by state. SIB-OP makes encoder and decoder agree; this pins the decoder
// (and with it the encoder) to the LZMA specification: a symmetric change (both sides use
// `state` for isRepG0Long) keeps every round trip green and breaks interoperability.
func ruleSpecIndices(c *Ctx, r *Report, prefix string) {
	rule := prefix + "TM-INDEX"
	ro := c.Func("lzma", "decoder.readOp")
	if ro == nil {
		return
	}
	n := ro.Params[0].Name()
	dec, over := extractOpPaths(c, ro, [][2]string{{n + ".State", "S"}, {n + ".Dict", "D"}}, true)
	if over || len(dec) == 0 {
		r.Undecided(rule, FnName(ro), c.Pos(ro.Pos()), "cannot enumerate the paths of decoder.readOp")
		return
	}
	state := "@S.state"
	state2 := normTerm("(or (and @D.head @S.posBitMask) (shl @S.state 4))")
	want := map[string]string{"isMatch": state2, "isRepG0Long": state2, "isRep": state, "isRepG0": state, "isRepG1": state, "isRepG2": state}
	seen := map[string]string{}
	for _, p := range dec {
		for _, b := range p.bits {
			seen[b.model] = normTerm(b.idx)
		}
	}
	// the position mask is whichever field of the state holds 2^pb - 1 after Reset (it may have been
	// renamed or moved into a record of derived parameters)
	masks := posMaskPaths(c)
	for m, w := range want {
		got, ok := seen[m]
		if ok && got != w && w == state2 {
			for _, mp := range masks {
				if got == normTerm("(or (and @D.head @S."+mp+") (shl @S.state 4))") {
					got = w
				}
			}
		}
		r.Check(ok && got == w, rule, m, c.Pos(ro.Pos()), "indexed by "+w,
			"the decision model "+m+" is indexed by "+got+"; the LZMA specification indexes it by "+w+" (state2 = state<<4 | posState for isMatch and isRepG0Long, state for the others)")
	}
}

// ---- SIB-REOPEN: what Reopen sets, the constructor sets the same way ----
//
// decoder.Reopen re-bases the decoder on the current dictionary position (start =
// Dict.pos()); newDecoder must do the same at creation: an LZMA2 stream whose first chunks
// are raw creates the decoder at a non-zero position.
func ruleCtorReopen(c *Ctx, r *Report, prefix string) {
	rule := prefix + "SIB-REOPEN"
	for _, pr := range []struct{ ctor, reopen, startField, posGetter string }{
		{"newDecoder", "decoder.Reopen", "decoder.start", "decoderDict.pos"},
		{"newEncoder", "encoder.Reopen", "encoder.start", "encoderDict.Pos"},
	} {
		ctor, re := c.Func("lzma", pr.ctor), c.Func("lzma", pr.reopen)
		fStart := c.Field("lzma", pr.startField)
		pos := c.Func("lzma", pr.posGetter)
		if ctor == nil || re == nil || fStart == nil || pos == nil {
			continue
		}
		isPos := func(v ssa.Value) bool {
			v = stripConv(v)
			if call, ok := v.(*ssa.Call); ok && call.Call.StaticCallee() == pos {
				return true
			}
			// stripConv turns the getter call into the field load it returns
			if u, ok := v.(*ssa.UnOp); ok && u.Op == token.MUL {
				if fa, ok := u.X.(*ssa.FieldAddr); ok && refNameOf(fieldOfAddr(fa)) == "head" {
					return true
				}
			}
			return false
		}
		check := func(fn *ssa.Function) bool {
			for _, b := range c.GB(fn) {
				for _, ins := range b.Instrs {
					if st, ok := storeToField(ins, fStart); ok && isPos(st.Val) {
						return true
					}
				}
			}
			return false
		}
		okR, okC := check(re), check(ctor)
		if !okC && okR {
			// the constructor delegates to Reopen
			for _, b := range c.GB(ctor) {
				for _, ins := range b.Instrs {
					if _, isCall := callTo(ins, re); isCall {
						okC = true
					}
				}
			}
		}
		r.Check(okR && okC, rule, pr.ctor, c.Pos(ctor.Pos()), "start = dictionary position both at creation and at Reopen",
			func() string {
				if !okC {
					return pr.ctor + " does not initialise start with the dictionary position (" + pr.reopen + " does): a coder created at a non-zero position (LZMA2 stream beginning with raw chunks) miscounts its output"
				}
				return pr.reopen + " does not set start to the dictionary position"
			}())
	}
}

// ---- SEQ-FAILSTOP: in flushChunk a failing step is the last step ----
func ruleFlushFailStop(c *Ctx, r *Report, prefix string) {
	rule := prefix + "SEQ-FAILSTOP"
	fn := c.Func("lzma", "Writer2.flushChunk")
	if fn == nil {
		return
	}
	bad := ""
	var trace []string
	n := 0
	w := &Walker{C: c, Fn: fn}
	w.Instr = func(p *PState, ins ssa.Instruction) bool {
		s := p.U.(*pendState)
		// any effect after a call whose error is known to be non-nil
		effect := false
		switch x := ins.(type) {
		case *ssa.Store:
			if _, isAlloc := x.Addr.(*ssa.Alloc); !isAlloc {
				effect = true
			}
		case *ssa.Call:
			if _, isB := x.Call.Value.(*ssa.Builtin); !isB {
				if cal := x.Call.StaticCallee(); cal == nil || !(c.InModule(cal) && c.isPure(cal)) {
					if cal == nil || cal.Pkg == nil || (cal.Pkg.Pkg.Path() != "errors" && cal.Pkg.Pkg.Path() != "fmt") {
						effect = true
					}
				}
			}
		}
		if effect && s.pending != nil && !p.IsNil(s.pending) {
			bad = "flushChunk goes on with " + strings.TrimSpace(ins.String()) + " although the previous step may have failed (its error is not yet known to be nil): the writer's state changes although the chunk was not written, and a retry runs on an inconsistent state"
			trace = w.TraceStrings(p)
			return false
		}
		if call, ok := ins.(*ssa.Call); ok {
			if ev := errValueOfCall(call); ev != nil && c.InModule(call.Parent()) {
				if cal := call.Call.StaticCallee(); cal != nil && c.InModule(cal) {
					s.pending = ev
					n++
				}
			}
		}
		return true
	}
	w.Run(&pendState{})
	r.Check(bad == "" && n > 0 && !w.Overflow, rule, FnName(fn), c.Pos(fn.Pos()), "no effect follows a failed step", bad, trace...)
}

// ---- EF-DEFER-FLUSH: a deferred Flush/Write/Sync loses its error ----
func ruleDeferFlush(c *Ctx, r *Report, prefix string, pkgs ...string) {
	rule := prefix + "EF-DEFER-FLUSH"
	n := 0
	for _, fn := range c.ModFuncs(pkgs...) {
		for _, b := range c.GB(fn) {
			for _, ins := range b.Instrs {
				d, ok := ins.(*ssa.Defer)
				if !ok {
					continue
				}
				n++
				name := ""
				if d.Call.IsInvoke() {
					name = d.Call.Method.Name()
				} else if cal := d.Call.StaticCallee(); cal != nil {
					name = cal.Name()
				}
				if name == "Flush" || name == "Write" || name == "Sync" || name == "WriteByte" {
					r.Fail(rule, FnName(fn)+":"+name, c.InstrPos(d), "a deferred "+name+" cannot report its error: data still buffered when it fails is lost while the function returns success")
				}
			}
		}
	}
	r.Pass(rule, "census", "-", itoa(n)+" defer statements inspected: none defers a data-carrying call", n+1)
}

// ---- WR-ENCDICT: encoder dictionary = (dictionary capacity, look-ahead size) in that order ----
func ruleEncoderDictArgs(c *Ctx, r *Report, prefix string) {
	rule := prefix + "WR-ENCDICT"
	ned := c.Func("lzma", "newEncoderDict")
	if ned == nil {
		return
	}
	n := 0
	for _, fn := range c.ModFuncs("lzma") {
		for _, b := range c.GB(fn) {
			for _, ins := range b.Instrs {
				call, ok := callTo(ins, ned)
				if !ok || len(call.Call.Args) < 2 {
					continue
				}
				n++
				nameOf := func(v ssa.Value) string {
					v = stripConv(v)
					if u, ok := v.(*ssa.UnOp); ok && u.Op == token.MUL {
						if fa, ok := u.X.(*ssa.FieldAddr); ok {
							return refNameOf(fieldOfAddr(fa))
						}
					}
					if f, ok := v.(*ssa.Field); ok {
						return refNameOf(fieldOfField(f))
					}
					return "?"
				}
				a0, a1 := strings.ToLower(nameOf(call.Call.Args[0])), strings.ToLower(nameOf(call.Call.Args[1]))
				r.Check(a0 == "dictcap" && a1 == "bufsize", rule, FnName(fn), c.InstrPos(call),
					"newEncoderDict(dictionary capacity, look-ahead size)",
					"newEncoderDict is called with ("+a0+", "+a1+") instead of (dictCap, bufSize): the encoder's match window is not the dictionary size announced in the header")
			}
		}
	}
	if n < 2 {
		r.Undecided(rule, "instances", "-", "fewer than 2 calls of newEncoderDict found")
	}
}

// ---- WR-DICT-ENC: the LZMA2 encoder of an xz block uses max(configured, declared) only ----
func ruleFilterWriterDict(c *Ctx, r *Report, prefix string) {
	rule := prefix + "WR-DICT-ENC"
	fn := c.Func("", "lzmaFilter.writeCloser")
	fCfg := c.Field("lzma", "Writer2Config.DictCap")
	fFDC := c.Field("", "lzmaFilter.dictCap")
	fWC := c.Field("", "WriterConfig.DictCap")
	if fn == nil || fCfg == nil || fFDC == nil || fWC == nil {
		return
	}
	bad := ""
	nMax := 0
	for _, b := range c.GB(fn) {
		for _, ins := range b.Instrs {
			st, ok := storeToField(ins, fCfg)
			if !ok {
				continue
			}
			sv := stripConv(st.Val)
			isDecl := false
			if fl, isF := sv.(*ssa.Field); isF && fieldOfField(fl) == fFDC {
				isDecl = true
			} else if isFieldLoadOf(sv, fFDC) {
				isDecl = true
			}
			switch {
			case isFieldLoadOf(sv, fWC):
				// initialisation from the writer configuration
			case isDecl && storeIsMax(st, fCfg):
				nMax++
			case isDecl:
				bad = "the declared size is stored without the max test"
			default:
				bad = "Writer2Config.DictCap is also set from " + strings.TrimSpace(st.Val.String()) + ": the block's encoder can use a larger dictionary than its header declares"
			}
		}
	}
	if bad != "" || nMax != 1 {
		// the same decided over paths: what NewWriter2 sees is the larger of the two on every path
		if windowIsMaxByPaths(c, fn, "NewWriter2") {
			bad, nMax = "", 1
		}
	}
	r.Check(bad == "" && nMax == 1, rule, FnName(fn), c.Pos(fn.Pos()), "encoder dictionary = max(WriterConfig.DictCap, declared size) and nothing else", bad)
}

// ---- WR-PEEKLEN: the matchers look ahead exactly maxMatchLen bytes, re-sliced on every call ----
func rulePeekLen(c *Ctx, r *Report, prefix string) {
	rule := prefix + "WR-PEEKLEN"
	peek := c.Func("lzma", "buffer.Peek")
	maxML, ok := namedConstInt(c, "lzma", "maxMatchLen")
	if peek == nil || !ok {
		return
	}
	for _, name := range []string{"hashTable.NextOp", "binTree.NextOp"} {
		fn := c.Func("lzma", name)
		if fn == nil {
			continue
		}
		good, n := false, 0
		for _, b := range c.GB(fn) {
			for _, ins := range b.Instrs {
				call, isC := callTo(ins, peek)
				if !isC {
					continue
				}
				n++
				if sl, isS := stripConv(call.Call.Args[1]).(*ssa.Slice); isS && sl.High != nil {
					if k, isK := constInt(sl.High); isK && k == maxML && sl.Low == nil {
						good = true
					}
				}
			}
		}
		r.Check(good && n == 1, rule, FnName(fn), c.Pos(fn.Pos()), "look-ahead = buf.Peek(x[:maxMatchLen])",
			name+" does not peek into a buffer re-sliced to maxMatchLen on every call: a look-ahead once shortened (end of a chunk) stays short and caps every later match")
	}
}

// ---- SEQ-FEED: Discard hands the matcher exactly the bytes it removed from the buffer ----
func ruleDiscardFeed(c *Ctx, r *Report, prefix string) {
	rule := prefix + "SEQ-FEED"
	fn := c.Func("lzma", "encoderDict.Discard")
	read := c.Func("lzma", "buffer.Read")
	if fn == nil || read == nil {
		return
	}
	var readArg ssa.Value
	fed := false
	for _, b := range c.GB(fn) {
		for _, ins := range b.Instrs {
			call, ok := ins.(*ssa.Call)
			if !ok {
				continue
			}
			if call.Call.StaticCallee() == read {
				readArg = stripConv(call.Call.Args[1])
			}
			if call.Call.IsInvoke() && call.Call.Method.Name() == "Write" && readArg != nil && stripConv(call.Call.Args[0]) == readArg {
				fed = true
			}
		}
	}
	r.Check(readArg != nil && fed, rule, FnName(fn), c.Pos(fn.Pos()), "the matcher is written the slice buffer.Read filled",
		"encoderDict.Discard does not pass the matcher the very bytes buffer.Read removed (across the ring wrap): the match finder falls behind the dictionary head and proposes wrong distances")
}

// ---- OB-BYTEAT: byteAt / ByteAt answer 0 outside the bytes actually in the window ----
func ruleByteAtGuards(c *Ctx, r *Report, prefix string) {
	rule := prefix + "OB-BYTEAT"
	for _, e := range []struct{ fn, lenFn string }{{"decoderDict.byteAt", "decoderDict.dictLen"}, {"encoderDict.ByteAt", "encoderDict.Len"}} {
		fn, lf := c.Func("lzma", e.fn), c.Func("lzma", e.lenFn)
		if fn == nil || lf == nil {
			continue
		}
		okLo, okHi := false, false
		c.curRoot = fn
		c.bindParam = nil
		for _, g := range guardsOfX(fn, true) { // the range test may sit in a boolean helper (inDict(dist))
			if g.call != nil {
				continue
			}
			x, y, op := g.x, g.y, g.op
			isDist := func(v ssa.Value) bool { return stripConv(v) == fn.Params[1] }
			isLen := func(v ssa.Value) bool {
				call, ok := stripConvNoLook(v).(*ssa.Call)
				return ok && call.Call.StaticCallee() == lf
			}
			if isDist(y) {
				x, y, op = y, x, flipOp(op)
			}
			if !isDist(x) {
				continue
			}
			if k, isK := constInt(y); isK {
				// dist > 0 (or its negation dist <= 0), also spelled dist >= 1 / dist < 1
				if (op == token.GTR || op == token.LEQ) && k == 0 || (op == token.GEQ || op == token.LSS) && k == 1 {
					okLo = true
				}
			}
			if isLen(y) && (op == token.LEQ || op == token.GTR) {
				okHi = true
			}
		}
		r.Check(okLo && okHi, rule, FnName(fn), c.Pos(fn.Pos()), "0 < dist <= "+e.lenFn+"() else 0",
			e.fn+" does not bound the distance by "+e.lenFn+"() (the bytes actually in the window): after a dictionary reset stale bytes of the old window become literal contexts / match bytes")
	}
}

var _ = types.Typ

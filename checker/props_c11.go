package main

import "strings"

// ruleXZReaderBounds copies the entries of the xz reader catalogue that stand between
// hostile input and an out-of-range index or allocation (marked † in DESIGN Appendix A).
func ruleXZReaderBounds(c *Ctx, r *Report) {
	tmp := NewReport(r.Prop, r.Tier)
	ruleXZReaderChecks(c, tmp, "")
	keep := []string{"V00-", "V05-", "V12-", "V16-", "V17-", "V22-size-overflow", "V27-", "V30-", "V21-filter-props-read"}
	for _, o := range tmp.Obs {
		for _, k := range keep {
			if strings.HasPrefix(o.Key, k) {
				o.Rule = "OB-BOUND"
				r.add(o)
			}
		}
	}
	r.Floor("OB-BOUND", 12)
}

func init() {
	register(&propCheck{
		id: "C11",
		explain: "Decided: (PN) census of every explicit panic and comma-less type assertion reachable (VTA) from the reader API: each of the 9 sites is discharged " +
			"automatically (guard on a never-failing callee; type-switch coverage of all concrete operation types; finite-domain evaluation showing the codec init " +
			"functions and headerLen cannot reach their panic; path walk with the parameter ranges that PropertiesForCode / Properties.verify let through; interface " +
			"implementation of every value flowing into an assertion) or carries a named justification; a new site is a violation. (OB) the bounds between hostile input and an " +
			"out-of-range index or allocation exist with the exact relation and fail on their bad edge: writeMatch distance (0 < dist <= dictLen()), length (1..273), " +
			"space; dictLen = min(head, capacity); decompress decodes only with >= 273 bytes free; window >= 4096 (clamp) and = max(declared, configured); uvarint 10-byte " +
			"limit and overflow; len(data) == header length before slicing; record count checked before allocation; size-field and record sign checks; CE reject sets " +
			"(control bytes 0x03-0x7F, dictionary codes > 40, properties bytes > 224); LZMA header sign checks; chunk header length tests. " +
			"NOT decided: implicit panics in general (index/nil/slice); BOUNDED TIME (no termination analysis); n <= len(p).",
		run: func(c *Ctx, r *Report) {
			rulePanicCensus(c, r, readerAPI(c), "reader")
			r.Floor("PN-reader", 9)
			ruleDecoderBounds(c, r, "")
			ruleReaderWindow(c, r, "")
			ruleNilOnErr(c, r, "")
			ruleLitInit(c, r, "")
			ruleLoopAdvanceExact(c, r, "")
			ruleNilDecoder(c, r, "")
			ruleArraySlices(c, r, "")
			ruleRingWriters(c, r, "")
			ruleApplyOps(c, r, "")
			ruleOpSiblings(c, r, "")
			ruleCheckIDs(c, r, "")
			ruleRawEOFFlag(c, r, "")
			ruleXZReaderBounds(c, r)
			t := getChunkTables(c, r, "")
			ruleControlByte(c, r, t, "", true)
			// new properties in a chunk header => a state sized for them (else litState indexes past the literal tables)
			ruleStartChunkEffects(c, r, t, "")
			ruleDictCapDecode(c, r, "")
			rulePropsCode(c, r, "")
			// a failed chunk start must be latched: the next Read would dereference a nil chunk reader
			ruleSticky(c, r, "", c.Func("lzma", "Reader2.Read"), c.Field("lzma", "Reader2.err"))
			// an error of a fallible step that is dropped lets the reader go on with what the failed step left
			// behind (a nil range decoder after a failed Reopen): the next call dereferences it
			ruleIO(c, r, readerCone(c), "", true)
		},
	})
}

package main

import (
	"fmt"
	"go/token"

	"golang.org/x/tools/go/ssa"
)

// ruleRawVsCompressed (C17 clause 1): writeChunk compares the raw size with the
// compressed size and takes the raw form on the smaller side, controlled by nothing else.
func ruleRawVsCompressed(c *Ctx, r *Report, prefix string) {
	rule := prefix + "OB-RAWCHOICE"
	fn := c.Func("lzma", "Writer2.writeChunk")
	wUC, wCC := c.Func("lzma", "Writer2.writeUncompressedChunk"), c.Func("lzma", "Writer2.writeCompressedChunk")
	comp := c.Func("lzma", "encoder.Compressed")
	hl := c.Func("lzma", "headerLen")
	if fn == nil || wUC == nil || wCC == nil || comp == nil || hl == nil {
		return
	}
	uhl, _ := namedConstInt(c, "lzma", "uncompressedHeaderLen")
	rawSize := roleBinOp(token.ADD, roleConst(uhl), roleCallTo(comp))
	cmpSize := roleBinOp(token.ADD, roleCallTo(hl), func(v ssa.Value) bool {
		call, ok := stripConv(v).(*ssa.Call)
		return ok && stdCalleeName(call) == "(*bytes.Buffer).Len"
	})
	var ucB, ccB *ssa.BasicBlock
	for _, b := range theCtx.GB(fn) {
		for _, ins := range b.Instrs {
			if isCallTo(ins, wUC) {
				ucB = b
			}
			if isCallTo(ins, wCC) {
				ccB = b
			}
		}
	}
	ok, why := false, "no comparison of (3 + uncompressed size) with (header length + compressed size) found"
	gs := guardsOf(fn)
	for _, g := range gs {
		if g.call != nil {
			continue
		}
		op := g.op
		switch {
		case rawSize(g.x) && cmpSize(g.y):
		case rawSize(g.y) && cmpSize(g.x):
			op = flipOp(op)
		default:
			continue
		}
		var rawEdge, cmpEdge *ssa.BasicBlock
		switch op {
		case token.LSS, token.LEQ:
			rawEdge, cmpEdge = g.iff.Block().Succs[0], g.iff.Block().Succs[1]
		case token.GEQ, token.GTR:
			rawEdge, cmpEdge = g.iff.Block().Succs[1], g.iff.Block().Succs[0]
		default:
			why = "the two sizes are compared with " + op.String()
			continue
		}
		// the raw form may additionally require that the encoder dictionary still holds the chunk
		// (Compressed() <= dict.Len(), WR-RAWCOPY): always true once DictCap >= 64 KiB
		if ucB != rawEdge && rawEdge != nil && len(rawEdge.Instrs) > 0 && len(rawEdge.Succs) == 2 {
			if iff2, isIf := rawEdge.Instrs[len(rawEdge.Instrs)-1].(*ssa.If); isIf {
				if bo, isB := iff2.Cond.(*ssa.BinOp); isB {
					dlen := c.Func("lzma", "encoderDict.Len")
					isCallOf := func(v ssa.Value, f *ssa.Function) bool {
						cl, ok := stripConv(v).(*ssa.Call)
						return ok && f != nil && cl.Call.StaticCallee() == f
					}
					if (bo.Op == token.LEQ && isCallOf(bo.X, comp) && isCallOf(bo.Y, dlen)) || (bo.Op == token.GEQ && isCallOf(bo.X, dlen) && isCallOf(bo.Y, comp)) {
						if rawEdge.Succs[1] == cmpEdge {
							rawEdge = rawEdge.Succs[0]
						}
					} else if (bo.Op == token.GTR && isCallOf(bo.X, comp) && isCallOf(bo.Y, dlen)) || (bo.Op == token.LSS && isCallOf(bo.X, dlen) && isCallOf(bo.Y, comp)) {
						// the negated spelling (u >= c || Compressed() > Len() => compressed)
						if rawEdge.Succs[0] == cmpEdge {
							rawEdge = rawEdge.Succs[1]
						}
					}
				}
			}
		}
		if ucB == rawEdge && ccB == cmpEdge {
			ok = true
		} else {
			why = "the raw/compressed choice is not controlled by that comparison alone (the raw form must be taken exactly when it is smaller)"
		}
	}
	if uhl != 3 {
		ok, why = false, fmt.Sprintf("uncompressedHeaderLen is %d, the raw chunk header has 3 bytes", uhl)
	}
	r.Check(ok && ucB != nil && ccB != nil, rule, FnName(fn), c.Pos(fn.Pos()), "writeChunk stores a chunk raw exactly when 3 + uncompressed size < header length + compressed size; both forms reachable",
		"writeChunk: "+why+": incompressible data would expand beyond the bound (or compressible data would be stored raw)")
}

// ruleBinTreeDistance (C17 clause 2): node index -> distance conversion.
func ruleBinTreeDistance(c *Ctx, r *Report, prefix string) {
	rule := prefix + "TM-BT-DIST"
	fn := c.Func("lzma", "binTree.distance")
	fFront := c.Field("lzma", "binTree.front")
	fNode := c.Field("lzma", "binTree.node")
	wl, okWL := namedConstInt(c, "lzma", "wordLen")
	if fn == nil || fFront == nil || fNode == nil || !okWL {
		return
	}
	// template: d := int(front) - int(v); if d <= 0 { d += len(node) }; return d + wordLen - 1
	paths, over := CollectPaths(c, SeqSpec{Fn: fn})
	ok := !over && len(paths) == 2
	base := roleBinOp(token.SUB, func(v ssa.Value) bool {
		cv, isC := v.(*ssa.Convert)
		return isC && isFieldLoadOf(cv.X, fFront) && isIntegerType(cv.Type()) && cv.Type().String() == "int"
	}, func(v ssa.Value) bool {
		cv, isC := v.(*ssa.Convert)
		if !isC || cv.Type().String() != "int" {
			return false
		}
		_, isP := cv.X.(*ssa.Parameter)
		return isP
	})
	wrapped := roleBinOp(token.ADD, base, roleLenOf(roleFieldLoad(fNode)))
	nWrap, nPlain := 0, 0
	for _, sp := range paths {
		if len(sp.Rets) != 1 {
			ok = false
			continue
		}
		rv := sp.Rets[0]
		// rv = X + (wordLen-1), written with any chain of +/- constants
		bx, off := affine(rv)
		if off != wl-1 {
			ok = false
			continue
		}
		x := sp.P.Resolve(bx)
		switch {
		case wrapped(x):
			nWrap++
		case base(x):
			nPlain++
		default:
			ok = false
		}
	}
	// the wrap happens exactly when the difference is <= 0
	okGuard := false
	for _, g := range guardsOf(fn) {
		if g.call == nil && base(g.x) && roleConst(0)(g.y) && g.op == token.LEQ {
			okGuard = true
		}
	}
	r.Check(ok && nWrap == 1 && nPlain == 1 && okGuard && wl == 4, rule, FnName(fn), c.Pos(fn.Pos()),
		"distance = (int(front) - int(v), wrapped by len(node) when <= 0) + wordLen - 1",
		"binTree.distance is not (int(front)-int(v), plus len(node) when <= 0) + wordLen-1: a node holds the 4-byte word that starts at its index while distances are counted from the head behind the word; with a wrong conversion no tree candidate ever matches and BinaryTree stops compressing (signed arithmetic is needed: the difference is negative after the node ring wrapped)")
}

// affine strips a chain of additions/subtractions of constants: v = base + off.
func affine(v ssa.Value) (base ssa.Value, off int64) {
	for {
		bo, ok := v.(*ssa.BinOp)
		if !ok {
			return v, off
		}
		if k, isK := constInt(bo.Y); isK && bo.Op == token.ADD {
			off += k
			v = bo.X
			continue
		}
		if k, isK := constInt(bo.Y); isK && bo.Op == token.SUB {
			off -= k
			v = bo.X
			continue
		}
		if k, isK := constInt(bo.X); isK && bo.Op == token.ADD {
			off += k
			v = bo.Y
			continue
		}
		return v, off
	}
}

func init() {
	register(&propCheck{
		id: "C01",
		explain: "Decided - necessary structural conditions only: (OB-M1) in every matcher (hashTable, binTree) each candidate distance handed to buffer.matchLen lies on the " +
			"`dist <= encoderDict.DictLen()` side of a guard (a stricter guard is accepted here; C17 demands the exact relation); (OB-DL) encoderDict.DictLen and decoderDict.dictLen are min(head, capacity); " +
			"(SEQ-XZW) Write/Close on a closed xz.Writer perform nothing and fail, Close marks the writer closed first and returns nil only after closeBlockWriter . " +
			"writeIndex . footer write; every block gets a fresh check instance; block rotation: blockWriter.Write truncates to blockSize-n, Writer.Write answers errNoSpace " +
			"with closeBlockWriter . newBlockWriter and never returns it, the record is appended exactly after a successful blockWriter.Close, which only closeBlockWriter " +
			"calls; LZMA2 writer typestate and chunk sequencing (SEQ-W2); no sink error masked (EF-IO). NOT decided: equality of decoded and original bytes; success for all " +
			"configurations - in particular the small-dictionary defect named in the property (DictCap+BufSize < 64 KiB => CopyN 'insufficient space') needs arithmetic over " +
			"buffer occupancy and is out of reach of this family; partition independence.",
		run: func(c *Ctx, r *Report) {
			ruleMatcherGuard(c, r, "", false)
			ruleDecoderBounds(c, r, "")
			ruleRingModulus(c, r, "", "enc")
			ruleDeepCopy(c, r, "")
			ruleOpSiblings(c, r, "")
			ruleCodecSiblings(c, r, "")
			ruleCounting(c, r, "", "write")
			ruleBlockWriterHash(c, r, "")
			ruleLookahead(c, r, "")
			ruleOpMargin(c, r, "")
			ruleRawCopy(c, r, "")
			ruleReopenState(c, r, "")
			ruleEncAvail(c, r, "")
			ruleWriter2Split(c, r, "")
			ruleMatchLen(c, r, "")
			ruleWriteMatchCE(c, r, "")
			ruleCopyNCE(c, r, "") // raw chunks carry the bytes that were compressed
			ruleDictCapRange(c, r, "")
			{
				// the LZMA2 chunk header both ways at its boundary values (a chunk of more than 1 MiB)
				ct := getChunkTables(c, r, "")
				ruleChunkHeaderCodec(c, r, ct, "")
			}
			ruleCtorReopen(c, r, "")
			ruleLoopAdvanceExact(c, r, "")
			ruleEncoderDictArgs(c, r, "")
			ruleDictCapEncode(c, r, "")
			ruleLzmaFilterCodec(c, r, "")
			ruleFilterWriterDict(c, r, "")
			ruleXZWriter(c, r, "")
			ruleXZWriterFormat(c, r, "") // what the writer emits is what the reader of the round trip parses: varints, CRC placement, index
			t := getChunkTables(c, r, "")
			ruleWriter2(c, r, t, "")
			ruleWriterChunkLegality(c, r, t, "")
			ruleIO(c, r, c.Cone(nonNilFns(c.Func("", "NewWriter"), c.Func("", "WriterConfig.NewWriter"), c.Func("", "Writer.Write"), c.Func("", "Writer.Close"))...), "", true)
		},
	})
	register(&propCheck{
		id: "C17",
		explain: "Decided - three structural preconditions of the bounds, not the bounds: (1) Writer2.writeChunk stores a chunk raw exactly when 3 + uncompressed size < " +
			"header length + compressed size, controlled by nothing else, both forms reachable (third bound: incompressible chunks are stored raw); (2) binTree.distance " +
			"converts a node index to a distance as (int(front) - int(v), wrapped by len(node) when <= 0) + wordLen-1 in signed arithmetic (a wrong conversion makes " +
			"every tree candidate miss: the second bound); (3) OB-M1 with the exact relation `dist > DictLen()` (>= would never use the largest legal distance: X||X " +
			"with |X| = DictCap); (4) CE-BT-WRITE: binTree.Write(p), evaluated on trees of 3 and 5 nodes for all strings over two byte values up to length 7 cut into two calls, " +
			"is the same state change as WriteByte for every byte (front / hoff follow the dictionary). NOT decided, stated plainly: the first two bounds themselves (match-finder effectiveness: rolling hash, chain arithmetic, tree shape) - " +
			"exit 0 of this check says nothing about the achieved compression ratio.",
		run: func(c *Ctx, r *Report) {
			ruleRawVsCompressed(c, r, "")
			ruleBinTreeDistance(c, r, "")
			ruleMatcherGuard(c, r, "", true)
			ruleBudgetFresh(c, r, "")
			ruleHashTableAlloc(c, r, "")
			ruleRingModulus(c, r, "", "enc")
			rulePeekLen(c, r, "")
			ruleDiscardFeed(c, r, "")
			// a repeat at distance <= DictCap can only be found if the encoder dictionary really has
			// the configured capacity (newEncoderDict(dictCap, bufSize, ...), not swapped)
			ruleEncoderDictArgs(c, r, "")
			ruleFilterWriterDict(c, r, "")
			ruleBlockFilters(c, r, "")
			ruleWriter2Split(c, r, "")
			ruleMatchLen(c, r, "")
			ruleBlockSizeDefault(c, r, "")
			ruleHashChain(c, r, "")
			ruleBinTreeWriteCE(c, r, "")
		},
	})
}

package main

import "golang.org/x/tools/go/ssa"

// Entry points of the public API (anchors by exported name).

func nonNilFns(fs ...*ssa.Function) []*ssa.Function {
	var r []*ssa.Function
	for _, f := range fs {
		if f != nil {
			r = append(r, f)
		}
	}
	return r
}

func readerAPI(c *Ctx) []*ssa.Function {
	return nonNilFns(
		c.Func("", "NewReader"), c.Func("", "ReaderConfig.NewReader"), c.Func("", "Reader.Read"),
		c.Func("lzma", "NewReader"), c.Func("lzma", "ReaderConfig.NewReader"), c.Func("lzma", "Reader.Read"),
		c.Func("lzma", "NewReader2"), c.Func("lzma", "Reader2Config.NewReader2"), c.Func("lzma", "Reader2.Read"),
	)
}

func writerAPI(c *Ctx) []*ssa.Function {
	return nonNilFns(
		c.Func("", "NewWriter"), c.Func("", "WriterConfig.NewWriter"), c.Func("", "Writer.Write"), c.Func("", "Writer.Close"),
		c.Func("lzma", "NewWriter"), c.Func("lzma", "WriterConfig.NewWriter"), c.Func("lzma", "Writer.Write"), c.Func("lzma", "Writer.Close"),
		c.Func("lzma", "NewWriter2"), c.Func("lzma", "Writer2Config.NewWriter2"), c.Func("lzma", "Writer2.Write"),
		c.Func("lzma", "Writer2.Flush"), c.Func("lzma", "Writer2.Close"),
	)
}

func gxzRoots(c *Ctx) []*ssa.Function {
	return nonNilFns(c.Func("cmd/gxz", "processFile"), c.Func("cmd/gxz", "main"))
}

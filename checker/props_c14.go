package main

func init() {
	register(&propCheck{
		id: "C14",
		explain: "Decided: every package-level variable of xz, lzma, internal/hash and internal/xlog is never assigned after package initialisation, its address " +
			"never escapes, and reference-typed contents (slices, maps, pointers) are only read on every use chain (index/lookup loads, len, range, source of " +
			"copy/append, read-only parameters), never stored into instance state or returned - so two distinct reader/writer instances share no mutable memory; " +
			"the one mutable global, the xlog standard logger, has all accesses to its state under Logger.mu (lockset, locally or in every caller); the " +
			"reader/writer cones contain no goroutine, channel, select, map iteration, time, rand, pid/env, runtime, sync.Pool/Map or unsafe use. Together: no " +
			"race between instances and output a function of configuration and input only. NOT decided: races inside user-supplied readers/writers; the Go runtime.",
		run: func(c *Ctx, r *Report) {
			ruleGlobals(c, r, "")
			ruleInitClosures(c, r, "")
			rulePropsWriters(c, r, "")
			ruleLoggerLockset(c, r, "")
			ruleNondeterminism(c, r, "")
		},
	})
}

package main

// SEQ / who-may-call rules for cmd/gxz (C10, C15).

import (
	"fmt"
	"go/constant"
	"go/token"
	"go/types"
	"os"
	"sort"
	"strings"

	"golang.org/x/tools/go/ssa"
)

// fsMutators: functions of package os (and methods of *os.File) that create, replace,
// truncate or remove directory entries.
var fsMutators = map[string]bool{
	"os.Remove": true, "os.RemoveAll": true, "os.Rename": true, "os.OpenFile": true, "os.Create": true,
	"os.Mkdir": true, "os.MkdirAll": true, "os.WriteFile": true, "os.Truncate": true, "os.Link": true,
	"os.Symlink": true, "os.Chmod": true, "os.Chown": true, "os.CreateTemp": true, "os.MkdirTemp": true,
	"(*os.File).Truncate": true, "(*os.File).Chmod": true, "io/ioutil.WriteFile": true, "io/ioutil.TempFile": true,
	"syscall.Unlink": true, "syscall.Rename": true, "syscall.Open": true,
}

func osConst(c *Ctx, name string) (int64, bool) {
	p := c.Prog.ImportedPackage("os")
	if p == nil {
		return 0, false
	}
	k := p.Const(name)
	if k == nil {
		return 0, false
	}
	return constInt(k.Value)
}

func fieldBoolOnPath(p *PState, f *types.Var) (val, known bool) {
	id := fieldID(f)
	for k, v := range p.fields {
		i := strings.Index(k, "|")
		parts := strings.Split(k[i+1:], ".")
		if parts[len(parts)-1] == id {
			return p.BoolOf(v)
		}
	}
	return false, false
}

func ruleGxzDataSafety(c *Ctx, r *Report, prefix string) {
	rule := prefix + "SEQ-GXZ"
	// ---- 1. who may mutate the file system ----
	allowed := map[string]bool{
		"gxz.newWriter:os.OpenFile": true, "(*gxz.writer).Close:os.Remove": true, "(*gxz.writer).Close:os.Rename": true,
		"(*gxz.writer).removeTmpFile:os.Remove": true,
		"(*gxz.reader).Close:os.Remove":         true, "gxz.main:os.Create": true,
	}
	if c.funcQuiet("cmd/gxz", "writer.discard") != nil {
		allowed["(*gxz.writer).discard:os.Remove"] = true
	}
	seen := map[string]bool{}
	for _, fn := range c.ModFuncs("cmd/gxz") {
		for _, b := range theCtx.GB(fn) {
			for _, ins := range b.Instrs {
				ci, ok := ins.(ssa.CallInstruction)
				if !ok {
					continue
				}
				name := stdCalleeName(ins)
				if !fsMutators[name] {
					continue
				}
				key := FnName(fn) + ":" + name
				seen[key] = true
				if !allowed[key] {
					r.Fail(rule, "WMC:"+key, c.InstrPos(ci.(ssa.Instruction)), fmt.Sprintf("%s calls %s: not in the frozen set of file-system mutations of gxz (temp file create, rename to target, remove temp, remove input, cpuprofile)", FnName(fn), name))
				}
			}
		}
	}
	for key := range allowed {
		if seen[key] {
			r.Pass(rule, "WMC:"+key, "", "file-system mutation site of the frozen set", 1)
		} else if key != "gxz.main:os.Create" {
			r.Fail(rule, "WMC:"+key, "", "expected file-system mutation site "+key+" not found (the ordering rules below would be vacuous)")
		}
	}

	fRKeep, fRSucc := c.Field("cmd/gxz", "reader.keep"), c.Field("cmd/gxz", "reader.success")
	fWSucc := c.Field("cmd/gxz", "writer.success")
	fWf, fWname := c.Field("cmd/gxz", "writer.f"), c.Field("cmd/gxz", "writer.name")
	fWcmp, fWbw := c.Field("cmd/gxz", "writer.cmp"), c.Field("cmd/gxz", "writer.bw")
	fRf := c.Field("cmd/gxz", "reader.f")
	rClose, wClose := c.Func("cmd/gxz", "reader.Close"), c.Func("cmd/gxz", "writer.Close")
	rSet, wSet := c.Func("cmd/gxz", "reader.SetSuccess"), c.Func("cmd/gxz", "writer.SetSuccess")
	process := c.Func("cmd/gxz", "processFile")
	newWriter, targetName, tmpName := c.Func("cmd/gxz", "newWriter"), c.Func("cmd/gxz", "targetName"), c.Func("cmd/gxz", "tmpName")
	discard := c.funcQuiet("cmd/gxz", "writer.discard") // optional helper
	isStdout := c.Func("cmd/gxz", "isStdout")
	if fRKeep == nil || fRSucc == nil || fWSucc == nil || fWf == nil || fWname == nil || fWcmp == nil || fWbw == nil || fRf == nil ||
		rClose == nil || wClose == nil || rSet == nil || wSet == nil || process == nil || newWriter == nil || targetName == nil ||
		tmpName == nil || isStdout == nil {
		return
	}

	// ---- 2. the input is removed only when success && !keep ----
	{
		bad, n := false, 0
		spec := SeqSpec{Fn: rClose}
		spec.Event = func(w *Walker, p *PState, ins ssa.Instruction) string {
			if stdCalleeName(ins) == "os.Remove" {
				n++
				k, kk := fieldBoolOnPath(p, fRKeep)
				s, sk := fieldBoolOnPath(p, fRSucc)
				if !kk || !sk || k || !s {
					if !bad {
						r.Fail(rule, "input-remove-guard", c.InstrPos(ins), fmt.Sprintf("reader.Close removes the input on a path where success && !keep is not established (keep=%v known=%v, success=%v known=%v)", k, kk, s, sk), w.TraceStrings(p)...)
					}
					bad = true
				}
				// the argument is the input file's own name
				call := ins.(*ssa.Call)
				if nc, ok := call.Call.Args[0].(*ssa.Call); !ok || stdCalleeName(nc) != "(*os.File).Name" || !isFieldLoadOf(nc.Call.Args[0], fRf) {
					if !bad {
						r.Fail(rule, "input-remove-guard", c.InstrPos(ins), "reader.Close removes something other than r.f.Name()")
					}
					bad = true
				}
				return "remove"
			}
			return ""
		}
		_, over := CollectPaths(c, spec)
		if over {
			r.Undecided(rule, "input-remove-guard", c.Pos(rClose.Pos()), "path budget exceeded")
		} else if !bad && n > 0 {
			r.Pass(rule, "input-remove-guard", c.Pos(rClose.Pos()), "os.Remove(input) is dominated by success && !keep", n)
		}
	}
	// ---- 3. success flags are set only by SetSuccess (to true) ----
	for _, f := range []*types.Var{fRSucc, fWSucc} {
		var writers []string
		for _, fn := range c.ModFuncs("cmd/gxz") {
			for _, b := range theCtx.GB(fn) {
				for _, ins := range b.Instrs {
					if st, ok := storeToField(ins, f); ok {
						if bv, isB := constBool(st.Val); !isB || !bv || (fn != rSet && fn != wSet) {
							writers = append(writers, FnName(fn))
						}
					}
				}
			}
		}
		r.Check(len(writers) == 0, rule, "WMW:"+f.Name()+"@"+f.Pkg().Name()+"."+fieldOwner(c, f), "", "success flag is stored only by SetSuccess (true)",
			fmt.Sprintf("success flag is also written by %v", writers))
	}
	// ---- 4. processFile: Copy ok -> w.SetSuccess -> w.Close ok -> r.SetSuccess -> r.Close ----
	{
		var copyCall, wCloseCall *ssa.Call
		spec := SeqSpec{Fn: process}
		spec.Event = func(w *Walker, p *PState, ins ssa.Instruction) string {
			if call, ok := ins.(*ssa.Call); ok {
				switch {
				case stdCalleeName(ins) == "io.Copy":
					copyCall = call
					return "Copy"
				case call.Call.StaticCallee() == wSet:
					return "w.SetSuccess"
				case call.Call.StaticCallee() == wClose:
					wCloseCall = call
					return "w.Close"
				case call.Call.StaticCallee() == rSet:
					return "r.SetSuccess"
				case call.Call.StaticCallee() == rClose:
					return "r.Close"
				}
			}
			return ""
		}
		paths, over := CollectPaths(c, spec)
		key := "processFile:order"
		if over {
			r.Undecided(rule, key, c.Pos(process.Pos()), "path budget exceeded")
		} else {
			bad, nFull := false, 0
			for _, sp := range paths {
				l := sp.Labels()
				want := []string{"Copy", "w.SetSuccess", "w.Close", "r.SetSuccess", "r.Close"}
				if !isPrefix(l, want) {
					r.Fail(rule, key, c.Pos(process.Pos()), fmt.Sprintf("processFile performs [%s]; required order: copy, w.SetSuccess, w.Close (rename), r.SetSuccess, r.Close (remove input)", strings.Join(l, " ")), sp.Trace...)
					bad = true
					break
				}
				if sp.Has("w.SetSuccess") {
					ev := errValueOfCall(copyCall)
					if ev == nil || !sp.P.IsNil(ev) {
						r.Fail(rule, key, c.Pos(process.Pos()), "w.SetSuccess is reached although io.Copy may have failed", sp.Trace...)
						bad = true
						break
					}
				}
				if sp.Has("r.SetSuccess") {
					if wCloseCall == nil || !sp.P.IsNil(wCloseCall) {
						r.Fail(rule, key, c.Pos(process.Pos()), "r.SetSuccess (which arms the removal of the input) is reached although w.Close (flush, close, rename to the target) may have failed or has not run", sp.Trace...)
						bad = true
						break
					}
					nFull++
				}
				if sp.ErrNil && len(l) != len(want) {
					r.Fail(rule, key, c.Pos(process.Pos()), fmt.Sprintf("processFile returns nil after only [%s]", strings.Join(l, " ")), sp.Trace...)
					bad = true
					break
				}
			}
			if !bad && nFull > 0 {
				r.Pass(rule, key, c.Pos(process.Pos()), "on every path: r.SetSuccess only after w.Close() == nil, which is after w.SetSuccess, which is after io.Copy == nil", len(paths))
			} else if nFull == 0 && !bad {
				r.Undecided(rule, key, c.Pos(process.Pos()), "no complete success path found")
			}
		}
	}
	// ---- 5. writer.Close: word of the success branch; no debris ----
	{
		var renameCall *ssa.Call
		spec := SeqSpec{Fn: wClose, PureCalls: nil}
		spec.Event = func(w *Walker, p *PState, ins ssa.Instruction) string {
			call, ok := ins.(*ssa.Call)
			if !ok {
				return ""
			}
			name := stdCalleeName(ins)
			switch {
			case call.Call.IsInvoke() && call.Call.Method.Name() == "Close" && isFieldLoadOf(call.Call.Value, fWcmp):
				return "cmp.Close"
			case name == "(*bufio.Writer).Flush" && isFieldLoadOf(call.Call.Args[0], fWbw):
				return "bw.Flush"
			case name == "(*os.File).Close" && isFieldLoadOf(call.Call.Args[0], fWf):
				return "f.Close"
			case name == "os.Rename":
				renameCall = call
				// Rename(w.f.Name(), w.name)
				a := call.Call.Args
				nc, ok := a[0].(*ssa.Call)
				if !ok || stdCalleeName(nc) != "(*os.File).Name" || !isFieldLoadOf(nc.Call.Args[0], fWf) || !isFieldLoadOf(a[1], fWname) {
					return "Rename(?)"
				}
				return "Rename"
			case name == "os.Remove":
				nc, ok := call.Call.Args[0].(*ssa.Call)
				if !ok || stdCalleeName(nc) != "(*os.File).Name" || !isFieldLoadOf(nc.Call.Args[0], fWf) {
					return "Remove(?)"
				}
				return "Remove"
			case discard != nil && call.Call.StaticCallee() == discard:
				return "discard"
			case call.Call.StaticCallee() == isStdout:
				return "isStdout"
			}
			return ""
		}
		paths, over := CollectPaths(c, spec)
		key := "writer.Close"
		if over {
			r.Undecided(rule, key, c.Pos(wClose.Pos()), "path budget exceeded")
		} else {
			bad, nOK := false, 0
			for _, sp := range paths {
				var l []string
				stdout := false
				for _, e := range sp.Events {
					if e.Label == "isStdout" {
						if bv, known := sp.P.BoolOf(e.Ins.(*ssa.Call)); known && bv {
							stdout = true
						}
						continue
					}
					l = append(l, e.Label)
				}
				succ, succKnown := fieldBoolOnPath(sp.P, fWSucc)
				if len(sp.Events) == 0 {
					continue // w.f == nil: already closed
				}
				if stdout {
					for _, x := range l {
						if x == "Rename" || x == "Remove" || x == "discard" || x == "f.Close" {
							r.Fail(rule, key+":stdout", c.Pos(wClose.Pos()), fmt.Sprintf("with output to stdout writer.Close performs %s", x), sp.Trace...)
							bad = true
						}
					}
					continue
				}
				if !succKnown {
					continue
				}
				if !succ {
					// failure branch: temp file closed and removed whatever happens
					if !(sp.Has("f.Close") && sp.Has("Remove")) {
						r.Fail(rule, key+":failure-branch", c.Pos(wClose.Pos()), fmt.Sprintf("after a failed run writer.Close performs [%s]: the temporary file must be closed and removed on every path", strings.Join(l, " ")), sp.Trace...)
						bad = true
					}
					continue
				}
				// success branch
				full := []string{"bw.Flush", "f.Close", "Rename"}
				l2 := l
				if len(l2) > 0 && l2[0] == "cmp.Close" {
					l2 = l2[1:]
				}
				if sp.ErrNil {
					nOK++
					if !eqLabels(l2, full) || renameCall == nil || !sp.P.IsNil(renameCall) {
						r.Fail(rule, key+":success-word", c.Pos(wClose.Pos()), fmt.Sprintf("writer.Close returns nil after [%s]; a successful close is cmp.Close? . bw.Flush . f.Close . Rename(tmp, target), each checked", strings.Join(l, " ")), sp.Trace...)
						bad = true
					}
					continue
				}
				// an error on the success branch: the temp file must not stay behind
				if !(sp.Has("discard") || sp.Has("Remove")) {
					r.Fail(rule, key+":debris", c.InstrPos(sp.Exit), fmt.Sprintf("writer.Close fails after [%s] without removing the temporary file", strings.Join(l, " ")), sp.Trace...)
					bad = true
				}
				// and what ran must be a prefix of the word (+ discard)
				var core []string
				for _, x := range l2 {
					if x != "discard" {
						core = append(core, x)
					}
				}
				if !isPrefix(core, full) {
					r.Fail(rule, key+":success-word", c.Pos(wClose.Pos()), fmt.Sprintf("writer.Close fails after [%s], not a prefix of bw.Flush f.Close Rename", strings.Join(l, " ")), sp.Trace...)
					bad = true
				}
				resolveWith = nil
				if bad {
					break
				}
			}
			if !bad && nOK > 0 {
				r.Pass(rule, key, c.Pos(wClose.Pos()), "success: cmp.Close? . Flush . f.Close . Rename, each error-checked; every failing path removes the temporary file; stdout paths touch no file", len(paths))
			} else if nOK == 0 && !bad {
				r.Undecided(rule, key, c.Pos(wClose.Pos()), "no successful path found")
			}
		}
		if discard != nil {
			// discard() is only called where a non-nil error is returned afterwards (justifies the EF suppression)
			okDisc, nDisc := true, 0
			for _, fn := range c.ModFuncs("cmd/gxz") {
				has := false
				for _, b := range theCtx.GB(fn) {
					for _, ins := range b.Instrs {
						if isCallTo(ins, discard) {
							has = true
						}
					}
				}
				if !has {
					continue
				}
				ps, _ := CollectPaths(c, SeqSpec{Fn: fn, Event: func(w *Walker, p *PState, ins ssa.Instruction) string {
					if isCallTo(ins, discard) {
						return "discard"
					}
					return ""
				}})
				for _, sp := range ps {
					if sp.Has("discard") {
						nDisc++
						if !sp.ErrNonNil {
							okDisc = false
						}
					}
				}
			}
			r.Check(okDisc && nDisc > 0, rule, "discard-on-failure-only", c.Pos(discard.Pos()), "writer.discard runs only on paths that return a non-nil error",
				"writer.discard (which ignores its own errors) is called on a path that does not return an error")
			// discard itself closes and removes the temp file unless stdout
			{
				ps, _ := CollectPaths(c, SeqSpec{Fn: discard, Event: spec.Event})
				ok := len(ps) > 0
				for _, sp := range ps {
					stdout := false
					for _, e := range sp.Events {
						if e.Label == "isStdout" {
							if bv, known := sp.P.BoolOf(e.Ins.(*ssa.Call)); known && bv {
								stdout = true
							}
						}
					}
					if stdout {
						if sp.Has("Remove") || sp.Has("f.Close") {
							ok = false
						}
					} else if !(sp.Has("Remove") && sp.Has("f.Close")) {
						ok = false
					}
				}
				r.Check(ok, rule, "discard-removes", c.Pos(discard.Pos()), "writer.discard closes and removes the temporary file (nothing for stdout)", "writer.discard does not close and remove the temporary file on every non-stdout path")
			}
		}
	}
	// ---- 6. newWriter: temp name, exclusive create, existence test ----
	{
		oW, _ := osConst(c, "O_WRONLY")
		oC, _ := osConst(c, "O_CREATE")
		oE, _ := osConst(c, "O_EXCL")
		var tnCall *ssa.Call
		var statCall *ssa.Call
		okOpen, okTmp, nOpen := true, true, 0
		fForce := c.Field("cmd/gxz", "options.force")
		spec := SeqSpec{Fn: newWriter}
		var guardFail []string
		spec.Event = func(w *Walker, p *PState, ins ssa.Instruction) string {
			call, ok := ins.(*ssa.Call)
			if !ok {
				return ""
			}
			switch {
			case call.Call.StaticCallee() == targetName:
				tnCall = call
				return "targetName"
			case stdCalleeName(ins) == "os.Stat":
				statCall = call
				return "Stat"
			case stdCalleeName(ins) == "os.OpenFile":
				nOpen++
				a := call.Call.Args
				if k, isK := constInt(a[1]); !isK || k != oW|oC|oE {
					okOpen = false
				}
				tc, isC := a[0].(*ssa.Call)
				if tmpName == newWriter {
					// tmpName was inlined into newWriter: the opened name is target + non-empty constant
					resolveWith = p
					if tnCall == nil || !isPathPlusNonEmptyOf(a[0], func(v ssa.Value) bool { return roleExtract(roleIs(tnCall), 0)(v) }) {
						okTmp = false
					}
					resolveWith = nil
				} else if !isC || tc.Call.StaticCallee() != tmpName || tnCall == nil || !roleExtract(roleIs(tnCall), 0)(tc.Call.Args[0]) {
					okTmp = false
				}
				// existence test: IsNotExist(err of Stat) true, or force
				exists := true
				for v, f := range p.facts {
					if cl, isCall := v.(*ssa.Call); isCall && stdCalleeName(cl) == "os.IsNotExist" && f.boolK == 1 {
						exists = false
					}
				}
				force, fk := fieldBoolOnPath(p, fForce)
				if exists && !(fk && force) {
					guardFail = w.TraceStrings(p)
				}
				return "OpenFile"
			}
			return ""
		}
		_, over := CollectPaths(c, spec)
		if over {
			r.Undecided(rule, "newWriter", c.Pos(newWriter.Pos()), "path budget exceeded")
		} else {
			r.Check(nOpen > 0 && okOpen, rule, "newWriter:exclusive-create", c.Pos(newWriter.Pos()), "temporary file opened O_WRONLY|O_CREATE|O_EXCL",
				"the temporary file is not opened with exactly O_WRONLY|O_CREATE|O_EXCL: an existing file (possibly a link to the input) could be truncated or followed")
			r.Check(nOpen > 0 && okTmp, rule, "newWriter:tmp-name", c.Pos(newWriter.Pos()), "temporary name = tmpName(targetName(path))",
				"the file opened for writing is not tmpName(targetName(path, opts), ...)")
			r.Check(statCall != nil && guardFail == nil, rule, "newWriter:no-overwrite", c.Pos(newWriter.Pos()), "the temp file is created only if the target does not exist or -f is given",
				"OpenFile is reachable although the target exists and force is not set", guardFail...)
			// w.name = target name (the Rename destination)
			okName := false
			for _, b := range theCtx.GB(newWriter) {
				for _, ins := range b.Instrs {
					if st, ok := storeToField(ins, fWname); ok && tnCall != nil && roleExtract(roleIs(tnCall), 0)(st.Val) {
						okName = true
					}
				}
			}
			r.Check(okName, rule, "newWriter:rename-target", c.Pos(newWriter.Pos()), "w.name (rename destination) = targetName(path)", "w.name is not set to the result of targetName")
		}
	}
	// tmpName appends a non-empty constant (when it was inlined into newWriter the same is
	// checked on the name handed to OpenFile, above)
	if tmpName == newWriter {
		r.Pass(rule, "tmpName:suffix", c.Pos(newWriter.Pos()), "tmpName inlined into newWriter: suffix checked at the OpenFile call", 1)
	} else {
		ok := true
		n := 0
		for _, b := range theCtx.GB(tmpName) {
			for _, ins := range b.Instrs {
				ret, isRet := ins.(*ssa.Return)
				if !isRet {
					continue
				}
				n++
				if !isPathPlusNonEmpty(ret.Results[0], tmpName.Params[0]) {
					ok = false
				}
			}
		}
		r.Check(ok && n > 0, rule, "tmpName:suffix", c.Pos(tmpName.Pos()), "temporary name = target + non-empty constant suffix", "tmpName may return the target name itself (or something not derived from it)")
	}
	// ---- 7. targetName: never the input itself; suffix handling by exact removal ----
	{
		paths, over := CollectPaths(c, SeqSpec{Fn: targetName})
		key := "targetName"
		if over {
			r.Undecided(rule, key, c.Pos(targetName.Pos()), "path budget exceeded")
		} else {
			bad, n := false, 0
			pathP := targetName.Params[0]
			for _, sp := range paths {
				if sp.Panic || !sp.ErrNil {
					continue
				}
				n++
				res := sp.Rets[0]
				resolveWith = sp.P
				// x + "" is x (a helper that appends a replacement suffix, called with none)
				for {
					bo, ok := rv(res).(*ssa.BinOp)
					if !ok || bo.Op != token.ADD {
						break
					}
					if s, isS := constString(rv(bo.Y)); !isS || s != "" {
						break
					}
					res = bo.X
				}
				switch {
				case res == pathP || rv(res) == pathP:
					r.Fail(rule, key+":target-is-input", c.InstrPos(sp.Exit), "targetName can return its path argument unchanged with a nil error: the output would be renamed over the input and the input path removed afterwards", sp.Trace...)
					bad = true
				case isPathPlusNonEmpty(res, pathP):
				case isSuffixRemoval(res, pathP):
				default:
					if bo, ok := rv(res).(*ssa.BinOp); ok && bo.Op == token.ADD && isSuffixRemoval(bo.X, pathP) {
						if s, isS := constString(rv(bo.Y)); isS && s != "" {
							resolveWith = nil
							continue
						}
					}
					resolveWith = nil
					if os.Getenv("XZV_TRACE") != "" {
						fmt.Printf("SHAPE FAIL rets=%v errval=%v (%T) errnil=%v exit=%v\n", sp.Rets, sp.ErrVal, sp.ErrVal, sp.ErrNil, sp.Exit)
						if bo, ok := rv(res).(*ssa.BinOp); ok {
							resolveWith = sp.P
							fmt.Printf("   X=%v (%T) Y=%v -> %v (%T)\n", rv(bo.X), rv(bo.X), bo.Y, rv(bo.Y), rv(bo.Y))
							for a, v := range sp.P.allocs {
								fmt.Printf("      alloc %s(%s) = %v (%T)\n", a.Name(), a.Parent().Name(), v, v)
							}
							resolveWith = nil
						}
					}
					r.Fail(rule, key+":shape", c.InstrPos(sp.Exit), "targetName's result is neither path+suffix nor path with exactly its known suffix removed (path[:len(path)-len(ext)] or strings.TrimSuffix)", sp.Trace...)
					bad = true
				}
				if bad {
					break
				}
			}
			if !bad && n > 0 {
				r.Pass(rule, key, c.Pos(targetName.Pos()), "every successful result differs from the input: path+ext, or path with exactly the suffix removed (+ .tar)", len(paths))
			}
		}
	}
	r.Floor(rule, 14)
}

func fieldOwner(c *Ctx, f *types.Var) string {
	for _, n := range []string{"reader", "writer", "options"} {
		if t := c.SPkgs[full("cmd/gxz")].Type(n); t != nil {
			if st, ok := t.Type().Underlying().(*types.Struct); ok {
				for i := 0; i < st.NumFields(); i++ {
					if st.Field(i) == f {
						return n
					}
				}
			}
		}
	}
	return "?"
}

func constString(v ssa.Value) (string, bool) {
	c, ok := v.(*ssa.Const)
	if !ok || c.Value == nil || c.Value.Kind() != constant.String {
		return "", false
	}
	return constant.StringVal(c.Value), true
}

// isPathPlusNonEmpty: v == path + X where every possible X is a non-empty string.
func isPathPlusNonEmpty(v ssa.Value, path ssa.Value) bool {
	bo, ok := rv(v).(*ssa.BinOp)
	if !ok || bo.Op != token.ADD || rv(bo.X) != rv(path) {
		return false
	}
	return nonEmptyString(bo.Y, 0)
}

func nonEmptyString(v ssa.Value, depth int) bool {
	if depth > 6 {
		return false
	}
	v = rv(v)
	if s, ok := constString(v); ok {
		return s != ""
	}
	switch x := v.(type) {
	case *ssa.Phi:
		for _, e := range x.Edges {
			if !nonEmptyString(e, depth+1) {
				return false
			}
		}
		return true
	case *ssa.BinOp:
		if x.Op == token.ADD {
			return nonEmptyString(x.X, depth+1) || nonEmptyString(x.Y, depth+1)
		}
	}
	return false
}

// isSuffixRemoval: v == path[:len(path)-len(X)] or strings.TrimSuffix(path, X).
// resolveWith, when set, resolves values along the path under inspection (φ-nodes, and
// parameters / results of new helper functions the walker stepped through).
var resolveWith *PState

func rv(v ssa.Value) ssa.Value {
	if resolveWith != nil && v != nil {
		return resolveWith.Resolve(v)
	}
	return v
}

func isSuffixRemoval(v ssa.Value, path ssa.Value) bool {
	path = rv(path)
	if os.Getenv("XZV_TRACE") != "" {
		fmt.Printf("isSuffixRemoval v=%v (%T) rv=%v (%T) path=%v\n", v, v, rv(v), rv(v), path)
		if sl, ok := rv(v).(*ssa.Slice); ok {
			fmt.Printf("   slice X=%v rvX=%v high=%v rvHigh=%v (%T)\n", sl.X, rv(sl.X), sl.High, rv(sl.High), rv(sl.High))
		}
	}
	switch x := rv(v).(type) {
	case *ssa.Slice:
		if rv(x.X) != path || x.Low != nil || x.High == nil {
			return false
		}
		bo, ok := rv(x.High).(*ssa.BinOp)
		if !ok || bo.Op != token.SUB {
			return false
		}
		isLenOf := func(v ssa.Value, of func(ssa.Value) bool) bool {
			call, ok := rv(v).(*ssa.Call)
			if !ok {
				return false
			}
			b, ok := call.Call.Value.(*ssa.Builtin)
			return ok && b.Name() == "len" && of(rv(call.Call.Args[0]))
		}
		return isLenOf(bo.X, func(a ssa.Value) bool { return a == path }) && isLenOf(bo.Y, func(a ssa.Value) bool { return a != path })
	case *ssa.Call:
		return stdCalleeName(x) == "strings.TrimSuffix" && rv(x.Call.Args[0]) == path
	}
	return false
}

// ---- C15 ----

func ruleGxzFlags(c *Ctx, r *Report, prefix string) {
	rule := prefix + "SEQ-GXZ-FLAGS"
	process := c.Func("cmd/gxz", "processFile")
	optT := c.Type("cmd/gxz", "options")
	if process == nil || optT == nil {
		return
	}
	// per-file processing works on a copy of the options
	{
		var bad []string
		n := 0
		for _, b := range theCtx.GB(process) {
			for _, ins := range b.Instrs {
				call, ok := ins.(ssa.CallInstruction)
				if !ok {
					continue
				}
				for _, a := range call.Common().Args {
					pt, ok := a.Type().(*types.Pointer)
					if !ok || !types.Identical(pt.Elem(), optT) {
						continue
					}
					n++
					al, isAlloc := a.(*ssa.Alloc)
					if !isAlloc {
						bad = append(bad, stdCalleeName(ins))
						continue
					}
					// initialised from *opts
					init := false
					for _, ref := range *al.Referrers() {
						if st, ok := ref.(*ssa.Store); ok && st.Addr == al {
							if u, ok := st.Val.(*ssa.UnOp); ok && u.Op == token.MUL {
								if _, isP := u.X.(*ssa.Parameter); isP {
									init = true
								}
							}
						}
					}
					if !init {
						bad = append(bad, stdCalleeName(ins)+"(uninitialised copy)")
					}
				}
			}
		}
		// or: nothing in the cone stores to options fields at all
		stores := optionStores(c, c.Cone(process), optT)
		ok := (len(bad) == 0 && n > 0) || len(stores) == 0
		r.Check(ok, rule, "options-per-file", c.Pos(process.Pos()), "per-file processing cannot modify the options shared by all files (works on a copy, or never stores)",
			fmt.Sprintf("processFile hands the shared *options to %v while %v store into options fields: one file's processing changes how the next file is treated", bad, stores))
	}
	// keep = opts.keep || opts.stdout at both construction sites
	{
		fKeep := c.Field("cmd/gxz", "reader.keep")
		fOK, fOS := c.Field("cmd/gxz", "options.keep"), c.Field("cmd/gxz", "options.stdout")
		newReader := c.Func("cmd/gxz", "newReader")
		if fKeep != nil && fOK != nil && fOS != nil && newReader != nil {
			n, good := 0, 0
			for _, b := range theCtx.GB(newReader) {
				for _, ins := range b.Instrs {
					st, ok := storeToField(ins, fKeep)
					if !ok {
						continue
					}
					n++
					// the stored value as a boolean function of the two flags (`a || b` lowers to a φ;
					// !(!a && !b) to a negated φ): evaluated for all four assignments
					same := true
					for _, kv := range []bool{false, true} {
						for _, sv := range []bool{false, true} {
							got, okE := evalBoolValue(st.Val, func(v ssa.Value) (bool, bool) {
								switch {
								case isFieldLoadOf(v, fOK):
									return kv, true
								case isFieldLoadOf(v, fOS):
									return sv, true
								}
								return false, false
							}, 0)
							if !okE || got != (kv || sv) {
								same = false
							}
						}
					}
					if same {
						good++
					}
				}
			}
			r.Check(n >= 1 && good == n, rule, "keep-or-stdout", c.Pos(newReader.Pos()), "reader.keep = opts.keep || opts.stdout at every construction site",
				fmt.Sprintf("reader.keep is not opts.keep || opts.stdout at %d of %d construction sites: -c or -k could remove the input", n-good, n))
		}
	}
	// -c: with opts.stdout no file is created
	{
		newWriter := c.Func("cmd/gxz", "newWriter")
		fOS := c.Field("cmd/gxz", "options.stdout")
		if newWriter != nil && fOS != nil {
			bad := false
			spec := SeqSpec{Fn: newWriter}
			spec.Assume = func(w *Walker, p *PState, ins ssa.Instruction) {
				if u, ok := loadOfField(ins, fOS); ok {
					setBoolFact(p, p.Resolve(u), true)
				}
			}
			spec.Event = func(w *Walker, p *PState, ins ssa.Instruction) string {
				n := stdCalleeName(ins)
				if fsMutators[n] || n == "gxz.targetName" {
					return n
				}
				return ""
			}
			paths, _ := CollectPaths(c, spec)
			for _, sp := range paths {
				if len(sp.Events) > 0 {
					r.Fail(rule, "stdout-creates-nothing", c.Pos(newWriter.Pos()), fmt.Sprintf("with -c (stdout) newWriter still performs %v", sp.Labels()), sp.Trace...)
					bad = true
					break
				}
			}
			if !bad {
				r.Pass(rule, "stdout-creates-nothing", c.Pos(newWriter.Pos()), "with opts.stdout neither targetName nor any file creation is reachable in newWriter", len(paths))
			}
		}
	}
	// permission bits: reader.Perm returns mode & (subset of 0666) or a constant subset of 0666
	if perm := c.Func("cmd/gxz", "reader.Perm"); perm != nil {
		ok, n := true, 0
		for _, b := range theCtx.GB(perm) {
			for _, ins := range b.Instrs {
				ret, isRet := ins.(*ssa.Return)
				if !isRet {
					continue
				}
				n++
				v := ret.Results[0]
				if k, isK := constInt(v); isK {
					if k&^0o666 != 0 {
						ok = false
					}
					continue
				}
				bo, isB := v.(*ssa.BinOp)
				if !isB || bo.Op != token.AND {
					ok = false
					continue
				}
				k, isK := constInt(bo.Y)
				if !isK {
					k, isK = constInt(bo.X)
				}
				if !isK || k&^0o666 != 0 {
					ok = false
				}
			}
		}
		r.Check(ok && n > 0, rule, "perm-mask", c.Pos(perm.Pos()), "output permissions = input mode & (subset of 0666)", "reader.Perm can return permission bits outside 0666 or bits the input lacks")
		// and that value is what OpenFile gets
		newWriter := c.Func("cmd/gxz", "newWriter")
		okFlow := false
		if newWriter != nil {
			for _, b := range theCtx.GB(newWriter) {
				for _, ins := range b.Instrs {
					if stdCalleeName(ins) == "os.OpenFile" {
						if p, isP := ins.(*ssa.Call).Call.Args[2].(*ssa.Parameter); isP && isRefParam(p, "perm") {
							okFlow = true
						}
					}
				}
			}
			for _, b := range theCtx.GB(process) {
				for _, ins := range b.Instrs {
					if call, ok := callTo(ins, newWriter); ok {
						if pc, isC := call.Call.Args[1].(*ssa.Call); !isC || pc.Call.StaticCallee() != perm {
							okFlow = false
						}
					}
				}
			}
		}
		r.Check(okFlow, rule, "perm-flow", c.Pos(perm.Pos()), "os.OpenFile's mode is r.Perm()", "the mode given to os.OpenFile is not r.Perm() of the input")
	}
	// format sniffing accepts every dictionary size xz-utils can write (2^n and 2^n + 2^(n-1))
	if vd, evalVD := validDictCapEval(c); vd != nil {
		bad, n := 0, 0
		try := func(v int64, want bool) {
			n++
			got, ok := evalVD(v)
			if !ok {
				r.Undecided(rule, fmt.Sprintf("validDictCap(%d)", v), c.Pos(vd.Pos()), "cannot evaluate")
				bad++
				return
			}
			if got != want && want {
				r.Fail(rule, fmt.Sprintf("validDictCap(%d)", v), c.Pos(vd.Pos()), fmt.Sprintf("dictionary size %d (2^n or 2^n+2^(n-1), as written by xz-utils) is not accepted by lzma.ValidHeader: gxz -d would reject the file as 'format not recognized'", v))
				bad++
			}
		}
		maxN := uint(31)
		if c.Arch == "386" {
			maxN = 30
		}
		for e := uint(12); e <= maxN; e++ {
			try(1<<e, true)
			if e < 31 {
				try(1<<e+1<<(e-1), true)
			}
		}
		if c.Arch != "386" {
			try(1<<32-1, true)
		}
		if bad == 0 {
			r.Pass(rule, "validDictCap", c.Pos(vd.Pos()), "every dictionary size of the form 2^n / 2^n+2^(n-1) (4 KiB..) is accepted by the .lzma header sniffing", n)
		}
	}
	r.Floor(rule, 5)
}

func optionStores(c *Ctx, cone map[*ssa.Function]bool, optT types.Type) []string {
	var out []string
	for fn := range cone {
		if !c.InModule(fn) {
			continue
		}
		for _, b := range theCtx.GB(fn) {
			for _, ins := range b.Instrs {
				st, ok := ins.(*ssa.Store)
				if !ok {
					continue
				}
				fa, ok := st.Addr.(*ssa.FieldAddr)
				if !ok {
					continue
				}
				if pt, ok := fa.X.Type().(*types.Pointer); ok && types.Identical(pt.Elem(), optT) {
					if _, isAlloc := fa.X.(*ssa.Alloc); !isAlloc {
						out = append(out, FnName(fn)+":"+refNameOf(fieldOfAddr(fa)))
					}
				}
			}
		}
	}
	sort.Strings(out)
	return out
}

// isPathPlusNonEmptyOf: v is base + non-empty string where base satisfies the role (φ of such
// sums allowed: the suffix depends on the direction).
func isPathPlusNonEmptyOf(v ssa.Value, base func(ssa.Value) bool) bool {
	switch x := rv(v).(type) {
	case *ssa.BinOp:
		return x.Op == token.ADD && base(rv(x.X)) && nonEmptyString(x.Y, 0)
	case *ssa.Phi:
		for _, e := range x.Edges {
			if !isPathPlusNonEmptyOf(e, base) {
				return false
			}
		}
		return len(x.Edges) > 0
	}
	return false
}

// evalBoolValue evaluates a boolean SSA value built from constants, negation, comparisons of booleans
// and short-circuit φ-nodes, given the values of its leaves. A φ is resolved by following the branches
// from the block that dominates it.
func evalBoolValue(v ssa.Value, leaf func(ssa.Value) (bool, bool), depth int) (bool, bool) {
	if depth > 12 {
		return false, false
	}
	if b, ok := leaf(v); ok {
		return b, true
	}
	switch x := v.(type) {
	case *ssa.Const:
		return constBool(x)
	case *ssa.UnOp:
		if x.Op == token.NOT {
			b, ok := evalBoolValue(x.X, leaf, depth+1)
			return !b, ok
		}
	case *ssa.BinOp:
		if x.Op == token.EQL || x.Op == token.NEQ {
			a, ok1 := evalBoolValue(x.X, leaf, depth+1)
			b, ok2 := evalBoolValue(x.Y, leaf, depth+1)
			return (a == b) == (x.Op == token.EQL), ok1 && ok2
		}
	case *ssa.Phi:
		blk := x.Block()
		cur := blk.Idom()
		for steps := 0; cur != nil && steps < 16; steps++ {
			if len(cur.Instrs) == 0 {
				return false, false
			}
			var next *ssa.BasicBlock
			switch t := cur.Instrs[len(cur.Instrs)-1].(type) {
			case *ssa.If:
				cv, ok := evalBoolValue(t.Cond, leaf, depth+1)
				if !ok {
					return false, false
				}
				if cv {
					next = cur.Succs[0]
				} else {
					next = cur.Succs[1]
				}
			case *ssa.Jump:
				next = cur.Succs[0]
			default:
				return false, false
			}
			if next == blk {
				for i, pb := range blk.Preds {
					if pb == cur {
						return evalBoolValue(x.Edges[i], leaf, depth+1)
					}
				}
				return false, false
			}
			cur = next
		}
	}
	return false, false
}

package main

// OB catalogue for the xz reader (DESIGN Appendix A): the verification steps that stand
// between a damaged stream and a "successful" decode. Each entry is located by operand
// roles in the type-checked SSA, never by text or position.

import (
	"fmt"
	"go/constant"
	"go/token"
	"go/types"

	"golang.org/x/tools/go/ssa"
)

func roleBinOp(op token.Token, x, y role) role {
	return func(v ssa.Value) bool {
		bo, ok := stripConv(v).(*ssa.BinOp)
		if ok && op == token.MUL && bo.Op == token.SHL {
			// x * 2^s written as x << s
			if s, isK := constInt(bo.Y); isK && s >= 0 && s < 31 {
				if bt, isB := bo.Type().Underlying().(*types.Basic); isB {
					switch bt.Kind() {
					case types.Int8, types.Uint8, types.Int16, types.Uint16:
						return false
					}
				}
				k := ssa.NewConst(constant.MakeInt64(1<<uint(s)), bo.X.Type())
				return x(bo.X) && y(k)
			}
			return false
		}
		if !ok || bo.Op != op {
			return false
		}
		// the specification's formulas are over integers: an addition, multiplication or shift carried
		// out in 8- or 16-bit arithmetic wraps (int(s+1) is not int(s)+1 for s = 0xff)
		switch op {
		case token.ADD, token.SUB, token.MUL, token.SHL:
			if bt, isB := bo.Type().Underlying().(*types.Basic); isB {
				switch bt.Kind() {
				case types.Int8, types.Uint8, types.Int16, types.Uint16:
					return false
				}
			}
		}
		if x(bo.X) && y(bo.Y) {
			return true
		}
		switch op {
		case token.ADD, token.MUL, token.AND, token.OR, token.XOR:
			return x(bo.Y) && y(bo.X)
		}
		return false
	}
}

func roleConstExact(s string) role {
	return func(v ssa.Value) bool {
		c, ok := stripConv(v).(*ssa.Const)
		return ok && c.Value != nil && c.Value.Kind() == constant.Int && c.Value.ExactString() == s
	}
}

func roleIs(x ssa.Value) role { return func(v ssa.Value) bool { return stripConv(v) == x } }

func roleOr(rs ...role) role {
	return func(v ssa.Value) bool {
		for _, r := range rs {
			if r(v) {
				return true
			}
		}
		return false
	}
}

// roleGetter: a load of field f, or a call of an in-module getter that returns such a load.
func roleGetter(c *Ctx, f *types.Var) role {
	return func(v ssa.Value) bool {
		v = stripConv(v)
		if isFieldLoadOf(v, f) {
			return true
		}
		call, ok := v.(*ssa.Call)
		if !ok {
			return false
		}
		fn := call.Call.StaticCallee()
		if fn == nil || !c.InModule(fn) || len(fn.Blocks) != 1 {
			return false
		}
		ret, ok := fn.Blocks[0].Instrs[len(fn.Blocks[0].Instrs)-1].(*ssa.Return)
		return ok && len(ret.Results) == 1 && isFieldLoadOf(ret.Results[0], f)
	}
}

func calleeIs(fn *ssa.Function) func(*ssa.Call) bool {
	return func(call *ssa.Call) bool { return fn != nil && call.Call.StaticCallee() == fn }
}

func stdCalleeIs(name string) func(*ssa.Call) bool {
	return func(call *ssa.Call) bool { return stdCalleeName(call) == name }
}

func invokeIs(method string) func(*ssa.Call) bool {
	return func(call *ssa.Call) bool { return call.Call.IsInvoke() && call.Call.Method.Name() == method }
}

// ruleXZReaderChecks: V00..V31.
func ruleXZReaderChecks(c *Ctx, r *Report, prefix string) {
	rule := prefix + "OB"
	uint32LE := c.Func("", "uint32LE")
	allZeros := c.Func("", "allZeros")
	verifyFlags := c.Func("", "verifyFlags")
	padLen := c.Func("", "padLen")
	readUvarint := c.Func("", "readUvarint")
	if uint32LE == nil || allZeros == nil || verifyFlags == nil || padLen == nil || readUvarint == nil {
		return
	}

	// ---- stream header ----
	if fn := c.Func("", "header.UnmarshalBinary"); fn != nil {
		o := newOb(c, r, rule, fn)
		data := roleParam(fn, "data")
		o.rel("V00-header-length", roleLenOf(data), roleConst(12), token.NEQ, "stream header length != 12")
		o.boolCall("V01-header-magic", func(call *ssa.Call) bool {
			if stdCalleeName(call) != "bytes.Equal" {
				return false
			}
			a, b := call.Call.Args[0], call.Call.Args[1]
			m := roleGlobalLoad(c.Global("", "headerMagic"))
			s := roleSlice(data, 0, 6)
			return (m(a) && s(b)) || (m(b) && s(a))
		}, false, "header magic bytes differ from data[0:6]")
		o.rel("V02-header-crc", roleCallTo(uint32LE, roleSlice(data, 8, -1)), roleSum32Fed(roleSlice(data, 6, 8)), token.NEQ,
			"stored CRC32 data[8:12] != CRC32 over the stream flags data[6:8]")
		o.rel("V03-header-reserved", roleByte(data, 6), roleConst(0), token.NEQ, "first stream-flags byte (reserved) != 0")
		o.mustCheck("V04-header-checkid", func(call *ssa.Call) bool {
			return call.Call.StaticCallee() == verifyFlags && roleByte(data, 7)(call.Call.Args[0])
		}, "check id data[7] validated by verifyFlags")
		checkStore(c, r, rule, fn, c.Field("", "header.flags"), roleByte(data, 7), "V04-header-flags-store", "header.flags = data[7]")
	}
	// ---- stream footer ----
	if fn := c.Func("", "footer.UnmarshalBinary"); fn != nil {
		o := newOb(c, r, rule, fn)
		data := roleParam(fn, "data")
		o.rel("V05-footer-length", roleLenOf(data), roleConst(12), token.NEQ, "stream footer length != 12")
		o.boolCall("V06-footer-magic", func(call *ssa.Call) bool {
			if stdCalleeName(call) != "bytes.Equal" {
				return false
			}
			a, b := call.Call.Args[0], call.Call.Args[1]
			m := roleGlobalLoad(c.Global("", "footerMagic"))
			s := roleSlice(data, 10, -1)
			return (m(a) && s(b)) || (m(b) && s(a))
		}, false, "footer magic bytes differ from data[10:12]")
		o.rel("V07-footer-crc", roleCallTo(uint32LE, roleSlice(data, 0, -1)), roleSum32Fed(roleSlice(data, 4, 10)), token.NEQ,
			"stored CRC32 data[0:4] != CRC32 over backward size and flags data[4:10]")
		o.rel("V08-footer-reserved", roleByte(data, 8), roleConst(0), token.NEQ, "first stream-flags byte (reserved) != 0")
		o.mustCheck("V09-footer-checkid", func(call *ssa.Call) bool {
			if call.Call.StaticCallee() != verifyFlags {
				return false
			}
			// verifyFlags(g.flags) where g.flags was stored from data[9]
			return true
		}, "check id data[9] validated by verifyFlags")
		// backward size: (uint32LE(data[4:]) + 1) * 4 is what reaches footer.indexSize
		okBS := false
		for _, b := range theCtx.GB(fn) {
			for _, ins := range b.Instrs {
				st, ok := ins.(*ssa.Store)
				if !ok {
					continue
				}
				fa, ok := st.Addr.(*ssa.FieldAddr)
				if !ok || fieldOfAddr(fa) == nil || refNameOf(fieldOfAddr(fa)) != "indexSize" {
					continue
				}
				if t := staticTerm(c, st.Val, uint32LE); normTerm(t) == normTerm("(shl (+ (call xz.uint32LE (slice $data 4:)) 1) 2)") {
					okBS = true
				}
			}
		}
		r.Check(okBS, rule, "V09-backward-size:"+FnName(fn), c.Pos(fn.Pos()), "index size = (stored backward size + 1) * 4 from data[4:8]",
			"footer.UnmarshalBinary does not compute the index size as (uint32LE(data[4:])+1)*4")
		flagsStored := false
		for _, b := range theCtx.GB(fn) {
			for _, ins := range b.Instrs {
				if st, ok := ins.(*ssa.Store); ok {
					if fa, ok := st.Addr.(*ssa.FieldAddr); ok && fieldOfAddr(fa) != nil && refNameOf(fieldOfAddr(fa)) == "flags" && roleByte(data, 9)(st.Val) {
						flagsStored = true
					}
				}
			}
		}
		r.Check(flagsStored, rule, "V09-footer-flags-store:"+FnName(fn), c.Pos(fn.Pos()), "footer flags = data[9]", "footer.UnmarshalBinary does not take the stream flags from data[9]")
	}
	// ---- stream tail ----
	fFooterFlags := c.Field("", "footer.flags")
	fHeaderFlags := c.Field("", "header.flags")
	fIndexSize := c.Field("", "footer.indexSize")
	fSRIndex := c.Field("", "streamReader.index")
	readIndexBody := c.Func("", "readIndexBody")
	footerUnm := c.Func("", "footer.UnmarshalBinary")
	if fn := c.Func("", "streamReader.readTail"); fn != nil && readIndexBody != nil && fFooterFlags != nil && fHeaderFlags != nil && fIndexSize != nil && fSRIndex != nil {
		o := newOb(c, r, rule, fn)
		rib := roleCallTo(readIndexBody, nil, roleLenOf(roleFieldLoad(fSRIndex)))
		// readIndexBody may have become a wrapper around a new function that readTail calls directly
		// (appendIndexBody(dst, r, n)): the same call, with the expected count at the forwarded position
		// and a destination that is not the measured index itself
		if fw, argOf := forwardee(c, readIndexBody); fw != nil && argOf[1] >= 0 {
			args := make([]role, len(fw.Params))
			args[argOf[1]] = roleLenOf(roleFieldLoad(fSRIndex))
			direct := roleCallTo(fw, args...)
			rib = roleOr(rib, direct)
			for _, b := range theCtx.GB(fn) {
				for _, ins := range b.Instrs {
					call, isC := ins.(*ssa.Call)
					if !isC || !direct(call) {
						continue
					}
					for i, a := range call.Call.Args {
						if _, isSl := a.Type().Underlying().(*types.Slice); !isSl || i == argOf[0] {
							continue
						}
						r.Check(isNilConst(a) || freshSlice(a), rule, "V13-stored-index-fresh:"+FnName(fn), c.InstrPos(call),
							"the stored records are read into storage of their own",
							"the stored index records are read into a slice that is not freshly allocated: if it shares storage with the measured records (r.index[:0]) the comparison of measured and stored records compares the stored index with itself")
					}
				}
			}
		}
		o.rel("V10-footer-vs-header-flags", roleFieldLoad(fFooterFlags), roleFieldLoad(fHeaderFlags), token.NEQ, "footer stream flags != header stream flags")
		o.rel("V11-backward-size", roleFieldLoad(fIndexSize), roleBinOp(token.ADD, roleExtract(rib, 1), roleConst(1)), token.NEQ,
			"backward size in the footer != measured index size (n + 1 indicator byte)")
		o.mustCheck("V12-index-read", func(call *ssa.Call) bool { return rib(call) }, "index body read with the number of blocks seen as the expected record count")
		// V13: every measured record is compared with the stored one
		elemOf := func(base role) role {
			return func(v ssa.Value) bool {
				u, ok := stripConv(v).(*ssa.UnOp)
				if !ok || u.Op != token.MUL {
					return false
				}
				ia, ok := u.X.(*ssa.IndexAddr)
				return ok && base(ia.X)
			}
		}
		g := o.rel("V13-record-compare", elemOf(roleFieldLoad(fSRIndex)), elemOf(roleExtract(rib, 0)), token.NEQ, "measured record != stored index record")
		if g != nil {
			// both sides indexed by the same loop variable, which ranges over len(r.index)
			ia1 := stripConv(g.x).(*ssa.UnOp).X.(*ssa.IndexAddr)
			ia2 := stripConv(g.y).(*ssa.UnOp).X.(*ssa.IndexAddr)
			r.Check(ia1.Index == ia2.Index, rule, "V13-record-compare-index:"+FnName(fn), c.InstrPos(g.iff), "both records indexed by the same loop variable",
				"measured and stored records are compared at different indices")
		}
		o.mustCheck("V06-footer-parsed", calleeIs(footerUnm), "footer parsed and validated")
	}
	// ---- index ----
	if fn := c.Func("", "readIndexBody"); fn != nil {
		o := newOb(c, r, rule, fn)
		u := roleExtract(roleCallTo(readUvarint), 0)
		recLen := func(v ssa.Value) bool {
			cv, ok := v.(*ssa.Convert)
			return ok && u(cv.X)
		}
		g := o.rel("V12-record-count", recLen, roleParam(fn, "expectedRecordLen"), token.NEQ, "stored record count != number of blocks decoded")
		o.rel("V12-record-count-overflow-sign", recLen, roleConst(0), token.LSS, "record count negative after conversion to int")
		o.rel("V12-record-count-overflow-trunc", func(v ssa.Value) bool {
			cv, ok := v.(*ssa.Convert)
			return ok && recLen(cv.X)
		}, func(v ssa.Value) bool { return u(v) && !recLen(v) }, token.NEQ, "record count truncated by conversion to int")
		// the make of the record slice is dominated by the count check
		if g != nil {
			for _, b := range theCtx.GB(fn) {
				for _, ins := range b.Instrs {
					if ms, ok := ins.(*ssa.MakeSlice); ok {
						if _, isRec := ms.Type().Underlying().(*types.Slice).Elem().Underlying().(*types.Struct); isRec {
							good := theCtx.Dom(g.iff.Block(), b) && b != g.iff.Block()
							r.Check(good, rule, "V12-alloc-after-check:"+FnName(fn), c.InstrPos(ins), "record slice allocated only after the count was validated",
								"the record slice is allocated from the stored count before the count is validated (allocation of attacker-chosen size)")
						}
					}
				}
			}
		}
		o.boolCall("V14-index-padding", func(call *ssa.Call) bool {
			if call.Call.StaticCallee() != allZeros {
				return false
			}
			// argument: buffer of length padLen(n+1) filled by io.ReadFull
			buf := stripConv(call.Call.Args[0])
			ln := bufLen(buf)
			if ln == nil {
				// a larger buffer of which the first padLen(n+1) bytes were read: the argument is that
				// very part p[:padLen(n+1)], or p[:k] with k the count the (successful) ReadFull returned
				sl, isSl := buf.(*ssa.Slice)
				if !isSl || sl.Low != nil || sl.High == nil || sl.X.Referrers() == nil {
					return false
				}
				for _, ref := range *sl.X.Referrers() {
					part, isP := ref.(*ssa.Slice)
					if !isP || part.Low != nil || part.High == nil || part.Referrers() == nil {
						continue
					}
					pc, ok := stripConv(part.High).(*ssa.Call)
					if !ok || pc.Call.StaticCallee() != padLen || !roleBinOp(token.ADD, roleAny(), roleConst(1))(pc.Call.Args[0]) {
						continue
					}
					for _, r2 := range *part.Referrers() {
						rc, isC := r2.(*ssa.Call)
						if !isC || stdCalleeName(rc) != "io.ReadFull" || rc.Call.Args[1] != ssa.Value(part) {
							continue
						}
						if part == sl {
							return true
						}
						if ex, isE := stripConv(sl.High).(*ssa.Extract); isE && ex.Index == 0 && ex.Tuple == ssa.Value(rc) {
							return true
						}
					}
				}
				return false
			}
			pc, ok := stripConv(ln).(*ssa.Call)
			if !ok || pc.Call.StaticCallee() != padLen {
				return false
			}
			if !roleBinOp(token.ADD, roleAny(), roleConst(1))(pc.Call.Args[0]) {
				return false
			}
			return filledByReadFullFrom(buf, roleAny())
		}, false, "index padding (padLen(n+1) bytes read from the stream) not all zero")
		// V15: CRC32 of the index, taken before the stored CRC is read
		var sum32 *ssa.Call
		var crcRead *ssa.Call
		for _, b := range theCtx.GB(fn) {
			for _, ins := range b.Instrs {
				call, ok := ins.(*ssa.Call)
				if !ok {
					continue
				}
				if call.Call.IsInvoke() && call.Call.Method.Name() == "Sum32" {
					sum32 = call
				}
				if stdCalleeName(call) == "io.ReadFull" {
					crcRead = call // the last ReadFull in source order
				}
			}
		}
		if sum32 != nil {
			o.rel("V15-index-crc", func(v ssa.Value) bool {
				call, ok := stripConv(v).(*ssa.Call)
				return ok && call.Call.StaticCallee() == uint32LE
			}, roleIs(sum32), token.NEQ, "stored index CRC32 != CRC32 computed over the index")
			good := crcRead != nil && theCtx.Dom(sum32.Block(), crcRead.Block()) && (sum32.Block() != crcRead.Block() || instrBefore(sum32, crcRead))
			if !good && crcRead != nil && len(fn.Params) > 0 && stripConv(crcRead.Call.Args[0]) == ssa.Value(fn.Params[0]) {
				good = true // the stored CRC is read from the plain reader, not through the tee: it never reaches the hash
			}
			r.Check(good, rule, "V15-index-crc-order:"+FnName(fn), c.InstrPos(sum32), "the CRC is taken before the stored CRC bytes pass through the tee reader",
				"the index CRC32 is taken after the stored CRC bytes were read through the tee reader: it would cover its own bytes")
			// the hash is seeded with the index indicator byte
			hv := sum32.Call.Value
			seeded := false
			if hv.Referrers() != nil {
				for _, ref := range *hv.Referrers() {
					if wc, ok := ref.(*ssa.Call); ok && wc.Call.IsInvoke() && wc.Call.Method.Name() == "Write" && oneZeroByte(wc.Call.Args[0]) {
						seeded = true
					}
				}
			}
			r.Check(seeded, rule, "V15-index-crc-indicator:"+FnName(fn), c.InstrPos(sum32), "CRC32 covers the index indicator byte 0x00", "the index CRC32 does not cover the index indicator byte")
		} else {
			r.Fail(rule, "V15-index-crc:"+FnName(fn), c.Pos(fn.Pos()), "no CRC32 is computed over the index")
		}
	}
	if fn := c.Func("", "readRecord"); fn != nil {
		o := newOb(c, r, rule, fn)
		n := 0
		for i := range o.gs {
			g := &o.gs[i]
			if g.call != nil {
				continue
			}
			// int64(u) < 0 where u comes from readUvarint
			x := g.x
			if !roleConst(0)(g.y) || g.op != token.LSS {
				continue
			}
			if isRecordFieldFromUvarint(x, readUvarint) {
				ok, why, trace := consequence(c, fn, g.iff, true)
				n++
				// a check that lives in a new helper counts once per call of the helper
				if hp := g.iff.Block().Parent(); hp != fn && c.IsNew(hp) {
					if k := len(c.callSites(hp)); k > 1 {
						n += k - 1
					}
				}
				key := fmt.Sprintf("V16-record-sign#%d:%s", n, FnName(fn))
				if ok {
					r.Pass(rule, key, c.InstrPos(g.iff), "index record field > 2^63-1 rejected", 1)
				} else {
					r.Fail(rule, key, c.InstrPos(g.iff), "sign check present but "+why, trace...)
				}
			}
		}
		if n < 2 {
			r.Fail(rule, "V16-record-sign:"+FnName(fn), c.Pos(fn.Pos()), fmt.Sprintf("only %d of the 2 index record fields are checked for int64 overflow", n))
		}
	}
	// ---- block header ----
	if fn := c.Func("", "blockHeader.UnmarshalBinary"); fn != nil {
		o := newOb(c, r, rule, fn)
		data := roleParam(fn, "data")
		hl := roleBinOp(token.MUL, roleBinOp(token.ADD, roleByte(data, 0), roleConst(1)), roleConst(4))
		g := o.rel("V17-blockheader-length", roleLenOf(data), hl, token.NEQ, "block header length != (data[0]+1)*4")
		if g != nil {
			H := g.y
			if roleLenOf(data)(g.y) {
				H = g.x
			}
			// n = H - 4; behind the length test len(data) stands for H as well
			isN := roleOr(roleBinOp(token.SUB, roleIs(stripConv(H)), roleConst(4)), roleBinOp(token.SUB, roleLenOf(data), roleConst(4)))
			symSlice := func(loN, hiN bool) role {
				return func(v ssa.Value) bool {
					ref, ok := sliceRefOf(v)
					if !ok || !data(ref.root) {
						return false
					}
					if hiN && !(ref.hi == -2 && isN(ref.symHi)) {
						return false
					}
					if loN && !(ref.lo == -1 && isN(ref.symLo)) {
						return false
					}
					if !loN && ref.lo != 0 {
						return false
					}
					if !hiN && ref.hi != -1 {
						return false
					}
					return true
				}
			}
			o.rel("V18-blockheader-crc", roleSum32Fed(symSlice(false, true)), roleCallTo(uint32LE, symSlice(true, false)), token.NEQ,
				"CRC32 over data[:len-4] != stored CRC32 data[len-4:]")
			o.boolCall("V20-blockheader-padding", func(call *ssa.Call) bool {
				if call.Call.StaticCallee() != allZeros {
					return false
				}
				ref, ok := sliceRefOf(call.Call.Args[0])
				if !ok || !data(ref.root) || ref.hi != -2 || !isN(ref.symHi) || ref.lo != -1 {
					return false
				}
				// low bound = n - (unread bytes of the header reader)
				return roleBinOp(token.SUB, isN, func(v ssa.Value) bool {
					cl, ok := stripConv(v).(*ssa.Call)
					return ok && stdCalleeName(cl) == "(*bytes.Reader).Len"
				})(ref.symLo)
			}, false, "block header padding (unread bytes up to the CRC) not all zero")
		}
		flags := roleByte(data, 1)
		o.rel("V19-blockheader-reserved", roleBinOp(token.AND, flags, roleConst(0x3C)), roleConst(0), token.NEQ, "reserved block flag bits 0x3C set")
		rsb := c.Func("", "readSizeInBlockHeader")
		readFilters := c.Func("", "readFilters")
		if rsb != nil && readFilters != nil {
			bit := func(mask int64) role {
				return roleBinOp(token.NEQ, roleBinOp(token.AND, flags, roleConst(mask)), roleConst(0))
			}
			var calls []*ssa.Call
			for _, b := range theCtx.GB(fn) {
				for _, ins := range b.Instrs {
					if call, ok := ins.(*ssa.Call); ok && call.Call.StaticCallee() == rsb {
						calls = append(calls, call)
					}
				}
			}
			// presence: the flag bit is handed to the parser, or the parse happens under `flags&mask != 0`
			// with the field preset to -1 (absent)
			present := func(call *ssa.Call, mask int64, f *types.Var) bool {
				if len(call.Call.Args) == 3 && len(rsb.Params) == 3 {
					// (r, flags, mask): the parser itself tests flags&mask
					if k, isK := constInt(call.Call.Args[2]); !isK || k != mask || !flags(call.Call.Args[1]) {
						return false
					}
					for _, b := range rsb.Blocks {
						iff, isIf := b.Instrs[len(b.Instrs)-1].(*ssa.If)
						if !isIf {
							continue
						}
						cmp, isC := iff.Cond.(*ssa.BinOp)
						if !isC || (cmp.Op != token.EQL && cmp.Op != token.NEQ) {
							continue
						}
						and, isA := cmp.X.(*ssa.BinOp)
						if z, isZ := constInt(cmp.Y); !isA || and.Op != token.AND || !isZ || z != 0 {
							continue
						}
						if (and.X == ssa.Value(rsb.Params[1]) && and.Y == ssa.Value(rsb.Params[2])) || (and.Y == ssa.Value(rsb.Params[1]) && and.X == ssa.Value(rsb.Params[2])) {
							return true
						}
					}
					return false
				}
				if len(call.Call.Args) >= 2 {
					return bit(mask)(call.Call.Args[1])
				}
				b := call.Block()
				for d := b.Idom(); d != nil; d = d.Idom() {
					iff, isIf := d.Instrs[len(d.Instrs)-1].(*ssa.If)
					if !isIf || !bit(mask)(iff.Cond) || len(d.Succs[0].Preds) != 1 || !(d.Succs[0] == b || d.Succs[0].Dominates(b)) {
						continue
					}
					for _, pb := range b.Parent().Blocks {
						if pb != d && !pb.Dominates(d) {
							continue
						}
						for _, ins := range pb.Instrs {
							if st, isSt := storeToField(ins, f); isSt {
								if k, isK := constInt(st.Val); isK && k == -1 {
									return true
								}
							}
						}
					}
				}
				return false
			}
			before := func(a, b *ssa.Call) bool {
				if a.Block() == b.Block() || a.Parent() != b.Parent() {
					return instrOrder(a, b)
				}
				return blockReaches(a.Block(), b.Block()) && !blockReaches(b.Block(), a.Block())
			}
			okSizes := len(calls) == 2 && before(calls[0], calls[1]) &&
				present(calls[0], 0x40, c.Field("", "blockHeader.compressedSize")) && present(calls[1], 0x80, c.Field("", "blockHeader.uncompressedSize")) &&
				extractStoredTo(calls[0], 0, c.Field("", "blockHeader.compressedSize")) &&
				extractStoredTo(calls[1], 0, c.Field("", "blockHeader.uncompressedSize"))
			r.Check(okSizes, rule, "V22-size-fields:"+FnName(fn), c.Pos(fn.Pos()),
				"flag 0x40 <-> first varint <-> compressedSize, flag 0x80 <-> second varint <-> uncompressedSize",
				"the optional size fields are not read as: flag 0x40 -> first varint -> compressedSize, flag 0x80 -> second varint -> uncompressedSize")
			for i, call := range calls {
				cc := call
				o.mustCheckX(fmt.Sprintf("V22-size-field-error#%d", i+1), func(x *ssa.Call) bool { return x == cc }, "size field parse error propagated", len(cc.Call.Args) < 2)
			}
			if readFilters == fn {
				// readFilters was folded into UnmarshalBinary: the one filter is parsed by readFilter
				// here, and the count test (V21-filter-count, below) is on (flags & 3) + 1 itself
				o.mustCheck("V21-filters-read", calleeIs(c.Func("", "readFilter")), "the filter is parsed by readFilter")
			} else {
				o.mustCheck("V21-filters-read", func(call *ssa.Call) bool {
					return call.Call.StaticCallee() == readFilters && roleBinOp(token.ADD, roleBinOp(token.AND, flags, roleConst(3)), roleConst(1))(call.Call.Args[1])
				}, "filter list read with count = (flags & 3) + 1")
			}
		}
	}
	if fn := c.Func("", "readSizeInBlockHeader"); fn != nil {
		o := newOb(c, r, rule, fn)
		o.rel("V22-size-overflow", roleExtract(roleCallTo(readUvarint), 0), roleConstExact("9223372036854775808"), token.GEQ, "size field >= 2^63")
	}
	if fn := c.Func("", "readFilters"); fn != nil {
		o := newOb(c, r, rule, fn)
		if fn.Name() == "readFilters" {
			o.rel("V21-filter-count", roleParam(fn, "count"), roleConst(1), token.NEQ, "filter count != 1 (only LZMA2 supported)")
		} else {
			// folded into blockHeader.UnmarshalBinary: the count is (data[1] & 3) + 1
			cnt := roleBinOp(token.ADD, roleBinOp(token.AND, roleByte(roleParam(fn, "data"), 1), roleConst(3)), roleConst(1))
			o.rel("V21-filter-count", cnt, roleConst(1), token.NEQ, "filter count != 1 (only LZMA2 supported)")
		}
		o.mustCheck("V21-filter-read", calleeIs(c.Func("", "readFilter")), "the filter is parsed by readFilter")
	}
	if fn := c.Func("", "readFilter"); fn != nil {
		o := newOb(c, r, rule, fn)
		// the id test: `id != 0x21`, or membership in a frozen table whose only key is 0x21
		tableID := false
		for _, gb := range theCtx.GB(fn) {
			giff, isIf := gb.Instrs[len(gb.Instrs)-1].(*ssa.If)
			if !isIf {
				continue
			}
			g := &guard{iff: giff}
			ex, isEx := g.iff.Cond.(*ssa.Extract)
			if !isEx || ex.Index != 1 {
				continue
			}
			m, lk, okM := frozenMapOf(ex.Tuple)
			if !okM || !lk.CommaOk || len(m.entries) != 1 || !roleExtract(roleCallTo(readUvarint), 0)(lk.Index) {
				continue
			}
			if _, has := m.entries["33"]; !has {
				continue
			}
			if ok, why, trace := consequence(c, fn, g.iff, false); ok {
				o.r.Pass(rule, o.key("V21-filter-id"), c.InstrPos(g.iff), "filter id not in the table {0x21} => error on every path from the failing edge", 1)
				tableID = true
			} else {
				o.r.Fail(rule, o.key("V21-filter-id"), c.InstrPos(g.iff), "filter id != 0x21 (LZMA2): the table lookup is present but "+why, trace...)
				tableID = true
			}
		}
		if !tableID {
			o.rel("V21-filter-id", roleExtract(roleCallTo(readUvarint), 0), roleConst(0x21), token.NEQ, "filter id != 0x21 (LZMA2)")
		}
		o.mustCheck("V21-filter-props", func(call *ssa.Call) bool {
			return call.Call.IsInvoke() && call.Call.Method.Name() == "UnmarshalBinary"
		}, "filter properties validated by the filter's UnmarshalBinary")
		// the properties handed over are {0x21, next two bytes of the header}
		okRead := false
		for _, b := range theCtx.GB(fn) {
			for _, ins := range b.Instrs {
				if call, ok := ins.(*ssa.Call); ok && stdCalleeName(call) == "io.ReadFull" {
					ref, ok := sliceRefOf(call.Call.Args[1])
					if ok && ref.lo == 1 && (ref.hi == -1 || ref.hi == 3) {
						if ln := bufLen(stripConv(ref.root)); ln != nil {
							if k, isK := constInt(ln); isK && k == 3 {
								okRead = true
							}
						}
					}
					// or into a buffer of exactly two bytes
					if ok && ref.lo == 0 && (ref.hi == -1 || ref.hi == 2) {
						if ln := bufLen(stripConv(ref.root)); ln != nil {
							if k, isK := constInt(ln); isK && k == 2 {
								okRead = true
							}
						}
					}
				}
			}
		}
		r.Check(okRead, rule, "V21-filter-props-read:"+FnName(fn), c.Pos(fn.Pos()), "exactly two property bytes are read behind the filter id",
			"readFilter does not read exactly the two bytes (properties size, dictionary size) behind the LZMA2 filter id")
	}
	// ---- block ----
	fBRn := c.Field("", "blockReader.n")
	fCRn := c.Field("", "countingReader.n")
	fCRr := c.Field("", "countingReader.r")
	fBHu := c.Field("", "blockHeader.uncompressedSize")
	fBHc := c.Field("", "blockHeader.compressedSize")
	fBRhash := c.Field("", "blockReader.hash")
	if fn := c.Func("", "blockReader.Read"); fn != nil && fBRn != nil && fCRn != nil && fBHu != nil && fBHc != nil && fBRhash != nil && fCRr != nil {
		o := newOb(c, r, rule, fn)
		mu, mc := roleGetter(c, fBRn), roleGetter(c, fCRn)
		du, dc := roleFieldLoad(fBHu), roleFieldLoad(fBHc)
		// V23 applies when the size is declared (`declared >= 0 && measured > declared`); V23-always demands
		// the test on every return without error
		o.inContext = true
		gUu := o.rel("V23-uncompressed-upper", mu, du, token.GTR, "decoded bytes exceed the declared uncompressed size")
		gCu := o.rel("V23-compressed-upper", mc, dc, token.GTR, "consumed bytes exceed the declared compressed size")
		o.inContext = false
		o.inContext = true // V24 applies at the end of the block; V26-clean-eof demands both tests on the clean io.EOF paths
		gU := o.rel("V24-uncompressed-lower", mu, du, token.LSS, "block ended with fewer decoded bytes than declared")
		gC := o.rel("V24-compressed-lower", mc, dc, token.LSS, "block ended with fewer consumed bytes than declared")
		o.inContext = false
		// the measured size is advanced by exactly what was delivered
		okAdv := false
		for _, b := range theCtx.GB(fn) {
			for _, ins := range b.Instrs {
				if st, ok := storeToField(ins, fBRn); ok {
					if roleBinOp(token.ADD, roleFieldLoad(fBRn), roleExtract(func(v ssa.Value) bool {
						call, ok := v.(*ssa.Call)
						return ok && call.Call.IsInvoke() && call.Call.Method.Name() == "Read"
					}, 0))(st.Val) {
						okAdv = true
					}
				}
			}
		}
		r.Check(okAdv, rule, "V23-measured-advance:"+FnName(fn), c.Pos(fn.Pos()), "br.n += bytes delivered by the filter reader", "blockReader.Read does not advance br.n by the number of bytes the filter reader delivered")
		var padCall, eqCall *ssa.Call
		gP := o.boolCall("V25-block-padding", func(call *ssa.Call) bool {
			if call.Call.StaticCallee() != allZeros {
				return false
			}
			sl, ok := stripConv(call.Call.Args[0]).(*ssa.Slice)
			if !ok || sl.Low != nil || sl.High == nil {
				return false
			}
			pc, ok := stripConv(sl.High).(*ssa.Call)
			if !ok || pc.Call.StaticCallee() != padLen || !mc(pc.Call.Args[0]) {
				return false
			}
			if !filledByReadFullFrom(stripConv(sl.X), roleFieldLoad(fCRr)) {
				return false
			}
			padCall = call
			return true
		}, false, "block padding (padLen(compressed size) bytes read from the raw stream) not all zero")
		gE := o.boolCall("V26-block-check", func(call *ssa.Call) bool {
			if stdCalleeName(call) != "bytes.Equal" {
				return false
			}
			isSum := func(v ssa.Value) bool {
				sc, ok := stripConv(v).(*ssa.Call)
				return ok && sc.Call.IsInvoke() && sc.Call.Method.Name() == "Sum" && roleFieldLoad(fBRhash)(sc.Call.Value)
			}
			a, b := call.Call.Args[0], call.Call.Args[1]
			var stored, sum ssa.Value
			switch {
			case isSum(a):
				sum, stored = a, b
			case isSum(b):
				sum, stored = b, a
			default:
				return false
			}
			// stored = q[padLen:] of the buffer read from the raw stream
			sl, ok := stripConv(stored).(*ssa.Slice)
			if !ok || sl.High != nil || sl.Low == nil {
				return false
			}
			if pc, ok := stripConv(sl.Low).(*ssa.Call); !ok || pc.Call.StaticCallee() != padLen {
				return false
			}
			if !filledByReadFullFrom(stripConv(sl.X), roleFieldLoad(fCRr)) {
				return false
			}
			// the computed sum must not be written over the stored one: Sum's argument is nil or
			// the empty tail stored[size:]
			sa := stripConv(sum).(*ssa.Call).Call.Args[0]
			if !isNilConst(sa) {
				ssl, ok := stripConv(sa).(*ssa.Slice)
				if !ok || ssl.X != stored && stripConv(ssl.X) != stripConv(stored) || ssl.Low == nil || ssl.High != nil {
					return false
				}
				szc, ok := stripConv(ssl.Low).(*ssa.Call)
				if !ok || !szc.Call.IsInvoke() || szc.Call.Method.Name() != "Size" {
					return false
				}
			}
			eqCall = call
			return true
		}, false, "stored block check != hash.Sum over the decoded data (the stored bytes must not be overwritten by Sum)")
		// undeclared: on this path the size field was found negative (not present in the header) where
		// the guard would have been evaluated
		undeclared := func(sp *SeqPath, g *guard, decl role) bool {
			for i := range o.gs {
				h := &o.gs[i]
				if h.call != nil {
					continue
				}
				if h.site != nil {
					c.bindParam = nil
					c.bindCall(h.site.Call.StaticCallee(), h.site)
				} else if h.bindSite != nil {
					c.bindParam = nil
					c.bindCall(h.bindSite.Call.StaticCallee(), h.bindSite)
				}
				k, isK := constInt(h.y)
				if !isK || k != 0 || !decl(h.x) {
					continue
				}
				taken, known := sp.Took(h.iff, h.site)
				if known && ((h.op == token.LSS && taken) || (h.op == token.GEQ && !taken)) {
					return true
				}
			}
			return false
		}
		// the only clean end of the block is behind V24-V26
		paths, over := CollectPaths(c, SeqSpec{Fn: fn})
		if over {
			r.Undecided(rule, "V26-clean-eof:"+FnName(fn), c.Pos(fn.Pos()), "path budget exceeded")
		} else {
			bad := false
			nEOF := 0
			for _, sp := range paths {
				if sp.ErrGlobal == nil || !isEOF(sp.ErrGlobal) {
					continue
				}
				if _, isG := sp.ErrVal.(*ssa.Global); !isG {
					continue // a source EOF being returned: governed by EF
				}
				nEOF++
				need := []struct {
					g    *guard
					call *ssa.Call
					want bool
					what string
				}{{gU, nil, false, "uncompressed lower bound"}, {gC, nil, false, "compressed lower bound"}, {gP, padCall, true, "padding check"}, {gE, eqCall, true, "check comparison"}}
				for _, nd := range need {
					if nd.g == nil {
						continue
					}
					if nd.call == nil {
						decl := du
						if nd.g == gC {
							decl = dc
						}
						meas := mu
						if nd.g == gC {
							meas = mc
						}
						if o.refutedOn(&sp, meas, decl, token.LSS, nil) || undeclared(&sp, nd.g, decl) {
							continue
						}
						r.Fail(rule, "V26-clean-eof:"+FnName(fn), c.InstrPos(sp.Exit), "a path reports the clean end of the block (io.EOF) without passing the "+nd.what, sp.Trace...)
						bad = true
						break
					}
					var v ssa.Value = nd.call
					bv, known := sp.P.BoolOf(v)
					if !known || bv != nd.want {
						r.Fail(rule, "V26-clean-eof:"+FnName(fn), c.InstrPos(sp.Exit), "a path reports the clean end of the block (io.EOF) without passing the "+nd.what, sp.Trace...)
						bad = true
						break
					}
				}
				if bad {
					break
				}
			}
			// V23 on every return that is not an error: nil and the clean io.EOF alike (the upper
			// bounds are tested after every read, also after the last one)
			if gUu != nil && gCu != nil {
				badU := ""
				nRet := 0
				for _, sp := range paths {
					cleanEOF := false
					if sp.ErrGlobal != nil && isEOF(sp.ErrGlobal) {
						_, cleanEOF = sp.ErrVal.(*ssa.Global)
					}
					if sp.Panic || !(sp.ErrNil || cleanEOF) {
						continue
					}
					nRet++
					for _, g := range []*guard{gUu, gCu} {
						decl := du
						if g == gCu {
							decl = dc
						}
						meas := mu
						if g == gCu {
							meas = mc
						}
						if !(o.refutedOn(&sp, meas, decl, token.GTR, nil) || undeclared(&sp, g, decl)) && badU == "" {
							badU = "a path returns at " + c.InstrPos(sp.Exit) + " without an error although the test at " + c.InstrPos(g.iff) + " (measured size > declared size) was not made on it: a block longer than its header declares is accepted"
						}
					}
				}
				r.Check(badU == "" && nRet > 0, rule, "V23-always:"+FnName(fn), c.Pos(fn.Pos()), "the upper size bounds are tested on every return without error (nil and clean io.EOF)", badU)
			}
			if !bad && nEOF > 0 {
				r.Pass(rule, "V26-clean-eof:"+FnName(fn), c.Pos(fn.Pos()), "every synthesised io.EOF return lies behind the size lower bounds, the padding check and the check comparison", len(paths))
			} else if nEOF == 0 {
				r.Undecided(rule, "V26-clean-eof:"+FnName(fn), c.Pos(fn.Pos()), "no clean end-of-block path found")
			}
		}
	}
	// ---- uvarint ----
	if fn := c.Func("", "readUvarint"); fn != nil {
		o := newOb(c, r, rule, fn)
		isInt := func(v ssa.Value) bool { return isIntegerType(v.Type()) }
		o.rel("V27-uvarint-length", isInt, roleConst(10), token.GTR, "uvarint longer than 10 bytes")
		o.rel("V27-uvarint-overflow", func(v ssa.Value) bool {
			return roleExtract(func(t ssa.Value) bool {
				call, ok := t.(*ssa.Call)
				return ok && call.Call.IsInvoke() && call.Call.Method.Name() == "ReadByte"
			}, 0)(v)
		}, roleConst(1), token.GTR, "10th uvarint byte > 1 (overflows 64 bits)")
	}
	// ---- filters / LZMA2 filter reader ----
	if fn := c.Func("", "ReaderConfig.newFilterReader"); fn != nil {
		o := newOb(c, r, rule, fn)
		o.mustCheck("V29-filters-verified", calleeIs(c.Func("", "verifyFilters")), "filter list verified (non-empty, LZMA2 last) before any reader is built")
	}
	if fn := c.Func("", "lzmaFilter.reader"); fn != nil {
		o := newOb(c, r, rule, fn)
		fDC := c.Field("", "lzmaFilter.dictCap")
		o.rel("V30-dictcap-int", func(v ssa.Value) bool {
			cv, ok := v.(*ssa.Convert)
			if !ok {
				return false
			}
			if f, ok := cv.X.(*ssa.Field); ok {
				return fieldOfField(f) == fDC
			}
			return isFieldLoadOf(cv.X, fDC)
		}, roleConst(1), token.LSS, "dictionary capacity does not fit an int (32-bit platforms)")
	}
	// ---- stream: index indicator => tail; clean EOF only after readTail ----
	if fn := c.Func("", "streamReader.Read"); fn != nil {
		readTail := c.Func("", "streamReader.readTail")
		newBR := c.Func("", "ReaderConfig.newBlockReader")
		rec := c.Func("", "blockReader.record")
		var tailCall *ssa.Call
		spec := SeqSpec{Fn: fn}
		spec.Event = func(w *Walker, p *PState, ins ssa.Instruction) string {
			if call, ok := callTo(ins, readTail); ok {
				tailCall = call
				return "readTail"
			}
			return ""
		}
		paths, over := CollectPaths(c, spec)
		key := "V31-eof-after-tail:" + FnName(fn)
		if over {
			r.Undecided(rule, key, c.Pos(fn.Pos()), "path budget exceeded")
		} else {
			bad, n := false, 0
			for _, sp := range paths {
				if sp.ErrGlobal == nil || !isEOF(sp.ErrGlobal) {
					continue
				}
				if _, isG := sp.ErrVal.(*ssa.Global); !isG {
					continue
				}
				n++
				if !sp.Has("readTail") || tailCall == nil || !sp.P.IsNil(tailCall) {
					r.Fail(rule, key, c.InstrPos(sp.Exit), "the stream's clean end (io.EOF) is reported without index and footer having been verified by readTail", sp.Trace...)
					bad = true
					break
				}
			}
			if !bad && n > 0 {
				r.Pass(rule, key, c.Pos(fn.Pos()), "every synthesised io.EOF return is dominated by readTail() == nil", len(paths))
			} else if n == 0 {
				r.Undecided(rule, key, c.Pos(fn.Pos()), "no clean end-of-stream path found")
			}
		}
		// readTail is entered exactly on errIndexIndicator
		if readTail != nil && tailCall != nil {
			g := c.Global("", "errIndexIndicator")
			okDom := false
			for _, gd := range guardsOf(fn) {
				if gd.call != nil || (gd.op != token.EQL && gd.op != token.NEQ) {
					continue
				}
				if roleGlobalLoad(g)(gd.x) || roleGlobalLoad(g)(gd.y) {
					succ := gd.iff.Block().Succs[0]
					if gd.op == token.NEQ {
						succ = gd.iff.Block().Succs[1]
					}
					if succ == tailCall.Block() || theCtx.Dom(succ, tailCall.Block()) {
						okDom = true
					}
				}
			}
			r.Check(okDom, rule, "V31-tail-on-indicator:"+FnName(fn), c.InstrPos(tailCall), "readTail runs on the index-indicator edge", "readTail is not guarded by the index-indicator test")
		}
		// every finished block contributes its measured record, and gets a fresh hash
		if rec != nil && newBR != nil && fSRIndex != nil {
			okRec := false
			for _, b := range theCtx.GB(fn) {
				for _, ins := range b.Instrs {
					if st, ok := storeToField(ins, fSRIndex); ok {
						if ap, ok := st.Val.(*ssa.Call); ok {
							if bi, ok := ap.Call.Value.(*ssa.Builtin); ok && bi.Name() == "append" && roleFieldLoad(fSRIndex)(ap.Call.Args[0]) {
								okRec = appendOfCall(ap.Call.Args[1], rec)
							}
						}
					}
				}
			}
			r.Check(okRec, rule, "V13-record-collected:"+FnName(fn), c.Pos(fn.Pos()), "r.index = append(r.index, br.record()) at the end of each block",
				"the measured record of a finished block is not appended to streamReader.index: the index comparison would be vacuous")
			fNewHash := c.Field("", "streamReader.newHash")
			okHash := false
			for _, b := range theCtx.GB(fn) {
				for _, ins := range b.Instrs {
					if call, ok := callTo(ins, newBR); ok {
						h := call.Call.Args[len(call.Call.Args)-1]
						if hc, ok := stripConv(h).(*ssa.Call); ok && hc.Call.StaticCallee() == nil && roleFieldLoad(fNewHash)(hc.Call.Value) {
							okHash = true
						}
					}
				}
			}
			r.Check(okHash, rule, "V26-fresh-hash:"+FnName(fn), c.Pos(fn.Pos()), "every block reader gets a fresh check instance from r.newHash()",
				"the block reader's check is not a fresh instance from r.newHash(): the check of a later block would cover earlier blocks")
		}
	}
	// reader-side unpadded size formula
	if fn := c.Func("", "blockReader.unpaddedSize"); fn != nil {
		ruleUnpaddedSize(c, r, rule, fn, c.Field("", "blockReader.headerLen"), fCRn, fBRhash)
	}
	r.Floor(rule, 45)
}

// ruleUnpaddedSize: result = headerLen + compressed + hash.Size().
func ruleUnpaddedSize(c *Ctx, r *Report, rule string, fn *ssa.Function, fHL, fComp, fHash *types.Var) {
	if fHL == nil || fComp == nil || fHash == nil {
		return
	}
	// candidates: the returned sum, or (when the function was inlined into its caller) every
	// top-level sum in the function that contains the check size
	var cands []ssa.Value
	for _, b := range theCtx.GB(fn) {
		for _, ins := range b.Instrs {
			switch x := ins.(type) {
			case *ssa.Return:
				if len(x.Results) == 1 && isIntegerType(x.Results[0].Type()) {
					cands = append(cands, x.Results[0])
				}
			case *ssa.BinOp:
				if x.Op != token.ADD {
					continue
				}
				top := true
				if refs := x.Referrers(); refs != nil {
					for _, u := range *refs {
						if bo, ok := u.(*ssa.BinOp); ok && bo.Op == token.ADD {
							top = false
						}
					}
				}
				if top {
					cands = append(cands, x)
				}
			}
		}
	}
	eval := func(root ssa.Value) (map[string]bool, bool) {
		terms := map[string]bool{}
		extra := false
		var walk func(v ssa.Value)
		walk = func(v ssa.Value) {
			v = stripConv(v)
			if bo, ok := v.(*ssa.BinOp); ok && bo.Op == token.ADD {
				walk(bo.X)
				walk(bo.Y)
				return
			}
			switch {
			case isFieldLoadOf(v, fHL):
				terms["headerLen"] = true
			case roleGetter(c, fComp)(v):
				terms["compressed"] = true
			default:
				if call, ok := v.(*ssa.Call); ok && call.Call.IsInvoke() && call.Call.Method.Name() == "Size" && isFieldLoadOf(call.Call.Value, fHash) {
					terms["hashSize"] = true
					return
				}
				extra = true
			}
		}
		walk(root)
		return terms, extra
	}
	ok := false
	best, bestExtra := map[string]bool{}, false
	for _, cd := range cands {
		terms, extra := eval(cd)
		if !terms["hashSize"] && len(cands) > 1 {
			continue // some other sum of the function
		}
		best, bestExtra = terms, extra
		if len(terms) == 3 && !extra {
			ok = true
		}
	}
	r.Check(ok, rule, "TM-unpadded-size:"+FnName(fn), c.Pos(fn.Pos()), "unpadded size = header length + compressed size + check size",
		fmt.Sprintf("unpadded size is not headerLen + compressed size + hash.Size() (terms found: %v, other terms: %v)", sortedKeys(best), bestExtra))
}

func instrBefore(a, b ssa.Instruction) bool {
	if a.Block() != b.Block() {
		return false
	}
	for _, ins := range a.Block().Instrs {
		if ins == a {
			return true
		}
		if ins == b {
			return false
		}
	}
	return false
}

func instrOrder(a, b *ssa.Call) bool {
	if a.Block() == b.Block() {
		return instrBefore(a, b)
	}
	return theCtx.Dom(a.Block(), b.Block())
}

func extractStoredTo(call *ssa.Call, idx int, f *types.Var) bool {
	if call.Referrers() == nil || f == nil {
		return false
	}
	for _, ref := range *call.Referrers() {
		ex, ok := ref.(*ssa.Extract)
		if !ok || ex.Index != idx || ex.Referrers() == nil {
			continue
		}
		for _, r2 := range *ex.Referrers() {
			if st, ok := r2.(*ssa.Store); ok {
				if fa, ok := st.Addr.(*ssa.FieldAddr); ok && fieldOfAddr(fa) == f {
					return true
				}
			}
		}
	}
	return false
}

// bufLen: the length expression of a freshly made byte buffer: make([]byte, n[, c]) or the
// `new [c]byte; slice [:n]` form go/ssa uses for constant capacities. nil if v is neither.
func bufLen(v ssa.Value) ssa.Value {
	switch x := v.(type) {
	case *ssa.MakeSlice:
		return x.Len
	case *ssa.Slice:
		if al, ok := x.X.(*ssa.Alloc); ok {
			if at, ok := al.Type().(*types.Pointer).Elem().Underlying().(*types.Array); ok && x.Low == nil {
				if x.High != nil {
					return x.High
				}
				return ssa.NewConst(constant.MakeInt64(at.Len()), types.Typ[types.Int])
			}
		}
	case *ssa.Alloc:
		if at, ok := x.Type().(*types.Pointer).Elem().Underlying().(*types.Array); ok {
			return ssa.NewConst(constant.MakeInt64(at.Len()), types.Typ[types.Int])
		}
	}
	return nil
}

// filledByReadFullFrom: the buffer is the destination of an io.ReadFull whose source satisfies src.
func filledByReadFullFrom(buf ssa.Value, src role) bool {
	if buf.Referrers() == nil {
		return false
	}
	for _, ref := range *buf.Referrers() {
		if call, ok := ref.(*ssa.Call); ok && stdCalleeName(call) == "io.ReadFull" && (call.Call.Args[1] == buf || stripConv(call.Call.Args[1]) == buf) {
			s := call.Call.Args[0]
			if src(s) {
				return true
			}
			// br.(io.Reader) type assertion of a wrapped reader
			if ta, ok := s.(*ssa.TypeAssert); ok && src(ta.X) {
				return true
			}
		}
		// handed to a new helper that fills its parameter with io.ReadFull
		if call, ok := ref.(*ssa.Call); ok {
			if h := call.Call.StaticCallee(); h != nil && theCtx.IsNew(h) && h.Blocks != nil {
				for i, a := range call.Call.Args {
					if a == buf && i < len(h.Params) {
						theCtx.bindCall(h, call)
						if filledByReadFullFrom(h.Params[i], src) {
							return true
						}
					}
				}
			}
		}
	}
	return false
}

func isRecordFieldFromUvarint(x ssa.Value, readUvarint *ssa.Function) bool {
	// rec.f < 0 where rec.f = int64(u), u from readUvarint: x is a load of a field of the
	// named result, or the converted value itself
	x = stripConv(x)
	if ex, ok := x.(*ssa.Extract); ok {
		if call, ok := ex.Tuple.(*ssa.Call); ok && call.Call.StaticCallee() == readUvarint {
			return true
		}
	}
	u, ok := x.(*ssa.UnOp)
	if !ok || u.Op != token.MUL {
		return false
	}
	fa, ok := u.X.(*ssa.FieldAddr)
	if !ok || fa.Referrers() == nil {
		return false
	}
	// find a store to the same field address expression (same base+field) of a converted uvarint
	for _, b := range fa.Parent().Blocks {
		for _, ins := range b.Instrs {
			st, ok := ins.(*ssa.Store)
			if !ok {
				continue
			}
			fa2, ok := st.Addr.(*ssa.FieldAddr)
			if !ok || fa2.X != fa.X || fa2.Field != fa.Field {
				continue
			}
			if cv, ok := st.Val.(*ssa.Convert); ok {
				if ex, ok := cv.X.(*ssa.Extract); ok {
					if call, ok := ex.Tuple.(*ssa.Call); ok && call.Call.StaticCallee() == readUvarint {
						return true
					}
				}
			}
		}
	}
	return false
}

// appendOfCall: the variadic argument of append is a one-element slice holding the result of fn.
func appendOfCall(v ssa.Value, fn *ssa.Function) bool {
	sl, ok := v.(*ssa.Slice)
	if !ok {
		return false
	}
	al, ok := sl.X.(*ssa.Alloc)
	if !ok || al.Referrers() == nil {
		return false
	}
	for _, ref := range *al.Referrers() {
		if ia, ok := ref.(*ssa.IndexAddr); ok && ia.Referrers() != nil {
			for _, r2 := range *ia.Referrers() {
				if st, ok := r2.(*ssa.Store); ok {
					if call, ok := st.Val.(*ssa.Call); ok && call.Call.StaticCallee() == fn {
						return true
					}
				}
			}
		}
	}
	return false
}

// checkStore: fn stores a value satisfying val into field f.
func checkStore(c *Ctx, r *Report, rule string, fn *ssa.Function, f *types.Var, val role, id, desc string) {
	if f == nil {
		return
	}
	ok := false
	for _, b := range theCtx.GB(fn) {
		for _, ins := range b.Instrs {
			if st, isSt := storeToField(ins, f); isSt && val(st.Val) {
				ok = true
			}
		}
	}
	r.Check(ok, rule, id+":"+FnName(fn), c.Pos(fn.Pos()), desc, FnName(fn)+" does not perform: "+desc)
}

// blockReaches: a path of one or more edges leads from a to b.
func blockReaches(a, b *ssa.BasicBlock) bool {
	seen := map[*ssa.BasicBlock]bool{}
	stack := append([]*ssa.BasicBlock{}, a.Succs...)
	for len(stack) > 0 {
		x := stack[len(stack)-1]
		stack = stack[:len(stack)-1]
		if x == b {
			return true
		}
		if seen[x] {
			continue
		}
		seen[x] = true
		stack = append(stack, x.Succs...)
	}
	return false
}

// forwardee: fn is a thin wrapper `return g(..., params ...)` around a new function g; argOf[i] is
// the position at which fn's i-th parameter is handed to g (-1: not handed on).
func forwardee(c *Ctx, fn *ssa.Function) (*ssa.Function, []int) {
	if fn == nil || len(fn.Blocks) != 1 {
		return nil, nil
	}
	var call *ssa.Call
	for _, ins := range fn.Blocks[0].Instrs {
		switch x := ins.(type) {
		case *ssa.Call:
			if call != nil {
				return nil, nil
			}
			call = x
		case *ssa.Extract, *ssa.Return, *ssa.DebugRef:
		default:
			return nil, nil
		}
	}
	if call == nil {
		return nil, nil
	}
	g := call.Call.StaticCallee()
	if g == nil || !c.IsNew(g) {
		return nil, nil
	}
	argOf := make([]int, len(fn.Params))
	for i, p := range fn.Params {
		argOf[i] = -1
		for j, a := range call.Call.Args {
			if a == ssa.Value(p) {
				argOf[i] = j
			}
		}
	}
	return g, argOf
}

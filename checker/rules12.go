package main

import (
	"fmt"
	"go/constant"
	"go/types"
	"strconv"
	"strings"
)

// ---- CE-WRITEMATCH: decoderDict.writeMatch is the sequential LZ copy on the ring ----
//
// A match (dist, length) appends, byte by byte, the byte that lies dist positions behind the
// write position - the copy may overlap its own output (dist < length: a run) and both the
// source and the destination may straddle the physical end of the ring. The rule evaluates
// writeMatch with the CE interpreter on every state of rings with 5 and 6 cells (all front
// positions, fill levels, two history lengths, all admissible distances and lengths, distinct
// byte values in all cells) and compares ring contents, front, rear and head with the
// sequential definition; one length beyond the free space must give ErrNoSpace and one distance
// beyond the history an error, both without touching the ring.
// Necessary: a decoder that copies anything else returns wrong bytes for a valid stream
// (C03, C06, C07) - the block check of xz notices, classic .lzma has none.
func ruleWriteMatchCE(c *Ctx, r *Report, prefix string) {
	rule := prefix + "CE-WRITEMATCH"
	fn := c.Func("lzma", "decoderDict.writeMatch")
	dt, bt := c.Type("lzma", "decoderDict"), c.Type("lzma", "buffer")
	if fn == nil || dt == nil || bt == nil || len(fn.Params) != 3 {
		return
	}
	bst, _ := bt.Underlying().(*types.Struct)
	iBuf, iHead := fieldIndex(dt, "buf"), fieldIndex(dt, "head")
	iData, iFront, iRear := fieldIndex(bt, "data"), fieldIndex(bt, "front"), fieldIndex(bt, "rear")
	if bst == nil || iBuf < 0 || iHead < 0 || iData < 0 || iFront < 0 || iRear < 0 {
		c.miss("fields of lzma.decoderDict / lzma.buffer")
		return
	}
	bad, cnt := "", 0
	for _, N := range []int{5, 6} {
		capacity := N - 1
		for f := 0; f < N && bad == ""; f++ {
			for b := 0; b <= capacity && bad == ""; b++ {
				rear := ((f-b)%N + N) % N
				avail := capacity - b
				for _, head := range []int{capacity + 3, b + 1} {
					dictLen := head
					if dictLen > capacity {
						dictLen = capacity
					}
					for dist := 1; dist <= dictLen+1 && bad == ""; dist++ {
						for length := 1; length <= avail+1 && bad == ""; length++ {
							data := make([]byte, N)
							for i := range data {
								data[i] = byte(10 + i)
							}
							in := NewInterp(c)
							in.MaxSteps = 40000
							cl := in.newCellOf(dt)
							bc := cl.field(iBuf)
							bc.field(iData).v = aBytes(in, data, bst.Field(iData).Type())
							bc.field(iFront).v = aInt(int64(f), types.Typ[types.Int])
							bc.field(iRear).v = aInt(int64(rear), types.Typ[types.Int])
							cl.field(iHead).v = aInt(int64(head), types.Typ[types.Int64])
							res := in.Call(fn, []aval{{k: kPtr, cell: cl}, aInt(int64(dist), types.Typ[types.Int64]), aInt(int64(length), types.Typ[types.Int])})
							cnt++
							what := fmt.Sprintf("writeMatch(dist=%d, length=%d) on a ring of %d cells with front=%d rear=%d head=%d", dist, length, N, f, rear, head)
							if !res.OK || (!res.Panicked && len(res.Rets) != 1) {
								bad = "cannot evaluate " + what + ": " + in.Undecided
								break
							}
							if res.Panicked {
								bad = what + " panics"
								break
							}
							gotData, okD := sliceBytes(bc.field(iData).v)
							gotF, _ := bc.field(iFront).v.Int()
							gotR, _ := bc.field(iRear).v.Int()
							gotH, _ := cl.field(iHead).v.Int()
							if !okD || len(gotData) != N {
								bad = "cannot read the ring after " + what
								break
							}
							want := append([]byte(nil), data...)
							wantF, wantH, wantErr := f, head, dist > dictLen || length > avail
							if !wantErr {
								for j := 0; j < length; j++ {
									want[(f+j)%N] = want[((f+j-dist)%N+N)%N]
								}
								wantF, wantH = (f+length)%N, head+length
							}
							if wantErr != isSomeErr(res.Rets[0]) {
								bad = fmt.Sprintf("%s returns error=%v; a distance beyond the %d bytes of history or a length beyond the %d free bytes must be refused, everything else accepted", what, isSomeErr(res.Rets[0]), dictLen, avail)
								break
							}
							same := int(gotF) == wantF && int(gotR) == rear && int(gotH) == wantH
							for i := range want {
								if gotData[i] != int64(want[i]) {
									same = false
								}
							}
							if !same {
								bad = fmt.Sprintf("%s leaves ring %v front=%d rear=%d head=%d; copying byte by byte from %d positions back gives ring %v front=%d rear=%d head=%d: the decoder returns other bytes than the stream encodes (a match that overlaps its own output or straddles the end of the ring)", what, gotData, gotF, gotR, gotH, dist, want, wantF, rear, wantH)
								break
							}
						}
					}
				}
			}
		}
	}
	r.Check(bad == "", rule, "decoderDict.writeMatch", c.Pos(fn.Pos()), fmt.Sprintf("is the sequential LZ copy (overlap and ring wrap included) on %d ring states", cnt), bad)
}

// ---- CE-STATE-RESET: state.Reset gives exactly the state newState gives ----
//
// An LZMA2 chunk with "state reset" (and the first chunk after new properties) must start from the
// initial coder state: every probability at its initial value, rep distances and state number zero,
// the derived masks as for a fresh state. The rule builds a state with newState, overwrites every
// number reachable from it (probabilities, rep, state number - not the properties) with a foreign
// value, calls Reset and compares the result cell by cell with a second fresh state.
// Necessary: a Reset that leaves anything behind decodes (or encodes) the reset chunk with a model
// the other side does not have (C16: chunk kinds; C03: valid foreign streams rejected).
func ruleStateResetCE(c *Ctx, r *Report, prefix string) {
	rule := prefix + "CE-STATE-RESET"
	newState, reset := c.Func("lzma", "newState"), c.Func("lzma", "state.Reset")
	stT, prT := c.Type("lzma", "state"), c.Type("lzma", "Properties")
	if newState == nil || reset == nil || stT == nil || prT == nil {
		return
	}
	iProps := fieldIndex(stT, "Properties")
	bad, n := "", 0
	for _, pr := range [][3]int64{{3, 0, 2}, {0, 2, 4}, {1, 1, 3}} {
		it := types.Typ[types.Int]
		props := aval{k: kStruct, typ: prT, flds: map[int]aval{
			fieldIndex(prT, "LC"): aInt(pr[0], it), fieldIndex(prT, "LP"): aInt(pr[1], it), fieldIndex(prT, "PB"): aInt(pr[2], it)}}
		mk := func() (*cell, *Interp, string) {
			in := NewInterp(c)
			in.MaxSteps = 8000000
			res := in.Call(newState, []aval{props})
			if !res.OK || res.Panicked || len(res.Rets) != 1 || res.Rets[0].k != kPtr || res.Rets[0].cell == nil {
				return nil, in, "cannot evaluate newState: " + in.Undecided
			}
			return res.Rets[0].cell, in, ""
		}
		fresh, _, why := mk()
		if why != "" {
			bad = why
			break
		}
		used, in2, why := mk()
		if why != "" {
			bad = why
			break
		}
		// dirty every number below the state except the properties
		seen := map[*cell]bool{}
		var dirty func(cl *cell, depth int)
		dirty = func(cl *cell, depth int) {
			if cl == nil || seen[cl] || depth > 12 {
				return
			}
			seen[cl] = true
			// model state only: probabilities (type prob) and, below, rep / state; structural constants
			// such as the bit width of a tree never change in a real run
			if cl.v.isInt() && cl.v.typ != nil && isNamedType(cl.v.typ, "prob") {
				cl.v = aInt(777, cl.v.typ)
			}
			if cl.v.k == kSlice {
				for i := cl.v.lo; i < cl.v.hi; i++ {
					dirty(cl.v.arr[i], depth+1)
				}
			}
			if cl.v.k == kPtr {
				dirty(cl.v.cell, depth+1)
			}
			for _, f := range cl.fields {
				dirty(f, depth+1)
			}
			for _, e := range cl.elems {
				dirty(e, depth+1)
			}
		}
		for i, f := range used.fields {
			if i != iProps {
				dirty(f, 0)
			}
		}
		for _, name := range []string{"rep", "state"} {
			if i := fieldIndex(stT, name); i >= 0 {
				f := used.field(i)
				if f.v.isInt() {
					f.v = aInt(5, f.v.typ)
				}
				for _, e := range f.elems {
					if e.v.isInt() {
						e.v = aInt(9, e.v.typ)
					}
				}
			}
		}
		res := in2.Call(reset, []aval{{k: kPtr, cell: used}})
		if !res.OK || res.Panicked {
			bad = "cannot evaluate state.Reset: " + in2.Undecided
			break
		}
		n++
		if where := cellDiff(fresh, used, "state", map[*cell]bool{}, 0); where != "" {
			// name the top-level field
			if st, isSt := stT.Underlying().(*types.Struct); isSt && strings.HasPrefix(where, "state.#") {
				rest := where[len("state.#"):]
				j := 0
				for j < len(rest) && rest[j] >= '0' && rest[j] <= '9' {
					j++
				}
				if k, err := strconv.Atoi(rest[:j]); err == nil && k < st.NumFields() {
					where = "state." + st.Field(k).Name() + rest[j:]
				}
			}
			bad = fmt.Sprintf("after state.Reset (lc=%d lp=%d pb=%d) %s differs from a fresh state: a chunk that resets the coder state starts with left-overs of the previous chunk, the decoder no longer follows the encoder of the stream", pr[0], pr[1], pr[2], where)
			break
		}
	}
	r.Check(bad == "" && n > 0, rule, "state.Reset", c.Pos(reset.Pos()), fmt.Sprintf("equals newState cell by cell for %d property sets", n), bad)
}

// cellDiff: the first place where two cell trees differ ("" if none).
func cellDiff(a, b *cell, path string, seen map[*cell]bool, depth int) string {
	if a == nil || b == nil {
		if a != b {
			return path
		}
		return ""
	}
	if seen[a] || depth > 14 {
		return ""
	}
	seen[a] = true
	if a.v.k != b.v.k {
		// a nil slice and an empty one are different values but the same table
		if !((a.v.k == kNil || a.v.k == kSlice) && (b.v.k == kNil || b.v.k == kSlice)) {
			return path
		}
	}
	switch a.v.k {
	case kConst:
		if b.v.k != kConst || a.v.c == nil || b.v.c == nil || a.v.c.ExactString() != b.v.c.ExactString() {
			return path
		}
	case kSlice, kNil:
		la, lb := 0, 0
		if a.v.k == kSlice {
			la = a.v.hi - a.v.lo
		}
		if b.v.k == kSlice {
			lb = b.v.hi - b.v.lo
		}
		if la != lb {
			return fmt.Sprintf("%s (length %d, fresh %d)", path, lb, la)
		}
		for i := 0; i < la; i++ {
			if d := cellDiff(a.v.arr[a.v.lo+i], b.v.arr[b.v.lo+i], fmt.Sprintf("%s[%d]", path, i), seen, depth+1); d != "" {
				return d
			}
		}
	case kPtr:
		if d := cellDiff(a.v.cell, b.v.cell, path+"->", seen, depth+1); d != "" {
			return d
		}
	}
	for i, f := range a.fields {
		if d := cellDiff(f, b.fields[i], fmt.Sprintf("%s.#%d", path, i), seen, depth+1); d != "" {
			return d
		}
	}
	for i, e := range a.elems {
		if i >= len(b.elems) {
			return path
		}
		if d := cellDiff(e, b.elems[i], fmt.Sprintf("%s[%d]", path, i), seen, depth+1); d != "" {
			return d
		}
	}
	return ""
}

func init() {
	debugRules["statereset"] = func(c *Ctx, r *Report) { ruleStateResetCE(c, r, "") }
}

func isNamedType(t types.Type, name string) bool {
	nt, ok := t.(*types.Named)
	return ok && refNameOf(nt.Obj()) == name
}

// ---- CE-COPYN: encoderDict.CopyN hands out the last n encoded bytes, in order ----
//
// A chunk that is stored raw is copied out of the encoder dictionary with CopyN(w, n): the n
// bytes that precede the read index of the ring, oldest first, across the physical end of the
// ring if need be; at most Len() bytes are there, a larger request gives them and ErrNoSpace.
// The rule evaluates CopyN with a recording writer on every state of rings with 5 and 6 cells.
// Necessary: anything else puts other bytes into a raw chunk than the chunk header announces
// (C01, C08: the stream no longer decodes to the input; C10: gxz has removed the input by then).
func ruleCopyNCE(c *Ctx, r *Report, prefix string) {
	rule := prefix + "CE-COPYN"
	fn := c.Func("lzma", "encoderDict.CopyN")
	dt, bt := c.Type("lzma", "encoderDict"), c.Type("lzma", "buffer")
	errNoSpace := c.Global("lzma", "ErrNoSpace")
	if fn == nil || dt == nil || bt == nil || len(fn.Params) != 3 {
		return
	}
	bst, _ := bt.Underlying().(*types.Struct)
	iBuf, iHead, iCap := fieldIndex(dt, "buf"), fieldIndex(dt, "head"), fieldIndex(dt, "capacity")
	iData, iFront, iRear := fieldIndex(bt, "data"), fieldIndex(bt, "front"), fieldIndex(bt, "rear")
	if bst == nil || iBuf < 0 || iHead < 0 || iData < 0 || iFront < 0 || iRear < 0 {
		c.miss("fields of lzma.encoderDict / lzma.buffer")
		return
	}
	bad, cnt := "", 0
	for _, N := range []int{5, 6} {
		capacity := N - 1
		for rear := 0; rear < N && bad == ""; rear++ {
			for avail := 0; avail <= capacity && bad == ""; avail++ {
				front := ((rear-1-avail)%N + N) % N
				for _, head := range []int{capacity + 3, 2} {
					have := avail
					if head < have {
						have = head
					}
					for n := 0; n <= have+1 && bad == ""; n++ {
						data := make([]byte, N)
						for i := range data {
							data[i] = byte(20 + i)
						}
						in := NewInterp(c)
						in.MaxSteps = 40000
						cl := in.newCellOf(dt)
						bc := cl.field(iBuf)
						bc.field(iData).v = aBytes(in, data, bst.Field(iData).Type())
						bc.field(iFront).v = aInt(int64(front), types.Typ[types.Int])
						bc.field(iRear).v = aInt(int64(rear), types.Typ[types.Int])
						cl.field(iHead).v = aInt(int64(head), types.Typ[types.Int64])
						if iCap >= 0 {
							cl.field(iCap).v = aInt(int64(capacity), types.Typ[types.Int])
						}
						var sink []int64
						res := in.Call(fn, []aval{{k: kPtr, cell: cl}, {k: kSink, sink: &sink}, aInt(int64(n), types.Typ[types.Int])})
						cnt++
						what := fmt.Sprintf("CopyN(w, %d) on a ring of %d cells with front=%d rear=%d head=%d", n, N, front, rear, head)
						if !res.OK || (!res.Panicked && len(res.Rets) != 2) {
							bad = "cannot evaluate " + what + ": " + in.Undecided
							break
						}
						if res.Panicked {
							bad = what + " panics"
							break
						}
						m := n
						if m > have {
							m = have
						}
						var want []int64
						for j := 0; j < m; j++ {
							want = append(want, int64(data[((rear-m+j)%N+N)%N]))
						}
						gotN, _ := res.Rets[0].Int()
						wantErr := n > have
						gotErr := isSomeErr(res.Rets[1])
						if gotErr && errNoSpace != nil && res.Rets[1].glob != nil && res.Rets[1].glob != errNoSpace {
							gotErr = false
						}
						if int(gotN) != m || !eqInt64s(sink, want) || gotErr != wantErr {
							bad = fmt.Sprintf("%s writes %v and returns (%d, error=%v); the %d bytes in front of the read index are %v (ErrNoSpace exactly when more than the %d bytes present are asked for): a raw chunk would carry other bytes than were compressed", what, sink, gotN, isSomeErr(res.Rets[1]), m, want, have)
							break
						}
					}
				}
			}
		}
	}
	r.Check(bad == "", rule, "encoderDict.CopyN", c.Pos(fn.Pos()), fmt.Sprintf("hands out the last n bytes in order (ring wrap included) on %d ring states", cnt), bad)
}

func init() {
	debugRules["copyn"] = func(c *Ctx, r *Report) { ruleCopyNCE(c, r, "") }
}

// ---- CE-FORMAT-NORM (C15): gxz' format normalisation ----
//
// normalizeFormat is evaluated for every spelling of -F the usage text names (and some it does not)
// with and without -d. On success options.format is what the rest of gxz keys on - the `formats`
// table, the suffix `"." + opts.format` of targetName, the .tlz/.txz choice: "xz" or "lzma", and
// "auto" only when decompressing; "alone" is another name of "lzma"; compression without a
// choice is xz; anything else is refused.
// Necessary: a name that passes unnormalised gives `f.alone` / "unknown suffix" for a valid .lzma
// file (flag semantics, name round trip of C15).
func ruleFormatNormCE(c *Ctx, r *Report, prefix string) {
	rule := prefix + "CE-FORMAT-NORM"
	fn := c.Func("cmd/gxz", "normalizeFormat")
	ot := c.Type("cmd/gxz", "options")
	if fn == nil || ot == nil {
		return
	}
	iFmt, iDec := fieldIndex(ot, "format"), fieldIndex(ot, "decompress")
	if iFmt < 0 || iDec < 0 {
		c.miss("fields of gxz.options")
		return
	}
	// accepted shapes: the options by pointer, or the format name (string) and the decompress flag
	// (bool) as separate parameters; results: an error, optionally preceded by the normalised name
	shapeOK := fn.Signature.Recv() == nil
	nStr, nBool, nOpt := 0, 0, 0
	for _, p := range fn.Params {
		switch {
		case types.Identical(p.Type(), types.NewPointer(ot)):
			nOpt++
		case types.Identical(p.Type(), types.Typ[types.String]):
			nStr++
		case types.Identical(p.Type(), types.Typ[types.Bool]):
			nBool++
		default:
			shapeOK = false
		}
	}
	res := fn.Signature.Results()
	strRes := res.Len() == 2 && types.Identical(res.At(0).Type(), types.Typ[types.String])
	if !((nOpt == 1 && nStr == 0 && nBool == 0) || (nOpt == 0 && nStr == 1 && nBool == 1)) || !(res.Len() == 1 || strRes) || !isErrType(res.At(res.Len()-1).Type()) {
		shapeOK = false
	}
	if !shapeOK || (nOpt == 0 && !strRes) {
		r.Undecided(rule, FnName(fn), c.Pos(fn.Pos()), "normalizeFormat has neither the form func(*options) error nor func(format string, decompress bool) (string, error)")
		return
	}
	type tc struct {
		in   string
		dec  bool
		want string // "" = refused
	}
	var cases []tc
	for _, dec := range []bool{false, true} {
		auto := "xz"
		if dec {
			auto = "auto"
		}
		cases = append(cases, tc{"xz", dec, "xz"}, tc{"lzma", dec, "lzma"}, tc{"alone", dec, "lzma"}, tc{"auto", dec, auto},
			tc{"", dec, ""}, tc{"gz", dec, ""}, tc{"XZ", dec, ""}, tc{"lzma2", dec, ""}, tc{".xz", dec, ""})
	}
	bad, cnt := "", 0
	for _, t := range cases {
		in := NewInterp(c)
		in.MaxSteps = 20000
		cl := in.newCellOf(ot)
		cl.field(iFmt).v = aConst(constant.MakeString(t.in), types.Typ[types.String])
		cl.field(iDec).v = aConst(constant.MakeBool(t.dec), types.Typ[types.Bool])
		var args []aval
		for _, p := range fn.Params {
			switch {
			case nOpt == 1:
				args = append(args, aval{k: kPtr, cell: cl})
			case types.Identical(p.Type(), types.Typ[types.String]):
				args = append(args, cl.field(iFmt).v)
			default:
				args = append(args, cl.field(iDec).v)
			}
		}
		res := in.Call(fn, args)
		cnt++
		what := fmt.Sprintf("normalizeFormat with format %q, decompress=%v", t.in, t.dec)
		if !res.OK || res.Panicked || len(res.Rets) != fn.Signature.Results().Len() {
			r.Undecided(rule, FnName(fn), c.Pos(fn.Pos()), "cannot evaluate "+what+": "+in.Undecided)
			return
		}
		refused := isSomeErr(res.Rets[len(res.Rets)-1])
		got := cl.field(iFmt).v
		if strRes {
			got = res.Rets[0]
		}
		gs := "?"
		if got.k == kConst && got.c != nil && got.c.Kind() == constant.String {
			gs = constant.StringVal(got.c)
		}
		switch {
		case t.want == "" && !refused:
			bad = fmt.Sprintf("%s is accepted (format left as %q): only xz, lzma, alone and auto are format names", what, gs)
		case t.want != "" && refused:
			bad = fmt.Sprintf("%s is refused: it is one of the documented format names", what)
		case t.want != "" && gs != t.want:
			bad = fmt.Sprintf("%s leaves format %q, want %q: the codec table, the target suffix (\".\"+format) and the .tlz/.txz mapping key on the normalised name", what, gs, t.want)
		}
		if bad != "" {
			break
		}
	}
	r.Check(bad == "", rule, FnName(fn), c.Pos(fn.Pos()), fmt.Sprintf("maps xz/lzma/alone/auto to xz, lzma or (decompressing only) auto and refuses other names (%d evaluations)", cnt), bad)
}

func init() {
	debugRules["formatnorm"] = func(c *Ctx, r *Report) { ruleFormatNormCE(c, r, "") }
}

// ---- CE-BT-WRITE (C17): binTree.Write is WriteByte, byte by byte ----
//
// The dictionary advances by one position per byte and the tree's ring (front, hoff) must follow
// it: binTree.distance turns node indices into distances relative to front. Write(p) is therefore
// the same state change as WriteByte for every byte of p. Both are evaluated on trees of 3 and 5
// nodes (so that old nodes are removed and the ring wraps) for all byte strings over {1,2} up to
// length 7, each cut into two Write calls at every position, and the resulting trees are compared
// cell by cell.
// Necessary: a Write that inserts one word less (or more) shifts every later distance the tree
// delivers; they fail verification and the BinaryTree matcher finds nothing beyond distance 3 (C17).
func ruleBinTreeWriteCE(c *Ctx, r *Report, prefix string) {
	rule := prefix + "CE-BT-WRITE"
	nbt := c.Func("lzma", "newBinTree")
	wr, wb := c.Func("lzma", "binTree.Write"), c.Func("lzma", "binTree.WriteByte")
	if nbt == nil || wr == nil || wb == nil {
		return
	}
	if len(nbt.Params) != 1 || len(wr.Params) != 2 || len(wb.Params) != 2 {
		r.Undecided(rule, FnName(wr), c.Pos(wr.Pos()), "newBinTree / Write / WriteByte no longer have the reference signatures")
		return
	}
	bsT := wr.Params[1].Type()
	mk := func(capacity int) (*Interp, aval, string) {
		in := NewInterp(c)
		in.MaxSteps = 400000
		res := in.Call(nbt, []aval{aInt(int64(capacity), types.Typ[types.Int])})
		if !res.OK || res.Panicked || len(res.Rets) != 2 || res.Rets[0].k != kPtr {
			return nil, aval{}, "cannot evaluate newBinTree: " + in.Undecided
		}
		return in, res.Rets[0], ""
	}
	bad, cnt := "", 0
	for _, capacity := range []int{3, 5} {
		for L := 0; L <= 7 && bad == ""; L++ {
			for bits := 0; bits < 1<<uint(L) && bad == ""; bits++ {
				s := make([]byte, L)
				for i := range s {
					s[i] = byte(1 + (bits>>uint(i))&1)
				}
				inA, tA, e := mk(capacity)
				if e != "" {
					r.Undecided(rule, FnName(wr), c.Pos(wr.Pos()), e)
					return
				}
				for _, b := range s {
					res := inA.Call(wb, []aval{tA, aInt(int64(b), types.Typ[types.Uint8])})
					if !res.OK || res.Panicked {
						r.Undecided(rule, FnName(wb), c.Pos(wb.Pos()), fmt.Sprintf("cannot evaluate WriteByte on a tree of %d nodes: %s", capacity, inA.Undecided))
						return
					}
				}
				for k := 0; k <= L && bad == ""; k++ {
					inB, tB, e := mk(capacity)
					if e != "" {
						r.Undecided(rule, FnName(wr), c.Pos(wr.Pos()), e)
						return
					}
					for _, piece := range [][]byte{s[:k], s[k:]} {
						res := inB.Call(wr, []aval{tB, aBytes(inB, piece, bsT)})
						cnt++
						if !res.OK || len(res.Rets) != 2 && !res.Panicked {
							r.Undecided(rule, FnName(wr), c.Pos(wr.Pos()), fmt.Sprintf("cannot evaluate Write of %d bytes on a tree of %d nodes: %s", len(piece), capacity, inB.Undecided))
							return
						}
						if res.Panicked {
							bad = fmt.Sprintf("Write(%v) panics on a tree of %d nodes after %d bytes", piece, capacity, k)
							break
						}
						if n, okN := res.Rets[0].Int(); !okN || int(n) != len(piece) || isSomeErr(res.Rets[1]) {
							bad = fmt.Sprintf("Write(%v) on a tree of %d nodes does not return (%d, nil)", piece, capacity, len(piece))
							break
						}
					}
					if bad == "" {
						if d := cellDiff(tA.cell, tB.cell, "binTree", map[*cell]bool{}, 0); d != "" {
							bad = fmt.Sprintf("on a tree of %d nodes Write(%v) then Write(%v) leaves another tree than WriteByte for each of the bytes (first difference at %s): front / hoff no longer follow the dictionary, so the distances of all later candidates are off and fail verification (no matches beyond distance 3)", capacity, s[:k], s[k:], d)
						}
					}
				}
			}
		}
	}
	r.Check(bad == "", rule, FnName(wr), c.Pos(wr.Pos()), fmt.Sprintf("Write(p) is WriteByte for every byte of p on trees of 3 and 5 nodes (%d evaluated Write calls)", cnt), bad)
}

func init() {
	debugRules["btwrite"] = func(c *Ctx, r *Report) { ruleBinTreeWriteCE(c, r, "") }
}

package main

import (
	"fmt"
	"go/types"
)

// ---- CE-WRITEMATCH: decoderDict.writeMatch is the sequential LZ copy on the ring ----
//
// A match (dist, length) appends, byte by byte, the byte that lies dist positions behind the
// write position - the copy may overlap its own output (dist < length: a run) and both the
// source and the destination may straddle the physical end of the ring. The rule evaluates
// writeMatch with the CE interpreter on every state of rings with 5 and 6 cells (all front
// positions, fill levels, two history lengths, all admissible distances and lengths, distinct
// byte values in all cells) and compares ring contents, front, rear and head with the
// sequential definition; one length beyond the free space must give ErrNoSpace and one distance
// beyond the history an error, both without touching the ring.
// Necessary: a decoder that copies anything else returns wrong bytes for a valid stream
// (C03, C06, C07) - the block check of xz notices, classic .lzma has none.
func ruleWriteMatchCE(c *Ctx, r *Report, prefix string) {
	rule := prefix + "CE-WRITEMATCH"
	fn := c.Func("lzma", "decoderDict.writeMatch")
	dt, bt := c.Type("lzma", "decoderDict"), c.Type("lzma", "buffer")
	if fn == nil || dt == nil || bt == nil || len(fn.Params) != 3 {
		return
	}
	bst, _ := bt.Underlying().(*types.Struct)
	iBuf, iHead := fieldIndex(dt, "buf"), fieldIndex(dt, "head")
	iData, iFront, iRear := fieldIndex(bt, "data"), fieldIndex(bt, "front"), fieldIndex(bt, "rear")
	if bst == nil || iBuf < 0 || iHead < 0 || iData < 0 || iFront < 0 || iRear < 0 {
		c.miss("fields of lzma.decoderDict / lzma.buffer")
		return
	}
	bad, cnt := "", 0
	for _, N := range []int{5, 6} {
		capacity := N - 1
		for f := 0; f < N && bad == ""; f++ {
			for b := 0; b <= capacity && bad == ""; b++ {
				rear := ((f-b)%N + N) % N
				avail := capacity - b
				for _, head := range []int{capacity + 3, b + 1} {
					dictLen := head
					if dictLen > capacity {
						dictLen = capacity
					}
					for dist := 1; dist <= dictLen+1 && bad == ""; dist++ {
						for length := 1; length <= avail+1 && bad == ""; length++ {
							data := make([]byte, N)
							for i := range data {
								data[i] = byte(10 + i)
							}
							in := NewInterp(c)
							in.MaxSteps = 40000
							cl := in.newCellOf(dt)
							bc := cl.field(iBuf)
							bc.field(iData).v = aBytes(in, data, bst.Field(iData).Type())
							bc.field(iFront).v = aInt(int64(f), types.Typ[types.Int])
							bc.field(iRear).v = aInt(int64(rear), types.Typ[types.Int])
							cl.field(iHead).v = aInt(int64(head), types.Typ[types.Int64])
							res := in.Call(fn, []aval{{k: kPtr, cell: cl}, aInt(int64(dist), types.Typ[types.Int64]), aInt(int64(length), types.Typ[types.Int])})
							cnt++
							what := fmt.Sprintf("writeMatch(dist=%d, length=%d) on a ring of %d cells with front=%d rear=%d head=%d", dist, length, N, f, rear, head)
							if !res.OK || (!res.Panicked && len(res.Rets) != 1) {
								bad = "cannot evaluate " + what + ": " + in.Undecided
								break
							}
							if res.Panicked {
								bad = what + " panics"
								break
							}
							gotData, okD := sliceBytes(bc.field(iData).v)
							gotF, _ := bc.field(iFront).v.Int()
							gotR, _ := bc.field(iRear).v.Int()
							gotH, _ := cl.field(iHead).v.Int()
							if !okD || len(gotData) != N {
								bad = "cannot read the ring after " + what
								break
							}
							want := append([]byte(nil), data...)
							wantF, wantH, wantErr := f, head, dist > dictLen || length > avail
							if !wantErr {
								for j := 0; j < length; j++ {
									want[(f+j)%N] = want[((f+j-dist)%N+N)%N]
								}
								wantF, wantH = (f+length)%N, head+length
							}
							if wantErr != isSomeErr(res.Rets[0]) {
								bad = fmt.Sprintf("%s returns error=%v; a distance beyond the %d bytes of history or a length beyond the %d free bytes must be refused, everything else accepted", what, isSomeErr(res.Rets[0]), dictLen, avail)
								break
							}
							same := int(gotF) == wantF && int(gotR) == rear && int(gotH) == wantH
							for i := range want {
								if gotData[i] != int64(want[i]) {
									same = false
								}
							}
							if !same {
								bad = fmt.Sprintf("%s leaves ring %v front=%d rear=%d head=%d; copying byte by byte from %d positions back gives ring %v front=%d rear=%d head=%d: the decoder returns other bytes than the stream encodes (a match that overlaps its own output or straddles the end of the ring)", what, gotData, gotF, gotR, gotH, dist, want, wantF, rear, wantH)
								break
							}
						}
					}
				}
			}
		}
	}
	r.Check(bad == "", rule, "decoderDict.writeMatch", c.Pos(fn.Pos()), fmt.Sprintf("is the sequential LZ copy (overlap and ring wrap included) on %d ring states", cnt), bad)
}

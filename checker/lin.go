package main

// LIN — linear forms over SSA values.
//
// A value is abstracted to  c + Σ coef·atom  where an atom is a parameter, a field
// load named by its access path from a parameter ("d.buf.rear"), len(<path>) of a
// slice-valued field, a designated SSA value (pivot) or an opaque SSA value. Integer
// conversions are transparent; ADD, SUB, negation, multiplication and left shift by a
// constant are interpreted; calls of one-block in-module getters (buffer.Cap,
// decoderDict.pos, …) are inlined with the receiver path substituted, so `d.buf.Cap()+1`
// and `len(d.buf.data)` are the same form. Everything else is an opaque atom.
//
// Used by rules that must recognise an arithmetic quantity independently of how the
// source spells it (ring moduli, size formulas).

import (
	"fmt"
	"go/constant"
	"go/token"
	"go/types"
	"sort"
	"strings"

	"golang.org/x/tools/go/ssa"
)

type lin struct {
	c int64
	t map[string]int64
}

func linConst(k int64) lin { return lin{c: k, t: map[string]int64{}} }
func linAtom(a string) lin { return lin{t: map[string]int64{a: 1}} }

func (a lin) add(b lin, sign int64) lin {
	r := lin{c: a.c + sign*b.c, t: map[string]int64{}}
	for k, v := range a.t {
		r.t[k] = v
	}
	for k, v := range b.t {
		r.t[k] += sign * v
		if r.t[k] == 0 {
			delete(r.t, k)
		}
	}
	return r
}

func (a lin) scale(k int64) lin {
	r := lin{c: a.c * k, t: map[string]int64{}}
	if k == 0 {
		return r
	}
	for n, v := range a.t {
		r.t[n] = v * k
	}
	return r
}

func (a lin) isConst() bool { return len(a.t) == 0 }

func (a lin) eq(b lin) bool {
	if a.c != b.c || len(a.t) != len(b.t) {
		return false
	}
	for k, v := range a.t {
		if b.t[k] != v {
			return false
		}
	}
	return true
}

func (a lin) String() string {
	var ks []string
	for k := range a.t {
		ks = append(ks, k)
	}
	sort.Strings(ks)
	var sb strings.Builder
	for _, k := range ks {
		v := a.t[k]
		switch {
		case v == 1:
			sb.WriteString(" + " + k)
		case v == -1:
			sb.WriteString(" - " + k)
		case v < 0:
			fmt.Fprintf(&sb, " - %d*%s", -v, k)
		default:
			fmt.Fprintf(&sb, " + %d*%s", v, k)
		}
	}
	if a.c != 0 || len(ks) == 0 {
		if a.c < 0 {
			fmt.Fprintf(&sb, " - %d", -a.c)
		} else {
			fmt.Fprintf(&sb, " + %d", a.c)
		}
	}
	s := strings.TrimPrefix(sb.String(), " + ")
	if strings.HasPrefix(s, " - ") {
		s = "-" + s[3:]
	}
	return s
}

// lenAtoms returns the atoms of the form len(path).
func (a lin) lenAtoms() []string {
	var r []string
	for k := range a.t {
		if strings.HasPrefix(k, "len(") {
			r = append(r, k)
		}
	}
	sort.Strings(r)
	return r
}

type linBinding struct {
	path string // for pointer / struct parameters: the caller's access path
	val  *lin   // for integer parameters: the caller's linear form
}

type linEnv struct {
	c     *Ctx
	bind  map[*ssa.Parameter]linBinding
	pivot map[ssa.Value]string // designated values that stay atoms
	depth int
	// lenField records, for each len(path) atom and each field-load atom created, the field variable at the end of path.
	lenField map[string]*types.Var
}

func newLinEnv(c *Ctx) *linEnv {
	return &linEnv{c: c, pivot: map[ssa.Value]string{}, lenField: map[string]*types.Var{}}
}

// path names the memory location an address value denotes, or the object a pointer /
// struct value denotes, relative to the function's parameters.
func (e *linEnv) path(v ssa.Value) string {
	switch x := v.(type) {
	case *ssa.Parameter:
		if b, ok := e.bind[x]; ok && b.path != "" {
			return b.path
		}
		return refParamName(x)
	case *ssa.FieldAddr:
		return e.path(x.X) + "." + refNameOf(fieldOfAddr(x))
	case *ssa.Field:
		return e.path(x.X) + "." + refNameOf(fieldOfField(x))
	case *ssa.UnOp:
		if x.Op == token.MUL {
			return e.path(x.X)
		}
	case *ssa.IndexAddr:
		if k, ok := constInt(x.Index); ok {
			return fmt.Sprintf("%s[%d]", e.path(x.X), k)
		}
	case *ssa.ChangeType:
		return e.path(x.X)
	}
	return "v:" + valueKey(v)
}

func valueKey(v ssa.Value) string {
	fn := ""
	if p := v.Parent(); p != nil {
		fn = FnName(p)
	}
	return fn + "." + v.Name()
}

func lastFieldOfAddr(v ssa.Value) *types.Var {
	switch x := v.(type) {
	case *ssa.FieldAddr:
		return fieldOfAddr(x)
	case *ssa.Field:
		return fieldOfField(x)
	case *ssa.UnOp:
		if x.Op == token.MUL {
			return lastFieldOfAddr(x.X)
		}
	}
	return nil
}

func (e *linEnv) of(v ssa.Value) lin {
	if name, ok := e.pivot[v]; ok {
		return linAtom(name)
	}
	switch x := v.(type) {
	case *ssa.Const:
		if x.Value != nil && x.Value.Kind() == constant.Int {
			if k, ok := constant.Int64Val(x.Value); ok {
				return linConst(k)
			}
		}
	case *ssa.Parameter:
		if b, ok := e.bind[x]; ok {
			if b.val != nil {
				return *b.val
			}
			if b.path != "" {
				return linAtom(b.path)
			}
		}
		return linAtom(x.Name())
	case *ssa.Convert:
		if isIntegerType(x.Type()) && isIntegerType(x.X.Type()) {
			return e.of(x.X)
		}
	case *ssa.ChangeType:
		return e.of(x.X)
	case *ssa.UnOp:
		switch x.Op {
		case token.SUB:
			return e.of(x.X).scale(-1)
		case token.MUL: // load
			switch x.X.(type) {
			case *ssa.FieldAddr, *ssa.IndexAddr:
				name := e.path(x.X)
				if f := lastFieldOfAddr(x.X); f != nil {
					e.lenField[name] = f
				}
				return linAtom(name)
			}
		}
	case *ssa.Field:
		return linAtom(e.path(x))
	case *ssa.BinOp:
		switch x.Op {
		case token.ADD:
			return e.of(x.X).add(e.of(x.Y), 1)
		case token.SUB:
			return e.of(x.X).add(e.of(x.Y), -1)
		case token.MUL:
			a, b := e.of(x.X), e.of(x.Y)
			if a.isConst() {
				return b.scale(a.c)
			}
			if b.isConst() {
				return a.scale(b.c)
			}
		case token.SHL:
			a, b := e.of(x.X), e.of(x.Y)
			if b.isConst() && b.c >= 0 && b.c < 62 {
				return a.scale(1 << uint(b.c))
			}
		}
	case *ssa.Call:
		if b, ok := x.Call.Value.(*ssa.Builtin); ok && b.Name() == "len" && len(x.Call.Args) == 1 {
			arg := x.Call.Args[0]
			p := e.path(arg)
			name := "len(" + p + ")"
			if f := lastFieldOfAddr(arg); f != nil {
				e.lenField[name] = f
			}
			return linAtom(name)
		}
		if callee := x.Call.StaticCallee(); callee != nil && e.c.InModule(callee) && e.depth < 3 {
			if l, ok := e.inlineGetter(callee, x.Call.Args); ok {
				return l
			}
		}
	}
	return linAtom("v:" + valueKey(v))
}

// inlineGetter evaluates a one-block, side-effect-free callee that returns a single
// integer as a linear form over the caller's paths.
func (e *linEnv) inlineGetter(callee *ssa.Function, args []ssa.Value) (lin, bool) {
	if len(callee.Blocks) != 1 || len(callee.Params) != len(args) {
		return lin{}, false
	}
	var ret *ssa.Return
	for _, ins := range callee.Blocks[0].Instrs {
		switch y := ins.(type) {
		case *ssa.Return:
			ret = y
		case *ssa.Store, *ssa.MapUpdate, *ssa.Send, *ssa.Go, *ssa.Defer, *ssa.Panic:
			return lin{}, false
		case *ssa.Call:
			if b, ok := y.Call.Value.(*ssa.Builtin); ok && b.Name() == "len" {
				continue
			}
			if sc := y.Call.StaticCallee(); sc == nil || !e.c.InModule(sc) {
				return lin{}, false
			}
		}
	}
	if ret == nil || len(ret.Results) != 1 || !isIntegerType(ret.Results[0].Type()) {
		return lin{}, false
	}
	sub := &linEnv{c: e.c, bind: map[*ssa.Parameter]linBinding{}, pivot: map[ssa.Value]string{}, depth: e.depth + 1, lenField: e.lenField}
	for i, p := range callee.Params {
		if isIntegerType(p.Type()) {
			l := e.of(args[i])
			sub.bind[p] = linBinding{val: &l}
		} else {
			sub.bind[p] = linBinding{path: e.path(args[i])}
		}
	}
	l := sub.of(ret.Results[0])
	// a getter that still contains opaque callee-local values is not a getter
	for k := range l.t {
		if strings.HasPrefix(k, "v:"+FnName(callee)+".") {
			return lin{}, false
		}
	}
	return l, true
}

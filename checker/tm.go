package main

// TM rules (DESIGN §3.8): constants the format fixes, formula shapes, symbolic
// extraction of the rep-distance permutation of the decoder (C02, C03, C06, C07).

import (
	"fmt"
	"go/constant"
	"go/token"
	"go/types"
	"sort"
	"strings"

	"golang.org/x/tools/go/ssa"
)

// ruleSpecConstants: named constants whose value the formats fix.
func ruleSpecConstants(c *Ctx, r *Report, prefix string) {
	rule := prefix + "TM-CONST"
	type kc struct {
		pkg, name string
		want      string
		why       string
	}
	list := []kc{
		{"lzma", "states", "12", "LZMA state machine has 12 states"},
		{"lzma", "maxPosBits", "4", "pb <= 4: 16 position states"},
		{"lzma", "probbits", "11", "11-bit probabilities"},
		{"lzma", "movebits", "5", "probability adaptation shift"},
		{"lzma", "probInit", "1024", "initial probability 0.5"},
		{"lzma", "minMatchLen", "2", ""},
		{"lzma", "maxMatchLen", "273", ""},
		{"lzma", "lenStates", "4", "length states for the distance slot"},
		{"lzma", "startPosModel", "4", ""},
		{"lzma", "endPosModel", "14", ""},
		{"lzma", "posSlotBits", "6", ""},
		{"lzma", "alignBits", "4", ""},
		{"lzma", "minDistance", "1", ""},
		{"lzma", "maxDistance", "4294967296", "EOS marker distance 2^32"},
		{"lzma", "maxCompressed", "65536", "LZMA2 chunk limit"},
		{"lzma", "maxUncompressed", "2097152", "LZMA2 chunk limit"},
		{"lzma", "MinDictCap", "4096", ""},
		{"lzma", "MaxDictCap", "4294967295", ""},
		{"lzma", "HeaderLen", "13", "classic LZMA header"},
		{"lzma", "noHeaderSize", "18446744073709551615", "all-ones = size unknown"},
		{"lzma", "maxLC", "8", ""}, {"lzma", "maxLP", "4", ""}, {"lzma", "maxPB", "4", ""},
		{"lzma", "minLC", "0", ""}, {"lzma", "minLP", "0", ""}, {"lzma", "minPB", "0", ""},
		{"lzma", "maxPropertyCode", "224", ""},
		{"lzma", "uncompressedHeaderLen", "3", ""},
		{"lzma", "maxDictCapCode", "40", ""},
		{"", "HeaderLen", "12", "xz stream header"},
		{"", "footerLen", "12", "xz stream footer"},
		{"", "None", "0", "check id"}, {"", "CRC32", "1", "check id"}, {"", "CRC64", "4", "check id"}, {"", "SHA256", "10", "check id"},
		{"", "lzmaFilterID", "33", "LZMA2 filter id 0x21"},
		{"", "lzmaFilterLen", "3", ""},
		{"", "filterCountMask", "3", ""},
		{"", "compressedSizePresent", "64", "block flag 0x40"},
		{"", "uncompressedSizePresent", "128", "block flag 0x80"},
		{"", "reservedBlockFlags", "60", "block flags 0x3C"},
		{"", "minFilters", "1", ""}, {"", "maxFilters", "4", ""},
	}
	for _, k := range list {
		nc := c.Const(k.pkg, k.name)
		if nc == nil {
			continue
		}
		got := "?"
		if nc.Value.Value != nil {
			got = nc.Value.Value.ExactString()
		}
		key := k.name
		if k.pkg != "" {
			key = k.pkg + "." + k.name
		}
		r.Check(got == k.want, rule, key, c.Pos(nc.Pos()), k.name+" = "+k.want,
			fmt.Sprintf("constant %s is %s; the format fixes it to %s %s (encoder and decoder share it, so round-trip tests cannot notice)", k.name, got, k.want, k.why))
	}
	// magic bytes (initialisers of package-level slices)
	for _, m := range []struct {
		name string
		want []byte
	}{{"headerMagic", []byte{0xfd, '7', 'z', 'X', 'Z', 0}}, {"footerMagic", []byte{'Y', 'Z'}}} {
		g := c.Global("", m.name)
		if g == nil {
			continue
		}
		got, ok := globalByteInit(c, g)
		r.Check(ok && string(got) == string(m.want), rule, m.name, c.Pos(g.Pos()), fmt.Sprintf("%s = % x", m.name, m.want),
			fmt.Sprintf("%s is initialised to % x; the format fixes % x", m.name, got, m.want))
	}
	// eosMatch = {distance 2^32, n 2}
	if g := c.Global("lzma", "eosMatch"); g != nil {
		ok := false
		if init := c.Pkg("lzma").Func("init"); init != nil {
			vals := map[string]string{}
			for _, b := range theCtx.GB(init) {
				for _, ins := range b.Instrs {
					if st, isSt := ins.(*ssa.Store); isSt {
						if fa, isFA := st.Addr.(*ssa.FieldAddr); isFA && fa.X == g {
							if k, isK := st.Val.(*ssa.Const); isK && k.Value != nil {
								vals[refNameOf(fieldOfAddr(fa))] = k.Value.ExactString()
							}
						}
					}
				}
			}
			ok = vals["distance"] == "4294967296" && vals["n"] == "2"
		}
		r.Check(ok, rule, "lzma.eosMatch", c.Pos(g.Pos()), "end marker = match{distance 2^32, length 2}", "eosMatch is not {distance: 2^32, n: 2}: the end-of-stream marker would not be recognised by other decoders")
	}
	// CRC polynomials / hash constructors
	for _, h := range []struct{ fn, callee, arg string }{{"newCRC32", "hash/crc32.NewIEEE", ""}, {"newCRC64", "hash/crc64.New", "crc64Table"}} {
		fn := c.Func("", h.fn)
		if fn == nil {
			continue
		}
		ok := false
		for _, b := range theCtx.GB(fn) {
			for _, ins := range b.Instrs {
				if call, isC := ins.(*ssa.Call); isC && stdCalleeName(call) == h.callee {
					ok = h.arg == "" || roleGlobalLoad(c.Global("", h.arg))(call.Call.Args[0])
				}
			}
		}
		r.Check(ok, rule, h.fn, c.Pos(fn.Pos()), h.fn+" uses "+h.callee, h.fn+" does not construct its hash with "+h.callee)
	}
	if g := c.Global("", "crc64Table"); g != nil {
		ok := false
		if init := c.Pkg("").Func("init"); init != nil {
			for _, b := range theCtx.GB(init) {
				for _, ins := range b.Instrs {
					if call, isC := ins.(*ssa.Call); isC && stdCalleeName(call) == "hash/crc64.MakeTable" {
						if k, isK := call.Call.Args[0].(*ssa.Const); isK && k.Value != nil && k.Value.ExactString() == "14514072000185962306" {
							ok = true // crc64.ECMA = 0xC96C5795D7870F42
						}
					}
				}
			}
		}
		r.Check(ok, rule, "crc64Table", c.Pos(g.Pos()), "CRC64 uses the ECMA-182 polynomial", "crc64Table is not built from crc64.ECMA (0xC96C5795D7870F42)")
	}
	// range coder constants: top = 1<<24 in all four bit coders, initial range 0xffffffff
	for _, fnn := range []string{"rangeEncoder.EncodeBit", "rangeEncoder.DirectEncodeBit", "rangeDecoder.DecodeBit", "rangeDecoder.DirectDecodeBit"} {
		fn := c.Func("lzma", fnn)
		if fn == nil {
			continue
		}
		ok := false
		for _, g := range guardsOf(fn) {
			if g.call == nil && roleConst(1<<24)(g.y) && (g.op == token.GEQ || g.op == token.LSS) {
				ok = true
			}
		}
		r.Check(ok, rule, fnn+":top", c.Pos(fn.Pos()), "normalisation threshold 2^24", fnn+" does not normalise at range < 2^24")
	}
	for _, fnn := range []string{"newRangeEncoder", "newRangeDecoder"} {
		fn := c.Func("lzma", fnn)
		if fn == nil {
			continue
		}
		ok := false
		for _, b := range theCtx.GB(fn) {
			for _, ins := range b.Instrs {
				if st, isSt := ins.(*ssa.Store); isSt {
					if fa, isFA := st.Addr.(*ssa.FieldAddr); isFA && refNameOf(fieldOfAddr(fa)) == "nrange" {
						if k, isK := constInt(st.Val); isK && k == 0xffffffff {
							ok = true
						}
					}
				}
			}
		}
		r.Check(ok, rule, fnn+":range", c.Pos(fn.Pos()), "initial range 0xFFFFFFFF", fnn+" does not start with range 0xFFFFFFFF")
	}
	r.Floor(rule, 45)
}

func globalByteInit(c *Ctx, g *ssa.Global) ([]byte, bool) {
	init := g.Pkg.Func("init")
	if init == nil {
		return nil, false
	}
	for _, b := range theCtx.GB(init) {
		for _, ins := range b.Instrs {
			st, ok := ins.(*ssa.Store)
			if !ok || st.Addr != g {
				continue
			}
			sl, ok := st.Val.(*ssa.Slice)
			if !ok {
				return nil, false
			}
			al, ok := sl.X.(*ssa.Alloc)
			if !ok {
				return nil, false
			}
			at := al.Type().(*types.Pointer).Elem().Underlying().(*types.Array)
			out := make([]byte, at.Len())
			for _, ref := range *al.Referrers() {
				if ia, ok := ref.(*ssa.IndexAddr); ok {
					idx, _ := constInt(ia.Index)
					for _, r2 := range *ia.Referrers() {
						if s2, ok := r2.(*ssa.Store); ok {
							v, _ := constInt(s2.Val)
							out[idx] = byte(v)
						}
					}
				}
			}
			return out, true
		}
	}
	return nil, false
}

// ruleCodecGeometry: tree sizes of the length and distance codecs (constant arguments of
// the init functions), evaluated with CE.
func ruleCodecGeometry(c *Ctx, r *Report, prefix string) {
	rule := prefix + "CE-GEOMETRY"
	probe := func(tn string) (*cell, *Interp, bool) {
		fn := c.Func("lzma", tn+".init")
		t := c.Type("lzma", tn)
		if fn == nil || t == nil {
			return nil, nil, false
		}
		in := NewInterp(c)
		in.MaxSteps = 2000000
		cl := in.newCellOf(t)
		res := in.Call(fn, []aval{{k: kPtr, cell: cl}})
		if !res.OK || res.Panicked {
			r.Undecided(rule, tn+".init", c.Pos(fn.Pos()), "cannot evaluate: "+in.Undecided)
			return nil, nil, false
		}
		return cl, in, true
	}
	bitsOf := func(cl *cell, t types.Type) int64 {
		// treeCodec{probTree{probs, bits}}
		v := cl
		for depth := 0; depth < 3; depth++ {
			st, ok := t.Underlying().(*types.Struct)
			if !ok {
				break
			}
			if i := fieldIndex(t, "bits"); i >= 0 {
				b, _ := v.field(i).v.Int()
				return b
			}
			v = v.field(0)
			t = st.Field(0).Type()
		}
		return -1
	}
	if cl, _, ok := probe("lengthCodec"); ok {
		t := c.Type("lzma", "lengthCodec")
		st := t.Underlying().(*types.Struct)
		good := true
		var got []string
		for _, f := range []struct {
			name string
			want int64
			n    int
		}{{"low", 3, 16}, {"mid", 3, 16}, {"high", 8, 0}} {
			i := fieldIndex(t, f.name)
			if i < 0 {
				good = false
				continue
			}
			ft := st.Field(i).Type()
			if at, isArr := ft.Underlying().(*types.Array); isArr {
				if int(at.Len()) != f.n {
					good = false
				}
				for _, e := range cl.field(i).elems {
					b := bitsOf(e, at.Elem())
					if b != f.want {
						good = false
					}
					got = append(got, fmt.Sprintf("%s:%d", f.name, b))
					break
				}
			} else {
				b := bitsOf(cl.field(i), ft)
				got = append(got, fmt.Sprintf("%s:%d", f.name, b))
				if b != f.want {
					good = false
				}
			}
		}
		r.Check(good, rule, "lengthCodec", "", "length coder: 16 low trees of 3 bits, 16 mid trees of 3 bits, one high tree of 8 bits",
			fmt.Sprintf("length coder geometry is %v; the LZMA format needs low 3 bits x16, mid 3 bits x16, high 8 bits", got))
	}
	if cl, _, ok := probe("distCodec"); ok {
		t := c.Type("lzma", "distCodec")
		st := t.Underlying().(*types.Struct)
		good := true
		var got []string
		if i := fieldIndex(t, "posSlotCodecs"); i >= 0 {
			at := st.Field(i).Type().Underlying().(*types.Array)
			if at.Len() != 4 {
				good = false
			}
			for _, e := range cl.field(i).elems {
				if b := bitsOf(e, at.Elem()); b != 6 {
					good = false
					got = append(got, fmt.Sprintf("posSlot:%d", b))
				}
			}
		} else {
			good = false
		}
		if i := fieldIndex(t, "posModel"); i >= 0 {
			at := st.Field(i).Type().Underlying().(*types.Array)
			if at.Len() != 10 {
				good = false
			}
			for j, e := range cl.field(i).elems {
				want := int64((4+j)>>1 - 1)
				if b := bitsOf(e, at.Elem()); b != want {
					good = false
					got = append(got, fmt.Sprintf("posModel[%d]:%d", j, b))
				}
			}
		} else {
			good = false
		}
		if i := fieldIndex(t, "alignCodec"); i >= 0 {
			if b := bitsOf(cl.field(i), st.Field(i).Type()); b != 4 {
				good = false
				got = append(got, fmt.Sprintf("align:%d", b))
			}
		} else {
			good = false
		}
		r.Check(good, rule, "distCodec", "", "distance coder: 4 slot trees of 6 bits, reverse trees of (slot>>1)-1 bits for slots 4..13, 4 align bits",
			fmt.Sprintf("distance coder geometry deviates from the LZMA format: %v", got))
	}
	// lenState(l) = min(l, 3)
	if fn := c.funcQuiet("lzma", "lenState"); fn != nil { // when inlined into the distance codec, SIB-CODEC checks the clamp there
		ok := true
		for l := int64(0); l < 300; l++ {
			in := NewInterp(c)
			res := in.Call(fn, []aval{aInt(l, types.Typ[types.Uint32])})
			want := l
			if want > 3 {
				want = 3
			}
			if got, _ := res.Rets[0].Int(); !res.OK || got != want {
				ok = false
			}
		}
		r.Check(ok, rule, "lenState", c.Pos(fn.Pos()), "length state = min(len-2, 3)", "lenState is not min(l, 3)")
	}
	// literal coder stride 0x300 << (lc+lp): checked through the make size in init
	if fn := c.Func("lzma", "literalCodec.init"); fn != nil {
		ok := false
		for _, b := range theCtx.GB(fn) {
			for _, ins := range b.Instrs {
				if ms, isM := ins.(*ssa.MakeSlice); isM {
					if bo, isB := stripConv(ms.Len).(*ssa.BinOp); isB && bo.Op == token.SHL && roleConst(0x300)(bo.X) {
						if sum, isS := stripConv(bo.Y).(*ssa.BinOp); isS && sum.Op == token.ADD {
							_, p1 := sum.X.(*ssa.Parameter)
							_, p2 := sum.Y.(*ssa.Parameter)
							ok = p1 && p2
						}
					}
				}
			}
		}
		r.Check(ok, rule, "literalCodec.size", c.Pos(fn.Pos()), "literal probabilities: 0x300 << (lc+lp)", "the literal coder does not allocate 0x300 << (lc+lp) probabilities")
	}
}

// ruleStateFormulas: litState and states() formulas via CE on a grid (C02, C03, C07).
func ruleStateFormulas(c *Ctx, r *Report, prefix string) {
	rule := prefix + "CE-STATEFORMULA"
	stT := c.Type("lzma", "state")
	prT := c.Type("lzma", "Properties")
	lit := c.Func("lzma", "state.litState")
	states := c.Func("lzma", "state.states")
	if stT == nil || prT == nil || lit == nil || states == nil {
		return
	}
	fi := func(n string) int { return fieldIndex(stT, n) }
	// scalar fields the state derives from its Properties (posBitMask today) hold what state.Reset
	// computes for these Properties; Reset is evaluated once per parameter triple, in tolerant mode
	// (the probability tables it fills are not needed here)
	resetFn := c.Func("lzma", "state.Reset")
	derived := map[[3]int64]map[int]aval{}
	derivedOf := func(lc, lp, pb int64) map[int]aval {
		key := [3]int64{lc, lp, pb}
		if d, ok := derived[key]; ok {
			return d
		}
		d := map[int]aval{}
		derived[key] = d
		st, isSt := stT.Underlying().(*types.Struct)
		if resetFn == nil || !isSt {
			return d
		}
		in := NewInterp(c)
		in.tolerant = true
		in.MaxSteps = 400000
		cl := in.newCellOf(stT)
		it := types.Typ[types.Int]
		in.storeCell(cl.field(fi("Properties")), aval{k: kStruct, typ: prT, flds: map[int]aval{
			fieldIndex(prT, "LC"): aInt(lc, it), fieldIndex(prT, "LP"): aInt(lp, it), fieldIndex(prT, "PB"): aInt(pb, it)}}, prT)
		in.call(resetFn, []aval{{k: kPtr, cell: cl}}, 0)
		for i := 0; i < st.NumFields(); i++ {
			if b, isB := st.Field(i).Type().Underlying().(*types.Basic); isB && b.Info()&types.IsInteger != 0 && i != fi("state") {
				if v := cl.field(i).v; v.isInt() {
					d[i] = v
				}
			}
			// a small record of derived numbers (masks and shifts grouped in a struct)
			if sub, isS := st.Field(i).Type().Underlying().(*types.Struct); isS && i != fi("Properties") && scalarStruct(sub) {
				d[i] = in.loadCell(cl.field(i), st.Field(i).Type())
			}
		}
		return d
	}
	mk := func(in *Interp, lc, lp, pb, st int64) *cell {
		cl := &cell{}
		it := types.Typ[types.Int]
		cl.field(fi("Properties")).fields = map[int]*cell{
			fieldIndex(prT, "LC"): {v: aInt(lc, it)}, fieldIndex(prT, "LP"): {v: aInt(lp, it)}, fieldIndex(prT, "PB"): {v: aInt(pb, it)}}
		for i, v := range derivedOf(lc, lp, pb) {
			if v.k == kStruct {
				if sst, isSt := stT.Underlying().(*types.Struct); isSt {
					in.storeCell(cl.field(i), v, sst.Field(i).Type())
				}
				continue
			}
			cl.field(i).v = v
		}
		cl.field(fi("state")).v = aInt(st, types.Typ[types.Uint32])
		if fi("posBitMask") >= 0 {
			cl.field(fi("posBitMask")).v = aInt(1<<uint(pb)-1, types.Typ[types.Uint32])
		}
		return cl
	}
	if fi("Properties") < 0 || fi("state") < 0 {
		c.miss("fields of lzma.state")
		return
	}
	bad, n := 0, 0
	heads := []int64{0, 1, 2, 3, 7, 8, 15, 16, 255, 256, 0x12345, 1<<32 + 5}
	for lc := int64(0); lc <= 8 && bad == 0; lc++ {
		for lp := int64(0); lp <= 4 && bad == 0; lp++ {
			for _, prev := range []int64{0, 1, 0x7f, 0x80, 0xa5, 0xff} {
				for _, h := range heads {
					n++
					in := NewInterp(c)
					res := in.Call(lit, []aval{{k: kPtr, cell: mk(in, lc, lp, 2, 0)}, aInt(prev, types.Typ[types.Uint8]), aInt(h, types.Typ[types.Int64])})
					want := ((h & 0xffffffff) & (1<<uint(lp) - 1) << uint(lc)) | (prev >> uint(8-lc))
					if !res.OK || len(res.Rets) != 1 {
						r.Undecided(rule, "litState", c.Pos(lit.Pos()), "cannot evaluate: "+in.Undecided)
						bad++
						break
					}
					if got, _ := res.Rets[0].Int(); got != want {
						r.Fail(rule, "litState", c.Pos(lit.Pos()), fmt.Sprintf("litState(prev=%#x, pos=%d) with lc=%d lp=%d is %d; the LZMA format gives ((pos & (2^lp-1)) << lc) | (prev >> (8-lc)) = %d", prev, h, lc, lp, got, want))
						bad++
						break
					}
				}
				if bad > 0 {
					break
				}
			}
		}
	}
	if bad == 0 {
		r.Pass(rule, "litState", c.Pos(lit.Pos()), "literal context = ((pos & (2^lp-1)) << lc) | (prev >> (8-lc)) for all lc 0..8, lp 0..4 on a grid of positions and previous bytes", n)
	}
	bad, n = 0, 0
	for pb := int64(0); pb <= 4 && bad == 0; pb++ {
		for st := int64(0); st < 12 && bad == 0; st++ {
			for _, h := range heads {
				n++
				in := NewInterp(c)
				res := in.Call(states, []aval{{k: kPtr, cell: mk(in, 3, 0, pb, st)}, aInt(h, types.Typ[types.Int64])})
				if !res.OK || len(res.Rets) != 3 {
					r.Undecided(rule, "states", c.Pos(states.Pos()), "cannot evaluate: "+in.Undecided)
					bad++
					break
				}
				s1, _ := res.Rets[0].Int()
				s2, _ := res.Rets[1].Int()
				ps, _ := res.Rets[2].Int()
				wps := (h & 0xffffffff) & (1<<uint(pb) - 1)
				if s1 != st || ps != wps || s2 != st<<4|wps {
					r.Fail(rule, "states", c.Pos(states.Pos()), fmt.Sprintf("states(pos=%d) with pb=%d state=%d gives (%d,%d,%d); the format gives (state, state<<4 | posState, posState = pos & (2^pb-1)) = (%d,%d,%d)", h, pb, st, s1, s2, ps, st, st<<4|wps, wps))
					bad++
					break
				}
			}
		}
	}
	if bad == 0 {
		r.Pass(rule, "states", c.Pos(states.Pos()), "posState = pos & (2^pb-1); state2 = state<<4 | posState", n)
	}
	// State.Reset computes posBitMask = (1 << pb) - 1
	if reset := c.Func("lzma", "state.Reset"); reset != nil {
		ok := true
		for pb := int64(0); pb <= 4; pb++ {
			in := NewInterp(c)
			in.MaxSteps = 5000000
			cl := in.newCellOf(stT)
			in.storeCell(cl.field(fi("Properties")), aval{k: kStruct, typ: prT, flds: map[int]aval{
				fieldIndex(prT, "LC"): aInt(0, types.Typ[types.Int]), fieldIndex(prT, "LP"): aInt(0, types.Typ[types.Int]), fieldIndex(prT, "PB"): aInt(pb, types.Typ[types.Int])}}, prT)
			res := in.Call(reset, []aval{{k: kPtr, cell: cl}})
			if !res.OK || res.Panicked {
				r.Undecided(rule, "Reset.posBitMask", c.Pos(reset.Pos()), "cannot evaluate state.Reset: "+in.Undecided)
				ok = false
				break
			}
			if fi("posBitMask") >= 0 {
				if m, _ := cl.field(fi("posBitMask")).v.Int(); m != 1<<uint(pb)-1 {
					ok = false
				}
			}
			if s, _ := cl.field(fi("state")).v.Int(); s != 0 {
				ok = false
			}
		}
		r.Check(ok, rule, "Reset.posBitMask", c.Pos(reset.Pos()), "state reset: state 0, posBitMask = 2^pb - 1, all codecs re-initialised", "state.Reset does not yield state 0 / posBitMask 2^pb-1")
	}
}

// ---------- rep-distance permutation of the decoder (C03, C07) ----------

type repOutcome struct {
	rep    [4]string
	dist   string
	update string
	lenC   string
}

// ruleDecoderReps: symbolic extraction of what readOp does to rep[0..3] on each
// decision path and comparison with the LZMA specification.
func ruleDecoderReps(c *Ctx, r *Report, prefix string) {
	rule := prefix + "TM-REP"
	fn := c.Func("lzma", "decoder.readOp")
	fRep := c.Field("lzma", "state.rep")
	stT := c.Type("lzma", "state")
	if fn == nil || fRep == nil || stT == nil {
		return
	}
	probFields := map[string]bool{"isMatch": true, "isRep": true, "isRepG0": true, "isRepG0Long": true, "isRepG1": true, "isRepG2": true}
	updates := map[string]bool{"updateStateLiteral": true, "updateStateMatch": true, "updateStateRep": true, "updateStateShortRep": true}
	results := map[string]repOutcome{}
	var errs []string
	w := &Walker{C: c, Fn: fn}
	repIndex := func(addr ssa.Value) (int, bool) {
		ia, ok := addr.(*ssa.IndexAddr)
		if !ok {
			return 0, false
		}
		fa, ok := ia.X.(*ssa.FieldAddr)
		if !ok || fieldOfAddr(fa) != fRep {
			return 0, false
		}
		k, isK := constInt(ia.Index)
		return int(k), isK && k >= 0 && k < 4
	}
	w.Instr = func(p *PState, ins ssa.Instruction) bool {
		s := p.U.(*repSt)
		switch x := ins.(type) {
		case *ssa.UnOp:
			if x.Op == token.MUL {
				if i, ok := repIndex(x.X); ok {
					s.sym[x] = s.rep[i]
				}
			}
		case *ssa.Store:
			if i, ok := repIndex(x.Addr); ok {
				v := x.Val
				if name, known := s.sym[v]; known {
					s.rep[i] = name
				} else if ph, isPhi := v.(*ssa.Phi); isPhi {
					rv := p.Resolve(ph)
					if name, known := s.sym[rv]; known {
						s.rep[i] = name
					} else {
						s.rep[i] = "?"
					}
				} else {
					s.rep[i] = "?"
				}
			}
		case *ssa.Extract:
			if call, ok := x.Tuple.(*ssa.Call); ok && x.Index == 0 {
				if cal := call.Call.StaticCallee(); cal != nil {
					switch {
					case refFuncName(cal) == "Decode" && strings.Contains(FnName(cal), "distCodec"):
						s.sym[x] = "new"
					}
				}
			}
		case *ssa.Call:
			cal := x.Call.StaticCallee()
			if cal == nil {
				return true
			}
			if updates[refFuncName(cal)] {
				s.upd = append(s.upd, refFuncName(cal))
			}
			if refFuncName(cal) == "Decode" && len(x.Call.Args) > 0 {
				// which model?
				recv := x.Call.Args[0]
				if ia, ok := recv.(*ssa.IndexAddr); ok {
					if fa, ok := ia.X.(*ssa.FieldAddr); ok && probFields[refNameOf(fieldOfAddr(fa))] {
						s.pend = refNameOf(fieldOfAddr(fa))
					}
				}
				if fa, ok := recv.(*ssa.FieldAddr); ok {
					n := refNameOf(fieldOfAddr(fa))
					if n == "lenCodec" || n == "repLenCodec" {
						s.lens = append(s.lens, n)
					}
				}
			}
			if refFuncName(cal) == "decodeLiteral" || refFuncName(cal) == "Decode" && strings.Contains(FnName(cal), "literalCodec") {
				s.lens = append(s.lens, "literal")
			}
		case *ssa.MakeInterface:
			// the returned match{n, distance}: record the distance symbol
			if mt := c.Type("lzma", "match"); mt != nil && types.Identical(x.X.Type(), mt) {
				// struct built in an alloc: find the store to field distance
			}
		}
		return true
	}
	w.Branch = func(p *PState, iff *ssa.If, taken bool) {
		s := p.U.(*repSt)
		// decision on the bit decoded last: cond is `b == 0` where b = extract #0 of a prob Decode
		bo, ok := iff.Cond.(*ssa.BinOp)
		if !ok || s.pend == "" {
			return
		}
		if k, isK := constInt(bo.Y); !isK || k != 0 || !isIntegerType(bo.X.Type()) {
			return
		}
		ex, ok := p.Resolve(bo.X).(*ssa.Extract)
		if !ok || ex.Index != 0 {
			return
		}
		zero := (bo.Op == token.EQL) == taken
		bit := "1"
		if zero {
			bit = "0"
		}
		s.bits = append(s.bits, s.pend+"="+bit)
		s.pend = ""
	}
	w.Exit = func(p *PState, ins ssa.Instruction) {
		s := p.U.(*repSt)
		ret, ok := ins.(*ssa.Return)
		if !ok || len(ret.Results) != 2 || !p.IsNil(ret.Results[1]) {
			return
		}
		// distance of the returned match
		dist := "-"
		if mi, ok := p.Resolve(ret.Results[0]).(*ssa.MakeInterface); ok && c.Type("lzma", "match") != nil && types.Identical(mi.X.Type(), c.Type("lzma", "match")) {
			dist = matchDistanceSym(p.Resolve(mi.X), s.sym, p)
		}
		key := strings.Join(s.bits, ",")
		out := repOutcome{rep: s.rep, dist: dist, update: strings.Join(s.upd, "+"), lenC: strings.Join(s.lens, "+")}
		if old, dup := results[key]; dup && old != out {
			errs = append(errs, "two different outcomes for decision path "+key)
		}
		results[key] = out
	}
	w.Run(&repSt{rep: [4]string{"r0", "r1", "r2", "r3"}, sym: map[ssa.Value]string{}})
	if w.Overflow {
		r.Undecided(rule, FnName(fn), c.Pos(fn.Pos()), "path budget exceeded")
		return
	}
	want := map[string]repOutcome{
		"isMatch=0":         {[4]string{"r0", "r1", "r2", "r3"}, "-", "updateStateLiteral", "literal"},
		"isMatch=1,isRep=0": {[4]string{"new", "r0", "r1", "r2"}, "new", "updateStateMatch", "lenCodec"},
		"isMatch=1,isRep=1,isRepG0=0,isRepG0Long=0":       {[4]string{"r0", "r1", "r2", "r3"}, "r0", "updateStateShortRep", ""},
		"isMatch=1,isRep=1,isRepG0=0,isRepG0Long=1":       {[4]string{"r0", "r1", "r2", "r3"}, "r0", "updateStateRep", "repLenCodec"},
		"isMatch=1,isRep=1,isRepG0=1,isRepG1=0":           {[4]string{"r1", "r0", "r2", "r3"}, "r1", "updateStateRep", "repLenCodec"},
		"isMatch=1,isRep=1,isRepG0=1,isRepG1=1,isRepG2=0": {[4]string{"r2", "r0", "r1", "r3"}, "r2", "updateStateRep", "repLenCodec"},
		"isMatch=1,isRep=1,isRepG0=1,isRepG1=1,isRepG2=1": {[4]string{"r3", "r0", "r1", "r2"}, "r3", "updateStateRep", "repLenCodec"},
	}
	var keys []string
	for k := range want {
		keys = append(keys, k)
	}
	sort.Strings(keys)
	for _, k := range keys {
		got, ok := results[k]
		w0 := want[k]
		if !ok {
			r.Fail(rule, "path:"+k, c.Pos(fn.Pos()), "decoder.readOp has no successful path for the decision sequence "+k+" of the LZMA operation tree")
			continue
		}
		if got != w0 {
			r.Fail(rule, "path:"+k, c.Pos(fn.Pos()), fmt.Sprintf("for the decision sequence %s readOp leaves rep=%v, match distance %s, state update %q, length coder %q; the LZMA specification requires rep=%v, distance %s, %q, %q",
				k, got.rep, got.dist, got.update, got.lenC, w0.rep, w0.dist, w0.update, w0.lenC))
			continue
		}
		r.Pass(rule, "path:"+k, c.Pos(fn.Pos()), fmt.Sprintf("rep=%v dist=%s update=%s len=%s", got.rep, got.dist, got.update, got.lenC), 1)
	}
	for k := range results {
		if _, ok := want[k]; !ok {
			r.Fail(rule, "extra-path:"+k, c.Pos(fn.Pos()), "decoder.readOp has a successful path for the decision sequence "+k+", which is not part of the LZMA operation tree")
		}
	}
	for _, e := range errs {
		r.Fail(rule, "ambiguous", c.Pos(fn.Pos()), e)
	}
	r.Floor(rule, 7)
}

type repSt struct {
	rep  [4]string
	sym  map[ssa.Value]string
	bits []string // decision trail
	upd  []string
	lens []string
	pend string // prob model of the most recent bit decode
}

func (s *repSt) Clone() UserState {
	q := &repSt{rep: s.rep, sym: make(map[ssa.Value]string, len(s.sym)), bits: append([]string(nil), s.bits...),
		upd: append([]string(nil), s.upd...), lens: append([]string(nil), s.lens...), pend: s.pend}
	for k, v := range s.sym {
		q.sym[k] = v
	}
	return q
}

// matchDistanceSym: the distance field of a match{...} value, as a symbol.
func matchDistanceSym(v ssa.Value, sym map[ssa.Value]string, p *PState) string {
	// match literal: load of a local alloc whose fields were stored
	u, ok := v.(*ssa.UnOp)
	if !ok {
		return "?"
	}
	al, ok := u.X.(*ssa.Alloc)
	if !ok {
		return "?"
	}
	for _, ref := range *al.Referrers() {
		fa, ok := ref.(*ssa.FieldAddr)
		if !ok || refNameOf(fieldOfAddr(fa)) != "distance" {
			continue
		}
		for _, r2 := range *fa.Referrers() {
			st, ok := r2.(*ssa.Store)
			if !ok {
				continue
			}
			// int64(x) + minDistance
			b, off := affine(st.Val)
			if off != 1 {
				return "?+" + fmt.Sprint(off)
			}
			x := p.Resolve(stripConvNoLook(b))
			if cv, isCv := x.(*ssa.Convert); isCv {
				x = p.Resolve(stripConvNoLook(cv))
			}
			if ph, isPhi := x.(*ssa.Phi); isPhi {
				x = p.Resolve(ph)
			}
			if name, ok := sym[x]; ok {
				return name
			}
			return "?"
		}
	}
	return "?"
}

var _ = constant.MakeInt64

func constantFromUint64(x uint64) constant.Value { return constant.MakeUint64(x) }

// scalarStruct: all fields are numbers or booleans (a record of derived parameters).
func scalarStruct(st *types.Struct) bool {
	for i := 0; i < st.NumFields(); i++ {
		b, ok := st.Field(i).Type().Underlying().(*types.Basic)
		if !ok || b.Info()&(types.IsInteger|types.IsBoolean) == 0 {
			return false
		}
	}
	return st.NumFields() > 0
}

// posMaskPaths: the paths (below the coder state) of the fields that hold 2^pb - 1 after Reset.
func posMaskPaths(c *Ctx) []string {
	stT, prT, reset := c.Type("lzma", "state"), c.Type("lzma", "Properties"), c.Func("lzma", "state.Reset")
	st, ok := stT.Underlying().(*types.Struct)
	if stT == nil || prT == nil || reset == nil || !ok {
		return nil
	}
	run := func(pb int64) *cell {
		in := NewInterp(c)
		in.tolerant = true
		in.MaxSteps = 400000
		cl := in.newCellOf(stT)
		it := types.Typ[types.Int]
		in.storeCell(cl.field(fieldIndex(stT, "Properties")), aval{k: kStruct, typ: prT, flds: map[int]aval{
			fieldIndex(prT, "LC"): aInt(0, it), fieldIndex(prT, "LP"): aInt(0, it), fieldIndex(prT, "PB"): aInt(pb, it)}}, prT)
		in.call(reset, []aval{{k: kPtr, cell: cl}}, 0)
		return cl
	}
	a, b := run(2), run(4)
	var out []string
	var walk func(t *types.Struct, ca, cb *cell, path string, depth int)
	walk = func(t *types.Struct, ca, cb *cell, path string, depth int) {
		for i := 0; i < t.NumFields(); i++ {
			f := t.Field(i)
			p := path + refNameOf(f)
			switch u := f.Type().Underlying().(type) {
			case *types.Basic:
				va, oka := ca.field(i).v.Int()
				vb, okb := cb.field(i).v.Int()
				if oka && okb && va == 3 && vb == 15 {
					out = append(out, p)
				}
			case *types.Struct:
				if depth < 2 && scalarStruct(u) {
					walk(u, ca.field(i), cb.field(i), p+".", depth+1)
				}
			}
		}
	}
	walk(st, a, b, "", 0)
	return out
}

package main

// CE engine (DESIGN §3.2): finite-domain abstract evaluation of pure, table-like functions
// over their SSA. Inputs are bound to concrete constants from a finite domain or to
// order-abstract symbols (known only by their position relative to a finite set of
// thresholds). The evaluator folds with go/constant respecting Go's integer widths,
// follows decided branches, inlines in-module callees, and gives up ("undecided") on
// anything else. It is used only to extract the table a function encodes, which is then
// compared with a table frozen from the format specification.

import (
	"fmt"
	"go/constant"
	"go/token"
	"go/types"
	"hash/crc32"
	"math/bits"
	"os"
	"sort"
	"strings"

	"golang.org/x/tools/go/ssa"
)

type akind int

const (
	kUnknown akind = iota
	kConst
	kNil
	kOrd   // order-abstract integer symbol
	kPtr   // pointer to a cell
	kSlice // slice of cells
	kTuple
	kErr    // some non-nil error (glob: identity if it is a package-level sentinel)
	kStruct // struct value
	kFn     // function value
	kIface  // interface holding a concrete value
	kArray  // array value (tup holds the elements)
	kMap    // map value (m holds the entries; maps are references)
	kSink   // a recording io.Writer supplied by a rule: Write appends to sink and succeeds
)

type aval struct {
	k     akind
	c     constant.Value
	typ   types.Type
	reg   int
	cell  *cell
	arr   []*cell // slice backing (window [lo:hi], capacity up to len(arr)-base)
	lo    int
	hi    int
	tup   []aval
	glob  *ssa.Global
	flds  map[int]aval
	fn    *ssa.Function
	inner *aval
	m     *amap
	sink  *[]int64
}

type cell struct {
	v      aval
	fields map[int]*cell
	elems  []*cell
}

func (c *cell) field(i int) *cell {
	if c.fields == nil {
		c.fields = map[int]*cell{}
	}
	if c.fields[i] == nil {
		c.fields[i] = &cell{}
	}
	return c.fields[i]
}

var aUnknown = aval{}

func aConst(v constant.Value, t types.Type) aval { return aval{k: kConst, c: v, typ: t} }
func aInt(i int64, t types.Type) aval            { return aConst(constant.MakeInt64(i), t) }
func aBool(b bool) aval                          { return aConst(constant.MakeBool(b), types.Typ[types.Bool]) }
func aNil(t types.Type) aval                     { return aval{k: kNil, typ: t} }
func aOrd(reg int, t types.Type) aval            { return aval{k: kOrd, reg: reg, typ: t} }

func (a aval) isInt() bool { return a.k == kConst && a.c != nil && a.c.Kind() == constant.Int }
func (a aval) Int() (int64, bool) {
	if !a.isInt() {
		return 0, false
	}
	if i, ok := constant.Int64Val(a.c); ok {
		return i, true
	}
	if u, ok := constant.Uint64Val(a.c); ok {
		return int64(u), true
	}
	return 0, false
}
func (a aval) Bool() (bool, bool) {
	if a.k == kConst && a.c != nil && a.c.Kind() == constant.Bool {
		return constant.BoolVal(a.c), true
	}
	return false, false
}

func (a aval) String() string {
	switch a.k {
	case kConst:
		return a.c.ExactString()
	case kNil:
		return "nil"
	case kErr:
		if a.glob != nil {
			return "err:" + a.glob.Name()
		}
		return "err!"
	case kOrd:
		return fmt.Sprintf("ord#%d", a.reg)
	case kFn:
		if a.fn != nil {
			return "func:" + a.fn.String()
		}
	case kStruct:
		var ks []int
		for k := range a.flds {
			ks = append(ks, k)
		}
		sort.Ints(ks)
		s := "{"
		for _, k := range ks {
			s += fmt.Sprintf("%d:%s ", k, a.flds[k])
		}
		return s + "}"
	case kPtr:
		return "ptr"
	case kSlice:
		return fmt.Sprintf("slice[%d:%d]", a.lo, a.hi)
	}
	return "?"
}

type Interp struct {
	C          *Ctx
	Thresholds []int64 // for order-abstract symbols (sorted)
	MaxSteps   int
	steps      int
	Undecided  string
	Calls      []string // in-module calls executed (names), for effect checks
	gcells     map[*ssa.Global]*cell
	tolerant   bool // evaluation of a package initialiser: unsupported instructions leave unknown values
}

func NewInterp(c *Ctx) *Interp {
	return &Interp{C: c, MaxSteps: 200000, gcells: map[*ssa.Global]*cell{}}
}

func (in *Interp) fail(msg string) {
	if in.tolerant {
		return
	}
	if in.Undecided == "" {
		in.Undecided = msg
	}
}

// abort records an unsupported construct; in tolerant mode the instruction is skipped instead.
func (in *Interp) abort(msg string) bool {
	if in.tolerant {
		return false
	}
	in.fail(msg)
	return true
}

func (in *Interp) intBits(t types.Type) (bits uint, signed bool, ok bool) {
	b, isB := t.Underlying().(*types.Basic)
	if !isB {
		return 0, false, false
	}
	word := uint(64)
	if in.C.Arch == "386" {
		word = 32
	}
	switch b.Kind() {
	case types.Uint8:
		return 8, false, true
	case types.Uint16:
		return 16, false, true
	case types.Uint32:
		return 32, false, true
	case types.Uint64:
		return 64, false, true
	case types.Uint, types.Uintptr:
		return word, false, true
	case types.Int8:
		return 8, true, true
	case types.Int16:
		return 16, true, true
	case types.Int32:
		return 32, true, true
	case types.Int64:
		return 64, true, true
	case types.Int:
		return word, true, true
	}
	return 0, false, false
}

func (in *Interp) wrap(v constant.Value, t types.Type) constant.Value {
	if v.Kind() != constant.Int {
		return v
	}
	bits, signed, ok := in.intBits(t)
	if !ok {
		return v
	}
	mod := constant.Shift(constant.MakeInt64(1), token.SHL, bits)
	r := constant.BinaryOp(v, token.REM, mod)
	if constant.Sign(r) < 0 {
		r = constant.BinaryOp(r, token.ADD, mod)
	}
	if signed {
		half := constant.Shift(constant.MakeInt64(1), token.SHL, bits-1)
		if constant.Compare(r, token.GEQ, half) {
			r = constant.BinaryOp(r, token.SUB, mod)
		}
	}
	return r
}

type frame struct {
	fn  *ssa.Function
	env map[ssa.Value]aval
}

func (in *Interp) globalCell(g *ssa.Global) *cell {
	if in.gcells[g] == nil {
		if !in.tolerant {
			if ic := in.C.initialCell(g); ic != nil {
				in.gcells[g] = ic
				return ic
			}
			if ic := in.C.initialKeys(g); ic != nil {
				in.gcells[g] = ic
				return ic
			}
		}
		c := &cell{}
		pt := g.Type().(*types.Pointer).Elem()
		if isErrType(pt) {
			c.v = aval{k: kErr, glob: g}
		} else if in.tolerant {
			c = in.newCellOf(pt) // the initialiser starts from zero values
		}
		in.gcells[g] = c
	}
	return in.gcells[g]
}

func (in *Interp) get(fr *frame, v ssa.Value) aval {
	switch x := v.(type) {
	case *ssa.Const:
		if x.Value == nil {
			if isBasic(x.Type()) {
				// zero value of a basic type
				b := x.Type().Underlying().(*types.Basic)
				switch {
				case b.Info()&types.IsBoolean != 0:
					return aBool(false)
				case b.Info()&types.IsString != 0:
					return aConst(constant.MakeString(""), x.Type())
				default:
					return aInt(0, x.Type())
				}
			}
			if st, ok := x.Type().Underlying().(*types.Struct); ok {
				return in.zeroStruct(st, x.Type())
			}
			if _, ok := x.Type().Underlying().(*types.Array); ok {
				if z := in.zeroOf(x.Type()); z.k == kArray {
					return z // the zero value of an array type (an empty composite literal)
				}
			}
			return aNil(x.Type())
		}
		return aConst(x.Value, x.Type())
	case *ssa.Global:
		return aval{k: kPtr, cell: in.globalCell(x), glob: x}
	case *ssa.Function:
		return aval{k: kFn, fn: x}
	}
	if a, ok := fr.env[v]; ok {
		return a
	}
	return aUnknown
}

func (in *Interp) zeroStruct(st *types.Struct, t types.Type) aval {
	a := aval{k: kStruct, typ: t, flds: map[int]aval{}}
	for i := 0; i < st.NumFields(); i++ {
		a.flds[i] = in.zeroOf(st.Field(i).Type())
	}
	return a
}

func (in *Interp) zeroOf(t types.Type) aval {
	switch u := t.Underlying().(type) {
	case *types.Basic:
		switch {
		case u.Info()&types.IsBoolean != 0:
			return aBool(false)
		case u.Info()&types.IsString != 0:
			return aConst(constant.MakeString(""), t)
		case u.Info()&types.IsNumeric != 0:
			return aInt(0, t)
		}
	case *types.Struct:
		return in.zeroStruct(u, t)
	case *types.Array:
		if u.Len() <= 4096 {
			a := aval{k: kArray, typ: t}
			for i := int64(0); i < u.Len(); i++ {
				a.tup = append(a.tup, in.zeroOf(u.Elem()))
			}
			return a
		}
	case *types.Pointer, *types.Slice, *types.Interface, *types.Map, *types.Signature, *types.Chan:
		return aNil(t)
	}
	return aUnknown
}

func (in *Interp) newCellOf(t types.Type) *cell {
	c := &cell{}
	switch u := t.Underlying().(type) {
	case *types.Struct:
		c.fields = map[int]*cell{}
		for i := 0; i < u.NumFields(); i++ {
			c.fields[i] = in.newCellOf(u.Field(i).Type())
		}
	case *types.Array:
		if u.Len() <= 4096 {
			for i := int64(0); i < u.Len(); i++ {
				c.elems = append(c.elems, in.newCellOf(u.Elem()))
			}
		}
	default:
		c.v = in.zeroOf(t)
	}
	return c
}

func (in *Interp) loadCell(c *cell, t types.Type) aval {
	if at, ok := t.Underlying().(*types.Array); ok && c.elems != nil {
		a := aval{k: kArray, typ: t}
		for _, e := range c.elems {
			a.tup = append(a.tup, in.loadCell(e, at.Elem()))
		}
		return a
	}
	if st, ok := t.Underlying().(*types.Struct); ok && c.fields != nil {
		a := aval{k: kStruct, typ: t, flds: map[int]aval{}}
		for i := 0; i < st.NumFields(); i++ {
			a.flds[i] = in.loadCell(c.field(i), st.Field(i).Type())
		}
		return a
	}
	return c.v
}

func (in *Interp) storeCell(c *cell, v aval, t types.Type) {
	if at, ok := t.Underlying().(*types.Array); ok && c.elems != nil {
		for i, e := range c.elems {
			if v.k == kArray && i < len(v.tup) {
				in.storeCell(e, v.tup[i], at.Elem())
			} else {
				in.storeCell(e, aUnknown, at.Elem())
			}
		}
		return
	}
	if st, ok := t.Underlying().(*types.Struct); ok {
		if v.k == kStruct {
			for i := 0; i < st.NumFields(); i++ {
				fv, ok := v.flds[i]
				if !ok {
					fv = in.zeroOf(st.Field(i).Type())
				}
				in.storeCell(c.field(i), fv, st.Field(i).Type())
			}
			return
		}
		// unknown struct value: forget the fields
		c.fields = map[int]*cell{}
		for i := 0; i < st.NumFields(); i++ {
			c.fields[i] = &cell{}
		}
		return
	}
	c.v = v
}

// cmpOrd compares an order-abstract symbol (region index) with threshold k.
func (in *Interp) cmpOrd(reg int, op token.Token, k int64) (bool, bool) {
	idx := sort.Search(len(in.Thresholds), func(i int) bool { return in.Thresholds[i] >= k })
	if idx >= len(in.Thresholds) || in.Thresholds[idx] != k {
		return false, false
	}
	pk := 2*idx + 1
	var r int
	switch {
	case reg < pk:
		r = -1
	case reg > pk:
		r = 1
	}
	switch op {
	case token.LSS:
		return r < 0, true
	case token.LEQ:
		return r <= 0, true
	case token.GTR:
		return r > 0, true
	case token.GEQ:
		return r >= 0, true
	case token.EQL:
		return r == 0, true
	case token.NEQ:
		return r != 0, true
	}
	return false, false
}

func (in *Interp) binop(op token.Token, x, y aval, t types.Type, xt types.Type) aval {
	if x.k == kOrd || y.k == kOrd {
		var reg int
		var k aval
		o := op
		if x.k == kOrd {
			reg, k = x.reg, y
		} else {
			reg, k, o = y.reg, x, flipOp(op)
		}
		kv, ok := k.Int()
		if !ok || !isCmp(o) {
			in.fail("order-abstract value used outside a comparison with a constant")
			return aUnknown
		}
		b, ok := in.cmpOrd(reg, o, kv)
		if !ok {
			in.fail(fmt.Sprintf("order-abstract value compared with non-threshold %d", kv))
			return aUnknown
		}
		return aBool(b)
	}
	isNilish := func(a aval) bool { return a.k == kNil }
	nonNil := func(a aval) bool {
		return a.k == kErr || a.k == kPtr || a.k == kFn || a.k == kIface || a.k == kSlice
	}
	if op == token.EQL || op == token.NEQ {
		var eq, known bool
		switch {
		case isNilish(x) && isNilish(y):
			eq, known = true, true
		case isNilish(x) && nonNil(y), nonNil(x) && isNilish(y):
			eq, known = false, true
		case x.k == kErr && y.k == kErr:
			if x.glob != nil && y.glob != nil {
				eq, known = x.glob == y.glob, true
			} else if (x.glob == nil) != (y.glob == nil) {
				// a fresh error is never identical to a sentinel
				eq, known = false, true
			}
		case x.k == kFn && y.k == kFn:
			eq, known = x.fn == y.fn, true
		case x.k == kStruct && y.k == kStruct:
			eq, known = true, true
			for i, fx := range x.flds {
				fy := y.flds[i]
				r := in.binop(token.EQL, fx, fy, types.Typ[types.Bool], nil)
				b, ok := r.Bool()
				if !ok {
					known = false
					break
				}
				if !b {
					eq = false
				}
			}
		}
		if known {
			if op == token.NEQ {
				eq = !eq
			}
			return aBool(eq)
		}
	}
	if x.k == kConst && y.k == kConst && x.c != nil && y.c != nil {
		switch op {
		case token.EQL, token.NEQ, token.LSS, token.LEQ, token.GTR, token.GEQ:
			return aBool(constant.Compare(x.c, op, y.c))
		case token.LAND, token.LOR:
			return aConst(constant.BinaryOp(x.c, op, y.c), t)
		}
		if x.c.Kind() == constant.Bool {
			return aUnknown
		}
		if x.c.Kind() == constant.String {
			if op == token.ADD {
				return aConst(constant.BinaryOp(x.c, op, y.c), t)
			}
			return aUnknown
		}
		switch op {
		case token.SHL, token.SHR:
			s, _ := constant.Uint64Val(y.c)
			if s > 130 {
				s = 130
			}
			if op == token.SHR {
				// arithmetic on the wrapped operand
				return aConst(in.wrap(constant.Shift(x.c, op, uint(s)), t), t)
			}
			return aConst(in.wrap(constant.Shift(x.c, op, uint(s)), t), t)
		case token.QUO:
			if constant.Sign(y.c) == 0 {
				in.fail("division by zero")
				return aUnknown
			}
			return aConst(in.wrap(constant.BinaryOp(x.c, token.QUO_ASSIGN, y.c), t), t)
		case token.REM:
			if constant.Sign(y.c) == 0 {
				in.fail("division by zero")
				return aUnknown
			}
			return aConst(in.wrap(constant.BinaryOp(x.c, token.REM, y.c), t), t)
		case token.AND_NOT:
			bits, _, ok := in.intBits(t)
			if !ok {
				bits = 64
			}
			mask := constant.BinaryOp(constant.Shift(constant.MakeInt64(1), token.SHL, bits), token.SUB, constant.MakeInt64(1))
			ny := constant.BinaryOp(mask, token.XOR, constant.BinaryOp(in.toUnsigned(y.c, bits), token.AND, mask))
			return aConst(in.wrap(constant.BinaryOp(in.toUnsigned(x.c, bits), token.AND, ny), t), t)
		case token.AND, token.OR, token.XOR:
			bits, _, ok := in.intBits(t)
			if !ok {
				bits = 64
			}
			return aConst(in.wrap(constant.BinaryOp(in.toUnsigned(x.c, bits), op, in.toUnsigned(y.c, bits)), t), t)
		}
		return aConst(in.wrap(constant.BinaryOp(x.c, op, y.c), t), t)
	}
	return aUnknown
}

func (in *Interp) toUnsigned(v constant.Value, bits uint) constant.Value {
	if constant.Sign(v) >= 0 {
		return v
	}
	return constant.BinaryOp(v, token.ADD, constant.Shift(constant.MakeInt64(1), token.SHL, bits))
}

// CEResult of one evaluation.
type CEResult struct {
	Rets     []aval
	Panicked bool
	OK       bool // false: undecided
}

// callInit evaluates a package initialiser (tolerant mode).
func (in *Interp) callInit(f *ssa.Function) {
	in.call(f, nil, 0)
}

// Call evaluates fn on the given arguments (receiver first).
func (in *Interp) Call(fn *ssa.Function, args []aval) CEResult {
	rets, pan, ok := in.call(fn, args, 0)
	return CEResult{Rets: rets, Panicked: pan, OK: ok && in.Undecided == ""}
}

func (in *Interp) call(fn *ssa.Function, args []aval, depth int) (rets []aval, panicked, ok bool) {
	return in.callFV(fn, args, nil, depth)
}

// callFV: call of a closure, fvs are the values bound to its free variables.
func (in *Interp) callFV(fn *ssa.Function, args []aval, fvs []aval, depth int) (rets []aval, panicked, ok bool) {
	if os.Getenv("XZV_DEBUG_CE") == "2" {
		fmt.Fprintf(os.Stderr, "%*sCE call %s %v\n", depth*2, "", fn, args)
	}
	if depth > 8 || fn.Blocks == nil {
		in.fail("call depth exceeded or external function " + fn.String())
		return nil, false, false
	}
	if len(args) != len(fn.Params) {
		in.fail("argument count mismatch for " + fn.String())
		return nil, false, false
	}
	in.Calls = append(in.Calls, FnName(fn))
	fr := &frame{fn: fn, env: map[ssa.Value]aval{}}
	for i, p := range fn.Params {
		fr.env[p] = args[i]
	}
	for i, fv := range fn.FreeVars {
		if i < len(fvs) {
			fr.env[fv] = fvs[i]
		}
	}
	b := fn.Blocks[0]
	var prev *ssa.BasicBlock
	for {
		// φ-nodes read their inputs in parallel
		var phiVals []aval
		var phis []*ssa.Phi
		for _, ins := range b.Instrs {
			ph, isPhi := ins.(*ssa.Phi)
			if !isPhi {
				break
			}
			for i, p := range b.Preds {
				if p == prev {
					phis = append(phis, ph)
					phiVals = append(phiVals, in.get(fr, ph.Edges[i]))
					break
				}
			}
		}
		for i, ph := range phis {
			fr.env[ph] = phiVals[i]
		}
		var next *ssa.BasicBlock
		for _, ins := range b.Instrs {
			in.steps++
			if in.steps > in.MaxSteps {
				in.fail("step limit")
				return nil, false, false
			}
			switch x := ins.(type) {
			case *ssa.Phi, *ssa.DebugRef:
			case *ssa.BinOp:
				fr.env[x] = in.binop(x.Op, in.get(fr, x.X), in.get(fr, x.Y), x.Type(), x.X.Type())
			case *ssa.UnOp:
				v := in.get(fr, x.X)
				switch x.Op {
				case token.MUL:
					if v.k == kPtr && v.cell != nil {
						fr.env[x] = in.loadCell(v.cell, x.Type())
					}
				case token.NOT:
					if bv, ok := v.Bool(); ok {
						fr.env[x] = aBool(!bv)
					}
				case token.SUB:
					if v.isInt() {
						fr.env[x] = aConst(in.wrap(constant.UnaryOp(token.SUB, v.c, 0), x.Type()), x.Type())
					}
				case token.XOR:
					if v.isInt() {
						bits, _, ok := in.intBits(x.Type())
						if !ok {
							bits = 64
						}
						mask := constant.BinaryOp(constant.Shift(constant.MakeInt64(1), token.SHL, bits), token.SUB, constant.MakeInt64(1))
						fr.env[x] = aConst(in.wrap(constant.BinaryOp(in.toUnsigned(v.c, bits), token.XOR, mask), x.Type()), x.Type())
					}
				}
			case *ssa.Convert:
				v := in.get(fr, x.X)
				switch {
				case v.isInt() && isIntegerType(x.Type()):
					fr.env[x] = aConst(in.wrap(v.c, x.Type()), x.Type())
				case v.k == kOrd:
					// widening conversions keep the order; narrowing is not allowed
					fb, _, _ := in.intBits(x.X.Type())
					tb, _, ok := in.intBits(x.Type())
					if ok && tb >= fb {
						fr.env[x] = aOrd(v.reg, x.Type())
					} else {
						in.fail("narrowing conversion of an order-abstract value")
					}
				}
			case *ssa.ChangeType:
				fr.env[x] = in.get(fr, x.X)
			case *ssa.ChangeInterface:
				fr.env[x] = in.get(fr, x.X)
			case *ssa.MakeInterface:
				v := in.get(fr, x.X)
				if isErrType(x.Type()) || types.Implements(x.X.Type(), types.Universe.Lookup("error").Type().Underlying().(*types.Interface)) {
					fr.env[x] = aval{k: kErr}
				} else {
					fr.env[x] = aval{k: kIface, inner: &v, typ: x.X.Type()}
				}
			case *ssa.Alloc:
				fr.env[x] = aval{k: kPtr, cell: in.newCellOf(x.Type().(*types.Pointer).Elem())}
			case *ssa.FieldAddr:
				v := in.get(fr, x.X)
				if v.k == kPtr && v.cell != nil {
					fr.env[x] = aval{k: kPtr, cell: v.cell.field(x.Field)}
				}
			case *ssa.Field:
				v := in.get(fr, x.X)
				if v.k == kStruct {
					fr.env[x] = v.flds[x.Field]
				}
			case *ssa.IndexAddr:
				base := in.get(fr, x.X)
				idx, ok := in.get(fr, x.Index).Int()
				if !ok {
					if in.abort("non-constant index in " + fn.Name()) {
						return nil, false, false
					}
					break
				}
				switch {
				case base.k == kSlice:
					if idx < 0 || int(idx) >= base.hi-base.lo {
						return nil, true, true // index out of range panics
					}
					fr.env[x] = aval{k: kPtr, cell: base.arr[base.lo+int(idx)]}
				case base.k == kPtr && base.cell != nil && base.cell.elems != nil:
					if idx < 0 || int(idx) >= len(base.cell.elems) {
						return nil, true, true
					}
					fr.env[x] = aval{k: kPtr, cell: base.cell.elems[idx]}
				default:
					if in.abort("index into unknown object in " + fn.Name()) {
						return nil, false, false
					}
					break
				}
			case *ssa.Index:
				base := in.get(fr, x.X)
				idx, ok := in.get(fr, x.Index).Int()
				if base.k != kArray || !ok {
					if in.abort("index of an unknown array value in " + fn.Name()) {
						return nil, false, false
					}
					break
				}
				if idx < 0 || int(idx) >= len(base.tup) {
					return nil, true, true
				}
				fr.env[x] = base.tup[idx]
			case *ssa.MakeClosure:
				cl := aval{k: kFn, fn: x.Fn.(*ssa.Function)}
				for _, bnd := range x.Bindings {
					cl.tup = append(cl.tup, in.get(fr, bnd))
				}
				fr.env[x] = cl
			case *ssa.MakeMap:
				fr.env[x] = aval{k: kMap, typ: x.Type(), m: &amap{entries: map[string]aval{}}}
			case *ssa.MapUpdate:
				mv, kv := in.get(fr, x.Map), in.get(fr, x.Key)
				if mv.k != kMap {
					if in.abort("update of an unknown map in " + fn.Name()) {
						return nil, false, false
					}
					break
				}
				if kv.k != kConst || kv.c == nil {
					mv.m.opaque = true
					break
				}
				mv.m.entries[kv.c.ExactString()] = in.get(fr, x.Value)
			case *ssa.Lookup:
				mv, kv := in.get(fr, x.X), in.get(fr, x.Index)
				mt, isMap := x.X.Type().Underlying().(*types.Map)
				if !isMap || (mv.k != kMap && mv.k != kNil) || kv.k != kConst || kv.c == nil || (mv.k == kMap && mv.m.opaque) {
					if in.abort("lookup in an unknown map in " + fn.Name()) {
						return nil, false, false
					}
					break
				}
				val, found := in.zeroOf(mt.Elem()), false
				if mv.k == kMap {
					if e, okE := mv.m.entries[kv.c.ExactString()]; okE {
						val, found = e, true
					}
				}
				if x.CommaOk {
					fr.env[x] = aval{k: kTuple, tup: []aval{val, aBool(found)}}
				} else {
					fr.env[x] = val
				}
			case *ssa.MakeSlice:
				n, ok := in.get(fr, x.Len).Int()
				cp, ok2 := in.get(fr, x.Cap).Int()
				if !ok || !ok2 || n < 0 || cp > 1<<16 {
					if in.abort("make with non-constant or large size in " + fn.Name()) {
						return nil, false, false
					}
					break
				}
				el := x.Type().Underlying().(*types.Slice).Elem()
				arr := make([]*cell, cp)
				for i := range arr {
					arr[i] = in.newCellOf(el)
				}
				fr.env[x] = aval{k: kSlice, arr: arr, lo: 0, hi: int(n), typ: x.Type()}
			case *ssa.Slice:
				base := in.get(fr, x.X)
				var arr []*cell
				off, length, capEnd := 0, 0, 0
				switch {
				case base.k == kSlice:
					arr, off, length, capEnd = base.arr, base.lo, base.hi-base.lo, len(base.arr)
				case base.k == kPtr && base.cell != nil && base.cell.elems != nil:
					arr, off, length, capEnd = base.cell.elems, 0, len(base.cell.elems), len(base.cell.elems)
				default:
					if in.abort("slice of unknown object in " + fn.Name()) {
						return nil, false, false
					}
					break
				}
				lo, hi := 0, length
				if x.Low != nil {
					v, ok := in.get(fr, x.Low).Int()
					if !ok {
						if in.abort("non-constant slice bound") {
							return nil, false, false
						}
						break
					}
					lo = int(v)
				}
				if x.High != nil {
					v, ok := in.get(fr, x.High).Int()
					if !ok {
						if in.abort("non-constant slice bound") {
							return nil, false, false
						}
						break
					}
					hi = int(v)
				}
				if lo < 0 || hi < lo || off+hi > capEnd {
					return nil, true, true
				}
				fr.env[x] = aval{k: kSlice, arr: arr, lo: off + lo, hi: off + hi, typ: x.Type()}
			case *ssa.Store:
				a := in.get(fr, x.Addr)
				if a.k != kPtr || a.cell == nil {
					if in.abort("store through unknown pointer in " + fn.Name()) {
						return nil, false, false
					}
					break
				}
				if a.glob != nil && !in.tolerant {
					in.fail("store to package-level variable " + a.glob.Name())
					return nil, false, false
				}
				if a.glob != nil && isErrType(x.Val.Type()) {
					break // sentinel errors keep their identity
				}
				in.storeCell(a.cell, in.get(fr, x.Val), x.Val.Type())
			case *ssa.Extract:
				t := in.get(fr, x.Tuple)
				if t.k == kTuple && x.Index < len(t.tup) {
					fr.env[x] = t.tup[x.Index]
				}
			case *ssa.Call:
				r, pan, ok := in.doCall(fr, x, depth)
				if !ok {
					if in.tolerant {
						break
					}
					return nil, false, false
				}
				if pan {
					return nil, true, true
				}
				fr.env[x] = r
			case *ssa.If:
				c := in.get(fr, x.Cond)
				bv, ok := c.Bool()
				if !ok {
					if os.Getenv("XZV_DEBUG_CE") != "" {
						fmt.Fprintf(os.Stderr, "CE undecided branch in %s: cond %s = %v\n", fn, x.Cond, c)
						if bo, isB := x.Cond.(*ssa.BinOp); isB {
							fmt.Fprintf(os.Stderr, "   %s = %+v ; %s = %+v\n", bo.X, in.get(fr, bo.X), bo.Y, in.get(fr, bo.Y))
						}
						for i, p := range fn.Params {
							fmt.Fprintf(os.Stderr, "   param %d %s = %+v\n", i, p.Name(), in.get(fr, p))
						}
					}
					in.fail("undecided branch in " + fn.Name() + " at " + in.C.InstrPos(x))
					return nil, false, false
				}
				if bv {
					next = b.Succs[0]
				} else {
					next = b.Succs[1]
				}
			case *ssa.Jump:
				next = b.Succs[0]
			case *ssa.Return:
				for _, r := range x.Results {
					rets = append(rets, in.get(fr, r))
				}
				return rets, false, true
			case *ssa.Panic:
				return nil, true, true
			default:
				// other instructions leave their result unknown
			}
			if next != nil {
				break
			}
		}
		if next == nil {
			in.fail("fell off block in " + fn.Name())
			return nil, false, false
		}
		prev, b = b, next
	}
}

func (in *Interp) doCall(fr *frame, x *ssa.Call, depth int) (res aval, panicked, ok bool) {
	cc := x.Call
	if bi, isB := cc.Value.(*ssa.Builtin); isB {
		switch bi.Name() {
		case "len", "cap":
			a := in.get(fr, cc.Args[0])
			switch {
			case a.k == kSlice:
				if bi.Name() == "len" {
					return aInt(int64(a.hi-a.lo), x.Type()), false, true
				}
				return aInt(int64(len(a.arr)-a.lo), x.Type()), false, true
			case a.k == kNil:
				return aInt(0, x.Type()), false, true
			case a.k == kConst && a.c.Kind() == constant.String:
				return aInt(int64(len(constant.StringVal(a.c))), x.Type()), false, true
			}
			if at, okA := cc.Args[0].Type().Underlying().(*types.Pointer); okA {
				if arr, okB := at.Elem().Underlying().(*types.Array); okB {
					return aInt(arr.Len(), x.Type()), false, true
				}
			}
			return aUnknown, false, true
		case "append":
			if len(cc.Args) != 2 {
				return aUnknown, false, true
			}
			base, add := in.get(fr, cc.Args[0]), in.get(fr, cc.Args[1])
			if (base.k != kSlice && base.k != kNil) || (add.k != kSlice && add.k != kNil) {
				return aUnknown, false, true
			}
			st, isSl := x.Type().Underlying().(*types.Slice)
			if !isSl {
				return aUnknown, false, true
			}
			m := 0
			if add.k == kSlice {
				m = add.hi - add.lo
			}
			if base.k == kSlice && base.hi+m <= len(base.arr) {
				// capacity suffices: the elements are written behind the slice, in place
				for i := 0; i < m; i++ {
					in.storeCell(base.arr[base.hi+i], in.loadCell(add.arr[add.lo+i], st.Elem()), st.Elem())
				}
				return aval{k: kSlice, arr: base.arr, lo: base.lo, hi: base.hi + m, typ: x.Type()}, false, true
			}
			n := 0
			if base.k == kSlice {
				n = base.hi - base.lo
			}
			if n+m > 1<<16 {
				return aUnknown, false, true
			}
			arr := make([]*cell, n+m)
			for i := range arr {
				arr[i] = in.newCellOf(st.Elem())
				if i < n {
					in.storeCell(arr[i], in.loadCell(base.arr[base.lo+i], st.Elem()), st.Elem())
				} else {
					in.storeCell(arr[i], in.loadCell(add.arr[add.lo+i-n], st.Elem()), st.Elem())
				}
			}
			return aval{k: kSlice, arr: arr, lo: 0, hi: n + m, typ: x.Type()}, false, true
		case "copy":
			dst, src := in.get(fr, cc.Args[0]), in.get(fr, cc.Args[1])
			if _, isSl := cc.Args[1].Type().Underlying().(*types.Slice); isSl && (dst.k == kNil || src.k == kNil) && (dst.k == kNil || dst.k == kSlice) && (src.k == kNil || src.k == kSlice) {
				return aInt(0, x.Type()), false, true // a nil slice has no elements to copy to or from
			}
			if dst.k == kSlice && src.k == kSlice {
				n := dst.hi - dst.lo
				if m := src.hi - src.lo; m < n {
					n = m
				}
				// copy has memmove semantics: overlapping source and destination behave as if the
				// source were read completely first
				tmp := make([]aval, n)
				for i := 0; i < n; i++ {
					tmp[i] = src.arr[src.lo+i].v
				}
				for i := 0; i < n; i++ {
					dst.arr[dst.lo+i].v = tmp[i]
				}
				return aInt(int64(n), x.Type()), false, true
			}
			if dst.k == kSlice {
				for i := dst.lo; i < dst.hi; i++ {
					dst.arr[i].v = aUnknown
				}
			}
			return aUnknown, false, true
		}
		return aUnknown, false, true
	}
	if cc.IsInvoke() {
		// the recording writer of a rule: Write(p) stores the bytes and returns (len(p), nil)
		recv := in.get(fr, cc.Value)
		if recv.k == kIface && recv.inner != nil {
			recv = *recv.inner
		}
		if recv.k == kSink && recv.sink != nil && cc.Method.Name() == "Write" && len(cc.Args) == 1 {
			arg := in.get(fr, cc.Args[0])
			var bs []int64
			okB := true
			if arg.k == kSlice {
				bs, okB = sliceBytes(arg)
			} else if arg.k != kNil {
				okB = false
			}
			if !okB {
				in.fail("Write of unknown bytes to the recording writer")
				return aUnknown, false, false
			}
			*recv.sink = append(*recv.sink, bs...)
			return aval{k: kTuple, tup: []aval{aInt(int64(len(bs)), types.Typ[types.Int]), aNil(types.Universe.Lookup("error").Type())}}, false, true
		}
		return aUnknown, false, true
	}
	callee := cc.StaticCallee()
	var bound []aval
	if fv := in.get(fr, cc.Value); fv.k == kFn && fv.fn != nil && len(fv.tup) > 0 {
		callee, bound = fv.fn, fv.tup
	}
	if callee == nil {
		// call of a function value
		fv := in.get(fr, cc.Value)
		if fv.k == kFn && fv.fn != nil {
			callee, bound = fv.fn, fv.tup
		} else {
			return aUnknown, false, true
		}
	}
	if callee.Pkg != nil && callee.Pkg.Pkg.Path() == "hash/crc32" && callee.Name() == "ChecksumIEEE" && len(cc.Args) == 1 {
		// the CRC-32 (IEEE) of a concrete byte string
		bs, okB := sliceBytes(in.get(fr, cc.Args[0]))
		if in.get(fr, cc.Args[0]).k == kNil {
			bs, okB = nil, true
		}
		if !okB {
			return aUnknown, false, true
		}
		raw := make([]byte, len(bs))
		for i, b := range bs {
			raw[i] = byte(b)
		}
		return aInt(int64(crc32.ChecksumIEEE(raw)), x.Type()), false, true
	}
	if callee.Pkg != nil && callee.Pkg.Pkg.Path() == "sort" && callee.Name() == "Search" && len(cc.Args) == 2 {
		// sort.Search(n, f): the binary search of the standard library, f evaluated by the interpreter
		n, okN := in.get(fr, cc.Args[0]).Int()
		f := in.get(fr, cc.Args[1])
		if !okN || f.k != kFn || f.fn == nil || n < 0 || n > 1<<20 {
			return aUnknown, false, true
		}
		i, j := int64(0), n
		for i < j {
			h := int64(uint64(i+j) >> 1)
			r, pan, ok := in.callFV(f.fn, []aval{aInt(h, types.Typ[types.Int])}, f.tup, depth+1)
			if !ok {
				return aUnknown, false, false
			}
			if pan {
				return aUnknown, true, true
			}
			bv, okB := aUnknown.Bool()
			if len(r) == 1 {
				bv, okB = r[0].Bool()
			}
			if !okB {
				in.fail("sort.Search: undecided predicate")
				return aUnknown, false, false
			}
			if !bv {
				i = h + 1
			} else {
				j = h
			}
		}
		return aInt(i, x.Type()), false, true
	}
	if callee.Pkg != nil {
		pp := callee.Pkg.Pkg.Path()
		if (pp == "errors" && callee.Name() == "New") || (pp == "fmt" && callee.Name() == "Errorf") {
			return aval{k: kErr}, false, true
		}
	}
	if callee.Pkg != nil && callee.Pkg.Pkg.Path() == "math/bits" && len(cc.Args) == 1 {
		// bit counting of the standard library on a concrete value
		if v, okV := in.get(fr, cc.Args[0]).Int(); okV {
			w := uint(64)
			switch {
			case strings.HasSuffix(callee.Name(), "8"):
				w = 8
			case strings.HasSuffix(callee.Name(), "16"):
				w = 16
			case strings.HasSuffix(callee.Name(), "32"):
				w = 32
			case strings.HasSuffix(callee.Name(), "64"):
				w = 64
			default:
				if b, _, okW := in.intBits(cc.Args[0].Type()); okW {
					w = b
				}
			}
			u := uint64(v)
			if w < 64 {
				u &= 1<<w - 1
			}
			switch strings.TrimRight(callee.Name(), "0123456789") {
			case "Len":
				return aInt(int64(bits.Len64(u)), x.Type()), false, true
			case "LeadingZeros":
				return aInt(int64(w)-int64(bits.Len64(u)), x.Type()), false, true
			case "TrailingZeros":
				if u == 0 {
					return aInt(int64(w), x.Type()), false, true
				}
				return aInt(int64(bits.TrailingZeros64(u)), x.Type()), false, true
			case "OnesCount":
				return aInt(int64(bits.OnesCount64(u)), x.Type()), false, true
			}
		}
		return aUnknown, false, true
	}
	if !in.C.InModule(callee) || callee.Blocks == nil {
		return aUnknown, false, true
	}
	var as []aval
	for _, a := range cc.Args {
		as = append(as, in.get(fr, a))
	}
	r, pan, ok := in.callFV(callee, as, bound, depth+1)
	if !ok {
		return aUnknown, false, false
	}
	if pan {
		return aUnknown, true, true
	}
	switch len(r) {
	case 0:
		return aUnknown, false, true
	case 1:
		return r[0], false, true
	}
	return aval{k: kTuple, tup: r}, false, true
}

// ---- helpers for rule code ----

// ptrTo makes a pointer to a fresh cell holding v.
func ptrTo(v aval) (aval, *cell) {
	c := &cell{v: v}
	return aval{k: kPtr, cell: c}, c
}

// isNilErr / isErr classify an error-typed result.
func isNilErr(a aval) bool  { return a.k == kNil }
func isSomeErr(a aval) bool { return a.k == kErr }

// byteSlice builds a slice value over fresh cells holding the given bytes.
func byteSlice(bs []byte) aval {
	arr := make([]*cell, len(bs))
	for i, b := range bs {
		arr[i] = &cell{v: aInt(int64(b), types.Typ[types.Uint8])}
	}
	return aval{k: kSlice, arr: arr, lo: 0, hi: len(bs)}
}

func sliceBytes(a aval) ([]int64, bool) {
	if a.k != kSlice {
		return nil, false
	}
	var out []int64
	for i := a.lo; i < a.hi; i++ {
		v, ok := a.arr[i].v.Int()
		if !ok {
			return nil, false
		}
		out = append(out, v)
	}
	return out, true
}

func fieldIndex(t types.Type, name string) int {
	st, ok := t.Underlying().(*types.Struct)
	if !ok {
		return -1
	}
	for i := 0; i < st.NumFields(); i++ {
		if refNameOf(st.Field(i)) == name {
			return i
		}
	}
	return -1
}

package main

// OB engine (DESIGN §3.4): guard obligations. An obligation names a scope function, two
// operand roles (predicates over SSA values), the exact bad relation, and the
// consequence: on the edge where the bad relation holds every path returns a non-nil
// error (or panics) — it never reaches a clean return.

import (
	"fmt"
	"go/constant"
	"go/token"
	"go/types"
	"math/big"
	"os"
	"strings"

	"golang.org/x/tools/go/ssa"
)

type role func(v ssa.Value) bool

// guard is a normalised branch condition.
type guard struct {
	iff  *ssa.If
	x, y ssa.Value   // for comparisons
	op   token.Token // for comparisons (as written, after removing NOT)
	call *ssa.Call   // for boolean call conditions
	neg  bool        // call condition under NOT
	// only: a comparison taken out of a new boolean helper used as the condition. 1: a disjunct
	// (a || b): it implies the true edge only; 2: a conjunct (a && b): its negation implies the
	// false edge only.
	only int8
	// site: the condition sits in a new helper that the function under analysis calls at several
	// places; the guard is taken once per call, with the helper's parameters standing for the
	// arguments of that call.
	site *ssa.Call
	// badTrue: set by rel when the guard is matched: the failing edge is the true edge.
	badTrue bool
	// bindSite: the comparison was taken out of a boolean helper called in the condition; its operands
	// are the helper's values and stand for the arguments of this call.
	bindSite *ssa.Call
}

// passedOn: the path went through the guard (during the call g.site, if any) and left it on the
// edge that is not the failing one.
func (g *guard) passedOn(sp *SeqPath) bool {
	taken, known := sp.Took(g.iff, g.site)
	return known && taken != g.badTrue
}

// refutedOn: the relation `A bad B` is excluded on the path by a comparison of the same operands
// it went through (during the call `site`, if the comparison sits in a helper called several times).
func (o *obCtx) refutedOn(sp *SeqPath, a, b role, bad token.Token, site *ssa.Call) bool {
	for i := range o.gs {
		h := &o.gs[i]
		// site == nil: a comparison made during any call of the helper counts
		if h.call != nil || (site != nil && h.site != site) {
			continue
		}
		if h.site != nil {
			o.c.bindParam = nil
			o.c.bindCall(h.site.Call.StaticCallee(), h.site)
		} else if h.bindSite != nil {
			o.c.bindParam = nil
			o.c.bindCall(h.bindSite.Call.StaticCallee(), h.bindSite)
		}
		op := h.op
		switch {
		case a(h.x) && b(h.y):
		case a(h.y) && b(h.x):
			op = flipOp(op)
		default:
			continue
		}
		taken, known := sp.Took(h.iff, h.site)
		if !known {
			continue
		}
		// a conjunct taken out of `ctx && cmp` is known only on the true edge, a disjunct only on the false edge
		if ((h.only == 2 && !taken) || (h.only == 1 && taken)) && !sp.TookExact(h.iff, h.site) {
			continue
		}
		if !taken {
			op = negateOp(op)
		}
		switch bad {
		case token.LSS:
			if op == token.EQL || op == token.GTR || op == token.GEQ {
				return true
			}
		case token.GTR:
			if op == token.EQL || op == token.LSS || op == token.LEQ {
				return true
			}
		}
	}
	return false
}

func guardsOf(fn *ssa.Function) []guard { return guardsOfX(fn, false) }

func guardsOfX(fn *ssa.Function, derived bool) []guard {
	// whoever asks for the guards of fn looks at shared helpers through fn's calls
	theCtx.curRoot, theCtx.bindParam = fn, nil
	raw := guardsOfRaw(fn, derived)
	if os.Getenv("XZV_DEBUG_GUARDS") == fn.Name() {
		for _, b := range theCtx.GB(fn) {
			fmt.Fprintf(os.Stderr, "GB %s.%d last=%T\n", b.Parent().Name(), b.Index, b.Instrs[len(b.Instrs)-1])
		}
		for _, g := range raw {
			fmt.Fprintf(os.Stderr, "RAW %s.%d call=%v\n", g.iff.Block().Parent().Name(), g.iff.Block().Index, g.call != nil)
		}
	}
	var gs []guard
	for _, g := range raw {
		h := g.iff.Block().Parent()
		if h != fn && theCtx.IsNew(h) {
			if sites := groupSites(fn, h); len(sites) > 1 {
				for _, s := range sites {
					gc := g
					gc.site = s
					gs = append(gs, gc)
				}
				continue
			}
		}
		gs = append(gs, g)
	}
	return gs
}

// groupSites: the calls of helper h made by fn or by the new helpers fn uses.
func groupSites(fn, h *ssa.Function) []*ssa.Call {
	inRoot := map[*ssa.Function]bool{}
	for _, g := range theCtx.Group(fn) {
		inRoot[g] = true
	}
	var out []*ssa.Call
	for _, s := range theCtx.callSites(h) {
		if call, ok := s.(*ssa.Call); ok && inRoot[s.Parent()] {
			out = append(out, call)
		}
	}
	return out
}

func guardsOfRaw(fn *ssa.Function, derived bool) []guard {
	var gs []guard
	for _, b := range theCtx.GB(fn) {
		if len(b.Instrs) == 0 {
			continue
		}
		iff, ok := b.Instrs[len(b.Instrs)-1].(*ssa.If)
		if !ok {
			continue
		}
		cond := iff.Cond
		neg := false
		for {
			u, ok := cond.(*ssa.UnOp)
			if !ok || u.Op != token.NOT {
				break
			}
			neg = !neg
			cond = u.X
		}
		// `a && cmp` / `a || cmp` evaluated as a value (switch cases, assigned conditions): a phi of
		// boolean constants and one comparison. The comparison is a conjunct (all other edges false)
		// or a disjunct (all other edges true) of the condition.
		if ph, isPhi := cond.(*ssa.Phi); isPhi && derived {
			var cmp *ssa.BinOp
			var pcall *ssa.Call
			nT, nF, other := 0, 0, 0
			for _, e := range ph.Edges {
				if bv, isB := constBool(e); isB {
					if bv {
						nT++
					} else {
						nF++
					}
				} else if bo, isBo := e.(*ssa.BinOp); isBo && isCmp(bo.Op) && cmp == nil && pcall == nil {
					cmp = bo
				} else if cl, isCl := e.(*ssa.Call); isCl && cmp == nil && pcall == nil && cl.Call.StaticCallee() != nil && theCtx.IsNew(cl.Call.StaticCallee()) {
					pcall = cl
				} else {
					other++
				}
			}
			if pcall != nil && other == 0 && (nT == 0) != (nF == 0) {
				// `ctx || helper(..)` / `ctx && helper(..)`: the helper's comparisons, if it combines them the same way
				ds, conj := predicateParts(pcall.Call.StaticCallee())
				if len(ds) == 1 || conj == (nF > 0) {
					for _, d := range ds {
						g := guard{iff: iff, x: d.X, y: d.Y, op: d.Op, only: 1, bindSite: pcall}
						if nF > 0 {
							g.only = 2
						}
						if neg {
							g.op = negateOp(g.op)
							g.only = 3 - g.only
						}
						gs = append(gs, g)
					}
				}
			}
			if cmp != nil && other == 0 && (nT == 0) != (nF == 0) {
				g := guard{iff: iff, x: cmp.X, y: cmp.Y, op: cmp.Op, only: 1}
				if nF > 0 {
					g.only = 2
				}
				if neg {
					// !(ctx && cmp) = !ctx || !cmp: the negated comparison is a disjunct; !(ctx || cmp): a conjunct
					g.op = negateOp(g.op)
					g.only = 3 - g.only
				}
				gs = append(gs, g)
			}
		}
		switch x := cond.(type) {
		case *ssa.BinOp:
			if isCmp(x.Op) {
				op := x.Op
				if neg {
					op = negateOp(op)
				}
				gs = append(gs, guard{iff: iff, x: x.X, y: x.Y, op: op})
				// `x >> 63 != 0` on an unsigned 64-bit value is `x >= 2^63` (and the sign test)
				if sh, isSh := stripConv(x.X).(*ssa.BinOp); isSh && sh.Op == token.SHR && (op == token.NEQ || op == token.EQL) {
					if k, isK := constInt(sh.Y); isK && k == 63 {
						if z, isZ := constInt(x.Y); isZ && z == 0 {
							if bt, isB := sh.X.Type().Underlying().(*types.Basic); isB && bt.Kind() == types.Uint64 {
								big, _ := new(big.Int).SetString("9223372036854775808", 10)
								two63 := ssa.NewConst(constant.Make(big), types.Typ[types.Uint64])
								zero := ssa.NewConst(constant.MakeInt64(0), types.Typ[types.Int64])
								if op == token.NEQ {
									gs = append(gs, guard{iff: iff, x: sh.X, y: two63, op: token.GEQ}, guard{iff: iff, x: sh.X, y: zero, op: token.LSS})
								} else {
									gs = append(gs, guard{iff: iff, x: sh.X, y: two63, op: token.LSS}, guard{iff: iff, x: sh.X, y: zero, op: token.GEQ})
								}
							}
						}
					}
				}
				// `int64(u) < 0` for an unsigned 64-bit u is `u >= 2^63`
				if cv, isCv := x.X.(*ssa.Convert); isCv && (op == token.LSS || op == token.GEQ) {
					if z, isZ := constInt(x.Y); isZ && z == 0 {
						fb, ok1 := cv.X.Type().Underlying().(*types.Basic)
						tb, ok2 := cv.Type().Underlying().(*types.Basic)
						if ok1 && ok2 && fb.Kind() == types.Uint64 && tb.Kind() == types.Int64 {
							b63, _ := new(big.Int).SetString("9223372036854775808", 10)
							two63 := ssa.NewConst(constant.Make(b63), types.Typ[types.Uint64])
							if op == token.LSS {
								gs = append(gs, guard{iff: iff, x: cv.X, y: two63, op: token.GEQ})
							} else {
								gs = append(gs, guard{iff: iff, x: cv.X, y: two63, op: token.LSS})
							}
						}
					}
				}
				// integer comparisons with a constant have two spellings (x > k  <=>  x >= k+1):
				// add the other one so that either matches an obligation
				// `x >= 2^63` on an unsigned 64-bit value is the sign test `int64(x) < 0`
				if cv, isC := x.Y.(*ssa.Const); isC && cv.Value != nil && cv.Value.Kind() == constant.Int && cv.Value.ExactString() == "9223372036854775808" {
					zero := ssa.NewConst(constant.MakeInt64(0), types.Typ[types.Int64])
					switch op {
					case token.GEQ:
						gs = append(gs, guard{iff: iff, x: x.X, y: zero, op: token.LSS})
					case token.LSS:
						gs = append(gs, guard{iff: iff, x: x.X, y: zero, op: token.GEQ})
					}
				}
				if cv, isC := x.Y.(*ssa.Const); isC && cv.Value != nil && cv.Value.Kind() == constant.Int && isIntegerType(x.X.Type()) {
					one := constant.MakeInt64(1)
					plus := ssa.NewConst(constant.BinaryOp(cv.Value, token.ADD, one), cv.Type())
					minus := ssa.NewConst(constant.BinaryOp(cv.Value, token.SUB, one), cv.Type())
					switch op {
					case token.GTR:
						gs = append(gs, guard{iff: iff, x: x.X, y: plus, op: token.GEQ})
					case token.GEQ:
						gs = append(gs, guard{iff: iff, x: x.X, y: minus, op: token.GTR})
					case token.LSS:
						gs = append(gs, guard{iff: iff, x: x.X, y: minus, op: token.LEQ})
					case token.LEQ:
						gs = append(gs, guard{iff: iff, x: x.X, y: plus, op: token.LSS})
					}
				}
			}
		case *ssa.Call:
			gs = append(gs, guard{iff: iff, call: x, neg: neg})
			// a new boolean helper used as the condition: `return a < u || b < c` - on the true edge one
			// of the comparisons held; `return 1 <= d && d <= max` - on the false edge one of them failed.
			// Operands are looked through to the arguments of the call. Only for obligations (rel).
			if hp := x.Call.StaticCallee(); derived && hp != nil && theCtx.IsNew(hp) {
				ds, conj := predicateParts(hp)
				for _, d := range ds {
					g := guard{iff: iff, x: d.X, y: d.Y, op: d.Op, only: 1, bindSite: x}
					if conj {
						g.only = 2
					}
					if len(ds) == 1 {
						g.only = 0 // the helper is this one comparison: both edges tell
					}
					if neg {
						// !(a && b) = !a || !b, !(a || b) = !a && !b
						g.op = negateOp(g.op)
						if g.only != 0 {
							g.only = 3 - g.only
						}
					}
					gs = append(gs, g)
				}
			}
		}
	}
	return gs
}

// consequence: from the given successor of iff, every path must end in a non-nil error
// return or a panic. Returns ok and, if not, the trace of an offending path.
func consequence(c *Ctx, fn *ssa.Function, iff *ssa.If, edgeTrue bool) (ok bool, why string, trace []string) {
	b := iff.Block()
	succ := b.Succs[1]
	if edgeTrue {
		succ = b.Succs[0]
	}
	ok = true
	w := &Walker{C: c, Fn: fn, MaxSteps: 100000}
	w.Exit = func(p *PState, ins ssa.Instruction) {
		if !ok {
			return
		}
		if _, isPanic := ins.(*ssa.Panic); isPanic {
			return
		}
		ret := ins.(*ssa.Return)
		hasErr := false
		for _, rv := range ret.Results {
			if isErrType(rv.Type()) {
				hasErr = true
				if !p.NonNil(rv) {
					ok = false
					why = "a path from the failing edge reaches a return whose error is not provably non-nil"
					trace = append(w.TraceStrings(p), "return at "+c.InstrPos(ins))
				}
			}
		}
		if !hasErr {
			// bool-returning validators: the result must be the constant false
			good := false
			for _, rv := range ret.Results {
				if bv, isB := constBool(p.Resolve(rv)); isB && !bv {
					good = true
				}
			}
			if !good {
				ok = false
				why = "a path from the failing edge returns without signalling failure"
				trace = append(w.TraceStrings(p), "return at "+c.InstrPos(ins))
			}
		}
	}
	w.Revisit = func(p *PState, b *ssa.BasicBlock) {}
	w.Sig = func(p *PState) string { return "" }
	w.RunFrom(succ, b, nil)
	if w.Overflow {
		return false, "path budget exceeded", nil
	}
	if w.Paths == 0 {
		// the edge leads only into loops that were cut: treat as not established
		return false, "no exit reachable from the failing edge within the loop bound", nil
	}
	return ok, why, trace
}

// consequenceAt: the guard sits in a helper called at several places; the paths of the whole
// function that take the given edge during the call `site` must all end in a non-nil error or a panic.
type edgeMark struct{ hit bool }

func (m *edgeMark) Clone() UserState { c := *m; return &c }

func consequenceAt(c *Ctx, fn *ssa.Function, iff *ssa.If, edgeTrue bool, site *ssa.Call) (ok bool, why string, trace []string) {
	ok = true
	n := 0
	w := &Walker{C: c, Fn: fn, MaxSteps: 400000}
	w.Branch = func(p *PState, x *ssa.If, taken bool) {
		if x == iff && taken == edgeTrue && len(p.stack) > 0 && p.stack[len(p.stack)-1].call == site {
			p.U.(*edgeMark).hit = true
		}
	}
	w.Exit = func(p *PState, ins ssa.Instruction) {
		if !ok || !p.U.(*edgeMark).hit {
			return
		}
		n++
		if _, isPanic := ins.(*ssa.Panic); isPanic {
			return
		}
		ret := ins.(*ssa.Return)
		hasErr := false
		for _, rv := range ret.Results {
			if isErrType(rv.Type()) {
				hasErr = true
				if !p.NonNil(rv) {
					ok = false
					why = "a path through the failing edge reaches a return whose error is not provably non-nil"
					trace = append(w.TraceStrings(p), "return at "+c.InstrPos(ins))
				}
			}
		}
		if !hasErr {
			ok = false
			why = "a path through the failing edge returns without an error result"
		}
	}
	w.Revisit = func(p *PState, b *ssa.BasicBlock) {}
	w.Run(&edgeMark{})
	if w.Overflow {
		return false, "path budget exceeded", nil
	}
	if n == 0 {
		return false, "no path of " + FnName(fn) + " takes the failing edge during the call at " + c.InstrPos(site), nil
	}
	return ok, why, trace
}

type obCtx struct {
	// inContext: the obligation holds in a context the caller establishes separately (end of the
	// block reached); a conjunct `context && A < B` then counts on the true edge
	inContext bool
	c         *Ctx
	r         *Report
	rule      string
	fn        *ssa.Function
	gs        []guard
}

func newOb(c *Ctx, r *Report, rule string, fn *ssa.Function) *obCtx {
	c.curRoot = fn
	c.bindParam = nil // bindings of an earlier analysis context do not apply here
	if fn == nil {
		return nil
	}
	return &obCtx{c: c, r: r, rule: rule, fn: fn, gs: guardsOfX(fn, true)}
}

func (o *obCtx) key(id string) string { return id + ":" + FnName(o.fn) }

// rel: there must be a guard comparing A with B such that on the edge where `A badOp B`
// holds the function fails. Returns the matched guard.
func (o *obCtx) rel(id string, a, b role, badOp token.Token, desc string) *guard {
	if o == nil {
		return nil
	}
	var weak []string
	for i := range o.gs {
		g := &o.gs[i]
		if g.call != nil {
			continue
		}
		op := g.op
		if g.site != nil {
			o.c.bindParam = nil
			o.c.bindCall(g.site.Call.StaticCallee(), g.site)
		} else if g.bindSite != nil {
			o.c.bindParam = nil
			o.c.bindCall(g.bindSite.Call.StaticCallee(), g.bindSite)
		}
		if os.Getenv("XZV_DEBUG_OB") == id {
			fmt.Fprintf(os.Stderr, "OB %s guard %s %s %s at %s site=%v: a(x)=%v b(y)=%v a(y)=%v b(x)=%v only=%d\n", id, g.x.Name(), g.op, g.y.Name(), o.c.InstrPos(g.iff), g.site != nil, a(g.x), b(g.y), a(g.y), b(g.x), g.only)
		}
		switch {
		case a(g.x) && b(g.y):
		case a(g.y) && b(g.x):
			op = flipOp(op)
		default:
			continue
		}
		var edgeTrue bool
		switch op {
		case badOp:
			edgeTrue = true
		case negateOp(badOp):
			edgeTrue = false
		default:
			weak = append(weak, fmt.Sprintf("%s at %s", op, o.c.InstrPos(g.iff)))
			continue
		}
		if (g.only == 1 && !edgeTrue) || (g.only == 2 && edgeTrue && !o.inContext) {
			continue // a part of a helper's condition says nothing about this edge
		}
		// g.op already accounts for a NOT around the condition: "raw condition true" <=> x g.op y
		var ok bool
		var why string
		var trace []string
		if g.site != nil {
			ok, why, trace = consequenceAt(o.c, o.fn, g.iff, edgeTrue, g.site)
		} else {
			ok, why, trace = consequence(o.c, o.fn, g.iff, edgeTrue)
		}
		g.badTrue = edgeTrue
		if !ok {
			o.r.Fail(o.rule, o.key(id), o.c.InstrPos(g.iff), desc+": the check is present but "+why, trace...)
			return g
		}
		o.r.Pass(o.rule, o.key(id), o.c.InstrPos(g.iff), desc+" => error on every path from the failing edge", 1)
		return g
	}
	msg := desc + ": no such check found in " + FnName(o.fn)
	if len(weak) > 0 {
		msg = desc + ": the operands are compared, but with a different relation (" + strings.Join(weak, ", ") + "); required: fail exactly when `A " + badOp.String() + " B`"
	}
	o.r.Fail(o.rule, o.key(id), o.c.Pos(o.fn.Pos()), msg)
	return nil
}

func condNegated(iff *ssa.If) bool {
	neg := false
	cond := iff.Cond
	for {
		u, ok := cond.(*ssa.UnOp)
		if !ok || u.Op != token.NOT {
			return neg
		}
		neg = !neg
		cond = u.X
	}
}

// boolCall: there must be a guard whose condition is a call matching pred; the function
// fails on the edge where the call yields badWhen.
func (o *obCtx) boolCall(id string, pred func(call *ssa.Call) bool, badWhen bool, desc string) *guard {
	if o == nil {
		return nil
	}
	for i := range o.gs {
		g := &o.gs[i]
		if g.call == nil || !pred(g.call) {
			continue
		}
		// raw condition value = call result XOR neg; the If's true edge is taken when raw cond is true
		rawTrue := badWhen != g.neg
		ok, why, trace := consequence(o.c, o.fn, g.iff, rawTrue)
		if !ok {
			o.r.Fail(o.rule, o.key(id), o.c.InstrPos(g.iff), desc+": the check is present but "+why, trace...)
			return g
		}
		o.r.Pass(o.rule, o.key(id), o.c.InstrPos(g.iff), desc+" => error on every path from the failing edge", 1)
		return g
	}
	o.r.Fail(o.rule, o.key(id), o.c.Pos(o.fn.Pos()), desc+": no such check found in "+FnName(o.fn))
	return nil
}

// mustCheck: on every path of fn to a nil-error (or `true`) return, callee has been
// called and its error result is nil on that path.
func (o *obCtx) mustCheck(id string, isCallee func(call *ssa.Call) bool, desc string) {
	o.mustCheckX(id, isCallee, desc, false)
}

// mustCheckX with optional: the call may be absent from a successful path (it is made under a
// condition the caller verifies separately); where it is made its error must be nil on success.
func (o *obCtx) mustCheckX(id string, isCallee func(call *ssa.Call) bool, desc string, optional bool) {
	if o == nil {
		return
	}
	var calls []*ssa.Call
	spec := SeqSpec{Fn: o.fn, NoMerge: false, InlinedCalls: true}
	spec.Event = func(w *Walker, p *PState, ins ssa.Instruction) string {
		if call, ok := ins.(*ssa.Call); ok && isCallee(call) {
			found := false
			for _, c2 := range calls {
				if c2 == call {
					found = true
				}
			}
			if !found {
				calls = append(calls, call)
			}
			return "check"
		}
		return ""
	}
	paths, over := CollectPaths(o.c, spec)
	if over {
		o.r.Undecided(o.rule, o.key(id), o.c.Pos(o.fn.Pos()), "path budget exceeded")
		return
	}
	nOK := 0
	for _, sp := range paths {
		if sp.Panic {
			continue
		}
		clean := false
		if sp.ErrVal != nil {
			clean = !sp.ErrNonNil
		} else {
			// no error result: a `true` result counts as success
			for _, rv := range sp.Rets {
				if bv, isB := constBool(rv); isB && bv {
					clean = true
				} else if !isB && isBoolType(rv.Type()) {
					clean = true
				}
			}
		}
		if !clean {
			continue
		}
		nOK++
		if !sp.Has("check") && optional {
			continue
		}
		if !sp.Has("check") {
			o.r.Fail(o.rule, o.key(id), o.c.Pos(o.fn.Pos()), desc+": a path returns success without performing the check", sp.Trace...)
			return
		}
		// the last check call's error must be nil on this path
		var last *ssa.Call
		for _, e := range sp.Events {
			if e.Label == "check" {
				last = e.Ins.(*ssa.Call)
			}
		}
		ev := errValueOfCall(last)
		if ev != nil && !sp.P.IsNil(ev) {
			o.r.Fail(o.rule, o.key(id), o.c.InstrPos(last), desc+": a path returns success although the check's error may be non-nil", sp.Trace...)
			return
		}
	}
	if nOK == 0 {
		o.r.Undecided(o.rule, o.key(id), o.c.Pos(o.fn.Pos()), desc+": no successful path found")
		return
	}
	pos := o.c.Pos(o.fn.Pos())
	if len(calls) > 0 {
		pos = o.c.InstrPos(calls[0])
	}
	o.r.Pass(o.rule, o.key(id), pos, desc+" on every successful path", len(paths))
}

func isBoolType(t types.Type) bool {
	b, ok := t.Underlying().(*types.Basic)
	return ok && b.Info()&types.IsBoolean != 0
}

// errValueOfCall returns the SSA value carrying the call's error result.
func errValueOfCall(call *ssa.Call) ssa.Value {
	if call == nil {
		return nil
	}
	if isErrType(call.Type()) {
		return call
	}
	if tup, ok := call.Type().(*types.Tuple); ok && call.Referrers() != nil {
		for _, ref := range *call.Referrers() {
			if ex, ok := ref.(*ssa.Extract); ok && isErrType(tup.At(ex.Index).Type()) {
				return ex
			}
		}
	}
	return nil
}

// ---- role helpers ----

func roleConst(k int64) role {
	return func(v ssa.Value) bool {
		kv, ok := constInt(stripConv(v))
		return ok && kv == k
	}
}

func roleNil() role { return func(v ssa.Value) bool { return isNilConst(v) } }

func roleAny() role { return func(v ssa.Value) bool { return true } }

func roleLenOf(inner role) role {
	return func(v ssa.Value) bool {
		call, ok := stripConv(v).(*ssa.Call)
		if !ok {
			return false
		}
		b, ok := call.Call.Value.(*ssa.Builtin)
		return ok && b.Name() == "len" && inner(call.Call.Args[0])
	}
}

func roleParam(fn *ssa.Function, name string) role {
	return func(v ssa.Value) bool {
		p, ok := stripConv(v).(*ssa.Parameter)
		return ok && p.Parent() == fn && isRefParam(p, name)
	}
}

func roleFieldLoad(f *types.Var) role {
	return func(v ssa.Value) bool { return f != nil && isFieldLoadOf(v, f) }
}

func roleCallTo(fn *ssa.Function, args ...role) role {
	return func(v ssa.Value) bool {
		call, ok := stripConv(v).(*ssa.Call)
		if !ok || fn == nil || call.Call.StaticCallee() != fn {
			return false
		}
		for i, a := range args {
			if a != nil && (i >= len(call.Call.Args) || !a(call.Call.Args[i])) {
				return false
			}
		}
		return true
	}
}

// roleExtract: the idx-th result of a call matching inner.
func roleExtract(inner role, idx int) role {
	return func(v ssa.Value) bool {
		// the result of the named call itself (also when the callee is a new function that
		// stripConv would look through)
		if ex, ok := stripConvNoLook(v).(*ssa.Extract); ok && ex.Index == idx && inner(ex.Tuple) {
			return true
		}
		ex, ok := stripConv(v).(*ssa.Extract)
		return ok && ex.Index == idx && inner(ex.Tuple)
	}
}

func roleGlobalLoad(g *ssa.Global) role {
	return func(v ssa.Value) bool {
		u, ok := stripConv(v).(*ssa.UnOp)
		return ok && g != nil && u.Op == token.MUL && u.X == g
	}
}

// byteRef describes an element or sub-slice of a byte slice parameter with constant
// offsets: root[lo:hi] (hi < 0: open) or root[lo] when elem.
type byteRef struct {
	root   ssa.Value
	lo, hi int64
	elem   bool
	symLo  ssa.Value // non-constant low bound (lo == -1)
	symHi  ssa.Value // non-constant high bound
}

func sliceRefOf(v ssa.Value) (byteRef, bool) {
	v = stripConv(v)
	switch x := v.(type) {
	case *ssa.Parameter:
		return byteRef{root: x, lo: 0, hi: -1}, true
	case *ssa.Slice:
		base, ok := sliceRefOf(x.X)
		if !ok {
			// slicing something else (e.g. a make result): root is that value
			base = byteRef{root: x.X, lo: 0, hi: -1}
		}
		r := base
		if x.Low != nil {
			if k, isK := constInt(x.Low); isK && base.lo >= 0 {
				r.lo = base.lo + k
			} else {
				r.lo = -1
				r.symLo = x.Low
			}
		}
		if x.High != nil {
			if k, isK := constInt(x.High); isK && base.lo >= 0 {
				r.hi = base.lo + k
			} else {
				r.hi = -2
				r.symHi = x.High
			}
		}
		return r, true
	}
	return byteRef{root: v, lo: 0, hi: -1}, true
}

func elemRefOf(v ssa.Value) (byteRef, bool) {
	u, ok := stripConv(v).(*ssa.UnOp)
	if !ok || u.Op != token.MUL {
		return byteRef{}, false
	}
	ia, ok := u.X.(*ssa.IndexAddr)
	if !ok {
		return byteRef{}, false
	}
	k, isK := constInt(ia.Index)
	if !isK {
		return byteRef{}, false
	}
	base, ok := sliceRefOf(ia.X)
	if !ok || base.lo < 0 {
		return byteRef{}, false
	}
	return byteRef{root: base.root, lo: base.lo + k, elem: true}, true
}

// roleByte: root[k] where root satisfies rootRole.
func roleByte(rootRole role, k int64) role {
	return func(v ssa.Value) bool {
		r, ok := elemRefOf(v)
		return ok && r.elem && r.lo == k && rootRole(r.root)
	}
}

// roleSlice: root[lo:hi] (hi = -1: open end).
func roleSlice(rootRole role, lo, hi int64) role {
	return func(v ssa.Value) bool {
		r, ok := sliceRefOf(v)
		if !ok || r.elem || r.lo != lo || !rootRole(r.root) {
			return false
		}
		if r.hi == hi {
			return true
		}
		// an open end is the same as the full length of a freshly made buffer
		if hi == -1 && r.hi >= 0 {
			if ln := bufLen(stripConv(r.root)); ln != nil {
				if k, isK := constInt(ln); isK && k == r.hi {
					return true
				}
			}
		}
		return false
	}
}

// hashFed: v is the result of invoking Sum32 on a hash value h created by crc32.NewIEEE
// whose Write calls are exactly the given slices (roles), in order.
func roleSum32Fed(fed ...role) role {
	return func(v ssa.Value) bool {
		call, ok := stripConv(v).(*ssa.Call)
		if ok && stdCalleeName(call) == "hash/crc32.ChecksumIEEE" && len(fed) == 1 {
			return fed[0](call.Call.Args[0]) // the one-shot form of NewIEEE / Write / Sum32
		}
		if !ok || !call.Call.IsInvoke() || call.Call.Method.Name() != "Sum32" {
			return false
		}
		h := call.Call.Value
		hc, ok := h.(*ssa.Call)
		if !ok || stdCalleeName(hc) != "hash/crc32.NewIEEE" {
			return false
		}
		var writes []*ssa.Call
		if h.Referrers() == nil {
			return false
		}
		for _, ref := range *h.Referrers() {
			if wc, ok := ref.(*ssa.Call); ok && wc.Call.IsInvoke() && wc.Call.Value == h && wc.Call.Method.Name() == "Write" {
				writes = append(writes, wc)
			}
		}
		if len(writes) != len(fed) {
			return false
		}
		for i, w := range writes {
			if !fed[i](w.Call.Args[0]) {
				return false
			}
		}
		return true
	}
}

// constPlus builds a constant of the type of like with value k.
func constPlus(like ssa.Value, k int64) ssa.Value {
	return ssa.NewConst(constant.MakeInt64(k), like.Type())
}

// roleFieldValue: v is a load of field f, or the value some store puts into f (a check made
// on the value before it is stored is a check of the field).
func roleFieldValue(c *Ctx, f *types.Var) role {
	vals := map[ssa.Value]bool{}
	if f != nil {
		for _, fn := range c.modFuncs {
			for _, b := range fn.Blocks {
				for _, ins := range b.Instrs {
					if st, ok := storeToField(ins, f); ok {
						vals[stripConv(st.Val)] = true
						// a value produced by a new helper: every value it returns on success
						var call *ssa.Call
						idx := 0
						switch y := st.Val.(type) {
						case *ssa.Call:
							call = y
						case *ssa.Extract:
							call, _ = y.Tuple.(*ssa.Call)
							idx = y.Index
						}
						if call != nil {
							if cal := call.Call.StaticCallee(); cal != nil && c.IsNew(cal) {
								for _, hb := range cal.Blocks {
									if ret, isRet := hb.Instrs[len(hb.Instrs)-1].(*ssa.Return); isRet && idx < len(ret.Results) {
										vals[stripConv(ret.Results[idx])] = true
									}
								}
							}
						}
					}
				}
			}
		}
	}
	return func(v ssa.Value) bool {
		return f != nil && (isFieldLoadOf(v, f) || vals[stripConv(v)])
	}
}

// predicateParts: the comparisons c1..cn of a small boolean function whose result is c1 || ... || cn
// (conj = false) or c1 && ... && cn (conj = true); nil for any other shape.
func predicateParts(fn *ssa.Function) (parts []*ssa.BinOp, conj bool) {
	if fn == nil || len(fn.Blocks) == 0 || len(fn.Blocks) > 8 || fn.Signature.Results().Len() != 1 {
		return nil, false
	}
	if bt, ok := fn.Signature.Results().At(0).Type().Underlying().(*types.Basic); !ok || bt.Kind() != types.Bool {
		return nil, false
	}
	var rets []*ssa.Return
	for _, b := range fn.Blocks {
		if len(b.Instrs) > 0 {
			if ret, ok := b.Instrs[len(b.Instrs)-1].(*ssa.Return); ok {
				rets = append(rets, ret)
			}
		}
	}
	if len(rets) != 1 {
		return nil, false
	}
	for _, want := range []bool{true, false} {
		var out []*ssa.BinOp
		var walk func(v ssa.Value, depth int) bool
		walk = func(v ssa.Value, depth int) bool {
			if depth > 6 {
				return false
			}
			switch x := v.(type) {
			case *ssa.BinOp:
				if !isCmp(x.Op) {
					return false
				}
				out = append(out, x)
				return true
			case *ssa.Phi:
				for i, e := range x.Edges {
					if k, isK := e.(*ssa.Const); isK {
						bv, isB := constBool(k)
						if !isB || bv != want {
							return false
						}
						// `true` arrives from `if ci goto here` (||), `false` from `if ci goto next else here` (&&)
						pb := x.Block().Preds[i]
						iff, isIf := pb.Instrs[len(pb.Instrs)-1].(*ssa.If)
						if !isIf {
							return false
						}
						succ := 0
						if !want {
							succ = 1
						}
						if pb.Succs[succ] != x.Block() {
							return false
						}
						if !walk(iff.Cond, depth+1) {
							return false
						}
						continue
					}
					if !walk(e, depth+1) {
						return false
					}
				}
				return true
			}
			return false
		}
		if walk(rets[0].Results[0], 0) && len(out) > 0 {
			return out, !want
		}
	}
	return nil, false
}

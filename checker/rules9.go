package main

import (
	"fmt"
	"go/token"
	"go/types"
	"math"

	"golang.org/x/tools/go/ssa"
)

// ---------- a small interval analysis over SSA integers (upper bounds for OB-ARRSLICE) ----------

type ivl struct {
	lo, hi int64
	ok     bool
}

const ivInf = math.MaxInt64 / 4

func ivUnknown() ivl { return ivl{-ivInf, ivInf, false} }

func ivJoin(a, b ivl) ivl {
	if !a.ok || !b.ok {
		return ivUnknown()
	}
	r := a
	if b.lo < r.lo {
		r.lo = b.lo
	}
	if b.hi > r.hi {
		r.hi = b.hi
	}
	return r
}

type rangeEnv struct {
	c     *Ctx
	depth int
	busy  map[ssa.Value]bool
}

// refine: the interval of v at block b, narrowed by dominating comparisons of v with constants.
func (e *rangeEnv) refine(v ssa.Value, r ivl, at *ssa.BasicBlock) ivl {
	if at == nil || !r.ok {
		return r
	}
	fn := at.Parent()
	for _, gb := range fn.Blocks {
		if len(gb.Instrs) == 0 || len(gb.Succs) != 2 || gb.Succs[0] == gb.Succs[1] {
			continue
		}
		iff, ok := gb.Instrs[len(gb.Instrs)-1].(*ssa.If)
		if !ok {
			continue
		}
		bo, ok := iff.Cond.(*ssa.BinOp)
		if !ok {
			continue
		}
		var k int64
		var op token.Token
		if kk, isK := constInt(bo.Y); isK && bo.X == v {
			k, op = kk, bo.Op
		} else if kk, isK := constInt(bo.X); isK && bo.Y == v {
			k, op = kk, flipOp(bo.Op)
		} else {
			continue
		}
		for side := 0; side < 2; side++ {
			s := gb.Succs[side]
			if len(s.Preds) != 1 || !(s == at || s.Dominates(at)) {
				continue
			}
			o := op
			if side == 1 {
				o = negateOp(o)
			}
			switch o {
			case token.LSS:
				if k-1 < r.hi {
					r.hi = k - 1
				}
			case token.LEQ:
				if k < r.hi {
					r.hi = k
				}
			case token.GTR:
				if k+1 > r.lo {
					r.lo = k + 1
				}
			case token.GEQ:
				if k > r.lo {
					r.lo = k
				}
			case token.EQL:
				r.lo, r.hi = k, k
			}
		}
	}
	return r
}

// rangeOf: an interval containing every value v can take where it is used in block `at`.
func (e *rangeEnv) rangeOf(v ssa.Value, at *ssa.BasicBlock) ivl {
	if e.depth > 12 || e.busy[v] {
		return ivUnknown()
	}
	e.depth++
	e.busy[v] = true
	defer func() { e.depth--; delete(e.busy, v) }()
	var r ivl
	switch x := v.(type) {
	case *ssa.Const:
		if k, ok := constInt(x); ok {
			r = ivl{k, k, true}
		} else {
			r = ivUnknown()
		}
	case *ssa.Convert:
		r = e.rangeOf(x.X, at)
		// narrowing conversions of possibly larger values are not followed
		if bt, ok := x.Type().Underlying().(*types.Basic); ok && r.ok {
			switch bt.Kind() {
			case types.Uint8:
				if r.lo < 0 || r.hi > 255 {
					r = ivl{0, 255, true}
				}
			case types.Int, types.Int64, types.Uint, types.Uint64, types.Int32, types.Uint32:
			default:
				r = ivUnknown()
			}
		}
		if bt, ok := x.X.Type().Underlying().(*types.Basic); ok && !r.ok && bt.Kind() == types.Uint8 {
			r = ivl{0, 255, true}
		}
	case *ssa.ChangeType:
		r = e.rangeOf(x.X, at)
	case *ssa.Phi:
		r = ivl{0, 0, true}
		first := true
		for i, ed := range x.Edges {
			pr := x.Block().Preds[i]
			er := e.rangeOf(ed, pr)
			if first {
				r, first = er, false
			} else {
				r = ivJoin(r, er)
			}
		}
	case *ssa.BinOp:
		a, b := e.rangeOf(x.X, at), e.rangeOf(x.Y, at)
		switch x.Op {
		case token.ADD:
			if a.ok && b.ok {
				r = ivl{a.lo + b.lo, a.hi + b.hi, true}
			}
		case token.SUB:
			if a.ok && b.ok {
				r = ivl{a.lo - b.hi, a.hi - b.lo, true}
			}
		case token.MUL:
			if a.ok && b.ok && a.lo >= 0 && b.lo >= 0 && a.hi < 1<<30 && b.hi < 1<<30 {
				r = ivl{a.lo * b.lo, a.hi * b.hi, true}
			}
		case token.REM:
			if b.ok && b.lo == b.hi && b.lo > 0 {
				r = ivl{-(b.lo - 1), b.lo - 1, true}
				if a.ok && a.lo >= 0 {
					r.lo = 0
				}
			}
		case token.AND:
			if b.ok && b.lo == b.hi && b.lo >= 0 {
				r = ivl{0, b.lo, true}
			} else if a.ok && a.lo == a.hi && a.lo >= 0 {
				r = ivl{0, a.lo, true}
			}
		case token.SHR:
			if a.ok && a.lo >= 0 {
				r = ivl{0, a.hi, true}
			}
		}
		if !r.ok {
			r = ivUnknown()
		}
	case *ssa.Call:
		callee := x.Call.StaticCallee()
		if bi, isB := x.Call.Value.(*ssa.Builtin); isB && (bi.Name() == "len" || bi.Name() == "cap") {
			r = ivl{0, ivInf, true}
			if pt, isP := x.Call.Args[0].Type().Underlying().(*types.Pointer); isP {
				if at2, isA := pt.Elem().Underlying().(*types.Array); isA {
					r = ivl{at2.Len(), at2.Len(), true}
				}
			}
		} else if bi, isB := x.Call.Value.(*ssa.Builtin); isB && bi.Name() == "copy" && len(x.Call.Args) == 2 {
			// copy returns at most the length of either operand
			r = ivl{0, ivInf, true}
			for _, a := range x.Call.Args {
				if sl, isSl := a.(*ssa.Slice); isSl && sl.Low == nil && sl.High == nil {
					if pt, isP := sl.X.Type().Underlying().(*types.Pointer); isP {
						if at2, isA := pt.Elem().Underlying().(*types.Array); isA && at2.Len() < r.hi {
							r.hi = at2.Len()
						}
					}
				}
			}
		} else if callee != nil && callee.Blocks != nil && e.c.InModule(callee) && len(callee.Params) <= 3 {
			first := true
			for _, b := range callee.Blocks {
				if len(b.Instrs) == 0 {
					continue
				}
				if ret, ok := b.Instrs[len(b.Instrs)-1].(*ssa.Return); ok && len(ret.Results) == 1 {
					rr := e.rangeOf(ret.Results[0], b)
					if first {
						r, first = rr, false
					} else {
						r = ivJoin(r, rr)
					}
				}
			}
			if first {
				r = ivUnknown()
			}
		} else {
			r = ivUnknown()
		}
	default:
		r = ivUnknown()
	}
	if r.ok {
		r = e.refine(v, r, at)
	} else {
		// even an unknown value is bounded by dominating comparisons
		rr := e.refine(v, ivl{-ivInf, ivInf, true}, at)
		if rr.hi < ivInf || rr.lo > -ivInf {
			r = rr
		}
	}
	return r
}

// ---- OB-ARRSLICE: slices of fixed-size arrays stay inside the array ----
// A slice expression on an array with a non-constant bound panics when the bound exceeds the array
// length. Each such site in the library is either proved by interval analysis (constants, %, &, phi,
// comparisons that dominate the site, results of small functions) or is one of the sites read and
// frozen here with its reason; anything else is reported.
func ruleArraySlices(c *Ctx, r *Report, prefix string) {
	rule := prefix + "OB-ARRSLICE"
	frozen := map[string]string{
		"(*lzma.encoderDict).Discard": "n is the length of the operation just coded (at most maxMatchLen = len(d.data), OB-LZMAW/M1 bound the matcher's results)",
	}
	n := 0
	// C11 is about the readers: the functions reachable from the reader API (new helpers included)
	cone := readerCone(c)
	for _, pk := range []string{"", "lzma"} {
		for _, fn := range c.modFuncs {
			if pkgPathOf(fn) != full(pk) || fn.Blocks == nil || !cone[fn] {
				continue
			}
			for _, b := range fn.Blocks {
				for _, ins := range b.Instrs {
					sl, ok := ins.(*ssa.Slice)
					if !ok {
						continue
					}
					pt, isP := sl.X.Type().Underlying().(*types.Pointer)
					if !isP {
						continue
					}
					at, isA := pt.Elem().Underlying().(*types.Array)
					if !isA {
						continue
					}
					var worst ssa.Value
					for _, v := range []ssa.Value{sl.Low, sl.High, sl.Max} {
						if v != nil {
							if _, isK := v.(*ssa.Const); !isK {
								worst = v
							}
						}
					}
					if worst == nil {
						continue
					}
					n++
					env := &rangeEnv{c: c, busy: map[ssa.Value]bool{}}
					proved := true
					detail := ""
					for _, v := range []ssa.Value{sl.Low, sl.High, sl.Max} {
						if v == nil {
							continue
						}
						iv := env.rangeOf(v, b)
						if !(iv.hi <= at.Len()) {
							proved = false
							detail = fmt.Sprintf("bound %s may reach %s", v.Name(), boundStr(iv.hi))
						}
					}
					key := FnName(fn)
					home := key
					if c.IsNew(fn) {
						if g := c.groupOwner(fn); g != nil {
							home = FnName(g)
						}
					}
					if proved {
						r.Pass(rule, key, c.InstrPos(ins), fmt.Sprintf("slice of a [%d] array: bounds proved within the array", at.Len()), 1)
					} else if why, isF := frozen[home]; isF {
						r.Pass(rule, key, c.InstrPos(ins), "frozen site: "+why, 1)
					} else {
						r.Fail(rule, key, c.InstrPos(ins), fmt.Sprintf("slice of a fixed array of %d elements with a bound that is not provably within it (%s): the expression panics when the bound exceeds the array (a scratch array sized for the common case)", at.Len(), detail))
					}
				}
			}
		}
	}
	// the sites may legitimately disappear (a scratch array replaced by a slice); what must not happen
	// is that nothing was looked at
	scanned := 0
	for fn := range cone {
		if fn.Blocks != nil && c.InModule(fn) {
			scanned++
		}
	}
	if scanned >= 40 {
		r.Pass(rule, "reader-cone", "", fmt.Sprintf("%d functions reachable from the reader API scanned, %d slices of arrays with variable bounds", scanned, n), 1)
	}
	r.Floor(rule, 2)
}

func boundStr(h int64) string {
	if h >= ivInf {
		return "any value"
	}
	return fmt.Sprint(h)
}

// ---- CE-ALLZEROS: the padding test is "every byte is zero" ----
func ruleAllZeros(c *Ctx, r *Report, prefix string) {
	rule := prefix + "CE-ALLZEROS"
	fn := c.Func("", "allZeros")
	if fn == nil || fn.Name() != "allZeros" || len(fn.Params) != 1 {
		return
	}
	vals := []byte{0, 1, 2, 0x7f, 0x80, 0x81, 0xfe, 0xff}
	bad, n := "", 0
	try := func(p []byte) {
		n++
		in := NewInterp(c)
		res := in.Call(fn, []aval{aBytes(in, p, fn.Params[0].Type())})
		want := true
		for _, b := range p {
			if b != 0 {
				want = false
			}
		}
		if !res.OK || res.Panicked || len(res.Rets) != 1 {
			bad = fmt.Sprintf("cannot evaluate allZeros(% x): %s", p, in.Undecided)
			return
		}
		if got, ok := res.Rets[0].Bool(); !ok || got != want {
			bad = fmt.Sprintf("allZeros(% x) = %v: padding that is not all zero is accepted (or zero padding refused)", p, got)
		}
	}
	try(nil)
	for _, a := range vals {
		try([]byte{a})
		for _, b := range vals {
			try([]byte{a, b})
			for _, d := range vals {
				try([]byte{a, b, d})
			}
		}
	}
	try([]byte{0x40, 0x40, 0x40, 0x40})
	try([]byte{0, 0, 0, 0, 0, 0, 0, 1})
	r.Check(bad == "", rule, "allZeros", c.Pos(fn.Pos()), fmt.Sprintf("true exactly for all-zero slices on %d inputs (byte sums that wrap to 0 included)", n), bad)
}

// ---- SEQ-APPLY: what the decoder writes into the dictionary ----
// decoderDict.WriteByte receives the byte of a literal operation and nothing else; a match - a short
// rep of length 1 included - goes through writeMatch, which checks the distance against the window
// (byteAt returns 0 for a distance outside it, so copying by hand loses that check).
func ruleApplyOps(c *Ctx, r *Report, prefix string) {
	rule := prefix + "SEQ-APPLY"
	wb := c.Func("lzma", "decoderDict.WriteByte")
	apply := c.Func("lzma", "decoder.apply")
	fLitB := c.Field("lzma", "lit.b")
	if wb == nil || apply == nil || fLitB == nil {
		return
	}
	n := 0
	bad := ""
	for _, fn := range c.modFuncs {
		if fn.Blocks == nil || pkgPathOf(fn) != full("lzma") {
			continue
		}
		for _, b := range fn.Blocks {
			for _, ins := range b.Instrs {
				call, ok := callTo(ins, wb)
				if !ok {
					continue
				}
				if _, isDict := call.Call.Args[0].Type().Underlying().(*types.Pointer); !isDict {
					continue
				}
				n++
				arg := stripConv(call.Call.Args[len(call.Call.Args)-1])
				isLit := false
				if f, isF := arg.(*ssa.Field); isF && fieldOfField(f) == fLitB {
					isLit = true
				}
				if isFieldLoadOf(arg, fLitB) {
					isLit = true
				}
				if !isLit {
					bad = fmt.Sprintf("%s writes %s into the decoder dictionary with WriteByte at %s: only the byte of a literal operation may be written that way; copies from the window go through writeMatch, which rejects distances outside the window", FnName(fn), arg.Name(), c.InstrPos(ins))
				}
			}
		}
	}
	r.Check(bad == "" && n >= 1, rule, FnName(apply), c.Pos(apply.Pos()), fmt.Sprintf("decoderDict.WriteByte is called %d time(s), always with the byte of a literal operation", n), bad)
}

// ---- WMW-RING: the ring indices are moved by the ring's own methods ----
func ruleRingWriters(c *Ctx, r *Report, prefix string) {
	rule := prefix + "WMW-RING"
	bt := c.Type("lzma", "buffer")
	fFront, fRear := c.Field("lzma", "buffer.front"), c.Field("lzma", "buffer.rear")
	if bt == nil || fFront == nil || fRear == nil {
		return
	}
	allowed := map[ssa.Instruction]bool{}
	nAllowed := 0
	addIndex := c.funcQuiet("lzma", "buffer.addIndex")
	for _, fn := range c.ModFuncs("lzma") {
		recv := fn.Signature.Recv()
		isBuf := false
		if recv != nil {
			if pt, ok := recv.Type().(*types.Pointer); ok && types.Identical(pt.Elem(), bt) {
				isBuf = true
			}
		}
		if !isBuf && fn.Name() != "newBuffer" {
			continue
		}
		for _, b := range c.GB(fn) {
			for _, ins := range b.Instrs {
				if _, ok := storeToField(ins, fFront); ok {
					allowed[ins] = true
					nAllowed++
				}
				if _, ok := storeToField(ins, fRear); ok {
					allowed[ins] = true
					nAllowed++
				}
			}
		}
	}
	bad := ""
	for _, fn := range c.modFuncs {
		if fn.Blocks == nil {
			continue
		}
		for _, b := range fn.Blocks {
			for _, ins := range b.Instrs {
				_, f := storeToField(ins, fFront)
				_, g := storeToField(ins, fRear)
				if (f || g) && !allowed[ins] {
					// the new index is computed by the ring's own wrap function from the old one
					if st, isSt := ins.(*ssa.Store); isSt {
						if call, isC := st.Val.(*ssa.Call); isC && addIndex != nil && call.Call.StaticCallee() == addIndex && len(call.Call.Args) == 3 {
							if fld := fFront; g {
								fld = fRear
								if isFieldLoadOf(call.Call.Args[1], fld) {
									continue
								}
							} else if isFieldLoadOf(call.Call.Args[1], fld) {
								continue
							}
						}
					}
					bad = fmt.Sprintf("%s moves a ring index of lzma.buffer at %s: outside the ring's own methods the wrap-around (index == len(data) is already outside) is not guaranteed", FnName(fn), c.InstrPos(ins))
				}
			}
		}
	}
	r.Check(bad == "" && nAllowed >= 4, rule, "buffer.front/rear", c.Pos(fFront.Pos()), fmt.Sprintf("front and rear are stored at %d sites, all in methods of buffer", nAllowed), bad)
}

// ---- WR-WRITETO: an io.WriterTo of the library delivers what it read ----
// io.Copy hands the transfer to src.WriteTo when src implements io.WriterTo. Every byte a Read inside
// WriteTo delivered has to reach the writer before WriteTo returns, also when that Read returned an
// error together with the bytes. Expected instances today: none.
func ruleWriterTo(c *Ctx, r *Report, prefix string) {
	rule := prefix + "WR-WRITETO"
	n := 0
	for _, pk := range []string{"", "lzma"} {
		for _, fn := range c.modFuncs {
			if pkgPathOf(fn) != full(pk) || fn.Name() != "WriteTo" || fn.Signature.Recv() == nil || fn.Signature.Params().Len() != 1 || fn.Signature.Results().Len() != 2 || fn.Blocks == nil {
				continue
			}
			n++
			spec := SeqSpec{Fn: fn}
			var lastRead *ssa.Call
			spec.Event = func(w *Walker, p *PState, ins ssa.Instruction) string {
				call, ok := ins.(*ssa.Call)
				if !ok {
					return ""
				}
				name := ""
				if call.Call.IsInvoke() {
					name = call.Call.Method.Name()
				} else if cal := call.Call.StaticCallee(); cal != nil {
					name = cal.Name()
				}
				switch name {
				case "Read":
					lastRead = call
					return "read"
				case "Write":
					return "write"
				}
				return ""
			}
			paths, over := CollectPaths(c, spec)
			if over {
				r.Undecided(rule, FnName(fn), c.Pos(fn.Pos()), "path budget exceeded")
				continue
			}
			bad := ""
			for _, sp := range paths {
				l := sp.Labels()
				if len(l) > 0 && l[len(l)-1] == "read" && lastRead != nil {
					// returning right after a Read: fine only when that Read delivered nothing
					zero := false
					if lastRead.Referrers() != nil {
						for _, ref := range *lastRead.Referrers() {
							if ex, ok := ref.(*ssa.Extract); ok && ex.Index == 0 {
								if k, known := sp.P.IntFact(sp.P.Resolve(ex)); known && k == 0 {
									zero = true
								}
							}
						}
					}
					if !zero {
						bad = "WriteTo can return after a Read without writing what that Read delivered (bytes that arrive together with an error are lost when io.Copy uses WriteTo)"
					}
				}
			}
			r.Check(bad == "", rule, FnName(fn), c.Pos(fn.Pos()), "every Read inside WriteTo is followed by a Write before WriteTo returns (or delivered nothing)", bad)
		}
	}
	if n == 0 {
		r.Pass(rule, "census", "", "no type of the library implements io.WriterTo", 1)
	}
}

// ---- SEQ-READER-INIT: lzma.NewReader succeeds only with an initialised range decoder ----
func ruleNewReaderInit(c *Ctx, r *Report, prefix string) {
	rule := prefix + "SEQ-READER-INIT"
	fn := c.Func("lzma", "ReaderConfig.NewReader")
	nd := c.Func("lzma", "newDecoder")
	if fn == nil || nd == nil {
		return
	}
	var ndBlocks []*ssa.BasicBlock
	for _, b := range c.GB(fn) {
		for _, ins := range b.Instrs {
			if _, ok := callTo(ins, nd); ok {
				ndBlocks = append(ndBlocks, b)
			}
		}
	}
	ok := len(ndBlocks) > 0
	for _, b := range fn.Blocks {
		if len(b.Instrs) == 0 {
			continue
		}
		ret, isR := b.Instrs[len(b.Instrs)-1].(*ssa.Return)
		if !isR || len(ret.Results) != 2 || !isNilConst(ret.Results[1]) {
			continue
		}
		dom := false
		for _, nb := range ndBlocks {
			if nb == b || c.Dom(nb, b) {
				dom = true
			}
		}
		if !dom {
			ok = false
		}
	}
	r.Check(ok, rule, FnName(fn), c.Pos(fn.Pos()), "every successful return of NewReader lies behind newDecoder (header and the five range-coder start bytes were read)",
		"lzma.NewReader can succeed without having created the decoder: a stream cut inside its first 18 bytes opens without error and reads as a clean end")
}

// groupOwner: the reference function through which a new helper is reached (nil when there are
// several or none).
func (c *Ctx) groupOwner(fn *ssa.Function) *ssa.Function {
	var owner *ssa.Function
	for _, pk := range []string{"", "lzma", "cmd/gxz", "internal/gflag", "internal/xlog", "internal/hash"} {
		for _, ref := range c.ModFuncs(pk) {
			for _, g := range c.Group(ref) {
				if g == fn && ref != fn {
					if owner != nil && owner != ref {
						return nil
					}
					owner = ref
				}
			}
		}
	}
	return owner
}

// IntFact: the value is known to equal k on this path.
func (p *PState) IntFact(v ssa.Value) (int64, bool) {
	if k, ok := constInt(v); ok {
		return k, true
	}
	f, ok := p.facts[v]
	if ok && f.hasLo && f.hasHi && f.lo == f.hi {
		return f.lo, true
	}
	return 0, false
}

// AssumeNil: follow the path on which the (error) value is nil.
func (p *PState) AssumeNil(v ssa.Value) {
	f := p.facts[v]
	f.nilK = 1
	p.facts[v] = f
}

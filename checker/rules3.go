package main

// Rules added after the second round of independently seeded changes (DESIGN §12).

import (
	"go/token"
	"strings"

	"golang.org/x/tools/go/ssa"
)

// ---- COUNT: counting wrappers advance by what the wrapped call delivered ----
//
// countingReader.Read / countingWriter.Write / blockReader.Read / blockWriter.Write keep the
// byte counts from which padding, declared sizes and index records are computed. On every
// path the counter must be advanced by exactly result #0 of the wrapped Read/Write of that
// call, and the same number returned. Necessary: counting requested instead of delivered
// bytes makes sizes depend on how the source fragments its reads (C13) and breaks valid
// streams (C03/C04).
func ruleCounting(c *Ctx, r *Report, prefix string, side string) {
	rule := prefix + "COUNT"
	type ent struct{ fn, field, method string }
	var ents []ent
	if side == "read" || side == "" {
		ents = append(ents, ent{"countingReader.Read", "n", "Read"}, ent{"blockReader.Read", "n", "Read"})
	}
	if side == "write" || side == "" {
		ents = append(ents, ent{"countingWriter.Write", "n", "Write"}, ent{"blockWriter.Write", "n", "Write"})
	}
	for _, e := range ents {
		fn := c.Func("", e.fn)
		if fn == nil {
			continue
		}
		recv := fn.Params[0].Name()
		paths, over := collectTermPaths(c, termSpec{Fn: fn, KeepErrPaths: true,
			KeepMem: func(p string) bool { return p == recv+"."+e.field }})
		key := FnName(fn)
		if over || len(paths) == 0 {
			r.Undecided(rule, key, c.Pos(fn.Pos()), "cannot enumerate paths")
			continue
		}
		bad := ""
		n := 0
		for _, tp := range paths {
			// the wrapped call on this path
			var inner *tEvent
			for i := range tp.Events {
				ev := &tp.Events[i]
				if strings.HasPrefix(ev.Name, "invoke:"+e.method) || (ev.Callee != nil && ev.Callee.Name() == e.method && !c.InModule(ev.Callee)) {
					inner = ev
				}
			}
			cnt, stored := tp.Mem[recv+"."+e.field]
			if inner == nil {
				if stored {
					bad = "the counter is changed on a path without a wrapped " + e.method
				}
				continue
			}
			n++
			want := normTerm("(+ (ext0 " + inner.Result + ") @" + recv + "." + e.field + ")")
			if !stored || normTerm(cnt) != want {
				bad = "after the wrapped " + e.method + " the counter is " + cnt + ", expected " + want + " (old count + bytes delivered by that call)"
				break
			}
			if len(tp.Rets) > 0 && tp.Rets[0] != "(ext0 "+inner.Result+")" {
				bad = "the function returns " + tp.Rets[0] + " instead of the number of bytes delivered by the wrapped " + e.method
				break
			}
		}
		r.Check(bad == "" && n > 0, rule, key, c.Pos(fn.Pos()), "counter += bytes delivered by the wrapped "+e.method+"; the same number is returned ("+itoa(n)+" paths)", bad)
	}
}

// ---- RAW-EOF-FLAG: uncompressedReader.fill ----
//
// fill copies as much of a raw chunk into the dictionary as fits. Only when the limited
// reader reported io.EOF is the chunk finished (eof = true, then lr.N != 0 => unexpected
// EOF). A nil result of CopyN (window full, chunk not finished) must return nil and leave
// eof alone. Necessary: otherwise a raw chunk larger than the window is cut off (C03/C16).
func ruleRawEOFFlag(c *Ctx, r *Report, prefix string) {
	rule := prefix + "SEQ-RAWFILL"
	fn := c.Func("lzma", "uncompressedReader.fill")
	fEOF := c.Field("lzma", "uncompressedReader.eof")
	if fn == nil || fEOF == nil {
		return
	}
	var copyCall *ssa.Call
	for _, b := range c.GB(fn) {
		for _, ins := range b.Instrs {
			if call, ok := ins.(*ssa.Call); ok {
				if n := stdCalleeName(call); n == "io.CopyN" || n == "io.Copy" {
					copyCall = call
				}
			}
		}
	}
	key := FnName(fn)
	if copyCall == nil {
		r.Undecided(rule, key, c.Pos(fn.Pos()), "no io.CopyN found in uncompressedReader.fill (the copy was restructured; the rule cannot locate the end-of-chunk test)")
		return
	}
	ev := errValueOfCall(copyCall)
	bad := ""
	var trace []string
	nStore := 0
	w := &Walker{C: c, Fn: fn}
	w.Instr = func(p *PState, ins ssa.Instruction) bool {
		if st, ok := storeToField(ins, fEOF); ok {
			if b, isB := constBool(st.Val); isB && b {
				nStore++
				g := p.EqGlobal(ev)
				if ev == nil || g == nil || !isEOF(g) {
					bad = "eof is set on a path where the error of the copy is not known to be io.EOF"
					trace = w.TraceStrings(p)
				}
			}
		}
		return true
	}
	w.Exit = func(p *PState, ins ssa.Instruction) {
		ret, ok := ins.(*ssa.Return)
		if !ok || ev == nil {
			return
		}
		// copy executed and returned nil: the function returns nil
		if p.visits[copyCall.Block()] > 0 && p.IsNil(ev) && !p.IsNil(ret.Results[0]) {
			bad = "the copy returned nil (window full, chunk unfinished) but fill does not return nil"
			trace = w.TraceStrings(p)
		}
	}
	w.Run(nil)
	r.Check(bad == "" && nStore > 0 && !w.Overflow, rule, key, c.Pos(fn.Pos()), "eof is set exactly on the io.EOF edge of the copy; a nil copy result returns nil", bad, trace...)
}

// ---- SEQ-DREAD: decoder.Read hands out a failing decompress at once ----
//
// In (*decoder).Read every error of decompress() other than io.EOF must be the error
// returned at the next exit on the path; the loop must not continue (a later iteration
// would find eos set and report a clean io.EOF: a truncated stream read as complete).
func ruleDecoderReadErr(c *Ctx, r *Report, prefix string) {
	rule := prefix + "SEQ-DREAD"
	fn := c.Func("lzma", "decoder.Read")
	dec := c.Func("lzma", "decoder.decompress")
	if fn == nil || dec == nil {
		return
	}
	type st struct{ pending ssa.Value }
	bad := ""
	var trace []string
	n := 0
	w := &Walker{C: c, Fn: fn, MaxVisit: 3}
	failing := func(p *PState, v ssa.Value) bool {
		if v == nil {
			return false
		}
		eof := c.eofGlobal()
		return p.NonNil(v) && (eof == nil || p.NeGlobal(v, eof))
	}
	w.Instr = func(p *PState, ins ssa.Instruction) bool {
		s := p.U.(*pendState)
		call, ok := ins.(*ssa.Call)
		if !ok {
			return true
		}
		if s.pending != nil && failing(p, s.pending) {
			bad = "after decompress failed the function goes on (" + calleeName(call) + ") instead of returning the error"
			trace = w.TraceStrings(p)
			return false
		}
		if call.Call.StaticCallee() == dec {
			s.pending = call
			n++
		}
		return true
	}
	w.Exit = func(p *PState, ins ssa.Instruction) {
		s := p.U.(*pendState)
		ret, ok := ins.(*ssa.Return)
		if !ok || s.pending == nil || !failing(p, s.pending) {
			return
		}
		if len(ret.Results) == 2 && p.Resolve(ret.Results[1]) != p.Resolve(s.pending) {
			bad = "a failing decompress is not the error returned by Read"
			trace = w.TraceStrings(p)
		}
	}
	w.Run(&pendState{})
	r.Check(bad == "" && n > 0 && !w.Overflow, rule, FnName(fn), c.Pos(fn.Pos()), "every failing decompress is returned at once", bad, trace...)
}

type pendState struct{ pending ssa.Value }

func (s *pendState) Clone() UserState { return &pendState{s.pending} }

// ---- SEQ-BUDGET: Writer2.Write recomputes the chunk budget after every flush ----
//
// The slice handed to the encoder is bounded by maxUncompressed - written(). written()
// changes when flushChunk starts a new chunk, so on every path from a flushChunk call to
// the next slicing of p the budget must be computed again. Necessary: a stale budget cuts
// the rest of a large Write into chunks of the old remainder (C17 first bound, C16 limits).
func ruleBudgetFresh(c *Ctx, r *Report, prefix string) {
	rule := prefix + "SEQ-BUDGET"
	fn := c.Func("lzma", "Writer2.Write")
	flush := c.Func("lzma", "Writer2.flushChunk")
	written := c.Func("lzma", "Writer2.written")
	if fn == nil || flush == nil || written == nil {
		return
	}
	bad := ""
	var trace []string
	nSlice := 0
	w := &Walker{C: c, Fn: fn, MaxVisit: 3}
	w.Instr = func(p *PState, ins ssa.Instruction) bool {
		s := p.U.(*flagState)
		switch x := ins.(type) {
		case *ssa.Call:
			switch x.Call.StaticCallee() {
			case flush:
				s.flag = true
			case written:
				s.flag = false
			}
		case *ssa.Slice:
			base := ssa.Value(x)
			for i := 0; i < 6; i++ {
				sl, isSl := stripConv(base).(*ssa.Slice)
				if !isSl {
					break
				}
				base = p.Resolve(sl.X)
			}
			if base == fn.Params[1] {
				nSlice++
				if s.flag && x.High != nil {
					bad = "p is sliced with a budget computed before the last flushChunk (written() not re-evaluated)"
					trace = w.TraceStrings(p)
				}
			}
		}
		return true
	}
	w.Run(&flagState{})
	r.Check(bad == "" && nSlice > 0 && !w.Overflow, rule, FnName(fn), c.Pos(fn.Pos()), "the chunk budget maxUncompressed - written() is recomputed after every flushChunk before p is sliced", bad, trace...)
}

type flagState struct{ flag bool }

func (s *flagState) Clone() UserState { return &flagState{s.flag} }

// ---- WR-HTALLOC: hash-table chain ring covers the whole dictionary ----
func ruleHashTableAlloc(c *Ctx, r *Report, prefix string) {
	rule := prefix + "WR-HTALLOC"
	fn := c.Func("lzma", "newHashTable")
	fData := c.Field("lzma", "hashTable.data")
	if fn == nil || fData == nil {
		return
	}
	ok, got := false, "no store to hashTable.data found"
	for _, b := range c.GB(fn) {
		for _, ins := range b.Instrs {
			if st, isSt := storeToField(ins, fData); isSt {
				if ms, isMS := stripConv(st.Val).(*ssa.MakeSlice); isMS {
					got = staticTerm(c, ms.Len)
					ok = got == "$capacity"
				}
			}
		}
	}
	r.Check(ok, rule, FnName(fn), c.Pos(fn.Pos()), "the chain ring hashTable.data has one entry per dictionary byte (len = capacity)",
		"newHashTable allocates hashTable.data with length "+got+" instead of the dictionary capacity: positions further back than that are forgotten and distant repeats are not found")
}

// ---- SEQ-BWHASH: the block check covers exactly the bytes that went into the block ----
//
// blockWriter.Write hands the (truncated) slice to bw.mw only; bw.mw is
// io.MultiWriter(bw.w, bw.hash) (or bw.w for the none check); nothing else writes to
// bw.hash. Necessary: hashing p before it is truncated to the block's remaining space puts
// bytes of the next block under this block's check.
func ruleBlockWriterHash(c *Ctx, r *Report, prefix string) {
	rule := prefix + "SEQ-BWHASH"
	wr := c.Func("", "blockWriter.Write")
	nbw := c.Func("", "WriterConfig.newBlockWriter")
	fMw, fW, fHash := c.Field("", "blockWriter.mw"), c.Field("", "blockWriter.w"), c.Field("", "blockWriter.hash")
	if wr == nil || nbw == nil || fMw == nil || fW == nil || fHash == nil {
		return
	}
	// 1. who writes into bw.hash: only Sum/Size/Reset style calls, never Write, outside MultiWriter
	var direct []string
	for _, fn := range c.ModFuncs("") {
		for _, b := range c.GB(fn) {
			for _, ins := range b.Instrs {
				call, ok := ins.(*ssa.Call)
				if !ok || !call.Call.IsInvoke() || call.Call.Method.Name() != "Write" {
					continue
				}
				if isFieldLoadOf(call.Call.Value, fHash) {
					direct = append(direct, FnName(fn))
				}
			}
		}
	}
	r.Check(len(direct) == 0, rule, "hash-writers", c.Pos(wr.Pos()), "bw.hash is fed only through bw.mw", "bw.hash.Write is called directly in "+strings.Join(direct, ", ")+": the bytes under the check are no longer by construction the bytes written to the block")
	// 2. mw = MultiWriter(w, hash) | w
	okMW, n := true, 0
	for _, b := range c.GB(nbw) {
		for _, ins := range b.Instrs {
			st, ok := storeToField(ins, fMw)
			if !ok {
				continue
			}
			n++
			v := stripConv(st.Val)
			if isFieldLoadOf(v, fW) {
				continue
			}
			call, isC := v.(*ssa.Call)
			if !isC || stdCalleeName(call) != "io.MultiWriter" {
				okMW = false
				continue
			}
			// varargs slice {bw.w, bw.hash}
			hasW, hasH := false, false
			if sl, isS := call.Call.Args[0].(*ssa.Slice); isS {
				if al, isA := sl.X.(*ssa.Alloc); isA && al.Referrers() != nil {
					for _, ref := range *al.Referrers() {
						if ia, isIA := ref.(*ssa.IndexAddr); isIA && ia.Referrers() != nil {
							for _, r2 := range *ia.Referrers() {
								if s2, isSt := r2.(*ssa.Store); isSt {
									if isFieldLoadOf(s2.Val, fW) {
										hasW = true
									}
									if isFieldLoadOf(s2.Val, fHash) {
										hasH = true
									}
								}
							}
						}
					}
				}
			}
			if !hasW || !hasH {
				okMW = false
			}
		}
	}
	r.Check(okMW && n > 0, rule, "mw", c.Pos(nbw.Pos()), "bw.mw = io.MultiWriter(bw.w, bw.hash) (bw.w alone for the none check)", "bw.mw is not the MultiWriter of the filter writer and the block check")
	// 3. Write: the only data sink is bw.mw.Write(p')
	sinks, okSink := 0, true
	for _, b := range c.GB(wr) {
		for _, ins := range b.Instrs {
			call, ok := ins.(*ssa.Call)
			if !ok || !call.Call.IsInvoke() || call.Call.Method.Name() != "Write" {
				continue
			}
			sinks++
			if !isFieldLoadOf(call.Call.Value, fMw) {
				okSink = false
			}
		}
	}
	r.Check(okSink && sinks == 1, rule, "write-sink", c.Pos(wr.Pos()), "blockWriter.Write writes once, to bw.mw", "blockWriter.Write does not hand its data to bw.mw exactly once (found "+itoa(sinks)+" Write calls)")
}

// ---- WR-DICT-BLOCK: the declared dictionary size of every block is the one its encoder uses ----
func ruleBlockFilters(c *Ctx, r *Report, prefix string) {
	rule := prefix + "WR-DICT-BLOCK"
	nbw := c.Func("", "WriterConfig.newBlockWriter")
	filters := c.funcQuiet("", "WriterConfig.filters")
	nfw := c.Func("", "WriterConfig.newFilterWriteCloser")
	fFilters := c.Field("", "blockWriter.filters")
	fDictCap := c.Field("", "WriterConfig.DictCap")
	if nbw == nil || nfw == nil || fFilters == nil || fDictCap == nil {
		return
	}
	if filters == nil {
		// filters() was inlined: the filter list is built in newBlockWriter itself from the
		// receiver's DictCap, stored in the block writer and handed to the filter chain
		okBuild, okStore, okPass := false, false, false
		for _, b := range c.GB(nbw) {
			for _, ins := range b.Instrs {
				if st, ok := ins.(*ssa.Store); ok {
					if fa, isFA := st.Addr.(*ssa.FieldAddr); isFA && refNameOf(fieldOfAddr(fa)) == "dictCap" && isFieldLoadOf(st.Val, fDictCap) {
						okBuild = true
					}
				}
				if _, ok := storeToField(ins, fFilters); ok {
					okStore = true
				}
				if call, ok := callTo(ins, nfw); ok && len(call.Call.Args) == 3 && isFieldLoadOf(call.Call.Args[2], fFilters) {
					okPass = true
				}
			}
		}
		r.Check(okBuild && okStore && okPass, rule, FnName(nbw), c.Pos(nbw.Pos()), "every block builds its filter list from the configuration in force and encodes with that same list",
			"newBlockWriter does not build the block's filter list from WriterConfig.DictCap and hand the same list to the filter chain")
		return
	}
	// blockWriter.filters = c.filters() on the receiver of newBlockWriter, evaluated per block
	okStore, okPass := false, false
	for _, b := range c.GB(nbw) {
		for _, ins := range b.Instrs {
			if st, ok := storeToField(ins, fFilters); ok {
				if call, isC := stripConv(st.Val).(*ssa.Call); isC && call.Call.StaticCallee() == filters && stripConv(call.Call.Args[0]) == nbw.Params[0] {
					okStore = true
				}
			}
			if call, ok := callTo(ins, nfw); ok && len(call.Call.Args) == 3 {
				a := stripConv(call.Call.Args[2])
				if isFieldLoadOf(a, fFilters) {
					okPass = true
				}
				if fc, isC := a.(*ssa.Call); isC && fc.Call.StaticCallee() == filters {
					okPass = true
				}
			}
		}
	}
	r.Check(okStore && okPass, rule, FnName(nbw), c.Pos(nbw.Pos()), "every block takes its filter list from the configuration in force (c.filters()) and encodes with that same list",
		"the filter list written into the block header is not c.filters() of the configuration the block's encoder is built from: the declared dictionary size can differ from the capacity in use")
	// filters(): dictCap = int64(c.DictCap)
	okF := false
	for _, b := range c.GB(filters) {
		for _, ins := range b.Instrs {
			if st, ok := ins.(*ssa.Store); ok {
				if fa, isFA := st.Addr.(*ssa.FieldAddr); isFA && refNameOf(fieldOfAddr(fa)) == "dictCap" && isFieldLoadOf(st.Val, fDictCap) {
					okF = true
				}
			}
		}
	}
	r.Check(okF, rule, FnName(filters), c.Pos(filters.Pos()), "lzmaFilter.dictCap = WriterConfig.DictCap", "WriterConfig.filters does not build the LZMA2 filter from WriterConfig.DictCap")
}

var _ = token.ADD

package main

// OB rules on the LZMA/LZMA2 decoder side (C11, C07, C03, C13).

import (
	"fmt"
	"go/token"
	"go/types"
	"os"
	"strings"

	"golang.org/x/tools/go/ssa"
)

// phiIsMax: v = max(x, y) written as compare-and-assign:
//
//	v := x; if y > v { v = y }
//
// returns (x, y, true).
func phiIsMax(v ssa.Value) (x, y ssa.Value, ok bool) {
	ph, isPhi := v.(*ssa.Phi)
	if !isPhi || len(ph.Edges) != 2 {
		return nil, nil, false
	}
	b := ph.Block()
	for i := 0; i < 2; i++ {
		thenB, otherB := b.Preds[i], b.Preds[1-i]
		yv, xv := ph.Edges[i], ph.Edges[1-i]
		// otherB ends in the If whose true successor is thenB
		if len(otherB.Instrs) == 0 {
			continue
		}
		iff, isIf := otherB.Instrs[len(otherB.Instrs)-1].(*ssa.If)
		if !isIf || otherB.Succs[0] != thenB || otherB.Succs[1] != b {
			continue
		}
		bo, isB := iff.Cond.(*ssa.BinOp)
		if !isB {
			continue
		}
		if (bo.Op == token.GTR && sameVal(bo.X, yv) && sameVal(bo.Y, xv)) || (bo.Op == token.LSS && sameVal(bo.X, xv) && sameVal(bo.Y, yv)) ||
			(bo.Op == token.GEQ && sameVal(bo.X, yv) && sameVal(bo.Y, xv)) || (bo.Op == token.LEQ && sameVal(bo.X, xv) && sameVal(bo.Y, yv)) {
			return xv, yv, true
		}
	}
	return nil, nil, false
}

// returnsMax: helper h returns max(X, Y): an If comparing X and Y whose two successors each return
// one of them, the larger one. X and Y are values of the helper (fields of its parameters).
func returnsMax(h *ssa.Function) (x, y ssa.Value, ok bool) {
	for _, b := range h.Blocks {
		if len(b.Instrs) == 0 {
			continue
		}
		iff, isIf := b.Instrs[len(b.Instrs)-1].(*ssa.If)
		if !isIf {
			continue
		}
		bo, isB := iff.Cond.(*ssa.BinOp)
		if !isB {
			continue
		}
		retOf := func(sb *ssa.BasicBlock) ssa.Value {
			if len(sb.Instrs) == 0 {
				return nil
			}
			if ret, isR := sb.Instrs[len(sb.Instrs)-1].(*ssa.Return); isR && len(ret.Results) == 1 {
				return ret.Results[0]
			}
			return nil
		}
		t, f := retOf(b.Succs[0]), retOf(b.Succs[1])
		if t == nil || f == nil {
			continue
		}
		big, small := bo.X, bo.Y
		switch bo.Op {
		case token.GTR, token.GEQ:
		case token.LSS, token.LEQ:
			big, small = bo.Y, bo.X
		default:
			continue
		}
		if sameValOrField(t, big) && sameValOrField(f, small) {
			nret := 0
			for _, rb := range h.Blocks {
				if _, isR := rb.Instrs[len(rb.Instrs)-1].(*ssa.Return); isR {
					nret++
				}
			}
			if nret == 2 {
				return big, small, true
			}
		}
	}
	return nil, nil, false
}

func sameValOrField(a, b ssa.Value) bool {
	if sameVal(a, b) {
		return true
	}
	fa, ok1 := a.(*ssa.Field)
	fb, ok2 := b.(*ssa.Field)
	return ok1 && ok2 && fa.Field == fb.Field && fa.X == fb.X
}

// fieldValueIs: v reads field f (a load through a field address, or the field of a struct value).
func fieldValueIs(v ssa.Value, f *types.Var) bool {
	if f == nil {
		return false
	}
	if isFieldLoadOf(v, f) {
		return true
	}
	if fv, ok := stripConvNoLook(v).(*ssa.Field); ok {
		return fieldOfField(fv) == f
	}
	return false
}

// sameVal: identical SSA values, or two loads of the same field through the same base
// (go/ssa does no CSE).
func sameVal(a, b ssa.Value) bool {
	if a == b {
		return true
	}
	ua, ok1 := a.(*ssa.UnOp)
	ub, ok2 := b.(*ssa.UnOp)
	if !ok1 || !ok2 || ua.Op != token.MUL || ub.Op != token.MUL {
		return false
	}
	return sameAddr(ua.X, ub.X)
}

func sameAddr(a, b ssa.Value) bool {
	if a == b {
		return true
	}
	fa, ok1 := a.(*ssa.FieldAddr)
	fb, ok2 := b.(*ssa.FieldAddr)
	return ok1 && ok2 && fa.Field == fb.Field && sameAddr(fa.X, fb.X)
}

// storeIsMax: `if y > load(F) { F = y }`: the store of y into field f is on the true edge
// of y > load f (so afterwards F = max(F, y)).
func storeIsMax(st *ssa.Store, f *types.Var) bool {
	b := st.Block()
	if len(b.Preds) != 1 {
		return false
	}
	p := b.Preds[0]
	iff, ok := p.Instrs[len(p.Instrs)-1].(*ssa.If)
	if !ok || p.Succs[0] != b {
		return false
	}
	bo, ok := iff.Cond.(*ssa.BinOp)
	if !ok {
		return false
	}
	switch {
	case (bo.Op == token.GTR || bo.Op == token.GEQ) && sameVal(bo.X, st.Val) && isFieldLoadOf(bo.Y, f):
		return true
	case (bo.Op == token.LSS || bo.Op == token.LEQ) && sameVal(bo.Y, st.Val) && isFieldLoadOf(bo.X, f):
		return true
	}
	return false
}

func ruleDecoderBounds(c *Ctx, r *Report, prefix string) {
	rule := prefix + "OB-LZMA"
	// ---- writeMatch: distance, length, space ----
	if fn := c.Func("lzma", "decoderDict.writeMatch"); fn != nil {
		o := newOb(c, r, rule, fn)
		dictLen := c.Func("lzma", "decoderDict.dictLen")
		avail := c.Func("lzma", "buffer.Available")
		dist, length := roleParam(fn, "dist"), roleParam(fn, "length")
		o.rel("writeMatch-dist-positive", dist, roleConst(0), token.LEQ, "match distance <= 0")
		o.rel("writeMatch-dist-window", dist, roleCallTo(dictLen), token.GTR, "match distance > bytes in the dictionary (dictLen())")
		o.rel("writeMatch-length-positive", length, roleConst(0), token.LEQ, "match length <= 0")
		o.rel("writeMatch-length-max", length, roleConst(273), token.GTR, "match length > 273")
		// d.buf.Available(), or the dictionary's own getter that returns it
		availRole := roleCallTo(avail)
		if dAvail := c.funcQuiet("lzma", "decoderDict.Available"); dAvail != nil && returnsCallTo(dAvail, avail) {
			availRole = roleOr(roleCallTo(avail), roleCallTo(dAvail))
		}
		g := o.rel("writeMatch-space", length, availRole, token.GTR, "match length > free space of the window")
		// all guards dominate the copy loop (the first buffer.Write call)
		if g != nil {
			bw := c.Func("lzma", "buffer.Write")
			fFront := c.Field("lzma", "buffer.front")
			okDom, nMut := true, 0
			for _, b := range theCtx.GB(fn) {
				for _, ins := range b.Instrs {
					// what changes the ring: buffer.Write, a copy into it, a store to its write index
					mut := isCallTo(ins, bw)
					if call, isC := ins.(*ssa.Call); isC {
						if bi, isB := call.Call.Value.(*ssa.Builtin); isB && bi.Name() == "copy" {
							mut = true
						}
					}
					if _, isSt := storeToField(ins, fFront); isSt {
						mut = true
					}
					if mut {
						nMut++
						if !(theCtx.Dom(g.iff.Block(), b) && b != g.iff.Block()) {
							okDom = false
						}
					}
				}
			}
			okDom = okDom && nMut > 0
			r.Check(okDom, rule, "writeMatch-guards-dominate-copy:"+FnName(fn), c.InstrPos(g.iff), "the guards dominate the copy loop", "the copy loop of writeMatch is reachable without passing the guards")
		}
	}
	// dictLen = min(head, capacity) on both sides (OB-DL)
	for _, d := range []struct{ pkgFn, headF, capDesc string }{
		{"decoderDict.dictLen", "decoderDict.head", "buf.Cap()"},
		{"encoderDict.DictLen", "encoderDict.head", "capacity"},
	} {
		fn := c.Func("lzma", d.pkgFn)
		fHead := c.Field("lzma", d.headF)
		if fn == nil || fHead == nil {
			continue
		}
		// every return is either int(head) under head < cap, or cap under head >= cap
		paths, over := CollectPaths(c, SeqSpec{Fn: fn})
		ok := !over && len(paths) == 2
		var capV ssa.Value
		for _, sp := range paths {
			if len(sp.Rets) != 1 {
				ok = false
				continue
			}
			rv := stripConv(sp.Rets[0])
			if isFieldLoadOf(rv, fHead) {
				continue
			}
			capV = rv
		}
		if ok && capV != nil {
			// the single comparison relates head and the capacity value
			gs := guardsOf(fn)
			ok = len(gs) == 1 && gs[0].call == nil
			if ok {
				g := gs[0]
				hx, hy := isFieldLoadOf(g.x, fHead), isFieldLoadOf(g.y, fHead)
				cx, cy := stripConv(g.x) == capV, stripConv(g.y) == capV
				ok = (hx && cy) || (hy && cx)
				if ok {
					// head < cap  => head ; else cap
					op := g.op
					if hy {
						op = flipOp(op)
					}
					// find which successor returns head
					ok = false
					for _, sp := range paths {
						rv := stripConv(sp.Rets[0])
						retHead := isFieldLoadOf(rv, fHead)
						bv, known := sp.P.BoolOf(g.iff.Cond)
						if !known {
							continue
						}
						// relation that holds on this path between head and cap
						rel := op
						if !bv {
							rel = negateOp(op)
						}
						if condNegated(g.iff) {
							// g.op already normalised; BoolOf is on the raw cond
							rel = op
							if bv {
								rel = negateOp(op)
							}
						}
						if retHead && (rel == token.LSS || rel == token.LEQ) {
							ok = true
						}
						if retHead && (rel == token.GTR || rel == token.GEQ) {
							ok = false
							break
						}
					}
				}
			}
		} else {
			ok = false
		}
		r.Check(ok, rule, "dictLen-is-min:"+FnName(fn), c.Pos(fn.Pos()), "returns min(head, "+d.capDesc+"): the number of bytes actually in the window",
			FnName(fn)+" is not min(head, "+d.capDesc+"): the bound that match distances are compared against must be the number of bytes actually in the window")
	}
	// ---- decompress: operations are decoded only with >= 273 bytes of free window ----
	if fn := c.Func("lzma", "decoder.decompress"); fn != nil {
		avail := c.Func("lzma", "decoderDict.Available")
		readOp, apply := c.Func("lzma", "decoder.readOp"), c.Func("lzma", "decoder.apply")
		var guardB *ssa.BasicBlock
		var iffG *ssa.If
		for _, g := range guardsOf(fn) {
			if g.call != nil {
				continue
			}
			if roleCallTo(avail)(g.x) && roleConst(273)(g.y) && g.op == token.GEQ {
				guardB = g.iff.Block().Succs[0]
				iffG = g.iff
			}
			if roleCallTo(avail)(g.y) && roleConst(273)(g.x) && g.op == token.LEQ {
				guardB = g.iff.Block().Succs[0]
				iffG = g.iff
			}
			// the same test from the other side: `if Available() < 273 { break }` - the operations lie on
			// the false edge
			if (roleCallTo(avail)(g.x) && roleConst(273)(g.y) && g.op == token.LSS) || (roleCallTo(avail)(g.y) && roleConst(273)(g.x) && g.op == token.GTR) {
				guardB = g.iff.Block().Succs[1]
				iffG = g.iff
			}
		}
		ok := guardB != nil && len(guardB.Preds) == 1
		n := 0
		if ok {
			for _, b := range theCtx.GB(fn) {
				for _, ins := range b.Instrs {
					if isCallTo(ins, readOp) || isCallTo(ins, apply) {
						n++
						if !(guardB == b || theCtx.Dom(guardB, b)) {
							ok = false
						}
					}
				}
			}
		}
		pos := c.Pos(fn.Pos())
		if iffG != nil {
			pos = c.InstrPos(iffG)
		}
		r.Check(ok && n >= 2, rule, "decompress-window-guard:"+FnName(fn), pos, "every readOp/apply is dominated by Dict.Available() >= maxMatchLen (273)",
			"an operation can be decoded/applied without Dict.Available() >= 273 being established: a maximal match could overrun the window")
	}
	// ---- classic LZMA header ----
	if fn := c.Func("lzma", "header.unmarshalBinary"); fn != nil {
		o := newOb(c, r, rule, fn)
		data := roleParam(fn, "data")
		o.rel("lzma-header-length", roleLenOf(data), roleConst(13), token.NEQ, "classic LZMA header length != 13")
		fDC := c.Field("lzma", "header.dictCap")
		fSize := c.Field("lzma", "header.size")
		o.rel("lzma-header-dictcap-sign", roleFieldValue(c, fDC), roleConst(0), token.LSS, "dictionary size does not fit an int")
		o.rel("lzma-header-size-sign", roleFieldValue(c, fSize), roleConst(0), token.LSS, "uncompressed size > 2^63-1 (and not the all-ones 'unknown' value)")
		o.mustCheck("lzma-header-props", calleeIs(c.Func("lzma", "PropertiesForCode")), "properties byte validated by PropertiesForCode")
	}
	// ---- chunk header length tests ----
	if fn := c.Func("lzma", "chunkHeader.UnmarshalBinary"); fn != nil {
		o := newOb(c, r, rule, fn)
		data := roleParam(fn, "data")
		hl := roleCallTo(c.Func("lzma", "headerLen"))
		o.rel("chunkheader-empty", roleLenOf(data), roleConst(0), token.EQL, "empty chunk header")
		o.rel("chunkheader-short", roleLenOf(data), hl, token.LSS, "chunk header shorter than headerLen(type)")
		o.rel("chunkheader-long", roleLenOf(data), hl, token.GTR, "chunk header longer than headerLen(type)")
		o.mustCheck("chunkheader-type", calleeIs(c.Func("lzma", "headerChunkType")), "control byte validated by headerChunkType")
	}
	r.Floor(rule, 14)
}

// ruleReaderWindow: the decoder window is max(declared, configured[, 4096]) (C07, C03, C11).
func ruleReaderWindow(c *Ctx, r *Report, prefix string) {
	rule := prefix + "WR-WINDOW"
	// classic LZMA
	if fn := c.Func("lzma", "ReaderConfig.NewReader"); fn != nil {
		ndd := c.Func("lzma", "newDecoderDict")
		fHDC := c.Field("lzma", "header.dictCap")
		minDC, _ := namedConstInt(c, "lzma", "MinDictCap")
		okMax, okClamp := false, false
		for _, b := range theCtx.GB(fn) {
			for _, ins := range b.Instrs {
				if call, ok := callTo(ins, ndd); ok {
					arg := call.Call.Args[0]
					if lt, through := theCtx.lookThrough(arg); through {
						arg = lt
					}
					if hc, isCall := call.Call.Args[0].(*ssa.Call); isCall && !okMax {
						// a new helper that returns the larger of the two capacities
						if h := hc.Call.StaticCallee(); h != nil && theCtx.IsNew(h) {
							if x, y, isMax := returnsMax(h); isMax {
								fCfgDC := c.Field("lzma", "ReaderConfig.DictCap")
								if (fieldValueIs(x, fHDC) && fieldValueIs(y, fCfgDC)) || (fieldValueIs(y, fHDC) && fieldValueIs(x, fCfgDC)) {
									okMax = true
								}
							}
						}
					}
					if x, y, isMax := phiIsMax(arg); isMax {
						// one side is the header's (clamped) dictCap, the other the configured DictCap
						fCfgDC := c.Field("lzma", "ReaderConfig.DictCap")
						isCfg := func(v ssa.Value) bool {
							return isDictCapParamField(v, fn) || (fCfgDC != nil && isFieldLoadOf(stripConv(v), fCfgDC))
						}
						if (isFieldLoadOf(x, fHDC) && isCfg(y)) || (isFieldLoadOf(y, fHDC) && isCfg(x)) {
							okMax = true
						}
					}
				}
				if st, ok := storeToField(ins, fHDC); ok && fHDC != nil {
					if k, isK := constInt(st.Val); isK && k == minDC && minDC == 4096 {
						// on the true edge of h.dictCap < MinDictCap
						bb := st.Block()
						if len(bb.Preds) == 1 {
							p := bb.Preds[0]
							if iff, isIf := p.Instrs[len(p.Instrs)-1].(*ssa.If); isIf && p.Succs[0] == bb {
								if bo, isB := iff.Cond.(*ssa.BinOp); isB && bo.Op == token.LSS && isFieldLoadOf(bo.X, fHDC) {
									if kk, ok2 := constInt(bo.Y); ok2 && kk == 4096 {
										okClamp = true
									}
								}
							}
						}
					}
				}
			}
		}
		r.Check(okMax, rule, "lzma.NewReader:max", c.Pos(fn.Pos()), "decoder window = max(header dictionary size, ReaderConfig.DictCap)",
			"the window handed to newDecoderDict is not max(header dictionary size, configured DictCap): a valid stream whose distances exceed the smaller one fails, or a tiny declared size stalls the decoder")
		r.Check(okClamp, rule, "lzma.NewReader:min-4096", c.Pos(fn.Pos()), "header dictionary sizes below 4096 are raised to MinDictCap (4096)",
			"the declared dictionary size is no longer raised to MinDictCap = 4096: a window below 273 bytes makes decoder.decompress spin without progress")
	}
	// xz / LZMA2
	if fn := c.Func("", "lzmaFilter.reader"); fn != nil {
		fCfg := c.Field("lzma", "Reader2Config.DictCap")
		fRC := c.Field("", "ReaderConfig.DictCap")
		fFDC := c.Field("", "lzmaFilter.dictCap")
		okMax, okInit, okUse := false, false, false
		var cfgAlloc ssa.Value
		for _, b := range theCtx.GB(fn) {
			for _, ins := range b.Instrs {
				if st, ok := storeToField(ins, fCfg); ok {
					if isFieldLoadOf(st.Val, fRC) {
						okInit = true
						cfgAlloc = st.Addr.(*ssa.FieldAddr).X
					} else if storeIsMax(st, fCfg) {
						// the stored value is int(f.dictCap)
						sv := stripConv(st.Val) // int(f.dictCap), possibly delivered by a new helper
						if fl, isF := sv.(*ssa.Field); isF && fieldOfField(fl) == fFDC {
							okMax = true
						} else if isFieldLoadOf(sv, fFDC) {
							okMax = true
						}
					}
				}
				if call, ok := ins.(*ssa.Call); ok && call.Call.StaticCallee() != nil && call.Call.StaticCallee().Name() == "NewReader2" {
					// called on *config
					if u, isU := call.Call.Args[0].(*ssa.UnOp); isU && u.X == cfgAlloc {
						okUse = true
					}
				}
			}
		}
		if okInit && okUse && !okMax {
			// the same through TERM: on every path the DictCap of the configuration NewReader2 is
			// called on is the declared or the configured size, and the path condition orders it
			// above the other one (a helper returning max(a, b) from two returns reads like this)
			okMax = windowIsMaxByPaths(c, fn, "NewReader2")
		}
		r.Check(okInit && okMax && okUse, rule, "lzmaFilter.reader:max", c.Pos(fn.Pos()), "LZMA2 window = max(ReaderConfig.DictCap, declared dictionary size)",
			fmt.Sprintf("the LZMA2 reader's DictCap is not max(ReaderConfig.DictCap, declared size) (init from config=%v, max with declared=%v, used=%v)", okInit, okMax, okUse))
	}
}

func windowIsMaxByPaths(c *Ctx, fn *ssa.Function, ctor string) bool {
	type snap struct {
		val   string
		conds []string
	}
	var snaps []snap
	_, over := collectTermPaths(c, termSpec{Fn: fn, Event: func(env *termEnv, call *ssa.Call, callee *ssa.Function) (bool, string) {
		if callee == nil || callee.Name() != ctor {
			return false, ""
		}
		base := ""
		if u, ok := call.Call.Args[0].(*ssa.UnOp); ok && u.Op == token.MUL {
			base = env.path(u.X)
		}
		snaps = append(snaps, snap{env.s.mem[base+".DictCap"], append([]string(nil), env.s.conds...)})
		return true, ""
	}})
	if os.Getenv("XZV_TRACE") != "" {
		fmt.Printf("windowIsMaxByPaths over=%v snaps=%v\n", over, snaps)
	}
	if over || len(snaps) == 0 {
		return false
	}
	declared := func(t string) bool { return strings.Contains(t, ".dictCap") }
	configured := func(t string) bool { return strings.HasSuffix(t, ".DictCap") }
	for _, sn := range snaps {
		ok := false
		for _, cd := range sn.conds {
			if len(cd) < 2 || cd[0] != '(' {
				continue
			}
			parts := splitTerm(cd[1 : len(cd)-1])
			if len(parts) != 3 {
				continue
			}
			op, x, y := parts[0], parts[1], parts[2]
			var other string
			switch {
			case x == sn.val && (op == "gt" || op == "ge"):
				other = y
			case y == sn.val && (op == "lt" || op == "le"):
				other = x
			default:
				continue
			}
			if (declared(sn.val) && configured(other)) || (configured(sn.val) && declared(other)) {
				ok = true
			}
		}
		if !ok {
			return false
		}
	}
	return true
}

func isDictCapParamField(v ssa.Value, fn *ssa.Function) bool {
	v = stripConv(v)
	// c.DictCap where c is the (value) receiver: Field of parameter, or load of FieldAddr of its spill
	switch x := v.(type) {
	case *ssa.Field:
		return x.X == fn.Params[0] && refNameOf(fieldOfField(x)) == "DictCap"
	case *ssa.UnOp:
		if fa, ok := x.X.(*ssa.FieldAddr); ok {
			if f := fieldOfAddr(fa); f != nil && f.Name() == "DictCap" {
				// base: alloc holding the receiver
				if al, ok := fa.X.(*ssa.Alloc); ok {
					for _, ref := range *al.Referrers() {
						if st, ok := ref.(*ssa.Store); ok && st.Addr == al && st.Val == fn.Params[0] {
							return true
						}
					}
				}
			}
		}
	}
	return false
}

// returnsCallTo: every return of fn is the result of a call to callee (a plain forwarding getter).
func returnsCallTo(fn, callee *ssa.Function) bool {
	n := 0
	for _, b := range fn.Blocks {
		if len(b.Instrs) == 0 {
			continue
		}
		if ret, ok := b.Instrs[len(b.Instrs)-1].(*ssa.Return); ok {
			if len(ret.Results) != 1 {
				return false
			}
			cl, isC := stripConv(ret.Results[0]).(*ssa.Call)
			if !isC || cl.Call.StaticCallee() != callee {
				return false
			}
			n++
		}
	}
	return n > 0
}

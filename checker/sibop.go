package main

// SIB-OP — encoder / decoder agreement on the operation layer (TERM engine).
//
// encoder.writeLiteral / encoder.writeMatch and decoder.readOp / decoder.decodeLiteral are
// two implementations of one decision tree. For every decision sequence (isMatch, isRep,
// isRepG0, isRepG0Long, isRepG1, isRepG2) the rule extracts from each side, on every
// successful path:
//   * the probability model and the INDEX TERM of each coded bit (state vs state<<4|posState),
//   * the sub-codec calls (literal / length / rep-length / distance codec) with their CONTEXT
//     terms (posState, state, match byte, literal state, length state),
//   * the state-update function,
//   * the rep[0..3] contents at exit as terms over the initial contents and the distance,
//   * on the decoder side the returned operation (length and distance offsets).
// Decoder result names are substituted by the value the encoder passed to the mirrored
// codec call; terms are normal forms (TERM), so local names, helper extraction, statement
// order and if/switch form do not matter. Any difference means encoder and decoder apply
// different models to the same stream position: the round trip breaks for the inputs that
// reach that path (TM-REP pins the decoder side to the specification).

import (
	"regexp"
	"sort"
	"strconv"
	"strings"

	"golang.org/x/tools/go/ssa"
)

type opBit struct {
	model, idx string
	bit        int // -1 unknown
}

type opCodec struct {
	field string
	ctx   []string
	val   string // encoder: value term; decoder: result term
}

type opPath struct {
	key     string
	bits    []opBit
	codecs  []opCodec
	updates []string
	rep     [4]string
	conds   []string
	retN    string // decoder: returned length / literal byte
	retDist string
	pos     string
}

var reModel = regexp.MustCompile(`^&S\.(\w+)\[(.*)\]$`)
var reField = regexp.MustCompile(`^&S\.(\w+)$`)

// intFact: the value is known to be the constant k on the path.
func (p *PState) intFact(v ssa.Value) (int64, bool) {
	v = p.Resolve(v)
	if k, ok := constInt(v); ok {
		return k, true
	}
	f := p.facts[v]
	if f.hasLo && f.hasHi && f.lo == f.hi {
		return f.lo, true
	}
	return 0, false
}

func canonOpTerm(t string, allocs map[string]string) string {
	for k, v := range allocs {
		t = strings.ReplaceAll(t, "@"+k, v)
		t = strings.ReplaceAll(t, k, v)
	}
	t = strings.ReplaceAll(t, "(call encoderDict.ByteAt @D ", "(byteAt ")
	t = strings.ReplaceAll(t, "(call decoderDict.byteAt @D ", "(byteAt ")
	return t
}

func extractOpPaths(c *Ctx, fn *ssa.Function, rename [][2]string, decoder bool) (out []opPath, overflow bool) {
	paths, over := collectTermPaths(c, termSpec{Fn: fn, Rename: rename, MaxVisit: 6,
		// the rep distances and locals survive the sub-codec calls (who-may-write of state.rep is checked separately)
		KeepMem: func(path string) bool { return strings.HasPrefix(path, "S.rep[") || strings.HasPrefix(path, "alloc:") }})
	for _, tp := range paths {
		allocs := map[string]string{}
		for k, v := range tp.Mem {
			if strings.HasPrefix(k, "alloc:") && strings.HasPrefix(v, "$") && !strings.Contains(k, ".") {
				allocs[k] = v
			}
		}
		cn := func(t string) string { return canonOpTerm(t, allocs) }
		op := opPath{pos: c.Pos(fn.Pos())}
		var keys []string
		for _, ev := range tp.Events {
			if ev.Callee == nil {
				op.updates = append(op.updates, "?"+ev.Name)
				continue
			}
			name := ev.Callee.Name()
			switch {
			case (name == "Encode" || name == "Decode") && strings.HasPrefix(ev.Name, "prob."):
				m := reModel.FindStringSubmatch(cn(ev.Args[0]))
				if m == nil {
					op.bits = append(op.bits, opBit{model: "?" + ev.Args[0], bit: -1})
					continue
				}
				b := opBit{model: m[1], idx: m[2], bit: -1}
				if !decoder && len(ev.Args) >= 3 {
					if k, err := strconv.Atoi(ev.Args[2]); err == nil {
						b.bit = k
					} else if k, ok := tp.P.intFact(ev.Call.Call.Args[2]); ok {
						b.bit = int(k)
					} else if strings.HasPrefix(ev.Args[2], "(ite ") {
						// selection on a condition decided by the path
						ia := splitTerm(ev.Args[2][5 : len(ev.Args[2])-1])
						if len(ia) == 3 {
							for _, cd := range tp.Conds {
								if cd == ia[0] {
									b.bit, _ = strconv.Atoi(ia[1])
								} else if cd == simplify(negTerm(ia[0])) {
									b.bit, _ = strconv.Atoi(ia[2])
								}
							}
						}
					}
				}
				if decoder {
					if refs := ev.Call.Referrers(); refs != nil {
						for _, u := range *refs {
							if ex, ok := u.(*ssa.Extract); ok && ex.Index == 0 {
								if k, ok := tp.P.intFact(ex); ok {
									b.bit = int(k)
								} else if f, ok := tp.P.facts[tp.P.Resolve(ex)]; ok {
									// b != 0 for a bit means 1
									for _, ne := range f.neInts {
										if ne == 0 {
											b.bit = 1
										}
									}
								}
							}
						}
					}
				}
				op.bits = append(op.bits, b)
				keys = append(keys, b.model+"="+strconv.Itoa(b.bit))
			case name == "Encode" || name == "Decode":
				m := reField.FindStringSubmatch(cn(ev.Args[0]))
				f := "?" + ev.Args[0]
				if m != nil {
					f = m[1]
				}
				cd := opCodec{field: f}
				if decoder {
					for _, a := range ev.Args[2:] {
						cd.ctx = append(cd.ctx, cn(a))
					}
					cd.val = "(ext0 " + ev.Result + ")"
				} else {
					cd.val = cn(ev.Args[2])
					for _, a := range ev.Args[3:] {
						cd.ctx = append(cd.ctx, cn(a))
					}
				}
				op.codecs = append(op.codecs, cd)
			case strings.HasPrefix(name, "updateState"):
				op.updates = append(op.updates, name)
			case name == "decodeLiteral":
				op.codecs = append(op.codecs, opCodec{field: "@decodeLiteral"})
			default:
				op.updates = append(op.updates, "?"+ev.Name)
			}
		}
		op.key = strings.Join(keys, ",")
		for i := 0; i < 4; i++ {
			k := "S.rep[" + strconv.Itoa(i) + "]"
			if v, ok := tp.Mem[k]; ok {
				op.rep[i] = cn(v)
			} else {
				op.rep[i] = "@" + k
			}
		}
		for _, cd := range tp.Conds {
			op.conds = append(op.conds, cn(cd))
		}
		if decoder && len(tp.Rets) > 0 && strings.HasPrefix(tp.Rets[0], "@alloc:") {
			a := tp.Rets[0][1:]
			op.retN, op.retDist = cn(tp.Mem[a+".n"]), cn(tp.Mem[a+".distance"])
			if b, ok := tp.Mem[a+".b"]; ok {
				op.retN = cn(b)
			}
		}
		sort.Strings(op.updates)
		out = append(out, op)
	}
	return out, over
}

// substTerm replaces whole sub-terms (token-aligned) and re-normalises sums.
func substTerm(t string, sigma map[string]string) string {
	if len(sigma) == 0 {
		return t
	}
	var keys []string
	for k := range sigma {
		keys = append(keys, k)
	}
	sort.Slice(keys, func(i, j int) bool { return len(keys[i]) > len(keys[j]) })
	for _, k := range keys {
		t = replaceToken(t, k, sigma[k])
	}
	return normTerm(t)
}

func replaceToken(t, old, new string) string {
	var sb strings.Builder
	for i := 0; i < len(t); {
		if strings.HasPrefix(t[i:], old) {
			end := i + len(old)
			leftOK := i == 0 || t[i-1] == ' ' || t[i-1] == '(' || t[i-1] == '['
			rightOK := end == len(t) || t[end] == ' ' || t[end] == ')' || t[end] == ']'
			if leftOK && rightOK {
				sb.WriteString(new)
				i = end
				continue
			}
		}
		sb.WriteByte(t[i])
		i++
	}
	return sb.String()
}

// normTerm re-normalises nested sums after a substitution.
func normTerm(t string) string {
	if !strings.HasPrefix(t, "(") {
		return t
	}
	sp := strings.IndexByte(t, ' ')
	if sp < 0 {
		return t
	}
	op := t[1:sp]
	args := splitTerm(t[sp+1 : len(t)-1])
	for i := range args {
		args[i] = normTerm(args[i])
	}
	if op == "+" {
		acc := &sumTerm{t: map[string]int64{}}
		var add func(a string, sign int64)
		add = func(a string, sign int64) {
			if k, err := strconv.ParseInt(a, 10, 64); err == nil {
				acc.c += sign * k
				return
			}
			if strings.HasPrefix(a, "(neg ") {
				add(a[5:len(a)-1], -sign)
				return
			}
			if strings.HasPrefix(a, "(+ ") {
				for _, p := range splitTerm(a[3 : len(a)-1]) {
					add(p, sign)
				}
				return
			}
			acc.t[a] += sign
		}
		for _, a := range args {
			add(a, 1)
		}
		return acc.String()
	}
	if op == "and" || op == "or" || op == "xor" || op == "eq" || op == "ne" {
		sort.Strings(args)
	}
	return simplify("(" + op + " " + strings.Join(args, " ") + ")")
}

func ruleOpSiblings(c *Ctx, r *Report, prefix string) {
	rule := prefix + "SIB-OP"
	wl, wm := c.Func("lzma", "encoder.writeLiteral"), c.Func("lzma", "encoder.writeMatch")
	ro, dl := c.Func("lzma", "decoder.readOp"), c.Func("lzma", "decoder.decodeLiteral")
	if wl == nil || wm == nil || ro == nil || dl == nil {
		return
	}
	recvName := func(fn *ssa.Function) string { return fn.Params[0].Name() }
	encRen := func(fn *ssa.Function) [][2]string {
		n := recvName(fn)
		return [][2]string{{n + ".state", "S"}, {n + ".dict", "D"}}
	}
	decRen := func(fn *ssa.Function) [][2]string {
		n := recvName(fn)
		return [][2]string{{n + ".State", "S"}, {n + ".Dict", "D"}}
	}
	encL, o1 := extractOpPaths(c, wl, encRen(wl), false)
	encM, o2 := extractOpPaths(c, wm, encRen(wm), false)
	dec, o3 := extractOpPaths(c, ro, decRen(ro), true)
	decL, o4 := extractOpPaths(c, dl, decRen(dl), true)
	if o1 || o2 || o3 || o4 {
		r.Undecided(rule, "paths", c.Pos(ro.Pos()), "path budget exceeded while extracting the operation trees")
		return
	}
	if dl == ro {
		decL = nil // decodeLiteral was inlined into readOp: its codec call is already on the literal path
	} else if len(decL) != 1 {
		r.Undecided(rule, "decodeLiteral", c.Pos(dl.Pos()), "decoder.decodeLiteral is expected to have exactly one successful path, found "+itoa(len(decL)))
		return
	}
	// splice decodeLiteral into readOp's literal path
	for i := range dec {
		if decL == nil {
			break
		}
		var cs []opCodec
		for _, cd := range dec[i].codecs {
			if cd.field == "@decodeLiteral" {
				cs = append(cs, decL[0].codecs...)
				dec[i].retN = decL[0].retN
				dec[i].conds = append(dec[i].conds, decL[0].conds...)
				continue
			}
			cs = append(cs, cd)
		}
		dec[i].codecs = cs
	}
	// the symbolic store keeps state.rep across calls: only these functions may store to it
	if fRep := c.Field("lzma", "state.rep"); fRep != nil {
		allowed := map[*ssa.Function]bool{wm: true, ro: true}
		if dcp := c.Func("lzma", "state.deepcopy"); dcp != nil {
			allowed[dcp] = true
		}
		var extra []string
		for _, fn := range c.ModFuncs("lzma") {
			for _, b := range theCtx.GB(fn) {
				for _, ins := range b.Instrs {
					st, ok := ins.(*ssa.Store)
					if !ok {
						continue
					}
					a := st.Addr
					if ia, isIA := a.(*ssa.IndexAddr); isIA {
						a = ia.X
					}
					if fa, isFA := a.(*ssa.FieldAddr); isFA && fieldOfAddr(fa) == fRep && !allowed[fn] {
						// state.Reset may clear the distances in place (it used to do so by assigning the whole struct)
						if k, isK := st.Val.(*ssa.Const); isK && (k.Value == nil || k.Value.ExactString() == "0") && fn == c.funcQuiet("lzma", "state.Reset") {
							continue
						}
						extra = append(extra, FnName(fn))
					}
				}
			}
		}
		r.Check(len(extra) == 0, rule, "rep-writers", c.Pos(ro.Pos()), "state.rep is stored only by encoder.writeMatch, decoder.readOp and state.deepcopy",
			"state.rep is also stored by "+strings.Join(extra, ", ")+": the rep distances of encoder and decoder are no longer maintained by the operation coder alone")
	}
	encByKey := map[string][]opPath{}
	for _, e := range append(encL, encM...) {
		encByKey[e.key] = append(encByKey[e.key], e)
	}
	decByKey := map[string]opPath{}
	for _, d := range dec {
		if old, dup := decByKey[d.key]; dup && !sameOpPath(old, d) {
			r.Fail(rule, "decoder-ambiguous:"+d.key, d.pos, "decoder.readOp has two different successful paths for the decision sequence "+d.key)
		}
		decByKey[d.key] = d
	}
	var keys []string
	for k := range decByKey {
		keys = append(keys, k)
	}
	sort.Strings(keys)
	n := 0
	for _, k := range keys {
		d := decByKey[k]
		es := encByKey[k]
		if strings.Contains(k, "=-1") {
			r.Undecided(rule, "tree:"+k, d.pos, "a coded bit of decoder.readOp could not be resolved to 0/1 on this path")
			continue
		}
		if len(es) == 0 {
			r.Fail(rule, "tree:"+k, d.pos, "the decoder accepts the decision sequence "+k+" but no path of encoder.writeLiteral/writeMatch produces it")
			continue
		}
		for _, e := range es {
			if msg := compareOpPaths(e, d); msg != "" {
				r.Fail(rule, "tree:"+k, e.pos, "decision sequence "+k+": "+msg)
				n++
				goto next
			}
		}
		r.Pass(rule, "tree:"+k, d.pos, "bits, model indices, sub-codec contexts, state update, rep distances and returned operation agree ("+itoa(len(d.bits))+" bits, "+itoa(len(d.codecs))+" codec calls, "+itoa(len(es))+" encoder paths)", 1+len(d.bits)+len(d.codecs))
	next:
	}
	for k, es := range encByKey {
		if _, ok := decByKey[k]; !ok {
			r.Fail(rule, "tree:"+k, es[0].pos, "the encoder produces the decision sequence "+k+" which no successful path of decoder.readOp consumes")
		}
	}
	if len(keys) < 7 {
		r.Undecided(rule, "instances", c.Pos(ro.Pos()), "only "+itoa(len(keys))+" decision sequences extracted from decoder.readOp (7 in the LZMA operation tree)")
	}
}

func sameOpPath(a, b opPath) bool {
	return compareOpPaths(a, b) == "" && a.rep == b.rep
}

// compareOpPaths returns "" when encoder path e and decoder path d agree.
func compareOpPaths(e, d opPath) string {
	if len(e.bits) != len(d.bits) {
		return "different number of coded bits"
	}
	for i := range e.bits {
		if e.bits[i].model != d.bits[i].model || e.bits[i].bit != d.bits[i].bit {
			return "bit " + itoa(i) + ": encoder codes " + e.bits[i].model + "=" + itoa(e.bits[i].bit) + ", decoder " + d.bits[i].model + "=" + itoa(d.bits[i].bit)
		}
		if e.bits[i].idx != d.bits[i].idx {
			return "probability " + e.bits[i].model + " is indexed by " + e.bits[i].idx + " in the encoder and by " + d.bits[i].idx + " in the decoder"
		}
	}
	if len(e.codecs) != len(d.codecs) {
		return "different sub-codec calls (encoder " + itoa(len(e.codecs)) + ", decoder " + itoa(len(d.codecs)) + ")"
	}
	sigma := map[string]string{}
	for i := range e.codecs {
		ec, dc := e.codecs[i], d.codecs[i]
		if ec.field != dc.field {
			return "sub-codec " + itoa(i) + ": encoder uses " + ec.field + ", decoder " + dc.field
		}
		if len(ec.ctx) != len(dc.ctx) {
			return "sub-codec " + ec.field + ": different number of context arguments"
		}
		for j := range ec.ctx {
			dt := substTerm(dc.ctx[j], sigma)
			if normTerm(ec.ctx[j]) != dt {
				return "sub-codec " + ec.field + " context argument " + itoa(j) + ": encoder passes " + ec.ctx[j] + ", decoder " + dt
			}
		}
		sigma[dc.val] = ec.val
	}
	if strings.Join(e.updates, "+") != strings.Join(d.updates, "+") {
		return "state update: encoder " + strings.Join(e.updates, "+") + ", decoder " + strings.Join(d.updates, "+")
	}
	// encoder equalities X == @S.rep[g] let X be read as the old rep value
	eqs := map[string]string{}
	inv := map[string]string{}
	for _, cd := range e.conds {
		if strings.HasPrefix(cd, "(eq ") {
			as := splitTerm(cd[4 : len(cd)-1])
			if len(as) == 2 {
				for i := 0; i < 2; i++ {
					if strings.HasPrefix(as[i], "@S.rep[") {
						eqs[as[1-i]] = as[i]
						inv[as[i]] = as[1-i]
					}
				}
			}
		}
	}
	for i := 0; i < 4; i++ {
		et := substTerm(e.rep[i], eqs)
		if et == e.rep[i] {
			et = normTerm(et)
		}
		dt := substTerm(d.rep[i], sigma)
		dt = substTerm(dt, eqs)
		if dt == "" {
			dt = normTerm(d.rep[i])
		}
		if et != dt {
			return "rep[" + itoa(i) + "] after the operation: encoder " + et + ", decoder " + dt
		}
	}
	// returned operation of the decoder = the operation the encoder was given
	if d.retDist != "" {
		dist := substTerm(substTerm(d.retDist, sigma), inv)
		if dist != "$m.distance" {
			return "the decoder returns distance " + dist + " for the encoder's $m.distance"
		}
		n := substTerm(d.retN, sigma)
		okN := n == "$m.n"
		if !okN {
			// short rep: constant length, encoder path condition n == const
			for _, cd := range e.conds {
				if cd == "(eq "+n+" $m.n)" || cd == "(eq $m.n "+n+")" {
					okN = true
				}
			}
		}
		if !okN {
			return "the decoder returns length " + n + " for the encoder's $m.n"
		}
	} else if d.retN != "" {
		if b := substTerm(d.retN, sigma); b != "$l.b" {
			return "the decoder returns literal " + b + " for the encoder's $l.b"
		}
	}
	return ""
}

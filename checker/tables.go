package main

// CE-based rules: the tables the source encodes vs. the tables of the format
// specification (DESIGN §3.2, Appendix B). The oracle side is frozen here, written from
// xz-file-format-1.0.4 §§2-5, the LZMA SDK's lzma-specification.txt and liblzma's
// lzma2_decoder.c (chunk automaton) — never derived from the code under analysis.

import (
	"fmt"
	"go/token"
	"go/types"
	"strings"

	"golang.org/x/tools/go/ssa"
)

// ---------- dictionary size code (C18, C02, C03) ----------

func specDictCap(code int) int64 {
	if code == 40 {
		return 1<<32 - 1
	}
	return (2 | int64(code)&1) << (uint(code)/2 + 11)
}

type dictTables struct {
	decOK  [256]bool
	decVal [256]int64
	done   bool
}

func ruleDictCapDecode(c *Ctx, r *Report, prefix string) *dictTables {
	rule := prefix + "CE-DICT-DEC"
	t := &dictTables{}
	dec := c.Func("lzma", "DecodeDictCap")
	if dec == nil {
		return t
	}
	u8 := types.Typ[types.Uint8]
	accepted, bad := 0, 0
	for code := 0; code < 256; code++ {
		in := NewInterp(c)
		res := in.Call(dec, []aval{aInt(int64(code), u8)})
		key := fmt.Sprintf("DecodeDictCap(%d)", code)
		if !res.OK || res.Panicked || len(res.Rets) != 2 {
			r.Undecided(rule, key, c.Pos(dec.Pos()), "cannot evaluate: "+in.Undecided)
			bad++
			continue
		}
		v, isInt := res.Rets[0].Int()
		ok := isNilErr(res.Rets[1]) && isInt
		t.decOK[code], t.decVal[code] = ok, v
		if code <= 40 {
			if !ok {
				r.Fail(rule, key, c.Pos(dec.Pos()), fmt.Sprintf("code %d must be accepted (specified size %d) but is rejected", code, specDictCap(code)))
				bad++
			} else if v != specDictCap(code) {
				r.Fail(rule, key, c.Pos(dec.Pos()), fmt.Sprintf("code %d decodes to %d, the format specifies %d", code, v, specDictCap(code)))
				bad++
			} else {
				accepted++
			}
		} else if ok || !isSomeErr(res.Rets[1]) {
			r.Fail(rule, key, c.Pos(dec.Pos()), fmt.Sprintf("code %d is outside 0..40 and must be rejected, but decodes to %d", code, v))
			bad++
		}
	}
	t.done = true
	if bad == 0 {
		r.Pass(rule, "DecodeDictCap:all-256-codes", c.Pos(dec.Pos()),
			"accepts exactly 0..40 with the 41 specified sizes (4 KiB .. 4 GiB-1, strictly increasing), rejects 41..255", 256)
	}
	return t
}

func ruleDictCapEncode(c *Ctx, r *Report, prefix string) {
	rule := prefix + "CE-DICT-ENC"
	enc := c.Func("lzma", "EncodeDictCap")
	dcf := c.funcQuiet("lzma", "decodeDictCap")
	if enc == nil {
		return
	}
	// thresholds: the specification's sizes plus whatever the code's own table function yields
	set := map[int64]bool{}
	for code := 0; code <= 40; code++ {
		set[specDictCap(code)] = true
	}
	if dcf != nil {
		for code := 0; code < 256; code++ {
			in := NewInterp(c)
			res := in.Call(dcf, []aval{aInt(int64(code), types.Typ[types.Uint8])})
			if res.OK && len(res.Rets) == 1 {
				if v, ok := res.Rets[0].Int(); ok {
					set[v] = true
				}
			}
		}
	}
	var th []int64
	for v := range set {
		th = append(th, v)
	}
	sortInt64(th)
	// expected: least code whose specified size >= n
	expect := func(reg int) (int, bool) {
		// region reg: odd => n == th[(reg-1)/2]; even => th[reg/2-1] < n < th[reg/2]
		var lo, hi int64 // n in (lo,hi) exclusive, or n == lo == hi
		if reg%2 == 1 {
			lo = th[(reg-1)/2]
			hi = lo
		} else {
			if reg/2-1 >= 0 {
				lo = th[reg/2-1]
			} else {
				lo = -1 << 62
			}
			if reg/2 < len(th) {
				hi = th[reg/2]
			} else {
				hi = 1 << 62
			}
			if hi-lo < 2 {
				return 0, false // empty open interval
			}
		}
		rep := lo
		if reg%2 == 0 {
			rep = lo + 1
			if lo == -1<<62 {
				rep = hi - 1
			}
		}
		if rep > specDictCap(40) {
			return 0, false // outside the property's domain
		}
		for code := 0; code <= 40; code++ {
			if specDictCap(code) >= rep {
				return code, true
			}
		}
		return 0, false
	}
	i64 := types.Typ[types.Int64]
	bad, n := 0, 0
	for reg := 0; reg <= 2*len(th); reg++ {
		want, ok := expect(reg)
		if !ok {
			continue
		}
		n++
		in := NewInterp(c)
		in.Thresholds = th
		res := in.Call(enc, []aval{aOrd(reg, i64)})
		desc := regionDesc(th, reg)
		key := "EncodeDictCap(" + desc + ")"
		if !res.OK || res.Panicked || len(res.Rets) != 1 {
			r.Undecided(rule, key, c.Pos(enc.Pos()), "cannot evaluate for "+desc+": "+in.Undecided+
				" (the capacity must only be compared with representable sizes)")
			bad++
			continue
		}
		got, _ := res.Rets[0].Int()
		if int(got) != want {
			r.Fail(rule, key, c.Pos(enc.Pos()), fmt.Sprintf("for capacities %s the code is %d (size %d); the smallest representable size >= n has code %d (size %d)",
				desc, got, specDictCap(int(got)&0xff%41), want, specDictCap(want)))
			bad++
		}
	}
	if bad == 0 {
		r.Pass(rule, "EncodeDictCap:all-order-regions", c.Pos(enc.Pos()),
			fmt.Sprintf("for every capacity 1..2^32-1 (covered exactly by %d order regions around the representable sizes; n is only compared) the result is the least code whose size >= n", n), n)
	}
}

func regionDesc(th []int64, reg int) string {
	if reg%2 == 1 {
		return fmt.Sprintf("n == %d", th[(reg-1)/2])
	}
	switch {
	case reg == 0:
		return fmt.Sprintf("n < %d", th[0])
	case reg/2 >= len(th):
		return fmt.Sprintf("n > %d", th[len(th)-1])
	}
	return fmt.Sprintf("%d < n < %d", th[reg/2-1], th[reg/2])
}

func sortInt64(a []int64) {
	for i := 1; i < len(a); i++ {
		for j := i; j > 0 && a[j] < a[j-1]; j-- {
			a[j], a[j-1] = a[j-1], a[j]
		}
	}
}

// ---------- LZMA2 chunk header byte and chunk automaton (C16, C03, C02, C08) ----------

// chunk kinds in the specification's terms
const (
	kEnd = iota
	kRawReset
	kRaw
	kLZMA
	kLZMAState
	kLZMAProps
	kLZMAAll
	nKinds
)

var kindNames = [...]string{"end", "raw+dict-reset", "raw", "LZMA", "LZMA+state-reset", "LZMA+new-props", "LZMA+dict-reset"}

// specControl: kind of a control byte, -1 = invalid (xz-file-format / LZMA2 description).
func specControl(b int) int {
	switch {
	case b == 0:
		return kEnd
	case b == 1:
		return kRawReset
	case b == 2:
		return kRaw
	case b < 0x80:
		return -1
	}
	return kLZMA + (b>>5)&3
}

var specHeaderLen = [...]int{1, 3, 3, 5, 5, 6, 6}

// chunkConsts resolves the seven chunkType constants by name and maps them to kinds.
func chunkConsts(c *Ctx) (vals [nKinds]int64, typ types.Type, ok bool) {
	names := [...]string{"cEOS", "cUD", "cU", "cL", "cLR", "cLRN", "cLRND"}
	ok = true
	for i, n := range names {
		k := c.Const("lzma", n)
		if k == nil {
			ok = false
			continue
		}
		v, _ := constInt(k.Value)
		vals[i] = v
		typ = k.Type()
	}
	return
}

type chunkTables struct {
	ok       bool
	kindOf   map[int64]int        // chunkType value -> kind
	next     map[byte]map[int]int // state -> kind -> next state (or -1 reject)
	states   []byte
	deflt    map[byte]int // state -> default kind
	startSt  byte
	stopSt   byte
	ctypeTyp types.Type
	vals     [nKinds]int64
}

func getChunkTables(c *Ctx, r *Report, prefix string) *chunkTables {
	rule := prefix + "CE-CHUNK"
	t := &chunkTables{kindOf: map[int64]int{}, next: map[byte]map[int]int{}, deflt: map[byte]int{}}
	vals, ctT, ok := chunkConsts(c)
	if !ok {
		return t
	}
	t.vals, t.ctypeTyp = vals, ctT
	for k, v := range vals {
		t.kindOf[v] = k
	}
	if len(t.kindOf) != nKinds {
		r.Fail(rule, "chunkType-constants", "", "the seven chunk type constants are not distinct")
		return t
	}
	startC, stopC := c.Const("lzma", "start"), c.Const("lzma", "stop")
	next := c.Func("lzma", "chunkState.next")
	dflt := c.Func("lzma", "chunkState.defaultChunkType")
	if startC == nil || stopC == nil || next == nil || dflt == nil {
		return t
	}
	sv, _ := constInt(startC.Value)
	tv, _ := constInt(stopC.Value)
	t.startSt, t.stopSt = byte(sv), byte(tv)
	csT := startC.Type()
	// explore reachable states from start
	work := []byte{t.startSt}
	seen := map[byte]bool{t.startSt: true}
	for len(work) > 0 {
		s := work[0]
		work = work[1:]
		t.states = append(t.states, s)
		t.next[s] = map[int]int{}
		for k := 0; k < nKinds; k++ {
			in := NewInterp(c)
			pv, cl := ptrTo(aInt(int64(s), csT))
			res := in.Call(next, []aval{pv, aInt(vals[k], ctT)})
			if !res.OK || res.Panicked || len(res.Rets) != 1 {
				r.Undecided(rule, fmt.Sprintf("next(%c,%s)", s, kindNames[k]), c.Pos(next.Pos()), "cannot evaluate: "+in.Undecided)
				return t
			}
			if isNilErr(res.Rets[0]) {
				ns, _ := cl.v.Int()
				t.next[s][k] = int(ns)
				if !seen[byte(ns)] {
					seen[byte(ns)] = true
					work = append(work, byte(ns))
				}
			} else {
				t.next[s][k] = -1
			}
		}
		in := NewInterp(c)
		res := in.Call(dflt, []aval{aInt(int64(s), csT)})
		if !res.OK || len(res.Rets) != 1 {
			r.Undecided(rule, fmt.Sprintf("defaultChunkType(%c)", s), c.Pos(dflt.Pos()), "cannot evaluate: "+in.Undecided)
			return t
		}
		dv, _ := res.Rets[0].Int()
		k, known := t.kindOf[dv]
		if !known {
			r.Fail(rule, fmt.Sprintf("defaultChunkType(%c)", s), c.Pos(dflt.Pos()), fmt.Sprintf("returns %d which is not a chunk type", dv))
			return t
		}
		t.deflt[s] = k
	}
	t.ok = true
	return t
}

// spec automaton state
type specState struct{ needDict, needProps, ended bool }

func specNext(s specState, k int) (specState, bool) {
	if s.ended {
		return s, false
	}
	switch k {
	case kEnd:
		s.ended = true
		return s, true
	case kRawReset:
		return specState{false, true, false}, true
	case kLZMAAll:
		return specState{false, false, false}, true
	}
	if s.needDict {
		return s, false
	}
	switch k {
	case kRaw:
		return s, true
	case kLZMAProps:
		s.needProps = false
		return s, true
	case kLZMA, kLZMAState:
		if s.needProps {
			return s, false
		}
		return s, true
	}
	return s, false
}

// ruleChunkAutomaton checks language equivalence of chunkState.next with the
// specification automaton. mode: "equal" (C16), "complete" (never rejects a legal
// sequence: C03).
func ruleChunkAutomaton(c *Ctx, r *Report, t *chunkTables, prefix, mode string) {
	rule := prefix + "CE-CHUNK-AUTOMATON"
	if !t.ok {
		return
	}
	next := c.Func("lzma", "chunkState.next")
	type pair struct {
		cs byte
		ss specState
	}
	start := pair{t.startSt, specState{true, true, false}}
	seen := map[pair]bool{start: true}
	paths := map[pair][]string{start: nil}
	work := []pair{start}
	bad, edges := 0, 0
	for len(work) > 0 {
		p := work[0]
		work = work[1:]
		for k := 0; k < nKinds; k++ {
			edges++
			cn := t.next[p.cs][k]
			sn, sok := specNext(p.ss, k)
			seq := append(append([]string(nil), paths[p]...), kindNames[k])
			cok := cn >= 0
			if cok && !sok && mode == "equal" {
				r.Fail(rule, fmt.Sprintf("accepts-illegal:%s", strings.Join(seq, ",")), c.Pos(next.Pos()),
					fmt.Sprintf("in chunk state %q the code accepts a %s chunk after [%s]; the format forbids it (needs dict reset=%v, needs properties=%v, ended=%v)",
						string(p.cs), kindNames[k], strings.Join(paths[p], ","), p.ss.needDict, p.ss.needProps, p.ss.ended))
				bad++
				continue
			}
			if !cok && sok {
				r.Fail(rule, fmt.Sprintf("rejects-legal:%s", strings.Join(seq, ",")), c.Pos(next.Pos()),
					fmt.Sprintf("in chunk state %q the code rejects a %s chunk after [%s]; the format allows it", string(p.cs), kindNames[k], strings.Join(paths[p], ",")))
				bad++
				continue
			}
			if cok && sok {
				np := pair{byte(cn), sn}
				if !seen[np] {
					seen[np] = true
					paths[np] = seq
					work = append(work, np)
				}
			}
		}
	}
	// the terminal state must be the one Reader2/Writer2 test for
	if bad == 0 {
		msg := "chunkState.next is language-equivalent to the specification's chunk automaton (product construction over all reachable state pairs)"
		if mode == "complete" {
			msg = "chunkState.next rejects no chunk sequence the specification allows"
		}
		r.Pass(rule, "product:"+mode, c.Pos(next.Pos()), msg, edges)
	}
	// end chunk leads to the state named `stop`
	for _, s := range t.states {
		if n := t.next[s][kEnd]; n >= 0 && byte(n) != t.stopSt {
			r.Fail(rule, fmt.Sprintf("end-state:%c", s), c.Pos(next.Pos()), fmt.Sprintf("an end chunk in state %q leads to %q, but readers and writers test for `stop` (%q)", string(s), string(byte(n)), string(t.stopSt)))
		}
	}
}

// ruleWriterChunkLegality: the writer only emits legal sequences: for every reachable
// state s, default(s) and its raw fallback are accepted in s (C02, C08, C16).
func ruleWriterChunkLegality(c *Ctx, r *Report, t *chunkTables, prefix string) {
	rule := prefix + "CE-CHUNK-WRITER"
	if !t.ok {
		return
	}
	dflt := c.Func("lzma", "chunkState.defaultChunkType")
	// walk spec + code jointly over what the writer can emit: default(s) or raw(default(s))
	type pair struct {
		cs byte
		ss specState
	}
	start := pair{t.startSt, specState{true, true, false}}
	seen := map[pair]bool{start: true}
	work := []pair{start}
	n, bad := 0, 0
	for len(work) > 0 {
		p := work[0]
		work = work[1:]
		if p.cs == t.stopSt {
			continue
		}
		d := t.deflt[p.cs]
		raw := kRaw
		if d == kLZMAAll {
			raw = kRawReset
		}
		if d < kLZMA {
			r.Fail(rule, fmt.Sprintf("default(%c)", p.cs), c.Pos(dflt.Pos()), fmt.Sprintf("the default chunk type in state %q is %s; the writer compresses into it, so it must be an LZMA chunk type", string(p.cs), kindNames[d]))
			bad++
			continue
		}
		for _, k := range []int{d, raw, kEnd} {
			n++
			sn, sok := specNext(p.ss, k)
			cn := t.next[p.cs][k]
			if !sok || cn < 0 {
				r.Fail(rule, fmt.Sprintf("emit(%c,%s)", p.cs, kindNames[k]), c.Pos(dflt.Pos()),
					fmt.Sprintf("in writer state %q the writer may emit a %s chunk (default type or its raw fallback), which is illegal there (format: %v, chunkState.next: %v)", string(p.cs), kindNames[k], sok, cn >= 0))
				bad++
				continue
			}
			np := pair{byte(cn), sn}
			if !seen[np] {
				seen[np] = true
				work = append(work, np)
			}
		}
	}
	if bad == 0 {
		r.Pass(rule, "emitted-sequences-legal", c.Pos(dflt.Pos()), "every chunk the writer can emit (default type of the state, its raw fallback, or the end chunk) is legal in every reachable writer state", n)
	}
}

// ruleControlByte: headerChunkType over all 256 bytes, headerLen, and MarshalBinary as
// right inverse.
func ruleControlByte(c *Ctx, r *Report, t *chunkTables, prefix string, wantReject bool) {
	rule := prefix + "CE-CTRL"
	if !t.ok {
		return
	}
	hct := c.Func("lzma", "headerChunkType")
	hl := c.Func("lzma", "headerLen")
	if hct == nil || hl == nil {
		return
	}
	u8 := types.Typ[types.Uint8]
	bad := 0
	for b := 0; b < 256; b++ {
		in := NewInterp(c)
		res := in.Call(hct, []aval{aInt(int64(b), u8)})
		key := fmt.Sprintf("headerChunkType(0x%02x)", b)
		if !res.OK || res.Panicked || len(res.Rets) != 2 {
			r.Undecided(rule, key, c.Pos(hct.Pos()), "cannot evaluate: "+in.Undecided)
			bad++
			continue
		}
		want := specControl(b)
		accepted := isNilErr(res.Rets[1])
		if want < 0 {
			if accepted && wantReject {
				r.Fail(rule, key, c.Pos(hct.Pos()), fmt.Sprintf("control byte 0x%02x is invalid in LZMA2 but is accepted", b))
				bad++
			}
			continue
		}
		if !accepted {
			r.Fail(rule, key, c.Pos(hct.Pos()), fmt.Sprintf("control byte 0x%02x (%s) is valid but rejected", b, kindNames[want]))
			bad++
			continue
		}
		got, _ := res.Rets[0].Int()
		if k, ok := t.kindOf[got]; !ok || k != want {
			r.Fail(rule, key, c.Pos(hct.Pos()), fmt.Sprintf("control byte 0x%02x is a %s chunk but is classified as chunk type %d", b, kindNames[want], got))
			bad++
		}
	}
	if bad == 0 {
		msg := "all 256 control bytes classified as the format specifies"
		if wantReject {
			msg += "; 0x03-0x7F rejected"
		}
		r.Pass(rule, "headerChunkType:256", c.Pos(hct.Pos()), msg, 256)
	}
	bad = 0
	for k := 0; k < nKinds; k++ {
		in := NewInterp(c)
		res := in.Call(hl, []aval{aInt(t.vals[k], t.ctypeTyp)})
		key := fmt.Sprintf("headerLen(%s)", kindNames[k])
		if !res.OK || res.Panicked || len(res.Rets) != 1 {
			r.Undecided(rule, key, c.Pos(hl.Pos()), "cannot evaluate: "+in.Undecided)
			bad++
			continue
		}
		if got, _ := res.Rets[0].Int(); int(got) != specHeaderLen[k] {
			r.Fail(rule, key, c.Pos(hl.Pos()), fmt.Sprintf("header length of a %s chunk is %d, the format says %d", kindNames[k], got, specHeaderLen[k]))
			bad++
		}
	}
	if bad == 0 {
		r.Pass(rule, "headerLen:7", c.Pos(hl.Pos()), "header lengths 1,3,3,5,5,6,6", 7)
	}
}

// ruleChunkHeaderCodec: chunkHeader.MarshalBinary / UnmarshalBinary field layout for
// boundary values of the size fields, all 7 kinds (C02, C03, C16).
func ruleChunkHeaderCodec(c *Ctx, r *Report, t *chunkTables, prefix string) {
	rule := prefix + "CE-CHUNKHDR"
	if !t.ok {
		return
	}
	mar := c.Func("lzma", "chunkHeader.MarshalBinary")
	unm := c.Func("lzma", "chunkHeader.UnmarshalBinary")
	chT := c.Type("lzma", "chunkHeader")
	prT := c.Type("lzma", "Properties")
	if mar == nil || unm == nil || chT == nil || prT == nil {
		return
	}
	fi := func(n string) int { return fieldIndex(chT, n) }
	pi := func(n string) int { return fieldIndex(prT, n) }
	if fi("ctype") < 0 || fi("uncompressed") < 0 || fi("compressed") < 0 || fi("props") < 0 || pi("LC") < 0 || pi("LP") < 0 || pi("PB") < 0 {
		c.miss("fields of lzma.chunkHeader / lzma.Properties")
		return
	}
	u32, u16, it := types.Typ[types.Uint32], types.Typ[types.Uint16], types.Typ[types.Int]
	controls := [...]int{0x00, 0x01, 0x02, 0x80, 0xA0, 0xC0, 0xE0}
	uncs := []int64{0, 1, 0xff, 0x100, 0xffff, 0x10000, 0x1abcd, 0x1fffff}
	comps := []int64{0, 1, 0xff, 0x100, 0xabcd, 0xffff}
	type propsT struct{ lc, lp, pb int64 }
	propsL := []propsT{{3, 0, 2}, {0, 0, 0}, {4, 0, 4}, {0, 4, 0}, {1, 2, 3}}
	n, bad := 0, 0
	for k := 0; k < nKinds; k++ {
		for _, u := range uncs {
			if k <= kRaw && u > 0xffff {
				continue
			}
			for _, cp := range comps {
				for _, pr := range propsL {
					if k == kEnd && (u != 0 || cp != 0) {
						continue
					}
					if k <= kRaw && cp != 0 {
						continue
					}
					if k < kLZMAProps && pr != propsL[0] {
						continue
					}
					n++
					// expected bytes per the format
					var want []int64
					switch {
					case k == kEnd:
						want = []int64{0}
					case k <= kRaw:
						want = []int64{int64(controls[k]), u >> 8 & 0xff, u & 0xff}
					default:
						want = []int64{int64(controls[k]) | u>>16&0x1f, u >> 8 & 0xff, u & 0xff, cp >> 8 & 0xff, cp & 0xff}
						if k >= kLZMAProps {
							want = append(want, (pr.pb*5+pr.lp)*9+pr.lc)
						}
					}
					hv := aval{k: kStruct, typ: chT, flds: map[int]aval{
						fi("ctype"):        aInt(t.vals[k], t.ctypeTyp),
						fi("uncompressed"): aInt(u, u32),
						fi("compressed"):   aInt(cp, u16),
						fi("props"): {k: kStruct, typ: prT, flds: map[int]aval{
							pi("LC"): aInt(pr.lc, it), pi("LP"): aInt(pr.lp, it), pi("PB"): aInt(pr.pb, it)}},
					}}
					in := NewInterp(c)
					cl := in.newCellOf(chT)
					in.storeCell(cl, hv, chT)
					res := in.Call(mar, []aval{{k: kPtr, cell: cl}})
					key := fmt.Sprintf("marshal(%s,u=%#x,c=%#x,%v)", kindNames[k], u, cp, pr)
					if !res.OK || res.Panicked || len(res.Rets) != 2 {
						r.Undecided(rule, key, c.Pos(mar.Pos()), "cannot evaluate: "+in.Undecided)
						bad++
						continue
					}
					got, okB := sliceBytes(res.Rets[0])
					if !isNilErr(res.Rets[1]) || !okB || !eqInt64s(got, want) {
						r.Fail(rule, key, c.Pos(mar.Pos()), fmt.Sprintf("chunk header for %s (uncompressed-1=%#x compressed-1=%#x props=%v) is marshalled as %x, the format requires %x", kindNames[k], u, cp, pr, got, want))
						bad++
						continue
					}
					// unmarshal must reproduce the fields
					in2 := NewInterp(c)
					cl2 := in2.newCellOf(chT)
					bs := make([]byte, len(want))
					for i, w := range want {
						bs[i] = byte(w)
					}
					res2 := in2.Call(unm, []aval{{k: kPtr, cell: cl2}, byteSlice(bs)})
					key2 := fmt.Sprintf("unmarshal(%x)", bs)
					if !res2.OK || res2.Panicked || len(res2.Rets) != 1 {
						r.Undecided(rule, key2, c.Pos(unm.Pos()), "cannot evaluate: "+in2.Undecided)
						bad++
						continue
					}
					back := in2.loadCell(cl2, chT)
					ct, _ := back.flds[fi("ctype")].Int()
					bu, _ := back.flds[fi("uncompressed")].Int()
					bc, _ := back.flds[fi("compressed")].Int()
					okAll := isNilErr(res2.Rets[0]) && ct == t.vals[k] && (k == kEnd || bu == u) && (k <= kRaw || bc == cp)
					if k >= kLZMAProps {
						bp := back.flds[fi("props")]
						lc, _ := bp.flds[pi("LC")].Int()
						lp, _ := bp.flds[pi("LP")].Int()
						pb, _ := bp.flds[pi("PB")].Int()
						okAll = okAll && lc == pr.lc && lp == pr.lp && pb == pr.pb
					}
					if !okAll {
						r.Fail(rule, key2, c.Pos(unm.Pos()), fmt.Sprintf("header bytes %x (%s, uncompressed-1=%#x, compressed-1=%#x, props=%v) are unmarshalled as %s", bs, kindNames[k], u, cp, pr, back))
						bad++
					}
				}
			}
		}
	}
	if bad == 0 {
		r.Pass(rule, "chunkHeader-codec", c.Pos(mar.Pos()),
			"MarshalBinary produces the format's layout (size-1 big-endian in bytes 1-2, bits 16-20 in the control byte, compressed size-1 in bytes 3-4, properties byte 5) for boundary values of every field and all 7 chunk kinds; UnmarshalBinary is its inverse", n)
	}
}

func eqInt64s(a, b []int64) bool {
	if len(a) != len(b) {
		return false
	}
	for i := range a {
		if a[i] != b[i] {
			return false
		}
	}
	return true
}

// ---------- LZMA coder state machine (C02, C03, C07) ----------

var specLit = [12]int64{0, 0, 0, 0, 1, 2, 3, 4, 5, 6, 4, 5}

func specAfter(s int64, lt, ge int64) int64 {
	if s < 7 {
		return lt
	}
	return ge
}

func ruleCoderStates(c *Ctx, r *Report, prefix string) {
	rule := prefix + "CE-STATE"
	stT := c.Type("lzma", "state")
	if stT == nil {
		return
	}
	fidx := fieldIndex(stT, "state")
	if fidx < 0 {
		c.miss("field lzma.state.state")
		return
	}
	if k := c.Const("lzma", "states"); k != nil {
		if v, _ := constInt(k.Value); v != 12 {
			r.Fail(rule, "states", "", fmt.Sprintf("the LZMA state machine has 12 states; `states` is %d", v))
		}
	}
	type tf struct {
		name string
		want func(s int64) int64
	}
	fs := []tf{
		{"updateStateLiteral", func(s int64) int64 { return specLit[s] }},
		{"updateStateMatch", func(s int64) int64 { return specAfter(s, 7, 10) }},
		{"updateStateRep", func(s int64) int64 { return specAfter(s, 8, 11) }},
		{"updateStateShortRep", func(s int64) int64 { return specAfter(s, 9, 11) }},
	}
	for _, f := range fs {
		fn := c.Func("lzma", "state."+f.name)
		if fn == nil {
			continue
		}
		bad := 0
		for s := int64(0); s < 12; s++ {
			in := NewInterp(c)
			cl := &cell{}
			cl.field(fidx).v = aInt(s, types.Typ[types.Uint32])
			res := in.Call(fn, []aval{{k: kPtr, cell: cl}})
			key := fmt.Sprintf("%s(%d)", f.name, s)
			if !res.OK || res.Panicked {
				r.Undecided(rule, key, c.Pos(fn.Pos()), "cannot evaluate: "+in.Undecided)
				bad++
				continue
			}
			got, ok := cl.field(fidx).v.Int()
			if !ok || got != f.want(s) {
				r.Fail(rule, key, c.Pos(fn.Pos()), fmt.Sprintf("%s maps state %d to %d; the LZMA specification says %d", f.name, s, got, f.want(s)))
				bad++
			}
		}
		if bad == 0 {
			r.Pass(rule, f.name+":12", c.Pos(fn.Pos()), "state transition row equals the LZMA specification for all 12 states", 12)
		}
	}
}

// ---------- probability model (C02, C03, C07) ----------

func ruleProbModel(c *Ctx, r *Report, prefix string) {
	rule := prefix + "CE-PROB"
	inc, dec := c.Func("lzma", "prob.inc"), c.Func("lzma", "prob.dec")
	bound := c.Func("lzma", "prob.bound")
	probT := c.Type("lzma", "prob")
	if inc == nil || dec == nil || bound == nil || probT == nil {
		return
	}
	// exhaustive over all 2^11 probability values that can occur (1..2047; 0 and 2048 included)
	for _, f := range []struct {
		fn   *ssa.Function
		name string
		want func(p int64) int64
	}{
		{inc, "inc", func(p int64) int64 { return (p + ((1<<11)-p)>>5) & 0xffff }},
		{dec, "dec", func(p int64) int64 { return (p - p>>5) & 0xffff }},
	} {
		bad := 0
		for p := int64(0); p <= 2048; p++ {
			in := NewInterp(c)
			pv, cl := ptrTo(aInt(p, probT))
			res := in.Call(f.fn, []aval{pv})
			if !res.OK || res.Panicked {
				r.Undecided(rule, fmt.Sprintf("prob.%s(%d)", f.name, p), c.Pos(f.fn.Pos()), "cannot evaluate: "+in.Undecided)
				bad++
				break
			}
			got, _ := cl.v.Int()
			if got != f.want(p) {
				r.Fail(rule, fmt.Sprintf("prob.%s(%d)", f.name, p), c.Pos(f.fn.Pos()),
					fmt.Sprintf("probability update %s(%d) = %d; the LZMA specification (11 model bits, 5 move bits) gives %d", f.name, p, got, f.want(p)))
				bad++
				break
			}
		}
		if bad == 0 {
			r.Pass(rule, "prob."+f.name+":0..2048", c.Pos(f.fn.Pos()), "probability update equals the specification for every probability value", 2049)
		}
	}
	// bound(r) = (r >> 11) * p : checked on a grid of ranges that covers every bit position,
	// for boundary probabilities
	bad, n := 0, 0
	var ranges []int64
	for sh := uint(0); sh < 32; sh++ {
		ranges = append(ranges, 1<<sh, (1<<sh)-1, (1<<sh)|0x5a5a5a5a&((1<<sh)-1))
	}
	ranges = append(ranges, 0xffffffff, 0x01000000, 0x00ffffff)
	for _, p := range []int64{1, 31, 1024, 2017, 2047} {
		for _, rg := range ranges {
			rg &= 0xffffffff
			n++
			in := NewInterp(c)
			res := in.Call(bound, []aval{aInt(p, probT), aInt(rg, types.Typ[types.Uint32])})
			if !res.OK || res.Panicked || len(res.Rets) != 1 {
				r.Undecided(rule, "prob.bound", c.Pos(bound.Pos()), "cannot evaluate: "+in.Undecided)
				bad++
				break
			}
			got, _ := res.Rets[0].Int()
			want := ((rg >> 11) * p) & 0xffffffff
			if got != want {
				r.Fail(rule, "prob.bound", c.Pos(bound.Pos()), fmt.Sprintf("bound(range=%#x, p=%d) = %#x; the specification's (range >> 11) * p gives %#x", rg, p, got, want))
				bad++
				break
			}
		}
		if bad > 0 {
			break
		}
	}
	if bad == 0 {
		r.Pass(rule, "prob.bound", c.Pos(bound.Pos()), "bound = (range >> 11) * p on a bit-covering grid of ranges x boundary probabilities (the function is a single multiply-shift expression)", n)
	}
}

// ---------- properties byte (C06, C07, C03, C11) ----------

func rulePropsCode(c *Ctx, r *Report, prefix string) {
	rule := prefix + "CE-PROPS"
	pfc := c.Func("lzma", "PropertiesForCode")
	code := c.Func("lzma", "Properties.Code")
	prT := c.Type("lzma", "Properties")
	if pfc == nil || code == nil || prT == nil {
		return
	}
	lcI, lpI, pbI := fieldIndex(prT, "LC"), fieldIndex(prT, "LP"), fieldIndex(prT, "PB")
	if lcI < 0 || lpI < 0 || pbI < 0 {
		c.miss("fields of lzma.Properties")
		return
	}
	bad := 0
	for b := int64(0); b < 256; b++ {
		in := NewInterp(c)
		res := in.Call(pfc, []aval{aInt(b, types.Typ[types.Uint8])})
		key := fmt.Sprintf("PropertiesForCode(%d)", b)
		if !res.OK || res.Panicked || len(res.Rets) != 2 {
			r.Undecided(rule, key, c.Pos(pfc.Pos()), "cannot evaluate: "+in.Undecided)
			bad++
			continue
		}
		ok := isNilErr(res.Rets[1])
		if b > 224 {
			if ok {
				r.Fail(rule, key, c.Pos(pfc.Pos()), fmt.Sprintf("properties byte %d exceeds (4*5+4)*9+8 = 224 and must be rejected", b))
				bad++
			}
			continue
		}
		if !ok {
			r.Fail(rule, key, c.Pos(pfc.Pos()), fmt.Sprintf("valid properties byte %d is rejected", b))
			bad++
			continue
		}
		p := res.Rets[0]
		lc, _ := p.flds[lcI].Int()
		lp, _ := p.flds[lpI].Int()
		pb, _ := p.flds[pbI].Int()
		if lc != b%9 || lp != b/9%5 || pb != b/45 {
			r.Fail(rule, key, c.Pos(pfc.Pos()), fmt.Sprintf("properties byte %d decodes to lc=%d lp=%d pb=%d; the format says lc=%d lp=%d pb=%d", b, lc, lp, pb, b%9, b/9%5, b/45))
			bad++
			continue
		}
		in2 := NewInterp(c)
		res2 := in2.Call(code, []aval{p})
		if !res2.OK || len(res2.Rets) != 1 {
			r.Undecided(rule, fmt.Sprintf("Code(%d)", b), c.Pos(code.Pos()), "cannot evaluate: "+in2.Undecided)
			bad++
			continue
		}
		if got, _ := res2.Rets[0].Int(); got != b {
			r.Fail(rule, fmt.Sprintf("Code(%d)", b), c.Pos(code.Pos()), fmt.Sprintf("Properties{lc=%d,lp=%d,pb=%d}.Code() = %d, want (pb*5+lp)*9+lc = %d", lc, lp, pb, got, b))
			bad++
		}
	}
	if bad == 0 {
		r.Pass(rule, "props-byte:256", c.Pos(pfc.Pos()), "PropertiesForCode accepts exactly 0..224 with lc=b%9, lp=b/9%5, pb=b/45; Code is its inverse", 256+225)
	}
}

// ---------- xz container tables (C02, C03, C04) ----------

func rulePadLen(c *Ctx, r *Report, prefix string) {
	rule := prefix + "CE-PADLEN"
	fn := c.Func("", "padLen")
	if fn == nil {
		return
	}
	want := [4]int64{0, 3, 2, 1}
	bad := 0
	for n := int64(0); n < 64; n++ {
		in := NewInterp(c)
		res := in.Call(fn, []aval{aInt(n, types.Typ[types.Int64])})
		if !res.OK || res.Panicked || len(res.Rets) != 1 {
			r.Undecided(rule, fmt.Sprintf("padLen(%d)", n), c.Pos(fn.Pos()), "cannot evaluate: "+in.Undecided)
			bad++
			break
		}
		if got, _ := res.Rets[0].Int(); got != want[n%4] {
			r.Fail(rule, fmt.Sprintf("padLen(n%%4=%d)", n%4), c.Pos(fn.Pos()), fmt.Sprintf("padLen(%d) = %d; padding to a multiple of four needs %d", n, got, want[n%4]))
			bad++
			break
		}
	}
	// the argument is used only through n % 4
	depOK := false
	if len(fn.Params) == 1 && fn.Params[0].Referrers() != nil {
		depOK = true
		for _, ref := range *fn.Params[0].Referrers() {
			bo, ok := ref.(*ssa.BinOp)
			if _, isDbg := ref.(*ssa.DebugRef); isDbg {
				continue
			}
			if !ok {
				depOK = false
				break
			}
			k, isK := constInt(bo.Y)
			if !(bo.X == fn.Params[0] && isK && ((bo.Op == token.REM && k == 4) || (bo.Op == token.AND && k == 3))) {
				depOK = false
			}
		}
	}
	if !depOK && bad == 0 {
		r.Undecided(rule, "padLen:dependence", c.Pos(fn.Pos()), "padLen does not use its argument only through n%4; the finite table does not cover it")
		bad++
	}
	if bad == 0 {
		r.Pass(rule, "padLen", c.Pos(fn.Pos()), "padLen depends on n only through n%4 and yields [0,3,2,1]", 64)
	}
}

func ruleCheckIDs(c *Ctx, r *Report, prefix string) {
	rule := prefix + "CE-CHECKID"
	vf := c.Func("", "verifyFlags")
	nh := c.Func("", "newHashFunc")
	if vf == nil || nh == nil {
		return
	}
	wantFn := map[int64]string{0: "newNoneHash", 1: "newCRC32", 4: "newCRC64", 10: "crypto/sha256.New"}
	bad := 0
	for b := int64(0); b < 256; b++ {
		_, valid := wantFn[b]
		in := NewInterp(c)
		res := in.Call(vf, []aval{aInt(b, types.Typ[types.Uint8])})
		key := fmt.Sprintf("verifyFlags(%d)", b)
		if !res.OK || res.Panicked || len(res.Rets) != 1 {
			r.Undecided(rule, key, c.Pos(vf.Pos()), "cannot evaluate: "+in.Undecided)
			bad++
			continue
		}
		if isNilErr(res.Rets[0]) != valid {
			r.Fail(rule, key, c.Pos(vf.Pos()), fmt.Sprintf("check id %d: accepted=%v, the format defines exactly the ids 0 (none), 1 (CRC32), 4 (CRC64), 10 (SHA-256)", b, !valid))
			bad++
		}
		in2 := NewInterp(c)
		res2 := in2.Call(nh, []aval{aInt(b, types.Typ[types.Uint8])})
		key2 := fmt.Sprintf("newHashFunc(%d)", b)
		if !res2.OK || res2.Panicked || len(res2.Rets) != 2 {
			r.Undecided(rule, key2, c.Pos(nh.Pos()), "cannot evaluate: "+in2.Undecided)
			bad++
			continue
		}
		if isNilErr(res2.Rets[1]) != valid {
			r.Fail(rule, key2, c.Pos(nh.Pos()), fmt.Sprintf("check id %d: newHashFunc accepted=%v", b, !valid))
			bad++
			continue
		}
		if valid {
			f := res2.Rets[0]
			name := ""
			if f.k == kFn && f.fn != nil {
				name = FnName(f.fn)
				name = name[strings.LastIndex(name, ".")+1:]
				if f.fn.Pkg != nil && !c.InModule(f.fn) {
					name = f.fn.Pkg.Pkg.Path() + "." + f.fn.Name()
				}
			}
			if name != wantFn[b] {
				r.Fail(rule, key2, c.Pos(nh.Pos()), fmt.Sprintf("check id %d is mapped to %q, want %s", b, name, wantFn[b]))
				bad++
			}
		}
	}
	if bad == 0 {
		r.Pass(rule, "check-ids:256", c.Pos(vf.Pos()), "verifyFlags and newHashFunc accept exactly {0,1,4,10} and map them to none / CRC32 / CRC64 / SHA-256 constructors", 512)
	}
}

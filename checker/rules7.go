package main

// Rules added after the fourth round of seeded changes.

import (
	"fmt"
	"go/types"
	"strconv"
	"strings"

	"golang.org/x/tools/go/ssa"
)

// ---- CE-VALIDDICT: ValidHeader accepts every dictionary size the reference encoder writes ----
//
// lzma.validDictCap (behind the exported ValidHeader, which gxz uses to recognise .lzma
// files) must accept 2^n and 2^n + 2^(n-1) for n = 12..30 (what xz-utils can write),
// MaxDictCap, and reject their neighbours. Finite-domain evaluation (CE).
func ruleValidDictCap(c *Ctx, r *Report, prefix string) {
	rule := prefix + "CE-VALIDDICT"
	fn, eval := validDictCapEval(c)
	if fn == nil {
		return
	}
	bad, n := "", 0
	for e := uint(12); e <= 30; e++ {
		for _, v := range []int64{1 << e, 1<<e + 1<<(e-1)} {
			n++
			if got, ok := eval(v); !ok {
				bad = "cannot evaluate validDictCap(" + strconv.FormatInt(v, 10) + ")"
			} else if !got {
				bad = fmt.Sprintf("validDictCap(%d) is false: a dictionary size of the form 2^n or 2^n+2^(n-1), as the reference encoder writes it, is not recognised (gxz: 'file format not recognized')", v)
			}
			for _, w := range []int64{v - 1, v + 1} {
				n++
				if got, ok := eval(w); ok && got {
					bad = fmt.Sprintf("validDictCap(%d) is true", w)
				}
			}
		}
	}
	r.Check(bad == "", rule, FnName(fn), c.Pos(fn.Pos()), "accepts 2^n and 2^n+2^(n-1) for n = 12..30 and rejects their neighbours ("+itoa(n)+" values)", bad)
}

// validDictCapEval: the finite-domain evaluator of "is this dictionary size recognised" - lzma.validDictCap
// itself, or, when it has been folded into its caller, lzma.ValidHeader on the 13-byte header
// {0x5d, dictCap little endian, size -1}.
func validDictCapEval(c *Ctx) (*ssa.Function, func(v int64) (bool, bool)) {
	fn := c.Func("lzma", "validDictCap")
	if fn == nil {
		return nil, nil
	}
	sig := fn.Signature
	direct := sig.Params().Len() == 1 && types.Identical(sig.Params().At(0).Type(), types.Typ[types.Int])
	return fn, func(v int64) (bool, bool) {
		in := NewInterp(c)
		var args []aval
		if direct {
			args = []aval{aInt(v, types.Typ[types.Int])}
		} else if sig.Params().Len() == 1 && types.Identical(sig.Params().At(0).Type(), types.NewSlice(types.Typ[types.Byte])) {
			hdr := []byte{0x5d, byte(v), byte(v >> 8), byte(v >> 16), byte(v >> 24), 0xff, 0xff, 0xff, 0xff, 0xff, 0xff, 0xff, 0xff}
			args = []aval{aBytes(in, hdr, sig.Params().At(0).Type())}
		} else {
			return false, false
		}
		res := in.Call(fn, args)
		if !res.OK || len(res.Rets) != 1 {
			return false, false
		}
		b, ok := res.Rets[0].Bool()
		return b, ok
	}
}

func aBytes(in *Interp, data []byte, t types.Type) aval {
	arr := make([]*cell, len(data))
	for i, b := range data {
		arr[i] = in.newCellOf(types.Typ[types.Byte])
		arr[i].v = aInt(int64(b), types.Typ[types.Byte])
	}
	return aval{k: kSlice, arr: arr, lo: 0, hi: len(data), typ: t}
}

// ---- WR-SAME-SOURCE: the xz Reader keeps reading from the source its first stream reader got ----
func ruleSameSource(c *Ctx, r *Report, prefix string) {
	rule := prefix + "WR-SAME-SOURCE"
	fn := c.Func("", "ReaderConfig.NewReader")
	nsr := c.Func("", "ReaderConfig.newStreamReader")
	fXZ := c.Field("", "Reader.xz")
	if fn == nil || nsr == nil || fXZ == nil {
		return
	}
	var stored, passed ssa.Value
	for _, b := range c.GB(fn) {
		for _, ins := range b.Instrs {
			if st, ok := storeToField(ins, fXZ); ok {
				stored = stripConv(st.Val)
			}
			if call, ok := callTo(ins, nsr); ok && len(call.Call.Args) >= 2 {
				passed = stripConv(call.Call.Args[1])
			}
		}
	}
	r.Check(stored != nil && passed != nil && stored == passed, rule, FnName(fn), c.Pos(fn.Pos()), "Reader.xz is the reader handed to the first stream reader",
		"the reader stored in Reader.xz (used for padding, later streams and the SingleStream probe) is not the one the first stream reader reads from: bytes buffered by one are invisible to the other")
}

// sliceOffset: the total low offset of nested re-slicings of base; ok=false when v is not
// derived from base by slicing. Terms as produced by TERM: (slice X lo:hi).
func sliceOffset(t, base string) (string, bool) {
	off := []string{}
	for {
		if t == base {
			break
		}
		if !strings.HasPrefix(t, "(slice ") {
			return "", false
		}
		parts := splitTerm(t[7 : len(t)-1])
		if len(parts) != 2 {
			return "", false
		}
		lohi := parts[1]
		i := strings.LastIndex(lohi, ":")
		// lo may itself contain ':' only inside parentheses; find the top-level colon
		depth := 0
		i = -1
		for k := 0; k < len(lohi); k++ {
			switch lohi[k] {
			case '(':
				depth++
			case ')':
				depth--
			case ':':
				if depth == 0 {
					i = k
				}
			}
		}
		if i < 0 {
			return "", false
		}
		if lo := lohi[:i]; lo != "" {
			off = append(off, lo)
		}
		t = parts[0]
	}
	if len(off) == 0 {
		return "0", true
	}
	return normTerm("(+ " + strings.Join(off, " ") + ")"), true
}

// ---- SEQ-ADVANCE (exact): inner Read/Write calls of a loop get p offset by the sum delivered so far ----
func ruleLoopAdvanceExact(c *Ctx, r *Report, prefix string) {
	rule := prefix + "SEQ-ADVANCE"
	for _, e := range []struct{ pkg, fn, method string }{
		{"", "streamReader.Read", "Read"}, {"", "Reader.Read", "Read"}, {"lzma", "Reader2.Read", "Read"}, {"lzma", "decoder.Read", "Read"},
		{"lzma", "uncompressedReader.Read", "Read"},
		{"", "Writer.Write", "Write"}, {"lzma", "Writer2.Write", "Write"}, {"lzma", "encoder.Write", "Write"},
	} {
		fn := c.Func(e.pkg, e.fn)
		if fn == nil {
			continue
		}
		paths, over := collectTermPaths(c, termSpec{Fn: fn, MaxVisit: 3, KeepErrPaths: true, KeepMem: func(string) bool { return true }})
		if over {
			r.Undecided(rule, FnName(fn), c.Pos(fn.Pos()), "path budget exceeded")
			continue
		}
		bad := ""
		nPairs := 0
		for _, tp := range paths {
			var delivered []string
			for i := range tp.Events {
				ev := &tp.Events[i]
				isInner := ev.Callee != nil && ev.Callee.Name() == e.method || strings.HasPrefix(ev.Name, "invoke:"+e.method)
				if !isInner || len(ev.Args) < 2 {
					continue
				}
				buf := ev.Args[len(ev.Args)-1]
				off, ok := sliceOffset(buf, "$p")
				if !ok {
					continue
				}
				if len(delivered) > 0 {
					nPairs++
					want := normTerm("(+ " + strings.Join(delivered, " ") + ")")
					if off != want {
						bad = "an inner " + e.method + " receives p at offset " + clip(off, 120) + " after " + itoa(len(delivered)) + " inner call(s) delivered " + clip(want, 120)
					}
				}
				delivered = append(delivered, "(ext0 "+ev.Result+")")
			}
		}
		r.Check(bad == "" && nPairs > 0, rule, FnName(fn), c.Pos(fn.Pos()), "every inner "+e.method+" receives p offset by exactly the bytes the earlier inner calls accepted/delivered ("+itoa(nPairs)+" pairs)", func() string {
			if bad != "" {
				return bad + ": bytes are skipped, repeated or overwritten"
			}
			return "no two consecutive inner " + e.method + " calls on p found on any path (the loop shape is not recognised)"
		}())
	}
}

// ---- SEQ-BLOCKEND: a block is recorded and released only at its clean end ----
// In streamReader.Read the block reader is dropped (r.br = nil) and its measured record enters the
// index only on the path where blockReader.Read returned io.EOF - i.e. after the block's sizes,
// padding and check were verified. Recording a block that failed would let a later Read continue
// with index and footer, which still match, and report a clean end after damaged content.
func ruleBlockEnd(c *Ctx, r *Report, prefix string) {
	rule := prefix + "SEQ-BLOCKEND"
	fn := c.Func("", "streamReader.Read")
	brRead := c.Func("", "blockReader.Read")
	fBr := c.Field("", "streamReader.br")
	fIndex := c.Field("", "streamReader.index")
	if fn == nil || brRead == nil || fBr == nil || fIndex == nil {
		return
	}
	var last *ssa.Call
	bad := ""
	nEnd := 0
	spec := SeqSpec{Fn: fn}
	spec.Event = func(w *Walker, p *PState, ins ssa.Instruction) string {
		if call, ok := callTo(ins, brRead); ok {
			last = call
			return "br.Read"
		}
		atEnd := func() bool {
			if last == nil {
				return false
			}
			ev := errValueOfCall(last)
			if ev == nil {
				return false
			}
			g := p.EqGlobal(p.Resolve(ev))
			return g != nil && isEOF(g)
		}
		if st, ok := storeToField(ins, fBr); ok && isNilConst(stripConv(st.Val)) {
			if !atEnd() {
				bad = "the block reader is released (r.br = nil) at " + c.InstrPos(ins) + " although blockReader.Read did not report the verified end of the block (io.EOF)"
			}
			nEnd++
			return "br=nil"
		}
		if _, ok := storeToField(ins, fIndex); ok {
			if !atEnd() {
				bad = "a record enters the stream's index at " + c.InstrPos(ins) + " although blockReader.Read did not report the verified end of the block (io.EOF)"
			}
			nEnd++
			return "index+="
		}
		return ""
	}
	_, over := CollectPaths(c, spec)
	if over {
		r.Undecided(rule, FnName(fn), c.Pos(fn.Pos()), "path budget exceeded")
		return
	}
	r.Check(bad == "" && nEnd >= 2, rule, FnName(fn), c.Pos(fn.Pos()), "the block's record is appended and the block reader released only after blockReader.Read returned io.EOF", bad)
}

// ---- WR-READFROM: an io.ReaderFrom of the module honours the interface's contract ----
// io.Copy / io.CopyN hand the whole transfer to dst.ReadFrom when dst implements io.ReaderFrom;
// the contract is "read until EOF or error". A ReadFrom that can return a nil error without its
// source having reported io.EOF turns short reads of the source into a premature end (the raw
// LZMA2 chunk refill uses io.CopyN into the decoder dictionary). Expected instances today: none.
func ruleReaderFrom(c *Ctx, r *Report, prefix string) {
	rule := prefix + "WR-READFROM"
	n := 0
	for _, pk := range []string{"", "lzma"} {
		for _, fn := range c.modFuncs { // new methods included: a new ReadFrom changes what io.Copy does
			if pkgPathOf(fn) != full(pk) {
				continue
			}
			if fn.Name() != "ReadFrom" || fn.Signature.Recv() == nil || fn.Signature.Params().Len() != 1 || fn.Signature.Results().Len() != 2 || fn.Blocks == nil {
				continue
			}
			if !isErrType(fn.Signature.Results().At(1).Type()) {
				continue
			}
			src := fn.Params[len(fn.Params)-1]
			n++
			var last *ssa.Call
			spec := SeqSpec{Fn: fn}
			spec.Event = func(w *Walker, p *PState, ins ssa.Instruction) string {
				if call, ok := ins.(*ssa.Call); ok && call.Call.IsInvoke() && call.Call.Method.Name() == "Read" && stripConv(p.Resolve(call.Call.Value)) == src {
					last = call
					return "src.Read"
				}
				return ""
			}
			paths, over := CollectPaths(c, spec)
			if over {
				r.Undecided(rule, FnName(fn), c.Pos(fn.Pos()), "path budget exceeded")
				continue
			}
			bad := ""
			for _, sp := range paths {
				if sp.Panic || sp.ErrNonNil {
					continue
				}
				ok := false
				if last != nil && sp.Has("src.Read") {
					if ev := errValueOfCall(last); ev != nil {
						if g := sp.P.EqGlobal(sp.P.Resolve(ev)); g != nil && isEOF(g) {
							ok = true
						}
					}
				}
				if !ok {
					bad = "ReadFrom can return without an error although its source has not reported io.EOF: io.Copy/io.CopyN treat that as the end of the data (short reads of the source end the transfer early)"
					break
				}
			}
			r.Check(bad == "", rule, FnName(fn), c.Pos(fn.Pos()), "returns nil only after the source reported io.EOF", bad)
		}
	}
	if n == 0 {
		r.Pass(rule, "census", "", "no type of the library implements io.ReaderFrom (io.Copy/io.CopyN use plain Read/Write loops)", 1)
	}
}

package main

// More rules from the third round of seeded changes.

import (
	"go/token"
	"strings"

	"golang.org/x/tools/go/ssa"
)

// ---- OB-LCLP: LZMA2 requires lc + lp <= 4 ----
func ruleLcLp(c *Ctx, r *Report, prefix string) {
	rule := prefix + "OB-LCLP"
	fn := c.Func("lzma", "Writer2Config.Verify")
	if fn == nil {
		return
	}
	ok := false
	got := ""
	for _, g := range guardsOf(fn) {
		if g.call != nil {
			continue
		}
		k, isK := constInt(g.y)
		if !isK {
			continue
		}
		t := staticTerm(c, g.x)
		if !strings.HasPrefix(t, "(+ ") {
			continue
		}
		parts := splitTerm(t[3 : len(t)-1])
		if len(parts) != 2 {
			continue
		}
		hasLC := strings.HasSuffix(parts[0], ".LC") || strings.HasSuffix(parts[1], ".LC")
		hasLP := strings.HasSuffix(parts[0], ".LP") || strings.HasSuffix(parts[1], ".LP")
		if (g.op == token.GTR && k == 4 || g.op == token.GEQ && k == 5) && hasLC && hasLP {
			if okc, _, _ := consequence(c, fn, g.iff, true); okc {
				ok = true
			}
		} else if g.op == token.GTR && k == 4 || g.op == token.GEQ && k == 5 {
			got = t
		}
	}
	r.Check(ok, rule, FnName(fn), c.Pos(fn.Pos()), "lc + lp > 4 is rejected",
		"Writer2Config.Verify does not reject lc + lp > 4 (the sum it tests against 4 is "+got+"): the LZMA2 format forbids such properties and liblzma rejects the stream")
}

// ---- WR-LITINIT: literalCodec.init(lc, lp) ----
func ruleLitInit(c *Ctx, r *Report, prefix string) {
	rule := prefix + "WR-LITINIT"
	ini := c.Func("lzma", "literalCodec.init")
	if ini == nil {
		return
	}
	n := 0
	for _, fn := range c.ModFuncs("lzma") {
		for _, b := range c.GB(fn) {
			for _, ins := range b.Instrs {
				call, ok := callTo(ins, ini)
				if !ok || len(call.Call.Args) != 3 {
					continue
				}
				n++
				name := func(v ssa.Value) string {
					t := staticTerm(c, v)
					if i := strings.LastIndex(t, "."); i >= 0 {
						return t[i+1:]
					}
					return t
				}
				a, b2 := name(call.Call.Args[1]), name(call.Call.Args[2])
				r.Check(a == "LC" && b2 == "LP", rule, FnName(fn), c.InstrPos(call), "literalCodec.init(Properties.LC, Properties.LP)",
					"literalCodec.init is called with ("+a+", "+b2+") instead of (LC, LP): legal properties with lc > 4 panic, and the range checks guard the wrong parameter")
			}
		}
	}
	if n == 0 {
		r.Undecided(rule, "instances", "-", "no call of literalCodec.init found")
	}
}

// ---- NIL-DECODER: Reader2.startChunk never uses r.decoder before it exists ----
func ruleNilDecoder(c *Ctx, r *Report, prefix string) {
	rule := prefix + "SEQ-NIL-DECODER"
	fn := c.Func("lzma", "Reader2.startChunk")
	fDec := c.Field("lzma", "Reader2.decoder")
	if fn == nil || fDec == nil {
		return
	}
	bad := ""
	var trace []string
	n := 0
	w := &Walker{C: c, Fn: fn}
	w.Instr = func(p *PState, ins ssa.Instruction) bool {
		var base ssa.Value
		switch x := ins.(type) {
		case *ssa.FieldAddr:
			base = x.X
		case *ssa.Call:
			if cal := x.Call.StaticCallee(); cal != nil && cal.Signature.Recv() != nil && len(x.Call.Args) > 0 {
				base = x.Call.Args[0]
			}
		}
		if base == nil {
			return true
		}
		rv := p.Resolve(base)
		if !isFieldLoadOf(rv, fDec) {
			// a value stored into the field earlier on the path resolves to that value
			if u, ok := base.(*ssa.UnOp); !ok || !isFieldLoadOf(u, fDec) {
				return true
			}
		}
		n++
		if !p.NonNil(rv) {
			bad = "r.decoder is used (" + strings.TrimSpace(ins.String()) + ") on a path where it is not known to exist"
			trace = w.TraceStrings(p)
		}
		return true
	}
	w.Run(nil)
	r.Check(bad == "" && n > 0 && !w.Overflow, rule, FnName(fn), c.Pos(fn.Pos()), "every use of r.decoder lies behind `r.decoder == nil => create and return` or a store of a new decoder", bad, trace...)
}

// ---- SEQ-ADVANCE: a Read loop hands the inner reader the part of p not yet filled ----
func ruleReadAdvance(c *Ctx, r *Report, prefix string) {
	rule := prefix + "SEQ-ADVANCE"
	for _, e := range []struct{ pkg, fn string }{{"", "streamReader.Read"}, {"", "Reader.Read"}, {"lzma", "Reader2.Read"}, {"lzma", "decoder.Read"}, {"lzma", "uncompressedReader.Read"}} {
		fn := c.Func(e.pkg, e.fn)
		if fn == nil {
			continue
		}
		paths, over := collectTermPaths(c, termSpec{Fn: fn, MaxVisit: 3, KeepErrPaths: true, KeepMem: func(string) bool { return true }})
		if over {
			r.Undecided(rule, FnName(fn), c.Pos(fn.Pos()), "path budget exceeded")
			continue
		}
		bad := ""
		nPairs := 0
		for _, tp := range paths {
			var prev *tEvent
			for i := range tp.Events {
				ev := &tp.Events[i]
				isRead := ev.Callee != nil && ev.Callee.Name() == "Read" || strings.HasPrefix(ev.Name, "invoke:Read")
				if !isRead || len(ev.Args) < 2 {
					continue
				}
				buf := ev.Args[len(ev.Args)-1]
				if !strings.Contains(buf, "$p") {
					continue
				}
				if prev != nil {
					nPairs++
					if !strings.Contains(buf, "(ext0 "+prev.Result+")") {
						bad = "a second inner Read gets " + clip(buf, 120) + ", which does not skip the bytes the previous inner Read delivered"
					}
				}
				prev = ev
			}
		}
		r.Check(bad == "" && nPairs > 0, rule, FnName(fn), c.Pos(fn.Pos()), "consecutive inner Reads receive p advanced by what was delivered ("+itoa(nPairs)+" pairs)", func() string {
			if bad != "" {
				return bad + ": data is overwritten and the count can exceed len(p)"
			}
			return "no two consecutive inner Reads found on any path (the loop shape is not recognised)"
		}())
	}
}

// ---- OB-V23-ONLY: blockReader.Read fails on size grounds only when a size is exceeded ----
func ruleBlockReadOnlySize(c *Ctx, r *Report, prefix string) {
	rule := prefix + "OB-V23-ONLY"
	fn := c.Func("", "blockReader.Read")
	if fn == nil {
		return
	}
	var inner *ssa.Call
	for _, b := range c.GB(fn) {
		for _, ins := range b.Instrs {
			if call, ok := ins.(*ssa.Call); ok && call.Call.IsInvoke() && call.Call.Method.Name() == "Read" && inner == nil {
				inner = call
			}
		}
	}
	if inner == nil {
		r.Undecided(rule, FnName(fn), c.Pos(fn.Pos()), "no inner Read found")
		return
	}
	ev := errValueOfCall(inner)
	// guards that compare a measured size with a declared one with > (the legitimate failures)
	bad := ""
	var trace []string
	n := 0
	spec := SeqSpec{Fn: fn, NoMerge: true}
	spec.Assume = func(w *Walker, p *PState, ins ssa.Instruction) {
		// assume the filter reader delivered data without error
		if ex, ok := ins.(*ssa.Extract); ok && ev != nil && ssa.Value(ex) == ev {
			f := p.facts[ex]
			f.nilK = 1
			p.facts[ex] = f
		}
	}
	paths, over := CollectPaths(c, spec)
	for _, sp := range paths {
		if ev == nil || !sp.P.IsNil(ev) {
			continue // only the paths on which the inner read succeeded
		}
		n++
		if sp.ErrNil {
			continue
		}
		// an error although the inner read succeeded: one of the `measured > declared` tests must hold
		exceeded := false
		for _, g := range guardsOfX(fn, true) {
			if g.call != nil {
				continue
			}
			if _, isK := g.x.(*ssa.Const); isK {
				continue
			}
			if _, isK := g.y.(*ssa.Const); isK {
				continue // `declared >= 0` style tests are not size comparisons
			}
			// the relation the path established at this comparison (either spelling: `a > b` taken, or
			// `a <= b` not taken)
			if taken, known := sp.Took(g.iff, g.site); known {
				// a conjunct of the condition is known when the condition held, a disjunct when it did not
				if (g.only == 2 && !taken) || (g.only == 1 && taken) {
					continue
				}
				op := g.op
				if !taken { // g.op already accounts for a NOT around the condition
					op = negateOp(op)
				}
				if op == token.GTR || op == token.LSS {
					exceeded = true
				}
			}
		}
		if !exceeded {
			bad = "blockReader.Read returns an error although the filter reader delivered data without error and no declared size is exceeded"
			trace = sp.Trace
		}
	}
	r.Check(bad == "" && n > 0 && !over, rule, FnName(fn), c.Pos(fn.Pos()), "with a successful inner read the only errors are declared sizes exceeded", bad, trace...)
}

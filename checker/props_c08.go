package main

func init() {
	register(&propCheck{
		id: "C08",
		explain: "Decided (typestate / ordering rules over all paths of the LZMA2 writer's functions, plus error provenance): Write/Flush/Close on a closed " +
			"writer perform no call or store and return an error; Close returns nil only after Flush, the {0x00} end chunk and cstate = stop; every effect " +
			"of Flush is a flushChunk call dominated by written() > 0 (an idle Flush emits nothing); flushChunk's paths project onto the frozen word " +
			"encoder.Close . writeChunk . buf.Reset . lbw.N=65536 . encoder.Reopen . cstate.next(ctype) . ctype=default . start=cloneState(encoder.state); " +
			"the raw fallback records the mapped chunk type in w.ctype and restores encoder.state = w.start before writing; headers carry w.ctype; the writer " +
			"only emits chunk sequences that are legal in the specification automaton; chunk budget constants; EF-IO over the writer cone; (RING-MOD) every index wrap of the encoder-side circular buffers (buffer, encoderDict incl. CopyN which supplies raw chunk payloads, hashTable, binTree) adjusts by exactly len(data) of the ring. " +
			"NOT decided: that the flushed prefix decodes to the written data (value statement); of the ring-buffer arithmetic only the wrap modulus (RING-MOD) is decided.",
		run: func(c *Ctx, r *Report) {
			t := getChunkTables(c, r, "")
			ruleWriter2(c, r, t, "")
			ruleWriterChunkLegality(c, r, t, "")
			ruleChunkLimits(c, r, "")
			ruleChunkHeaderCodec(c, r, t, "")
			ruleRingModulus(c, r, "", "enc")
			ruleDeepCopy(c, r, "")
			ruleOpSiblings(c, r, "")
			ruleCodecSiblings(c, r, "")
			ruleBudgetFresh(c, r, "")
			ruleLookahead(c, r, "")
			ruleOpMargin(c, r, "")
			ruleRawCopy(c, r, "")
			ruleCopyNCE(c, r, "")
			ruleEncAvail(c, r, "")
			ruleWriter2Split(c, r, "")
			ruleDefaultChunkType(c, r, t, "")
			ruleReopenState(c, r, "")
			ruleFlushFailStop(c, r, "")
			ruleLoopAdvanceExact(c, r, "")
			ruleMatcherGuard(c, r, "", false)
			ruleCtorReopen(c, r, "")
			// "decodes with the library's LZMA2 reader": the raw-chunk refill must not end a chunk early,
			// and only lc+lp <= 4 configurations (the ones LZMA2 can express) pass Verify
			ruleRawEOFFlag(c, r, "")
			ruleLcLp(c, r, "")
			cone := c.Cone(nonNilFns(c.Func("lzma", "Writer2.Write"), c.Func("lzma", "Writer2.Flush"), c.Func("lzma", "Writer2.Close"),
				c.Func("lzma", "Writer2Config.NewWriter2"))...)
			ruleIO(c, r, cone, "", true)
			r.Floor("SEQ-W2", 12)
			r.Floor("EF-IO", 6)
		},
	})
}

package main

func init() {
	register(&propCheck{
		id: "C10",
		explain: "Decided (orderings on ALL paths of cmd/gxz, which has no tests at all): the set of file-system mutation call sites equals a frozen set " +
			"(create temp O_WRONLY|O_CREATE|O_EXCL, rename temp->target, remove temp, remove input, cpuprofile); the input's Remove is dominated by success && !keep; " +
			"the success flags are written only by SetSuccess; in processFile r.SetSuccess is dominated by w.Close()==nil, which is dominated by w.SetSuccess, " +
			"which is dominated by io.Copy==nil; a successful writer.Close is the word cmp.Close? . Flush . f.Close . Rename(tmp,target), each error-checked, and every " +
			"failing path removes the temporary file (no debris); the temp name is target + non-empty constant; the temp file is created only if the target " +
			"does not exist or -f; targetName never returns its input unchanged; every failure path of processFile returns non-nil and main turns it into exit " +
			"status 1 (EF-IO over cmd/gxz). Because rename-dominates-remove holds on every path it holds at every instant at which the process can be killed - " +
			"the static counterpart of the crash-point quantifier. NOT decided: kernel / file-system behaviour, fsync, cross-device rename, the content written.",
		run: func(c *Ctx, r *Report) {
			ruleGxzDataSafety(c, r, "")
			ruleIO(c, r, gxzCone(c), "", true)
			r.Floor("EF-IO", 15)
			// the decompressors gxz relies on: a failing read is never turned into a clean end
			ruleIO(c, r, readerCone(c), "lib:", true)
			ruleDecoderReadErr(c, r, "")
			ruleEOF(c, r, readerAPI(c), readerCone(c), "lib:")
			ruleDeferFlush(c, r, "", "cmd/gxz", "", "lzma")
			ruleDeferResult(c, r, "")
			// "corrupt input => exits non-zero, input untouched": the corruption must be noticed - the
			// container checks (CRC, check, sizes, padding) of the xz reader
			ruleXZReaderChecks(c, r, "lib:")
			// corrupt .lzma input has no check value: the decoder itself must refuse impossible distances
			ruleApplyOps(c, r, "lib:")
			{
				// what gxz puts in place of the input must decode: the LZMA2 writer's chunk discipline and state snapshots
				ct := getChunkTables(c, r, "lib:")
				ruleWriter2(c, r, ct, "lib:")
				ruleDeepCopy(c, r, "lib:")
				ruleCopyNCE(c, r, "lib:") // gxz has removed the input when a raw chunk with other bytes is noticed
				ruleWriteMatchCE(c, r, "lib:")
				ruleChunkHeaderCodec(c, r, ct, "lib:")
			}
			ruleDecoderBounds(c, r, "lib:")
		},
	})
	register(&propCheck{
		id: "C15",
		explain: "Decided - only the clauses of C15 that are visible in the structure of cmd/gxz: per-file processing cannot change the options shared by all " +
			"files (works on a copy); reader.keep = opts.keep || opts.stdout at both construction sites and gates the removal; with -c neither targetName nor any " +
			"file creation is reachable; no overwrite without -f and target != input (shared with C10); output permission bits = input mode & subset of 0666 and " +
			"that value reaches OpenFile; (CE-FORMAT-NORM) normalizeFormat, evaluated for every documented and some undocumented -F names with and without -d, leaves xz / lzma (alone is lzma) or - decompressing only - auto, and refuses the rest; the .lzma header sniffing accepts every dictionary size of the form 2^n / 2^n+2^(n-1) (finite-domain evaluation of " +
			"validDictCap); every file's failure is reflected in the exit status (EF-IO over main's loop). NOT decided: round trip of contents, presets, " +
			"xz-utils interoperability of the streams (C02/C03/C07 cover the library side), option parsing in internal/gflag ('--', bundling; a file named like a " +
			"boolean value after a flag is swallowed by the parser - not visible to these rules), .txz/.tlz naming beyond target != input.",
		run: func(c *Ctx, r *Report) {
			ruleGxzFlags(c, r, "")
			ruleFormatNormCE(c, r, "")
			// gxz is the library behind a command line: its round trips and its acceptance of xz-utils
			// files stand on the codec and container rules (subset that pins the shared model)
			ruleSpecConstants(c, r, "lib:")
			ruleOpSiblings(c, r, "lib:")
			ruleCodecSiblings(c, r, "lib:")
			ruleXZReaderChecks(c, r, "lib:")
			ruleXZWriter(c, r, "lib:")
			{
				t := getChunkTables(c, r, "lib:")
				ruleWriter2(c, r, t, "lib:")
				ruleStartChunkEffects(c, r, t, "lib:")
			}
			ruleDashDash(c, r, "")
			ruleValidDictCap(c, r, "")
			// files written by gxz announce a dictionary size that covers the encoder's window
			ruleDictCapEncode(c, r, "lib:")
			ruleCheckEncoding(c, r, "lib:")
			{
				ct := getChunkTables(c, r, "lib:")
				ruleChunkHeaderCodec(c, r, ct, "lib:")
			}
			ruleLcLp(c, r, "lib:")
			{
				ct := getChunkTables(c, r, "lib:")
				ruleChunkAutomaton(c, r, ct, "lib:", "equal")
			}
			ruleDeferResult(c, r, "")
			ruleReaderWindow(c, r, "")
			ruleGxzDataSafety(c, r, "")
			ruleIO(c, r, gxzCone(c), "", true)
		},
	})
}

package main

// COPY-ALL — exhaustiveness of the deep-copy methods of the coder state.
//
// Writer2 keeps a snapshot of the coder state taken at the start of every chunk
// (cloneState → state.deepcopy and the deepcopy methods of its codecs) and falls back to it
// when a chunk is stored raw. The decoder keeps the state it had before that chunk, so the
// snapshot must carry EVERY field: rep distances, all probability arrays, the codecs, the
// state number, posBitMask and the properties. For each method `func (dst *T) deepcopy(src
// *T)` of package lzma and each field f of T (embedded fields included) the rule requires
// that dst.f is written (stored to, element-wise or through a call that receives its
// address) and that src.f is read (loaded, or its address handed to a call). A copy must
// also be deep for reference fields: a slice field may not simply be assigned from src
// (dst and src would then share the probabilities and the "snapshot" would follow the
// live state).
//
// Necessary: a field left out (or shared) makes the encoder continue after a raw chunk
// with a model the decoder does not have; the stream no longer decodes to the input.

import (
	"go/types"
	"sort"

	"golang.org/x/tools/go/ssa"
)

func ruleDeepCopy(c *Ctx, r *Report, prefix string) {
	rule := prefix + "COPY-ALL"
	fns := c.ModFuncs("lzma")
	sort.Slice(fns, func(i, j int) bool { return FnName(fns[i]) < FnName(fns[j]) })
	n := 0
	// a deepcopy that starts with `*dst = *src` makes the reference fields of dst (and of the codecs
	// nested in it) aliases of the source: from then on no deepcopy may fill storage dst already has
	wholeIn := ""
	for _, fn := range fns {
		if fn.Name() != "deepcopy" || fn.Signature.Recv() == nil || len(fn.Params) != 2 || fn.Blocks == nil {
			continue
		}
		for _, b := range fn.Blocks {
			for _, ins := range b.Instrs {
				if st, isSt := ins.(*ssa.Store); isSt && st.Addr == ssa.Value(fn.Params[0]) {
					if ld, isLd := st.Val.(*ssa.UnOp); isLd && ld.X == ssa.Value(fn.Params[1]) {
						wholeIn = FnName(fn)
					}
				}
			}
		}
	}
	for _, fn := range fns {
		if fn.Name() != "deepcopy" || fn.Signature.Recv() == nil || len(fn.Params) != 2 || fn.Blocks == nil {
			continue
		}
		dst, src := fn.Params[0], fn.Params[1]
		pt, ok := dst.Type().(*types.Pointer)
		if !ok || !types.Identical(dst.Type(), src.Type()) {
			continue
		}
		st, ok := pt.Elem().Underlying().(*types.Struct)
		if !ok {
			continue
		}
		n++
		paired := map[*types.Var]bool{}
		mispaired := map[*types.Var]string{}
		shared := map[*types.Var]bool{}
		pair := func(d, s ssa.Value) {
			fd, fs := rootField(d, dst), rootField(s, src)
			if fd == nil {
				return
			}
			switch {
			case fs == fd:
				paired[fd] = true
			case fs != nil:
				mispaired[fd] = fs.Name()
			}
		}
		// a fresh local slice filled from src.f (copy(p, src.f) / append(nil, src.f...)) stands for src.f
		// when it is stored into dst.f afterwards
		localFrom := map[ssa.Value]*types.Var{}
		for _, b := range theCtx.GB(fn) {
			for _, ins := range b.Instrs {
				call, isC := ins.(*ssa.Call)
				if !isC {
					continue
				}
				// a new helper that returns a freshly made slice filled from its parameter: copyProbs(src.f)
				if h := call.Call.StaticCallee(); h != nil && theCtx.IsNew(h) && h.Signature.Results().Len() == 1 {
					if ms, isMk := singleReturnRaw(h).(*ssa.MakeSlice); isMk && ms.Referrers() != nil {
						for _, ref := range *ms.Referrers() {
							cp, isCp := ref.(*ssa.Call)
							if !isCp || len(cp.Call.Args) != 2 || cp.Call.Args[0] != ssa.Value(ms) {
								continue
							}
							if cb, isCB := cp.Call.Value.(*ssa.Builtin); !isCB || cb.Name() != "copy" {
								continue
							}
							for i, prm := range h.Params {
								if cp.Call.Args[1] == ssa.Value(prm) && i < len(call.Call.Args) {
									if fs := rootField(call.Call.Args[i], src); fs != nil {
										localFrom[call] = fs
										localFrom[ms] = fs // what the call resolves to when looked through
									}
								}
							}
						}
					}
				}
				bi, isB := call.Call.Value.(*ssa.Builtin)
				if !isB || len(call.Call.Args) < 2 {
					continue
				}
				if fs := rootField(call.Call.Args[1], src); fs != nil {
					switch bi.Name() {
					case "copy":
						if _, isMk := stripConv(call.Call.Args[0]).(*ssa.MakeSlice); isMk {
							localFrom[stripConv(call.Call.Args[0])] = fs
						}
					case "append":
						if isNilConst(stripConv(call.Call.Args[0])) {
							localFrom[call] = fs
						}
					}
				}
			}
		}
		// `*dst = *src` copies every field; fields that carry references are shared by it and must be
		// copied deeply afterwards
		var whole *ssa.Store
		for _, b := range fn.Blocks {
			for _, ins := range b.Instrs {
				if st, isSt := ins.(*ssa.Store); isSt && st.Addr == ssa.Value(dst) {
					if ld, isLd := st.Val.(*ssa.UnOp); isLd && ld.X == ssa.Value(src) {
						whole = st
					}
				}
			}
		}
		after := func(ins ssa.Instruction) bool {
			if whole == nil {
				return true
			}
			if ins.Block() == whole.Block() {
				return instrBefore(whole, ins)
			}
			return ins.Parent() == fn && whole.Block().Dominates(ins.Block())
		}
		early := map[*types.Var]bool{}
		for _, b := range theCtx.GB(fn) {
			for _, ins := range b.Instrs {
				switch x := ins.(type) {
				case *ssa.Store:
					if x == whole {
						continue
					}
					if fd := rootField(x.Addr, dst); fd != nil && !after(x) {
						early[fd] = true
					}
					if fs, ok := localFrom[stripConv(x.Val)]; ok {
						if fd := rootField(x.Addr, dst); fd != nil {
							if fd == fs {
								paired[fd] = true
							} else {
								mispaired[fd] = fs.Name()
							}
							continue
						}
					}
					pair(x.Addr, x.Val)
					if fd := rootField(x.Addr, dst); fd != nil && containsRef(x.Val.Type(), 0) && rootField(x.Val, src) != nil {
						if _, direct := x.Addr.(*ssa.FieldAddr); direct {
							shared[fd] = true
						}
					}
				case *ssa.Call:
					if len(x.Call.Args) >= 2 {
						if fd := rootField(x.Call.Args[0], dst); fd != nil && !after(x) {
							early[fd] = true
						}
						pair(x.Call.Args[0], x.Call.Args[1])
					}
				}
			}
		}
		reused := map[*types.Var]bool{}
		if wholeIn != "" {
			for _, b := range theCtx.GB(fn) {
				for _, ins := range b.Instrs {
					x, isSt := ins.(*ssa.Store)
					if !isSt {
						continue
					}
					fa, direct := x.Addr.(*ssa.FieldAddr)
					if !direct || fa.X != ssa.Value(dst) {
						continue
					}
					if _, isSl := x.Val.Type().Underlying().(*types.Slice); !isSl {
						continue
					}
					if !freshSlice(x.Val) {
						reused[fieldOfAddr(fa)] = true
					}
				}
			}
		}
		for i := 0; i < st.NumFields(); i++ {
			f := st.Field(i)
			key := FnName(fn) + ":" + refNameOf(f)
			ok := paired[f]
			if whole != nil && !containsRef(f.Type(), 0) {
				ok = true // copied by `*dst = *src`
			}
			if whole != nil && containsRef(f.Type(), 0) && !paired[f] {
				shared[f] = true
			}
			bad := "deepcopy has no statement that copies src." + f.Name() + " into dst." + f.Name() + ": the state snapshot taken at the start of a chunk does not carry this field"
			if g, mis := mispaired[f]; mis {
				ok = false
				bad = "deepcopy fills dst." + f.Name() + " from src." + g
			}
			if whole != nil && early[f] {
				ok = false
				bad = "deepcopy copies " + f.Name() + " before `*dst = *src` overwrites it with the shared value"
			}
			if reused[f] {
				ok = false
				bad = "deepcopy fills dst." + f.Name() + " with something built from storage dst already has, but " + wholeIn + " assigns `*dst = *src` first: that storage is the source's, so snapshot and live state share it"
			}
			if shared[f] {
				ok = false
				bad = "deepcopy assigns the reference field " + f.Name() + " from src: snapshot and live state share it, so the snapshot follows the live state"
			}
			r.Check(ok, rule, key, c.Pos(fn.Pos()), "dst."+f.Name()+" is copied from src."+f.Name(), bad)
		}
	}
	if n < 7 {
		r.Undecided(rule, "instances", "-", "only "+itoa(n)+" deepcopy methods found (7 confirmed by hand: state, literalCodec, lengthCodec, distCodec, treeCodec, treeReverseCodec, probTree)")
	}
	// cloneState must go through state.deepcopy on a fresh state
	if fn, dc := c.Func("lzma", "cloneState"), c.Func("lzma", "state.deepcopy"); fn != nil && dc != nil {
		ok := false
		for _, b := range theCtx.GB(fn) {
			for _, ins := range b.Instrs {
				if call, isCall := callTo(ins, dc); isCall && len(call.Call.Args) == 2 {
					_, fresh := call.Call.Args[0].(*ssa.Alloc)
					ok = fresh && call.Call.Args[1] == fn.Params[0]
				}
			}
		}
		r.Check(ok, rule, "cloneState", c.Pos(fn.Pos()), "cloneState = deepcopy of its argument into a fresh state", "cloneState does not deep-copy its argument into a freshly allocated state")
	}
}

// rootField: v is (an element / sub-field / slice / load of) root.f for a field f directly on
// *root; returns f.
func rootField(v ssa.Value, root ssa.Value) *types.Var {
	for i := 0; i < 12; i++ {
		switch x := v.(type) {
		case *ssa.FieldAddr:
			if x.X == root {
				return fieldOfAddr(x)
			}
			v = x.X
		case *ssa.IndexAddr:
			v = x.X
		case *ssa.UnOp:
			v = x.X
		case *ssa.Slice:
			v = x.X
		case *ssa.Field:
			v = x.X
		case *ssa.Index:
			v = x.X
		default:
			return nil
		}
	}
	return nil
}

// containsRef: a value of this type carries a reference (slice, map, pointer, channel), directly or
// inside a struct or array: assigning it shares what the reference points to.
func containsRef(t types.Type, depth int) bool {
	if depth > 6 {
		return false
	}
	switch u := t.Underlying().(type) {
	case *types.Slice, *types.Map, *types.Pointer, *types.Chan:
		return true
	case *types.Struct:
		for i := 0; i < u.NumFields(); i++ {
			if containsRef(u.Field(i).Type(), depth+1) {
				return true
			}
		}
	case *types.Array:
		return containsRef(u.Elem(), depth+1)
	}
	return false
}

func isRefType(t types.Type) bool {
	switch t.Underlying().(type) {
	case *types.Slice, *types.Map, *types.Pointer, *types.Chan:
		return true
	}
	return false
}

// singleReturnRaw: the value of the only return statement of a one-result function (nil otherwise).
func singleReturnRaw(fn *ssa.Function) ssa.Value {
	var rv ssa.Value
	for _, b := range fn.Blocks {
		if r, ok := b.Instrs[len(b.Instrs)-1].(*ssa.Return); ok && len(r.Results) == 1 {
			if rv != nil {
				return nil
			}
			rv = r.Results[0]
		}
	}
	return rv
}

// freshSlice: v is a slice that was allocated for this purpose: make, append(nil, ...), or the result
// of a new helper that returns such a slice.
func freshSlice(v ssa.Value) bool {
	switch x := stripConvNoLook(v).(type) {
	case *ssa.MakeSlice:
		return true
	case *ssa.Call:
		if bi, isB := x.Call.Value.(*ssa.Builtin); isB && bi.Name() == "append" {
			return isNilConst(stripConvNoLook(x.Call.Args[0])) || freshSlice(x.Call.Args[0])
		}
		if h := x.Call.StaticCallee(); h != nil && theCtx.IsNew(h) && h.Signature.Results().Len() == 1 {
			if rv := singleReturnRaw(h); rv != nil {
				return freshSlice(rv)
			}
		}
	case *ssa.Slice:
		return freshSlice(x.X)
	}
	return false
}

func stripConvNoLook(v ssa.Value) ssa.Value {
	for {
		switch x := v.(type) {
		case *ssa.Convert:
			v = x.X
		case *ssa.ChangeType:
			v = x.X
		default:
			return v
		}
	}
}

package main

func init() {
	register(&propCheck{
		id: "C05",
		explain: "Structural clause of C05 decided on every path of every reader entry point (xz, LZMA2, classic LZMA): " +
			"an io.EOF produced by the underlying source at any read other than the whitelisted stream-boundary probes is " +
			"replaced by another error before it can leave an exported reader function or be interpreted as 'end of data' " +
			"(EF-EOF: interprocedural error-provenance summaries + path-sensitive walk of every function in the reader cone); " +
			"plus the explicit-length obligations that turn a short source into an error (OB-LEN). " +
			"NOT decided: that the bytes delivered before the error are a prefix of the original (a value statement).",
		run: func(c *Ctx, r *Report) {
			ruleEOF(c, r, readerAPI(c), readerCone(c), "")
			r.Floor("EF-EOF", 25)
			r.Floor("EF-EOF-TRANSLATION", 12)
			ruleLenObligations(c, r)
			ruleRawEOFFlag(c, r, "")
			ruleReaderFrom(c, r, "")
			ruleBlockEnd(c, r, "")
			ruleNewReaderInit(c, r, "")
			ruleWriterTo(c, r, "")
			ruleRingWriters(c, r, "")
			ruleDecoderReadErr(c, r, "")
			ruleIO(c, r, readerCone(c), "", true)
			ruleNewAPI(c, r, true, false)
		},
	})
}

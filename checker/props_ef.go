package main

// Rule groups built on the EF engine, shared by several properties.

import (
	"fmt"
	"sort"
	"strings"

	"golang.org/x/tools/go/ssa"
)

func readerCone(c *Ctx) map[*ssa.Function]bool { return c.Cone(readerAPI(c)...) }
func writerCone(c *Ctx) map[*ssa.Function]bool { return c.Cone(writerAPI(c)...) }
func gxzCone(c *Ctx) map[*ssa.Function]bool    { return c.Cone(gxzRoots(c)...) }

func unionCones(ms ...map[*ssa.Function]bool) map[*ssa.Function]bool {
	u := map[*ssa.Function]bool{}
	for _, m := range ms {
		for k := range m {
			u[k] = true
		}
	}
	return u
}

// outOfScope: String methods and usage() are outside every property (DESIGN §3.3 Scope).
func efOutOfScope(fn *ssa.Function) bool {
	n := fn.Name()
	return n == "String" || n == "usage" || n == "licenses" || n == "Error"
}

func moduleOnly(c *Ctx, cone map[*ssa.Function]bool) map[*ssa.Function]bool {
	m := map[*ssa.Function]bool{}
	for fn := range cone {
		if c.InModule(fn) && fn.Blocks != nil && !efOutOfScope(fn) {
			m[fn] = true
		}
	}
	return m
}

// ruleEOF: EF-EOF over the given entry points and their cone.
func ruleEOF(c *Ctx, r *Report, entries []*ssa.Function, cone map[*ssa.Function]bool, prefix string) {
	e := GetEF(c)
	cone = moduleOnly(c, cone)
	if len(e.overflow) > 0 {
		for _, n := range e.overflow {
			r.Undecided(prefix+"EF-EOF", "overflow:"+n, "-", "path budget exceeded in "+n)
		}
	}
	// (i) no raw EOF leaves an exported reader entry point
	for _, fn := range entries {
		leaks := e.APIRawEOF(fn)
		key := "api:" + FnName(fn)
		if len(leaks) == 0 {
			r.Pass(prefix+"EF-EOF", key, c.Pos(fn.Pos()), "no un-translated source io.EOF can be returned (whitelisted stream-boundary probes excepted)", len(e.summary[fn])+1)
		} else {
			r.Fail(prefix+"EF-EOF", key, c.Pos(fn.Pos()),
				fmt.Sprintf("%s can return the source's bare io.EOF originating at %v: a cut-off input would look like a regular end", FnName(fn), leaks))
		}
	}
	// (ii) interpretation sites
	bad := map[string]bool{}
	for _, f := range e.Findings(cone, "EF-EOF-INTERP") {
		r.Fail(prefix+"EF-EOF", "interp:"+f.Key, f.Pos, f.Msg, f.Trace...)
		for _, o := range f.Origins {
			bad[o] = true
		}
	}
	// every raw read origin in the cone is one obligation
	rd, _ := e.Origins(cone)
	for _, k := range rd {
		if !bad[k] {
			r.Pass(prefix+"EF-EOF", "origin:"+k, originPos(c, e, k), "every path from this source read either fails with a non-EOF error, or its io.EOF is replaced before it is interpreted or returned (or it is a whitelisted boundary probe)", 1)
		}
	}
	// translation sites recognised (vacuity guard)
	var ts []string
	for k := range e.translations {
		fnName := k[:strings.Index(k, ":eof-test#")]
		for fn := range cone {
			if FnName(fn) == fnName {
				ts = append(ts, k)
				break
			}
		}
	}
	sort.Strings(ts)
	for _, k := range ts {
		r.Pass(prefix+"EF-EOF-TRANSLATION", k, "", fmt.Sprintf("io.EOF test whose equal edge replaces the error; %d raw origins are translated here", len(e.translations[k])), len(e.translations[k]))
	}
}

func originPos(c *Ctx, e *EF, key string) string {
	for ci, k := range e.originKey {
		if k == key {
			return c.InstrPos(ci.(ssa.Instruction))
		}
	}
	return ""
}

// ruleIO: EF-IO (+ EF-DROP when drop is set) over a cone.
func ruleIO(c *Ctx, r *Report, cone map[*ssa.Function]bool, prefix string, drop bool) {
	e := GetEF(c)
	cone = moduleOnly(c, cone)
	for _, n := range e.overflow {
		for fn := range cone {
			if FnName(fn) == n {
				r.Undecided(prefix+"EF-IO", "overflow:"+n, "-", "path budget exceeded in "+n)
			}
		}
	}
	bad := map[string]bool{}
	kinds := []string{"EF-IO"}
	if drop {
		kinds = append(kinds, "EF-DROP")
	}
	for _, f := range e.Findings(cone, kinds...) {
		rule := prefix + "EF-IO"
		if f.Kind == "EF-DROP" {
			rule = prefix + "EF-DROP"
		}
		r.Fail(rule, strings.ToLower(strings.TrimPrefix(f.Kind, "EF-"))+":"+f.Key, f.Pos, f.Msg, f.Trace...)
		bad[f.Key] = true
	}
	rd, wr := e.Origins(cone)
	for _, k := range append(rd, wr...) {
		if !bad[k] {
			r.Pass(prefix+"EF-IO", "origin:"+k, originPos(c, e, k), "on every path the error of this I/O call is propagated, stored, or the function returns a provably non-nil error", 1)
		}
	}
	if drop {
		// count the fallible non-I/O call sites judged
		n := 0
		for fn := range cone {
			for _, b := range theCtx.GB(fn) {
				for _, ins := range b.Instrs {
					call, ok := ins.(*ssa.Call)
					if !ok {
						continue
					}
					o, mf := e.callOrigins(fn, call)
					if o == nil || !mf {
						continue
					}
					k := callKey(fn, call)
					if bad[k] {
						continue
					}
					io := false
					for _, os := range o {
						if len(os) > 0 {
							io = true
						}
					}
					if !io {
						n++
						r.Pass(prefix+"EF-DROP", "call:"+k, c.InstrPos(call), "the result of this fallible call is tested and its failure edge reaches a non-nil return, a panic or a store", 1)
					}
				}
			}
		}
	}
}

package main

import (
	"go/token"
	"go/types"

	"golang.org/x/tools/go/ssa"
)

// Package-level tables in the CE interpreter.
//
// A package-level variable whose value is fixed by the package initialiser and which no function of
// the module ever writes (frozenGlobal) is read by the interpreter with the value the initialiser
// gives it: the initialiser (the synthesized init function: composite literals, make, map updates) is
// evaluated once per load, in tolerant mode (what the interpreter does not model stays unknown and
// makes a later evaluation that depends on it undecided, never decided wrongly).

type amap struct {
	entries map[string]aval
	opaque  bool // an entry with a non-constant key was stored: lookups are unknown
}

// frozenGlobal: every use of g outside the package initialiser only reads it (loads, lookups,
// indexing, len, range; element/field addresses that are only loaded from).
func (c *Ctx) frozenGlobal(g *ssa.Global) bool {
	if c.frozen == nil {
		c.frozen = map[*ssa.Global]bool{}
		bad := map[*ssa.Global]bool{}
		seen := map[*ssa.Global]bool{}
		var readOnlyVal func(v ssa.Value, depth int) bool
		readOnlyAddr := func(v ssa.Value, depth int) bool { return false }
		readOnlyAddr = func(v ssa.Value, depth int) bool {
			if depth > 6 || v.Referrers() == nil {
				return false
			}
			for _, ref := range *v.Referrers() {
				switch x := ref.(type) {
				case *ssa.UnOp:
					if x.Op != token.MUL || !readOnlyVal(x, depth+1) {
						return false
					}
				case *ssa.FieldAddr:
					if !readOnlyAddr(x, depth+1) {
						return false
					}
				case *ssa.IndexAddr:
					if x.X != v || !readOnlyAddr(x, depth+1) {
						return false
					}
				case *ssa.Slice:
					if !readOnlyVal(x, depth+1) {
						return false
					}
				case *ssa.DebugRef:
				default:
					return false
				}
			}
			return true
		}
		readOnlyVal = func(v ssa.Value, depth int) bool {
			// a loaded value: harmless unless it is a reference (map, slice, pointer) that flows on
			switch v.Type().Underlying().(type) {
			case *types.Map, *types.Slice, *types.Pointer, *types.Chan, *types.Interface:
			default:
				if !containsRefType(v.Type()) {
					return true
				}
			}
			if depth > 6 || v.Referrers() == nil {
				return false
			}
			for _, ref := range *v.Referrers() {
				switch x := ref.(type) {
				case *ssa.Lookup:
					if x.X != v || !readOnlyVal(x, depth+1) {
						return false
					}
				case *ssa.Extract:
					if !readOnlyVal(x, depth+1) {
						return false
					}
				case *ssa.Index:
					if !readOnlyVal(x, depth+1) {
						return false
					}
				case *ssa.IndexAddr:
					if x.X != v || !readOnlyAddr(x, depth+1) {
						return false
					}
				case *ssa.Field:
					if !readOnlyVal(x, depth+1) {
						return false
					}
				case *ssa.Range, *ssa.DebugRef:
				case *ssa.BinOp:
				case *ssa.Call:
					bi, isB := x.Call.Value.(*ssa.Builtin)
					if !isB || (bi.Name() != "len" && bi.Name() != "cap") {
						return false
					}
				case *ssa.Store:
					// storing the loaded value into a local is a copy of the reference: only a local alloc that is itself read-only
					al, isA := x.Addr.(*ssa.Alloc)
					if x.Val != v || !isA || al.Heap || !readOnlyAddr(al, depth+1) {
						return false
					}
				default:
					return false
				}
			}
			return true
		}
		for _, fn := range c.modFuncs {
			if fn.Blocks == nil {
				continue
			}
			isInit := fn.Name() == "init" && fn.Signature.Recv() == nil && fn.Parent() == nil
			for _, b := range fn.Blocks {
				for _, ins := range b.Instrs {
					for _, op := range ins.Operands(nil) {
						g, ok := (*op).(*ssa.Global)
						if !ok || isInit {
							continue
						}
						seen[g] = true
						switch x := ins.(type) {
						case *ssa.UnOp:
							if x.Op != token.MUL || !readOnlyVal(x, 0) {
								bad[g] = true
							}
						case *ssa.FieldAddr:
							if !readOnlyAddr(x, 0) {
								bad[g] = true
							}
						case *ssa.IndexAddr:
							if !readOnlyAddr(x, 0) {
								bad[g] = true
							}
						case *ssa.Slice:
							if !readOnlyVal(x, 0) {
								bad[g] = true
							}
						case *ssa.DebugRef:
						default:
							bad[g] = true
						}
					}
				}
			}
		}
		for g := range seen {
			c.frozen[g] = !bad[g]
		}
	}
	return c.frozen[g]
}

// keyFrozenMap: g is a package-level map that functions only look entries up in, range over or take
// the length of. Its set of keys is the one the initialiser built, whatever happens to the values.
func (c *Ctx) keyFrozenMap(g *ssa.Global) bool {
	if _, isMap := g.Type().(*types.Pointer).Elem().Underlying().(*types.Map); !isMap {
		return false
	}
	if c.keyFrozen == nil {
		c.keyFrozen = map[*ssa.Global]bool{}
	}
	if v, done := c.keyFrozen[g]; done {
		return v
	}
	ok := true
	for _, fn := range c.modFuncs {
		if fn.Blocks == nil || (fn.Name() == "init" && fn.Signature.Recv() == nil && fn.Parent() == nil) {
			continue
		}
		for _, b := range fn.Blocks {
			for _, ins := range b.Instrs {
				for _, op := range ins.Operands(nil) {
					if *op != ssa.Value(g) {
						continue
					}
					ld, isL := ins.(*ssa.UnOp)
					if _, isD := ins.(*ssa.DebugRef); isD {
						continue
					}
					if !isL || ld.Op != token.MUL || ld.Referrers() == nil {
						ok = false
						continue
					}
					for _, ref := range *ld.Referrers() {
						switch x := ref.(type) {
						case *ssa.Lookup:
							if x.X != ssa.Value(ld) {
								ok = false
							}
						case *ssa.Range, *ssa.DebugRef:
						case *ssa.Call:
							if bi, isB := x.Call.Value.(*ssa.Builtin); !isB || bi.Name() != "len" {
								ok = false
							}
						default:
							ok = false
						}
					}
				}
			}
		}
	}
	c.keyFrozen[g] = ok
	return ok
}

// initialKeys: the cell of a key-frozen map with the keys of the initialiser and unknown values.
func (c *Ctx) initialKeys(g *ssa.Global) *cell {
	if g.Pkg == nil || !c.InModulePkg(g.Pkg.Pkg) || !c.keyFrozenMap(g) {
		return nil
	}
	if c.initCells == nil {
		c.initCells = map[*ssa.Package]map[*ssa.Global]*cell{}
	}
	cells, done := c.initCells[g.Pkg]
	if !done {
		in := NewInterp(c)
		in.tolerant = true
		in.MaxSteps = 2000000
		if f := g.Pkg.Func("init"); f != nil && f.Blocks != nil {
			in.callInit(f)
		}
		cells = in.gcells
		c.initCells[g.Pkg] = cells
	}
	ic := cells[g]
	if ic == nil || ic.v.k != kMap || ic.v.m == nil || ic.v.m.opaque {
		return nil
	}
	m := &amap{entries: map[string]aval{}}
	for k := range ic.v.m.entries {
		m.entries[k] = aval{k: kUnknown}
	}
	return &cell{v: aval{k: kMap, typ: ic.v.typ, m: m}}
}

func containsRefType(t types.Type) bool {
	switch u := t.Underlying().(type) {
	case *types.Signature:
		return false // function values are immutable
	case *types.Struct:
		for i := 0; i < u.NumFields(); i++ {
			if containsRefType(u.Field(i).Type()) {
				return true
			}
		}
		return false
	case *types.Array:
		return containsRefType(u.Elem())
	case *types.Basic:
		return false
	}
	return true
}

// initialCell: the cell of a frozen package-level variable after the package initialiser ran, or nil.
func (c *Ctx) initialCell(g *ssa.Global) *cell {
	if g.Pkg == nil || !c.InModulePkg(g.Pkg.Pkg) || isErrType(g.Type().(*types.Pointer).Elem()) || !c.frozenGlobal(g) {
		return nil
	}
	if c.initCells == nil {
		c.initCells = map[*ssa.Package]map[*ssa.Global]*cell{}
	}
	cells, done := c.initCells[g.Pkg]
	if !done {
		in := NewInterp(c)
		in.tolerant = true
		in.MaxSteps = 2000000
		if f := g.Pkg.Func("init"); f != nil && f.Blocks != nil {
			in.callInit(f)
		}
		cells = in.gcells
		c.initCells[g.Pkg] = cells
	}
	return cells[g]
}

// frozenMapOf: v is a lookup (or its value part) in a frozen package-level map; returns the map's
// initial contents.
func frozenMapOf(v ssa.Value) (*amap, *ssa.Lookup, bool) {
	if ex, ok := v.(*ssa.Extract); ok && ex.Index == 0 {
		v = ex.Tuple
	}
	lk, ok := v.(*ssa.Lookup)
	if !ok || theCtx == nil {
		return nil, nil, false
	}
	ld, ok := lk.X.(*ssa.UnOp)
	if !ok || ld.Op != token.MUL {
		return nil, nil, false
	}
	g, ok := ld.X.(*ssa.Global)
	if !ok {
		return nil, nil, false
	}
	cell := theCtx.initialCell(g)
	if cell == nil || cell.v.k != kMap || cell.v.m == nil || cell.v.m.opaque {
		return nil, nil, false
	}
	return cell.v.m, lk, true
}

// singleEntryOf: the value of the only entry of the frozen map v is looked up in.
func singleEntryOf(v ssa.Value) (aval, bool) {
	m, _, ok := frozenMapOf(v)
	if !ok || len(m.entries) != 1 {
		return aval{}, false
	}
	for _, e := range m.entries {
		return e, true
	}
	return aval{}, false
}

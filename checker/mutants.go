package main

// Thorough tier: self-validation of the checker on variants of /repo's working tree.
//
//   * mutants  — the confirmed seeded changes under /verif/seeded/<name>/patch.diff whose
//     meta.json names this property: each breaks the property while compiling and passing
//     the test suite; the check is expected to report a violation (killed).
//   * benign   — the behaviour-preserving refactorings under /verif/benign/<name>/patch.diff:
//     the check is expected to stay silent.
//
// Each variant is a scratch copy of /repo's WORKING TREE under $TMPDIR (outside /repo and
// /verif) with one patch applied, analysed by a child `xzverify check <prop>` process with
// XZVERIFY_REPO pointing at it; the copy is removed at once. The verdict on /repo never
// depends on the variants: they measure the checker and are recorded in the evidence
// (a patch that no longer applies to the current tree is "not applicable", not a failure).

import (
	"encoding/json"
	"fmt"
	"os"
	"os/exec"
	"path/filepath"
	"sort"
	"strings"
	"sync"
)

func init() { thoroughExtras = runVariants }

type variantResult struct {
	Name     string `json:"name"`
	Kind     string `json:"kind"`
	Outcome  string `json:"outcome"` // killed | survived | silent | alarm | not-applicable
	Detail   string `json:"detail,omitempty"`
	Property string `json:"seeded_for,omitempty"`
}

func runVariants(c *Ctx, r *Report) {
	if os.Getenv("XZVERIFY_NO_VARIANTS") != "" || os.Getenv("XZVERIFY_REPO") != "" {
		return // child process or explicitly disabled
	}
	home := verifDir()
	self, err := os.Executable()
	if err != nil {
		return
	}
	type job struct{ name, kind, patch, prop string }
	var jobs []job
	seedDirs, _ := filepath.Glob(filepath.Join(home, "seeded", "C*-*"))
	sort.Strings(seedDirs)
	for _, d := range seedDirs {
		b, err := os.ReadFile(filepath.Join(d, "meta.json"))
		if err != nil {
			continue
		}
		var meta struct {
			Property string `json:"property"`
		}
		json.Unmarshal(b, &meta)
		if meta.Property != r.Prop {
			continue
		}
		jobs = append(jobs, job{filepath.Base(d), "mutant", filepath.Join(d, "patch.diff"), meta.Property})
	}
	benDirs, _ := filepath.Glob(filepath.Join(home, "benign", "*"))
	sort.Strings(benDirs)
	for _, d := range benDirs {
		if _, err := os.Stat(filepath.Join(d, "patch.diff")); err == nil {
			jobs = append(jobs, job{filepath.Base(d), "benign", filepath.Join(d, "patch.diff"), ""})
		}
	}
	results := make([]variantResult, len(jobs))
	sem := make(chan struct{}, 8)
	var wg sync.WaitGroup
	for i, j := range jobs {
		wg.Add(1)
		go func(i int, j job) {
			defer wg.Done()
			sem <- struct{}{}
			defer func() { <-sem }()
			res := variantResult{Name: j.name, Kind: j.kind, Property: j.prop}
			tmp, err := os.MkdirTemp("", "xzv-variant-")
			if err != nil {
				res.Outcome, res.Detail = "not-applicable", err.Error()
				results[i] = res
				return
			}
			defer os.RemoveAll(tmp)
			wt := filepath.Join(tmp, "repo")
			// the working tree without .git (the repository metadata is not needed and may change under
			// the copy when worktrees are added or removed meanwhile)
			if out, err := exec.Command("sh", "-c", `mkdir -p "$1" && cd "$0" && for e in * .[!.]*; do [ "$e" = .git ] || [ ! -e "$e" ] || cp -a "$e" "$1"/ || exit 1; done`, repoDir(), wt).CombinedOutput(); err != nil {
				res.Outcome, res.Detail = "not-applicable", "copy failed: "+string(out)
				results[i] = res
				return
			}
			os.RemoveAll(filepath.Join(wt, ".git"))
			ap := exec.Command("git", "apply", "--whitespace=nowarn", j.patch)
			ap.Dir = wt
			if out, err := ap.CombinedOutput(); err != nil {
				res.Outcome, res.Detail = "not-applicable", "patch does not apply to the current tree: "+firstLine(string(out))
				results[i] = res
				return
			}
			vh := filepath.Join(tmp, "home")
			os.MkdirAll(filepath.Join(vh, "evidence"), 0o755)
			if kf, err := os.ReadFile(filepath.Join(home, "known_findings.txt")); err == nil {
				os.WriteFile(filepath.Join(vh, "known_findings.txt"), kf, 0o644)
			}
			cmd := exec.Command(self, "check", r.Prop, "--tier", "quick")
			cmd.Env = append(os.Environ(), "XZVERIFY_REPO="+wt, "XZVERIFY_HOME="+vh, "XZVERIFY_NO_VARIANTS=1")
			out, _ := cmd.CombinedOutput()
			code := cmd.ProcessState.ExitCode()
			var rules []string
			for _, l := range strings.Split(string(out), "\n") {
				if strings.HasPrefix(l, "FAIL ") || strings.HasPrefix(l, "UNDECIDED ") {
					f := strings.Fields(l)
					if len(f) >= 3 {
						rules = append(rules, f[1]+" "+f[2])
					}
				}
			}
			if len(rules) > 4 {
				rules = rules[:4]
			}
			switch {
			case j.kind == "mutant" && code == 1:
				res.Outcome, res.Detail = "killed", strings.Join(rules, " | ")
			case j.kind == "mutant" && code == 0:
				res.Outcome = "survived"
			case j.kind == "benign" && code == 0:
				res.Outcome = "silent"
			case j.kind == "benign" && code == 1:
				res.Outcome, res.Detail = "alarm", strings.Join(rules, " | ")
			default:
				res.Outcome, res.Detail = "not-applicable", fmt.Sprintf("child exit %d: %s", code, firstLine(string(out)))
			}
			results[i] = res
		}(i, j)
	}
	wg.Wait()
	count := map[string]int{}
	for _, v := range results {
		count[v.Kind+":"+v.Outcome]++
	}
	if r.Extra == nil {
		r.Extra = map[string]interface{}{}
	}
	r.Extra["variants"] = map[string]interface{}{
		"what":    "checker self-validation (thorough tier): seeded property-breaking changes for this property must be reported, behaviour-preserving refactorings must not; never part of the verdict on /repo",
		"summary": count, "results": results,
	}
	fmt.Printf("%s variants: %v\n", r.Prop, count)
}

func firstLine(s string) string {
	s = strings.TrimSpace(s)
	if i := strings.IndexByte(s, '\n'); i >= 0 {
		s = s[:i]
	}
	if len(s) > 200 {
		s = s[:200]
	}
	return s
}

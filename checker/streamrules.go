package main

// Rules about multi-stream handling (C12), explicit lengths (C05) and the xz writer's
// typestate / block rotation / matcher guards (C01, C17).

import (
	"fmt"
	"go/token"
	"go/types"
	"os"
	"sort"
	"strings"

	"golang.org/x/tools/go/ssa"
)

// ---------- C12 ----------

func ruleMultiStream(c *Ctx, r *Report, prefix string) {
	rule := prefix + "SEQ-STREAMS"
	nsr := c.Func("", "ReaderConfig.newStreamReader")
	read := c.Func("", "Reader.Read")
	newReader := c.Func("", "ReaderConfig.NewReader")
	errPadding := c.Global("", "errPadding")
	errUnexp := c.Global("", "errUnexpectedData")
	fSS := c.Field("", "ReaderConfig.SingleStream")
	fSR := c.Field("", "Reader.sr")
	srRead := c.Func("", "streamReader.Read")
	hdrUnm := c.Func("", "header.UnmarshalBinary")
	if nsr == nil || read == nil || newReader == nil || errPadding == nil || errUnexp == nil || fSS == nil || fSR == nil || srRead == nil || hdrUnm == nil {
		return
	}
	// --- newStreamReader: 4-byte probe, all-zero => errPadding, then 8 more bytes ---
	{
		o := newOb(c, r, rule, nsr)
		isZero4 := func(v ssa.Value) bool {
			sl, ok := stripConv(v).(*ssa.Slice)
			if !ok {
				return false
			}
			al, ok := sl.X.(*ssa.Alloc)
			if !ok {
				return false
			}
			at, ok := al.Type().(*types.Pointer).Elem().Underlying().(*types.Array)
			if !ok || at.Len() != 4 {
				return false
			}
			// all stores into it are zero
			for _, ref := range *al.Referrers() {
				if ia, ok := ref.(*ssa.IndexAddr); ok && ia.Referrers() != nil {
					for _, r2 := range *ia.Referrers() {
						if st, ok := r2.(*ssa.Store); ok {
							if k, isK := constInt(st.Val); !isK || k != 0 {
								return false
							}
						}
					}
				}
			}
			return true
		}
		var buf ssa.Value
		isProbe := func(v ssa.Value) bool {
			ref, ok := sliceRefOf(v)
			if !ok || ref.lo != 0 || ref.hi != 4 {
				return false
			}
			ln := bufLen(stripConv(ref.root))
			if ln == nil {
				// the root may be the [:12] slice of the array
				if sl, ok := stripConv(ref.root).(*ssa.Slice); ok {
					ln = bufLen(sl)
				}
			}
			k, isK := int64(0), false
			if ln != nil {
				k, isK = constInt(ln)
			}
			if !isK || k != 12 {
				return false
			}
			buf = ref.root
			return true
		}
		allZerosFn := c.funcQuiet("", "allZeros")
		g := o.boolCall("V28-padding-probe", func(call *ssa.Call) bool {
			if allZerosFn != nil && call.Call.StaticCallee() == allZerosFn && len(call.Call.Args) == 1 {
				return isProbe(call.Call.Args[0]) // allZeros(data[:4]) is the same test
			}
			if stdCalleeName(call) != "bytes.Equal" {
				return false
			}
			a, b := call.Call.Args[0], call.Call.Args[1]
			return (isProbe(a) && isZero4(b)) || (isProbe(b) && isZero4(a))
		}, true, "first four bytes all zero (stream padding)")
		if g != nil {
			// on that edge the function returns errPadding itself (no loop here: NewReader must see it)
			paths, _ := CollectPaths(c, SeqSpec{Fn: nsr})
			ok, n := true, 0
			for _, sp := range paths {
				bv, known := sp.P.BoolOf(g.call)
				if known && bv {
					n++
					if sp.ErrGlobal != errPadding {
						ok = false
					}
				}
			}
			r.Check(ok && n > 0, rule, "V28-padding-result:"+FnName(nsr), c.InstrPos(g.iff), "all-zero probe => errPadding is returned to the caller",
				"on the all-zero edge newStreamReader does not return errPadding: leading padding (before the first stream) would be skipped silently by NewReader")
		}
		// reads: ReadFull(data[:4]) then ReadFull(data[4:]) of the same 12-byte buffer
		var rf []*ssa.Call
		for _, b := range theCtx.GB(nsr) {
			for _, ins := range b.Instrs {
				if call, ok := ins.(*ssa.Call); ok && stdCalleeName(call) == "io.ReadFull" {
					rf = append(rf, call)
				}
			}
		}
		sort.SliceStable(rf, func(i, j int) bool { return effectivePos(nsr, rf[i], 0) < effectivePos(nsr, rf[j], 0) })
		okReads := len(rf) == 2 && instrOrder(rf[0], rf[1])
		if okReads {
			a, _ := sliceRefOf(rf[0].Call.Args[1])
			b, _ := sliceRefOf(rf[1].Call.Args[1])
			okReads = a.lo == 0 && a.hi == 4 && b.lo == 4 && (b.hi == -1 || b.hi == 12) && a.root == b.root && (buf == nil || a.root == buf)
		}
		r.Check(okReads, rule, "V28-header-reads:"+FnName(nsr), c.Pos(nsr.Pos()), "stream header read as io.ReadFull(data[:4]) then io.ReadFull(data[4:12])",
			"newStreamReader does not read the 12 header bytes as a 4-byte probe followed by the remaining 8 bytes with io.ReadFull")
		o.mustCheck("V28-header-parsed", calleeIs(hdrUnm), "stream header validated by header.UnmarshalBinary")
	}
	// --- Reader.Read per mode ---
	for _, single := range []bool{true, false} {
		ss := single
		var probe, srCall *ssa.Call
		spec := SeqSpec{Fn: read, NoMerge: true}
		spec.Assume = func(w *Walker, p *PState, ins ssa.Instruction) {
			if u, ok := loadOfField(ins, fSS); ok {
				setBoolFact(p, p.Resolve(u), ss)
			}
		}
		spec.Event = func(w *Walker, p *PState, ins ssa.Instruction) string {
			call, ok := ins.(*ssa.Call)
			if ok {
				switch {
				case call.Call.StaticCallee() == nsr:
					return "newStreamReader"
				case stdCalleeName(call) == "io.ReadFull":
					probe = call
					return "probe"
				case call.Call.StaticCallee() == srRead:
					srCall = call
					return "sr.Read"
				}
			}
			if st, ok := storeToField(ins, fSR); ok && isNilConst(st.Val) {
				return "sr=nil"
			}
			return ""
		}
		paths, over := CollectPaths(c, spec)
		key := fmt.Sprintf("Reader.Read:SingleStream=%v", ss)
		if over {
			r.Undecided(rule, key, c.Pos(read.Pos()), "path budget exceeded")
			continue
		}
		bad := ""
		var badTrace []string
		nClean := 0
		for _, sp := range paths {
			l := sp.Labels()
			if ss {
				if sp.Has("newStreamReader") {
					bad = "with SingleStream set another stream header is read after the first stream"
				}
				if sp.Has("probe") && probe != nil {
					ev := errValueOfCall(probe)
					last := l[len(l)-1] == "probe"
					if last && ev != nil {
						switch {
						case sp.P.IsNil(ev):
							if sp.ErrGlobal != errUnexp {
								bad = "a byte follows the first stream but the result is not errUnexpectedData"
							}
						case sp.P.EqGlobal(ev) != nil && isEOF(sp.P.EqGlobal(ev)):
							nClean++
							if sp.ErrGlobal == nil || !isEOF(sp.ErrGlobal) {
								bad = "the probe hit EOF but the result is not a clean io.EOF"
							}
						default:
							if !sp.ErrNonNil && sp.ErrVal != ev {
								bad = "a failing probe does not return an error"
							}
							if sp.ErrVal == ev {
								nClean++ // the probe's own error (io.EOF at the end of the input) is handed out unchanged
							}
						}
					}
				}
				if sp.ErrGlobal != nil && isEOF(sp.ErrGlobal) {
					if _, isG := sp.ErrVal.(*ssa.Global); isG && !sp.Has("probe") {
						bad = "a clean EOF is reported without the one-byte probe for trailing data"
					}
				}
			} else {
				if sp.Has("probe") {
					bad = "the SingleStream probe runs although SingleStream is not set"
				}
				if sp.ErrGlobal == errPadding {
					bad = "errPadding (4 zero bytes between streams) is returned to the caller instead of being skipped"
				}
				// a stream's EOF is followed by sr = nil, never returned
				if srCall != nil {
					ev := errValueOfCall(srCall)
					if ev != nil && sp.ErrVal == ev && sp.P.EqGlobal(ev) != nil && isEOF(sp.P.EqGlobal(ev)) {
						bad = "the end of one stream (io.EOF of streamReader.Read) is returned to the caller: following streams would be ignored"
					}
				}
			}
			if bad != "" {
				badTrace = sp.Trace
				break
			}
		}
		if ss && bad == "" && nClean == 0 {
			bad = "no path reports a clean end after the probe hit EOF"
		}
		if bad != "" {
			r.Fail(rule, key, c.Pos(read.Pos()), bad, badTrace...)
		} else {
			r.Pass(rule, key, c.Pos(read.Pos()), "all paths of Reader.Read behave as the mode requires", len(paths))
		}
	}
	// after a stream ended the reader forgets it (so the next header is looked for)
	{
		ok := false
		for _, g := range guardsOf(read) {
			if g.call != nil || (g.op != token.EQL && g.op != token.NEQ) {
				continue
			}
			isE := func(v ssa.Value) bool {
				u, ok := stripConv(v).(*ssa.UnOp)
				if !ok {
					return false
				}
				gl, ok := u.X.(*ssa.Global)
				return ok && isEOF(gl)
			}
			if !(isE(g.x) || isE(g.y)) {
				continue
			}
			succ := g.iff.Block().Succs[0]
			if g.op == token.NEQ {
				succ = g.iff.Block().Succs[1]
			}
			for _, ins := range succ.Instrs {
				if st, isSt := storeToField(ins, fSR); isSt && isNilConst(st.Val) {
					ok = true
				}
			}
		}
		r.Check(ok, rule, "Reader.Read:stream-end", c.Pos(read.Pos()), "on a stream's io.EOF the reader sets sr = nil and continues", "Reader.Read does not reset r.sr on the io.EOF of a stream")
	}
	r.Floor(rule, 6)
}

// ---------- C05: explicit lengths ----------

func ruleLenObligations(c *Ctx, r *Report) {
	rule := "OB-LEN"
	if fn := c.Func("lzma", "uncompressedReader.fill"); fn != nil {
		o := newOb(c, r, rule, fn)
		fN := (*types.Var)(nil)
		if lrT := c.Field("lzma", "uncompressedReader.lr"); lrT != nil {
			if st, ok := lrT.Type().Underlying().(*types.Struct); ok {
				for i := 0; i < st.NumFields(); i++ {
					if st.Field(i).Name() == "N" {
						fN = st.Field(i)
					}
				}
			}
		}
		o.rel("raw-chunk-short", roleFieldLoad(fN), roleConst(0), token.NEQ, "raw chunk ended before its declared size (LimitedReader.N != 0 at EOF)")
	}
	tmp := NewReport(r.Prop, r.Tier)
	ruleXZReaderChecks(c, tmp, "")
	for _, o := range tmp.Obs {
		for _, k := range []string{"V24-", "V11-", "V12-record-count:", "V26-clean-eof", "V31-"} {
			if strings.HasPrefix(o.Key, k) {
				o.Rule = rule
				r.add(o)
			}
		}
	}
	t := getChunkTables(c, tmp, "")
	tmp2 := NewReport(r.Prop, r.Tier)
	ruleStartChunkEffects(c, tmp2, t, "")
	for _, o := range tmp2.Obs {
		if strings.HasPrefix(o.Rule, "SEQ-STARTCHUNK") {
			o.Rule = rule
			o.Key = "startChunk:" + o.Key
			r.add(o)
		}
	}
	r.Floor(rule, 10)
}

// ---------- C01 / C17: matcher guards ----------

// ruleMatcherGuard (OB-M1): every candidate distance handed to buffer.matchLen in a
// matcher is guarded by `dist > encoderDict.DictLen()` => skip, with that exact relation.
func ruleMatcherGuard(c *Ctx, r *Report, prefix string, exact bool) {
	rule := prefix + "OB-M1"
	matchLen := c.Func("lzma", "buffer.matchLen")
	dictLen := c.Func("lzma", "encoderDict.DictLen")
	if matchLen == nil || dictLen == nil {
		return
	}
	roots := nonNilFns(c.Func("lzma", "hashTable.NextOp"), c.Func("lzma", "binTree.NextOp"))
	cone := moduleOnly(c, c.Cone(roots...))
	n := 0
	for _, fn := range sortedFuncs(cone) {
		if c.IsNew(fn) {
			continue // a new helper is part of the known functions that call it (GB)
		}
		c.curRoot, c.bindParam = fn, nil
		for _, b := range theCtx.GB(fn) {
			for _, ins := range b.Instrs {
				call, ok := callTo(ins, matchLen)
				if !ok {
					continue
				}
				n++
				d := call.Call.Args[1]
				if b.Parent() != fn {
					if lt, through := c.lookThrough(d); through {
						d = lt // the helper's parameter stands for the caller's candidate distance
					}
				}
				key := fmt.Sprintf("%s:matchLen#%d", FnName(fn), n)
				found, weak := false, ""
				for _, g := range guardsOf(fn) {
					if g.call != nil {
						continue
					}
					isL := func(v ssa.Value) bool {
						v = stripConv(v)
						if cl, ok := v.(*ssa.Call); ok && cl.Call.StaticCallee() == dictLen {
							return true
						}
						return false
					}
					op := g.op
					switch {
					case sameVal(g.x, d) && isL(g.y):
					case sameVal(g.y, d) && isL(g.x):
						op = flipOp(op)
					default:
						continue
					}
					// required: skip exactly when d > L; the matchLen call lies on the d <= L side
					var okEdge *ssa.BasicBlock
					switch {
					case op == token.GTR, !exact && op == token.GEQ:
						okEdge = g.iff.Block().Succs[1]
					case op == token.LEQ, !exact && op == token.LSS:
						okEdge = g.iff.Block().Succs[0]
					default:
						weak = fmt.Sprintf("compared with `%s` at %s", op, c.InstrPos(g.iff))
						continue
					}
					if okEdge == b || theCtx.Dom(okEdge, b) {
						found = true
					}
				}
				switch {
				case found:
					r.Pass(rule, key, c.InstrPos(ins), "candidate distance is used only on the `dist <= DictLen()` side of the guard", 1)
				case weak != "":
					r.Fail(rule, key, c.InstrPos(ins), "the candidate distance is "+weak+" with DictLen(); required: skip exactly when dist > DictLen() (>= would lose the largest legal distance, no/looser check lets matches point in front of the data)")
				default:
					r.Fail(rule, key, c.InstrPos(ins), "a candidate distance reaches buffer.matchLen without having been compared with encoderDict.DictLen(): it can point in front of the data actually in the dictionary (undecodable output)")
				}
			}
		}
	}
	r.Floor(rule, 2)
}

// ---------- C01: xz writer typestate, fresh hash, block rotation ----------

func ruleXZWriter(c *Ctx, r *Report, prefix string) {
	rule := prefix + "SEQ-XZW"
	fClosed := c.Field("", "Writer.closed")
	write, closeF := c.Func("", "Writer.Write"), c.Func("", "Writer.Close")
	nbw := c.Func("", "Writer.newBlockWriter")
	// closeBlockWriter may have been folded into its two callers (Write, Close): then bw.Close followed
	// by the index append is read as the step it was (cbwIn)
	cbw := c.funcQuiet("", "Writer.closeBlockWriter")
	cbwIn := cbw == nil
	if !cbwIn {
		cbw = c.Func("", "Writer.closeBlockWriter")
	}
	cfgNBW := c.Func("", "WriterConfig.newBlockWriter")
	bwWrite, bwClose := c.Func("", "blockWriter.Write"), c.Func("", "blockWriter.Close")
	bwRecord := c.Func("", "blockWriter.record")
	errNoSpace := c.Global("", "errNoSpace")
	fNewHash := c.Field("", "Writer.newHash")
	fIndex := c.Field("", "Writer.index")
	fBS, fBn := c.Field("", "blockWriter.blockSize"), c.Field("", "blockWriter.n")
	writeIndex := c.Func("", "writeIndex")
	if fClosed == nil || write == nil || closeF == nil || nbw == nil || (cbw == nil && !cbwIn) || cfgNBW == nil || bwWrite == nil || bwClose == nil ||
		bwRecord == nil || errNoSpace == nil || fNewHash == nil || fIndex == nil || fBS == nil || fBn == nil || writeIndex == nil {
		return
	}
	effect := func(w *Walker, p *PState, ins ssa.Instruction) string {
		switch x := ins.(type) {
		case *ssa.Call:
			if _, isB := x.Call.Value.(*ssa.Builtin); isB {
				return ""
			}
			return "call:" + stdCalleeName(ins)
		case *ssa.Store:
			if localAddr(x.Addr) {
				return ""
			}
			if st, ok := storeToField(ins, fClosed); ok {
				if bv, isB := constBool(st.Val); isB && bv {
					return "closed=true"
				}
			}
			return "store"
		}
		return ""
	}
	// (a) closed: no effect, error
	for _, fn := range []*ssa.Function{write, closeF} {
		spec := SeqSpec{Fn: fn, Event: effect}
		spec.Assume = func(w *Walker, p *PState, ins ssa.Instruction) {
			if u, ok := loadOfField(ins, fClosed); ok {
				setBoolFact(p, p.Resolve(u), true)
			}
		}
		paths, over := CollectPaths(c, spec)
		key := "closed:" + FnName(fn)
		bad := over || len(paths) == 0
		for _, sp := range paths {
			if len(sp.Events) > 0 || !sp.ErrNonNil {
				r.Fail(rule, key, c.Pos(fn.Pos()), fmt.Sprintf("with the writer closed %s performs %v / may return nil: Write or Close after Close must fail and emit nothing", FnName(fn), sp.Labels()), sp.Trace...)
				bad = true
				break
			}
		}
		if !bad {
			r.Pass(rule, key, c.Pos(fn.Pos()), "on the closed edge nothing happens and a non-nil error is returned", len(paths))
		}
	}
	// (b) Close marks the writer closed before anything reaches the sink; success = closeBlockWriter . writeIndex . footer write
	{
		spec := SeqSpec{Fn: closeF, Event: effect}
		spec.Assume = func(w *Walker, p *PState, ins ssa.Instruction) {
			if u, ok := loadOfField(ins, fClosed); ok {
				if p.Resolve(u) == u {
					setBoolFact(p, u, false)
				}
			}
		}
		paths, over := CollectPaths(c, spec)
		key := "Close:order"
		bad := over
		nNil := 0
		for _, sp := range paths {
			l := sp.Labels()
			if cbwIn {
				l = collapseCloseBlock(l)
			}
			if len(l) > 0 && l[0] != "closed=true" {
				r.Fail(rule, key, c.Pos(closeF.Pos()), fmt.Sprintf("Close performs %q before marking the writer closed", l[0]), sp.Trace...)
				bad = true
				break
			}
			if sp.ErrNil {
				nNil++
				want := []string{"closed=true", "call:(*xz.Writer).closeBlockWriter", "call:xz.writeIndex", "call:(*xz.footer).MarshalBinary", "call:(io.Writer).Write"}
				if !eqLabels(l, want) {
					r.Fail(rule, key, c.Pos(closeF.Pos()), fmt.Sprintf("Close returns nil after [%s]; required: close the last block, write the index, marshal and write the footer", strings.Join(l, " ")), sp.Trace...)
					bad = true
					break
				}
			}
		}
		if !bad && nNil > 0 {
			r.Pass(rule, key, c.Pos(closeF.Pos()), "closed=true first; nil only after closeBlockWriter . writeIndex . footer write", len(paths))
		}
	}
	// (c) fresh check instance per block
	{
		ok := false
		for _, b := range theCtx.GB(nbw) {
			for _, ins := range b.Instrs {
				if call, isC := callTo(ins, cfgNBW); isC {
					h := call.Call.Args[len(call.Call.Args)-1]
					if hc, isHC := stripConv(h).(*ssa.Call); isHC && hc.Call.StaticCallee() == nil && isFieldLoadOf(hc.Call.Value, fNewHash) {
						ok = true
					}
				}
			}
		}
		r.Check(ok, rule, "fresh-hash:"+FnName(nbw), c.Pos(nbw.Pos()), "every block writer gets a fresh check instance from w.newHash()",
			"the block writer's check is not a fresh instance from w.newHash(): the check of a later block would also cover earlier blocks")
	}
	// (d) block rotation
	{
		// blockWriter.Write truncates to blockSize - n and reports errNoSpace
		o := newOb(c, r, rule, bwWrite)
		_ = o
		okTrunc := false
		for _, g := range guardsOf(bwWrite) {
			if g.call != nil {
				continue
			}
			remain := roleBinOp(token.SUB, roleFieldLoad(fBS), roleFieldLoad(fBn))
			lenP := roleLenOf(roleParam(bwWrite, "p"))
			var edge *ssa.BasicBlock
			switch {
			case lenP(g.x) && remain(g.y) && g.op == token.GTR:
				edge = g.iff.Block().Succs[0]
			case remain(g.x) && lenP(g.y) && g.op == token.LSS:
				edge = g.iff.Block().Succs[0]
			default:
				continue
			}
			// on that edge: p = p[:t]
			for _, ins := range edge.Instrs {
				if sl, ok := ins.(*ssa.Slice); ok && sl.Low == nil && sl.High != nil && remain(sl.High) {
					okTrunc = true
				}
			}
		}
		r.Check(okTrunc, rule, "rotation:truncate:"+FnName(bwWrite), c.Pos(bwWrite.Pos()), "a write beyond the block size is truncated to blockSize - n",
			"blockWriter.Write does not truncate the data to blockSize - n when it exceeds the block: blocks would not carry exactly the configured size")
		// Writer.Write: on errNoSpace closeBlockWriter . newBlockWriter and loop
		var bwCall *ssa.Call
		spec := SeqSpec{Fn: write, NoMerge: true}
		spec.Assume = func(w *Walker, p *PState, ins ssa.Instruction) {
			if u, ok := loadOfField(ins, fClosed); ok {
				setBoolFact(p, p.Resolve(u), false)
			}
		}
		spec.Event = func(w *Walker, p *PState, ins ssa.Instruction) string {
			if call, ok := ins.(*ssa.Call); ok {
				if !cbwIn && call.Call.StaticCallee() == cbw {
					return "closeBlock"
				}
				switch call.Call.StaticCallee() {
				case bwWrite:
					bwCall = call
					return "bw.Write"
				case bwClose:
					if cbwIn {
						return "closeBlock"
					}
				case nbw:
					return "newBlock"
				}
			}
			return ""
		}
		paths, over := CollectPaths(c, spec)
		key := "rotation:" + FnName(write)
		bad := over
		nRot := 0
		for _, sp := range paths {
			l := sp.Labels()
			for i, x := range l {
				if x == "closeBlock" {
					if i == 0 || l[i-1] != "bw.Write" {
						bad = true
					}
					nRot++
				}
				if x == "newBlock" && (i == 0 || l[i-1] != "closeBlock") {
					bad = true
				}
			}
			// a return right after bw.Write must not swallow errNoSpace
			if len(l) > 0 && l[len(l)-1] == "bw.Write" && bwCall != nil {
				ev := errValueOfCall(bwCall)
				if ev != nil && sp.P.EqGlobal(ev) == errNoSpace {
					bad = true
				}
			}
			if bad {
				r.Fail(rule, key, c.Pos(write.Pos()), fmt.Sprintf("Writer.Write's block rotation is [%s]; required: on errNoSpace close the block, open a new one, continue writing", strings.Join(l, " ")), sp.Trace...)
				break
			}
		}
		if !bad && nRot > 0 {
			r.Pass(rule, key, c.Pos(write.Pos()), "errNoSpace => closeBlockWriter . newBlockWriter . continue; errNoSpace is never returned to the caller", len(paths))
		} else if !bad {
			r.Undecided(rule, key, c.Pos(write.Pos()), "no rotation path found")
		}
		// closeBlockWriter: record appended after a successful bw.Close
		recHomes := []*ssa.Function{cbw}
		if cbwIn {
			recHomes = []*ssa.Function{write, closeF}
		}
		for _, home := range recHomes {
			home := home
			var cl *ssa.Call
			spec := SeqSpec{Fn: home}
			if cbwIn {
				spec.NoMerge = home == write
				spec.Assume = func(w *Walker, p *PState, ins ssa.Instruction) {
					if u, ok := loadOfField(ins, fClosed); ok {
						setBoolFact(p, p.Resolve(u), false)
					}
				}
			}
			spec.Event = func(w *Walker, p *PState, ins ssa.Instruction) string {
				if call, ok := callTo(ins, bwClose); ok {
					cl = call
					return "bw.Close"
				}
				if st, ok := storeToField(ins, fIndex); ok {
					if ap, ok := st.Val.(*ssa.Call); ok {
						if bi, ok := ap.Call.Value.(*ssa.Builtin); ok && bi.Name() == "append" && (appendOfCall(ap.Call.Args[1], bwRecord) || bwRecord == home && appendOfType(ap.Call.Args[1], "record")) {
							return "index+=record"
						}
					}
					return "index=?"
				}
				return ""
			}
			paths, _ := CollectPaths(c, spec)
			ok := len(paths) > 0
			nNil := 0
			for _, sp := range paths {
				l := sp.Labels()
				if os.Getenv("XZV_TRACE") != "" {
					fmt.Printf("REC %s labels=%v errnil=%v errnonnil=%v panic=%v\n", home.Name(), l, sp.ErrNil, sp.ErrNonNil, sp.Panic)
				}
				if cbwIn {
					// every append directly follows a bw.Close; every bw.Close is followed by the append
					// unless the path ends there with an error
					for i, x := range l {
						switch x {
						case "index+=record":
							if i == 0 || l[i-1] != "bw.Close" {
								ok = false
							}
						case "bw.Close":
							if i+1 < len(l) && l[i+1] != "index+=record" {
								ok = false
							}
							if i+1 == len(l) && !sp.ErrNonNil {
								ok = false
							}
						case "index=?":
							ok = false
						}
					}
					if sp.Has("index+=record") {
						nNil++
					}
					continue
				}
				if sp.ErrNil {
					nNil++
					if !eqLabels(l, []string{"bw.Close", "index+=record"}) || cl == nil || !sp.P.IsNil(cl) {
						ok = false
					}
				} else if sp.Has("index+=record") {
					ok = false
				}
			}
			r.Check(ok && nNil > 0, rule, "rotation:record:"+FnName(home), c.Pos(home.Pos()), "the block's record is appended to the index exactly after a successful bw.Close",
				"the block's record is not appended to the index after (and only after) a successful blockWriter.Close")
		}
		// blockWriter.Close is called only from closeBlockWriter
		var callers []string
		for _, fn := range c.ModFuncs("") {
			for _, b := range theCtx.GB(fn) {
				for _, ins := range b.Instrs {
					if isCallTo(ins, bwClose) && fn != cbw && !(cbwIn && (fn == write || fn == closeF)) {
						callers = append(callers, FnName(fn))
					}
				}
			}
		}
		r.Check(len(callers) == 0, rule, "rotation:close-callers", c.Pos(bwClose.Pos()), "blockWriter.Close is called only from closeBlockWriter",
			fmt.Sprintf("blockWriter.Close is also called from %v: a block could be closed without its record entering the index", callers))
	}
	r.Floor(rule, 8)
}

// localAddr: the address lies inside an object allocated in this function.
func localAddr(a ssa.Value) bool {
	for {
		switch x := a.(type) {
		case *ssa.Alloc:
			return true
		case *ssa.FieldAddr:
			a = x.X
		case *ssa.IndexAddr:
			a = x.X
		default:
			return false
		}
	}
}

// appendOfType: the variadic argument of append is a one-element slice holding a value of
// the named struct type (a record literal: blockWriter.record inlined into its caller).
func appendOfType(v ssa.Value, typeName string) bool {
	sl, ok := v.(*ssa.Slice)
	if !ok {
		return false
	}
	al, ok := sl.X.(*ssa.Alloc)
	if !ok || al.Referrers() == nil {
		return false
	}
	for _, ref := range *al.Referrers() {
		if ia, ok := ref.(*ssa.IndexAddr); ok && ia.Referrers() != nil {
			for _, r2 := range *ia.Referrers() {
				if st, ok := r2.(*ssa.Store); ok {
					if n, isN := st.Val.Type().(*types.Named); isN && refNameOf(n.Obj()) == typeName {
						return true
					}
				}
			}
		}
	}
	return false
}

// collapseCloseBlock: with closeBlockWriter folded into its callers the step "close the block and
// record it" appears as blockWriter.Close [record] store.
func collapseCloseBlock(l []string) []string {
	var out []string
	for i := 0; i < len(l); i++ {
		if l[i] == "call:(*xz.blockWriter).Close" {
			j := i + 1
			if j < len(l) && l[j] == "call:(*xz.blockWriter).record" {
				j++
			}
			if j < len(l) && l[j] == "store" {
				out = append(out, "call:(*xz.Writer).closeBlockWriter")
				i = j
				continue
			}
		}
		out = append(out, l[i])
	}
	return out
}

package main

// Obligations, evidence files, replay files, known findings (brief: Interface).

import (
	"bufio"
	"encoding/json"
	"fmt"
	"os"
	"path/filepath"
	"sort"
	"strings"
	"time"
)

type Status int

const (
	OK Status = iota
	FAIL
	UNDECIDED // reported like FAIL: never silently green
)

func (s Status) String() string { return [...]string{"ok", "FAIL", "UNDECIDED"}[s] }

// Ob is one evaluated rule instance.
type Ob struct {
	Rule   string   `json:"rule"`
	Key    string   `json:"key"` // rule-relative construct key (function + role), never a line number
	Pos    string   `json:"pos,omitempty"`
	Status Status   `json:"-"`
	St     string   `json:"status"`
	Msg    string   `json:"msg,omitempty"`
	Trace  []string `json:"trace,omitempty"`
	// Weight counts the elementary evaluations behind this obligation (paths walked,
	// table entries, call sites); at least 1.
	Weight int `json:"evaluations,omitempty"`
}

type Report struct {
	Prop    string
	Tier    string
	Arch    string
	Obs     []Ob
	Notes   []string
	Assume  []string
	Explain string
	Extra   map[string]interface{}
	start   time.Time
	floors  map[string]int // rule -> minimal number of instances
	seenKey map[string]bool
}

func NewReport(prop, tier string) *Report {
	return &Report{Prop: prop, Tier: tier, start: time.Now(), floors: map[string]int{},
		seenKey: map[string]bool{}, Extra: map[string]interface{}{}}
}

func (r *Report) add(o Ob) {
	if o.Weight < 1 {
		o.Weight = 1
	}
	o.St = o.Status.String()
	o.Key = strings.ReplaceAll(o.Key, " ", "_")
	k := o.Rule + "|" + o.Key
	if r.seenKey[k] {
		// keys must be unique per rule: disambiguate deterministically
		for i := 2; ; i++ {
			k2 := fmt.Sprintf("%s#%d", o.Key, i)
			if !r.seenKey[o.Rule+"|"+k2] {
				o.Key = k2
				k = o.Rule + "|" + k2
				break
			}
		}
	}
	r.seenKey[k] = true
	r.Obs = append(r.Obs, o)
}

func (r *Report) Pass(rule, key, pos, msg string, weight int) {
	r.add(Ob{Rule: rule, Key: key, Pos: pos, Status: OK, Msg: msg, Weight: weight})
}

func (r *Report) Fail(rule, key, pos, msg string, trace ...string) {
	r.add(Ob{Rule: rule, Key: key, Pos: pos, Status: FAIL, Msg: msg, Trace: trace})
}

func (r *Report) Undecided(rule, key, pos, msg string, trace ...string) {
	r.add(Ob{Rule: rule, Key: key, Pos: pos, Status: UNDECIDED, Msg: msg, Trace: trace})
}

// Check is a convenience: ok → Pass, else Fail.
func (r *Report) Check(ok bool, rule, key, pos, okMsg, failMsg string, trace ...string) bool {
	if ok {
		r.Pass(rule, key, pos, okMsg, 1)
	} else {
		r.Fail(rule, key, pos, failMsg, trace...)
	}
	return ok
}

// Floor declares the number of instances a rule matched on the reference tree; the check
// is undecided when fewer than two thirds of them (at least one) are matched: a vacuity
// guard, deliberately not an exact count, so that merging two call sites into a helper or
// dropping a redundant statement does not raise an alarm (DESIGN §2.2).
func (r *Report) Floor(rule string, n int) {
	m := n * 2 / 3
	if m < 1 {
		m = 1
	}
	r.floors[rule] = m
}

func (r *Report) count(rule string) int {
	n := 0
	for _, o := range r.Obs {
		if o.Rule == rule {
			n++
		}
	}
	return n
}

// ---- known findings ----

type known struct {
	prop, rule, key, text string
}

func loadKnown(path string) ([]known, []string) {
	var ks []known
	var fixed []string
	f, err := os.Open(path)
	if err != nil {
		return nil, nil
	}
	defer f.Close()
	sc := bufio.NewScanner(f)
	for sc.Scan() {
		line := strings.TrimSpace(sc.Text())
		if line == "" || strings.HasPrefix(line, "#") {
			continue
		}
		if strings.HasPrefix(line, "fixed:") {
			fixed = append(fixed, line)
			continue
		}
		if !strings.HasPrefix(line, "known:") {
			continue
		}
		k := known{}
		rest := strings.TrimSpace(strings.TrimPrefix(line, "known:"))
		fields := strings.Fields(rest)
		var text []string
		for _, fl := range fields {
			switch {
			case strings.HasPrefix(fl, "property=") && k.prop == "":
				k.prop = strings.TrimPrefix(fl, "property=")
			case strings.HasPrefix(fl, "rule=") && k.rule == "":
				k.rule = strings.TrimPrefix(fl, "rule=")
			case strings.HasPrefix(fl, "key=") && k.key == "":
				k.key = strings.TrimPrefix(fl, "key=")
			default:
				text = append(text, fl)
			}
		}
		k.text = strings.Join(text, " ")
		if k.prop != "" && k.rule != "" && k.key != "" {
			ks = append(ks, k)
		}
	}
	return ks, fixed
}

// ---- finish: evidence, replay, verdict ----

func verifDir() string {
	if d := os.Getenv("XZVERIFY_HOME"); d != "" {
		return d
	}
	return "/verif"
}

type evidence struct {
	PropertyID  string                 `json:"property_id"`
	Tier        string                 `json:"tier"`
	Seed        int                    `json:"seed"`
	Level       string                 `json:"level"`
	Coverage    map[string]interface{} `json:"coverage"`
	Assumptions []string               `json:"assumptions"`
	WallS       float64                `json:"wall_s"`
	Violations  int                    `json:"violations"`
}

// Finish writes evidence + replay files, prints the verdict lines and returns the exit code.
func (r *Report) Finish(c *Ctx, loadErr error) int {
	home := verifDir()
	evDir := filepath.Join(home, "evidence")
	os.MkdirAll(filepath.Join(evDir, "replay"), 0o755)

	if loadErr != nil {
		r.Undecided("LOAD", "load", "-", "the repository could not be loaded/type-checked: "+loadErr.Error())
	}
	if c != nil {
		for _, u := range c.unresolved {
			r.Undecided("ANCHOR", u, "-", "anchor not found in the current tree: "+u+
				" (a rule that cannot locate its subject is undecided, DESIGN §2.1)")
		}
	}
	var rules []string
	for rule := range r.floors {
		rules = append(rules, rule)
	}
	sort.Strings(rules)
	for _, rule := range rules {
		if n := r.count(rule); n < r.floors[rule] {
			r.Undecided("FLOOR", rule, "-", fmt.Sprintf("rule %s matched %d instances, floor is %d (vacuity guard)", rule, n, r.floors[rule]))
		}
	}

	knowns, _ := loadKnown(filepath.Join(home, "known_findings.txt"))
	isKnown := func(o Ob) *known {
		for i := range knowns {
			k := &knowns[i]
			if k.prop == r.Prop && k.rule == o.Rule && k.key == o.Key {
				return k
			}
		}
		return nil
	}

	// remove stale replay files of this property
	if old, _ := filepath.Glob(filepath.Join(evDir, "replay", r.Prop+"-*.json")); old != nil {
		for _, f := range old {
			os.Remove(f)
		}
	}

	nviol, nknown := 0, 0
	evals, distinct, obligations, discharged := 0, 0, 0, 0
	perRule := map[string][2]int{}
	var samples []interface{}
	sampleRule := map[string]int{}
	for i, o := range r.Obs {
		evals += o.Weight
		obligations++
		pr := perRule[o.Rule]
		pr[0]++
		if o.Status == OK {
			discharged++
			pr[1]++
			if o.Pos != "" && o.Pos != "-" {
				distinct++
			}
		}
		perRule[o.Rule] = pr
		if sampleRule[o.Rule] < 2 && len(samples) < 40 {
			sampleRule[o.Rule]++
			samples = append(samples, map[string]interface{}{"rule": o.Rule, "instance": o.Key, "at": o.Pos, "verdict": o.St, "detail": o.Msg})
		}
		if o.Status == OK {
			continue
		}
		if k := isKnown(o); k != nil {
			nknown++
			fmt.Printf("KNOWN-FINDING: property=%s rule=%s key=%s %s\n", r.Prop, o.Rule, o.Key, k.text)
			continue
		}
		nviol++
		name := fmt.Sprintf("%s-%s-%d.json", r.Prop, sanitize(o.Rule), i)
		path := filepath.Join(evDir, "replay", name)
		rep := map[string]interface{}{
			"property": r.Prop, "rule": o.Rule, "instance": o.Key, "at": o.Pos, "status": o.St,
			"message": o.Msg, "trace": o.Trace, "tier": r.Tier, "arch": r.Arch,
			"how_to_replay": "xzverify explain " + path + " (re-runs rule " + o.Rule + " on the current tree and prints this instance)",
		}
		b, _ := json.MarshalIndent(rep, "", " ")
		os.WriteFile(path, b, 0o644)
		fmt.Printf("%s %s %s at %s: %s\n", o.St, o.Rule, o.Key, o.Pos, o.Msg)
		for _, t := range o.Trace {
			fmt.Printf("    %s\n", t)
		}
		fmt.Printf("VIOLATION property=%s replay=%s\n", r.Prop, path)
	}

	cov := map[string]interface{}{
		"explanation":         r.Explain,
		"evaluations":         evals,
		"distinct_nontrivial": distinct,
		"rule": "one obligation per (rule, construct) instance found in the type-checked SSA of /repo's working tree; " +
			"evaluations = elementary cases behind them (paths walked, table entries, call sites); " +
			"distinct_nontrivial = obligations discharged on a real construct with a source position",
		"obligations":            obligations,
		"discharged":             discharged,
		"samples":                samples,
		"per_rule":               perRule,
		"known_findings_printed": nknown,
		"notes":                  r.Notes,
		"arch":                   r.Arch,
	}
	if c != nil {
		cov["analysed"] = map[string]int{"packages": c.stats.packages, "functions_in_scope": c.stats.functions,
			"basic_blocks": c.stats.blocks, "ssa_instructions": c.stats.instrs, "callgraph_nodes": len(c.CG.Nodes)}
	}
	for k, v := range r.Extra {
		cov[k] = v
	}
	ev := evidence{PropertyID: r.Prop, Tier: r.Tier, Seed: seed(), Level: "other", Coverage: cov,
		Assumptions: r.Assume, WallS: time.Since(r.start).Seconds(), Violations: nviol}
	if ev.Assumptions == nil {
		ev.Assumptions = []string{}
	}
	b, _ := json.MarshalIndent(ev, "", " ")
	if err := os.WriteFile(filepath.Join(evDir, r.Prop+".json"), b, 0o644); err != nil {
		fmt.Println("cannot write evidence:", err)
		return 2
	}
	fmt.Printf("%s tier=%s obligations=%d discharged=%d known=%d violations=%d evaluations=%d wall=%.1fs\n",
		r.Prop, r.Tier, obligations, discharged, nknown, nviol, evals, time.Since(r.start).Seconds())
	if nviol > 0 {
		return 1
	}
	return 0
}

func seed() int {
	var s int
	fmt.Sscanf(os.Getenv("VERIF_SEED"), "%d", &s)
	return s
}

func sanitize(s string) string {
	var b strings.Builder
	for _, r := range s {
		if r >= 'a' && r <= 'z' || r >= 'A' && r <= 'Z' || r >= '0' && r <= '9' || r == '-' || r == '_' {
			b.WriteRune(r)
		} else {
			b.WriteByte('_')
		}
	}
	return b.String()
}

package main

// More rules from the second round of seeded changes: sign exactness of the explicit-size
// contract, liveness of the look-ahead, deferred closures and named results, constructor
// results on error paths, closures created during package initialisation, `--`.

import (
	"go/token"
	"go/types"
	"strings"

	"golang.org/x/tools/go/ssa"
)

// ---- OB-SIZE-SIGN: the explicit-size contract applies exactly when size >= 0 ----
//
// lzma.Writer keeps the announced size in header.size, -1 meaning "unknown". Every branch
// in Writer.Write / Writer.Close that decides whether the contract (truncate + ErrNoSpace,
// errSize at Close) applies must put 0 and 1 on the same side and -1 on the other.
// Necessary: with `size > 0` an announced size of 0 accepts any amount of data.
func ruleSizeSign(c *Ctx, r *Report, prefix string) {
	rule := prefix + "OB-SIZE-SIGN"
	fSize := c.Field("lzma", "header.size")
	if fSize == nil {
		return
	}
	for _, name := range []string{"Writer.Write", "Writer.Close"} {
		fn := c.Func("lzma", name)
		if fn == nil {
			continue
		}
		n, bad := 0, ""
		theCtx.curRoot = fn
		for _, g := range guardsOfX(fn, true) { // a boolean helper (hasSize()) used as the condition counts with its comparison
			if g.call != nil {
				continue
			}
			x, y, op := g.x, g.y, g.op
			if isFieldLoadOf(y, fSize) {
				x, y, op = y, x, flipOp(op)
			}
			k, isK := constInt(y)
			if !isFieldLoadOf(x, fSize) || !isK {
				continue
			}
			n++
			if !(cmpInt(0, op, k) == cmpInt(1, op, k) && cmpInt(0, op, k) != cmpInt(-1, op, k)) {
				bad = "the test `size " + op.String() + " " + itoa(int(k)) + "` does not separate the unknown size (-1) from the announced sizes (0, 1, ...)"
			}
		}
		r.Check(bad == "" && n > 0, rule, FnName(fn), c.Pos(fn.Pos()), "the size contract is switched by tests equivalent to size >= 0 ("+itoa(n)+" tests)", func() string {
			if bad != "" {
				return bad + ": an announced size of 0 is treated like 'unknown' and surplus data is accepted"
			}
			return "no test of header.size against a constant found in " + name
		}())
	}
}

// ---- LIVE-LOOKAHEAD: a non-final compress pass always frees buffer space ----
//
// encoder.compress(0) stops while more than n bytes are buffered; WriterConfig.Verify admits
// BufSize >= maxMatchLen. If n >= the smallest admitted BufSize, a full look-ahead buffer is
// never drained and encoder.Write loops forever on ErrNoSpace. The rule extracts n (the value
// of the loop bound on the path flags&all == 0) and the smallest BufSize the three Verify
// functions admit and requires n < that minimum.
func ruleLookahead(c *Ctx, r *Report, prefix string) {
	rule := prefix + "LIVE-LOOKAHEAD"
	fn := c.Func("lzma", "encoder.compress")
	buffered := c.Func("lzma", "encoderDict.Buffered")
	maxML, ok := namedConstInt(c, "lzma", "maxMatchLen")
	if fn == nil || buffered == nil || !ok {
		return
	}
	// n: the constant compared with Buffered() when flags&all == 0. In SSA the bound is
	// φ(0, K) (n := 0; if flags&all == 0 { n = K }); K is the non-zero incoming constant.
	var ks []int64
	for _, g := range guardsOf(fn) {
		if g.call != nil {
			continue
		}
		x, y := g.x, g.y
		if cl, isC := stripConv(y).(*ssa.Call); isC && cl.Call.StaticCallee() == buffered {
			x, y = y, x
		}
		cl, isC := stripConv(x).(*ssa.Call)
		if !isC || cl.Call.StaticCallee() != buffered {
			continue
		}
		switch v := y.(type) {
		case *ssa.Phi:
			for _, e := range v.Edges {
				if k, isK := constInt(e); isK {
					ks = append(ks, k)
				}
			}
		case *ssa.Const:
			if k, isK := constInt(v); isK {
				ks = append(ks, k)
			}
		}
	}
	var n int64 = -1
	for _, k := range ks {
		if k > n {
			n = k
		}
	}
	// smallest admitted BufSize: the Verify functions reject BufSize < maxMatchLen
	fBuf := []*types.Var{c.Field("lzma", "WriterConfig.BufSize"), c.Field("lzma", "Writer2Config.BufSize")}
	minBuf := int64(-1)
	for i, vn := range []string{"WriterConfig.Verify", "Writer2Config.Verify"} {
		v := c.Func("lzma", vn)
		if v == nil || fBuf[i] == nil {
			continue
		}
		c.curRoot, c.bindParam = v, nil // a shared helper (verifyEncoderParams) is looked at through this Verify's call
		for _, g := range guardsOf(v) {
			if g.call != nil {
				continue
			}
			x, y, op := g.x, g.y, g.op
			if isFieldLoadOf(y, fBuf[i]) {
				x, y, op = y, x, flipOp(op)
			}
			if !isFieldLoadOf(x, fBuf[i]) {
				continue
			}
			if k, isK := constInt(y); isK {
				// the least admitted value is where the truth of the test flips (small values are rejected)
				lo := k
				for cand := k - 2; cand <= k+2; cand++ {
					if cmpInt(cand, op, k) != cmpInt(cand-1, op, k) {
						lo = cand
					}
				}
				if minBuf < 0 || lo < minBuf {
					minBuf = lo
				}
			}
		}
	}
	okN := n >= 0 && minBuf > 0 && n < minBuf
	r.Check(okN, rule, FnName(fn), c.Pos(fn.Pos()),
		"a non-final pass leaves at most "+itoa(int(n))+" bytes in the look-ahead; the smallest admitted BufSize is "+itoa(int(minBuf))+" (maxMatchLen "+itoa(int(maxML))+")",
		"a non-final compress pass keeps back "+itoa(int(n))+" bytes but a BufSize of "+itoa(int(minBuf))+" is admitted by Verify: with that configuration a full buffer is never drained and Write never returns")
}

// ---- DEFER-RESULT: deferred closures do not overwrite a failure with success ----
//
// In cmd/gxz every failure of processFile must come back as a non-nil error (exit status).
// A deferred closure that assigns the named error result replaces whatever the function
// was returning; it is accepted only when the assignment is guarded by the result being
// nil at that point (the `if err == nil { err = cerr }` idiom).
func ruleDeferResult(c *Ctx, r *Report, prefix string) {
	rule := prefix + "SEQ-DEFER-RESULT"
	n := 0
	for _, fn := range c.ModFuncs("cmd/gxz") {
		for _, b := range c.GB(fn) {
			for _, ins := range b.Instrs {
				d, ok := ins.(*ssa.Defer)
				if !ok {
					continue
				}
				n++
				mc, isMC := d.Call.Value.(*ssa.MakeClosure)
				if !isMC {
					continue
				}
				clo := mc.Fn.(*ssa.Function)
				for i, bind := range mc.Bindings {
					al, isAl := bind.(*ssa.Alloc)
					if !isAl || !isErrType(deref(al.Type())) {
						continue
					}
					fv := clo.FreeVars[i]
					bad := ""
					for _, cb := range clo.Blocks {
						for _, ci := range cb.Instrs {
							st, isSt := ci.(*ssa.Store)
							if !isSt || st.Addr != fv {
								continue
							}
							if !storeGuardedByNil(clo, cb, fv) {
								bad = "the deferred closure assigns the error result of " + FnName(fn) + " without testing that it is still nil"
							}
						}
					}
					r.Check(bad == "", rule, FnName(fn)+":defer#"+itoa(n), c.InstrPos(d), "the deferred closure keeps an error already being returned", bad+": a failed run can end with status 0")
				}
			}
		}
	}
	r.Pass(rule, "census", "-", itoa(n)+" defer statements in cmd/gxz inspected", n)
}

func deref(t types.Type) types.Type {
	if p, ok := t.Underlying().(*types.Pointer); ok {
		return p.Elem()
	}
	return t
}

// storeGuardedByNil: block b of closure clo is dominated by the nil edge of a test
// `*fv == nil`.
func storeGuardedByNil(clo *ssa.Function, b *ssa.BasicBlock, fv ssa.Value) bool {
	for _, gb := range clo.Blocks {
		iff, ok := gb.Instrs[len(gb.Instrs)-1].(*ssa.If)
		if !ok {
			continue
		}
		bo, ok := iff.Cond.(*ssa.BinOp)
		if !ok || (bo.Op != token.EQL && bo.Op != token.NEQ) {
			continue
		}
		isLoad := func(v ssa.Value) bool {
			u, ok := v.(*ssa.UnOp)
			return ok && u.Op == token.MUL && u.X == fv
		}
		if !(isLoad(bo.X) && isNilConst(bo.Y) || isLoad(bo.Y) && isNilConst(bo.X)) {
			continue
		}
		succ := gb.Succs[0]
		if bo.Op == token.NEQ {
			succ = gb.Succs[1]
		}
		if len(succ.Preds) == 1 && succ.Dominates(b) {
			return true
		}
	}
	return false
}

// ---- NIL-ON-ERR: a half-built object is not handed out together with an error ----
//
// For the constructors of the reader side whose result the caller installs in a field
// (r.sr, err = newStreamReader(...); br, err = newBlockReader(...)), every return with a
// non-nil error has a nil object. Necessary: Reader.Read stores the result before it looks
// at the error; a non-nil half-initialised stream reader is then used by the next Read
// (nil hash constructor => panic, C11).
func ruleNilOnErr(c *Ctx, r *Report, prefix string) {
	rule := prefix + "SEQ-NIL-ON-ERR"
	n := 0
	for _, name := range [][2]string{{"", "ReaderConfig.newStreamReader"}, {"", "ReaderConfig.newBlockReader"}, {"", "ReaderConfig.newFilterReader"},
		{"lzma", "newDecoder"}, {"lzma", "newDecoderDict"}, {"lzma", "newRangeDecoder"}, {"lzma", "Reader2Config.NewReader2"}, {"lzma", "ReaderConfig.NewReader"},
		{"", "ReaderConfig.NewReader"}, {"lzma", "newUncompressedReader"}} {
		fn := c.funcQuiet(name[0], name[1])
		if fn == nil {
			continue
		}
		res := fn.Signature.Results()
		if res.Len() != 2 || !isErrType(res.At(1).Type()) {
			continue
		}
		switch res.At(0).Type().Underlying().(type) {
		case *types.Pointer, *types.Interface:
		default:
			continue
		}
		n++
		paths, over := CollectPaths(c, SeqSpec{Fn: fn})
		bad := ""
		var trace []string
		for _, sp := range paths {
			if sp.Panic || len(sp.Rets) != 2 {
				continue
			}
			if sp.ErrNonNil && !sp.P.IsNil(sp.Rets[0]) {
				bad = "returns a non-nil object together with a non-nil error"
				trace = sp.Trace
			}
			if !sp.ErrNonNil && !sp.ErrNil && !sp.P.IsNil(sp.Rets[0]) {
				// error of unknown nil-ness returned with an object: only fine if the object is
				// never nil-checked... treat as the same defect
				bad = "returns an object together with an error that may be non-nil"
				trace = sp.Trace
			}
		}
		r.Check(bad == "" && !over, rule, FnName(fn), c.Pos(fn.Pos()), "every error return carries a nil object", FnName(fn)+" "+bad+": the caller installs the half-initialised object before looking at the error", trace...)
	}
	if n < 6 {
		r.Undecided(rule, "instances", "-", "only "+itoa(n)+" reader-side constructors found")
	}
}

// ---- GL-INIT-CLOSURE: no closure built during package initialisation captures shared state ----
func ruleInitClosures(c *Ctx, r *Report, prefix string) {
	rule := prefix + "GL-INIT-CLOSURE"
	n := 0
	for _, pk := range []string{"", "lzma", "internal/hash", "internal/xlog"} {
		p := c.Pkg(pk)
		if p == nil {
			continue
		}
		initFn := p.Func("init")
		if initFn == nil {
			continue
		}
		// functions reachable from init by static calls inside the module
		seen := map[*ssa.Function]bool{initFn: true}
		work := []*ssa.Function{initFn}
		for len(work) > 0 {
			fn := work[0]
			work = work[1:]
			for _, b := range fn.Blocks {
				for _, ins := range b.Instrs {
					if ci, ok := ins.(ssa.CallInstruction); ok {
						if cal := ci.Common().StaticCallee(); cal != nil && c.InModule(cal) && !seen[cal] {
							seen[cal] = true
							work = append(work, cal)
						}
					}
					mc, ok := ins.(*ssa.MakeClosure)
					if !ok {
						continue
					}
					n++
					for _, bind := range mc.Bindings {
						t := bind.Type()
						if pt, isP := t.Underlying().(*types.Pointer); isP {
							t = pt.Elem() // captured variable
						}
						if isRefType(t) || isInterface(t) {
							r.Fail(rule, FnName(fn)+":"+mc.Name(), c.InstrPos(mc), "a closure created during package initialisation captures a shared "+t.String()+": every instance that calls it uses the same object (two readers or writers are no longer independent)")
						}
					}
				}
			}
		}
	}
	r.Pass(rule, "census", "-", itoa(n)+" closures created during package initialisation, none captures a reference", n+1)
}

func isInterface(t types.Type) bool {
	_, ok := t.Underlying().(*types.Interface)
	return ok
}

// ---- SEQ-DASHDASH: `--` ends option parsing ----
func ruleDashDash(c *Ctx, r *Report, prefix string) {
	rule := prefix + "SEQ-DASHDASH"
	fn := c.Func("internal/gflag", "FlagSet.parseArg")
	if fn == nil {
		return
	}
	paths, over := collectTermPaths(c, termSpec{Fn: fn, KeepErrPaths: true})
	n, bad := 0, ""
	recv := fn.Params[0].Name()
	for _, tp := range paths {
		is2, dash := false, 0
		for _, cd := range tp.Conds {
			if strings.HasPrefix(cd, "(eq ") && strings.Contains(cd, "(len @"+recv+".args[") && (strings.HasSuffix(cd, " 2)") || strings.HasPrefix(cd, "(eq 2 ")) {
				is2 = true
			}
			if strings.HasPrefix(cd, "(eq 45 @"+recv+".args[") {
				dash++
			}
		}
		if !is2 || dash < 2 {
			continue
		}
		n++
		if len(tp.Rets) != 2 || tp.Rets[0] != "(len @"+recv+".args)" || tp.Rets[1] != "nil" {
			bad = "for the argument `--` parseArg returns " + strings.Join(tp.Rets, ", ") + " instead of (len(f.args), nil)"
		}
	}
	r.Check(bad == "" && n > 0 && !over, rule, FnName(fn), c.Pos(fn.Pos()), "after `--` parsing stops: the index of the next argument to parse is len(f.args)", func() string {
		if bad != "" {
			return bad + ": arguments after `--` would still be parsed as options"
		}
		return "no path for the argument `--` recognised in parseArg"
	}())
}

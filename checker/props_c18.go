package main

import (
	"fmt"
	"go/types"
)

// ruleLzmaFilterCodec: the xz block header's filter flags carry {0x21, 1, EncodeDictCap(dictCap)}
// and the reader mirrors it (C18, C02, C03, C04).
func ruleLzmaFilterCodec(c *Ctx, r *Report, prefix string) {
	rule := prefix + "CE-FILTER"
	mar := c.Func("", "lzmaFilter.MarshalBinary")
	unm := c.Func("", "lzmaFilter.UnmarshalBinary")
	fT := c.Type("", "lzmaFilter")
	if mar == nil || unm == nil || fT == nil {
		return
	}
	di := fieldIndex(fT, "dictCap")
	if di < 0 {
		c.miss("field xz.lzmaFilter.dictCap")
		return
	}
	i64 := types.Typ[types.Int64]
	// marshal: boundary capacities around every representable size
	bad, n := 0, 0
	for code := 0; code <= 40; code++ {
		d := specDictCap(code)
		for _, cp := range []int64{d - 1, d, d + 1} {
			if cp < 1 || cp > 1<<32-1 {
				continue
			}
			want := 0
			for want <= 40 && specDictCap(want) < cp {
				want++
			}
			n++
			in := NewInterp(c)
			res := in.Call(mar, []aval{{k: kStruct, typ: fT, flds: map[int]aval{di: aInt(cp, i64)}}})
			key := fmt.Sprintf("lzmaFilter{%d}.MarshalBinary", cp)
			if !res.OK || res.Panicked || len(res.Rets) != 2 {
				r.Undecided(rule, key, c.Pos(mar.Pos()), "cannot evaluate: "+in.Undecided)
				bad++
				continue
			}
			got, ok := sliceBytes(res.Rets[0])
			if !ok || !isNilErr(res.Rets[1]) || !eqInt64s(got, []int64{0x21, 1, int64(want)}) {
				r.Fail(rule, key, c.Pos(mar.Pos()), fmt.Sprintf("filter flags for dictionary capacity %d are %x; the format requires id 0x21, properties size 1 and dictionary code %d (size %d)", cp, got, want, specDictCap(want)))
				bad++
			}
		}
	}
	if bad == 0 {
		r.Pass(rule, "lzmaFilter.MarshalBinary", c.Pos(mar.Pos()), "filter flags are {0x21, 1, least code with size >= capacity} at every boundary of the 41 sizes", n)
	}
	// unmarshal: all 256 dictionary bytes, plus malformed id/size/length
	bad, n = 0, 0
	run := func(bs []byte) (ok bool, dc int64, decided bool, why string) {
		in := NewInterp(c)
		cl := in.newCellOf(fT)
		res := in.Call(unm, []aval{{k: kPtr, cell: cl}, byteSlice(bs)})
		if !res.OK || res.Panicked || len(res.Rets) != 1 {
			return false, 0, false, in.Undecided
		}
		v, _ := cl.field(di).v.Int()
		return isNilErr(res.Rets[0]), v, true, ""
	}
	for b := 0; b < 256; b++ {
		n++
		ok, dc, decided, why := run([]byte{0x21, 1, byte(b)})
		key := fmt.Sprintf("lzmaFilter.UnmarshalBinary(21 01 %02x)", b)
		if !decided {
			r.Undecided(rule, key, c.Pos(unm.Pos()), "cannot evaluate: "+why)
			bad++
			continue
		}
		if b <= 40 {
			if !ok || dc != specDictCap(b) {
				r.Fail(rule, key, c.Pos(unm.Pos()), fmt.Sprintf("dictionary size byte %d must be accepted as %d bytes (accepted=%v, value %d)", b, specDictCap(b), ok, dc))
				bad++
			}
		} else if ok {
			r.Fail(rule, key, c.Pos(unm.Pos()), fmt.Sprintf("dictionary size byte %d (> 40) must be rejected, but is accepted as %d bytes", b, dc))
			bad++
		}
	}
	for _, bs := range [][]byte{{0x20, 1, 0}, {0x22, 1, 0}, {0x21, 0, 0}, {0x21, 2, 0}, {0x21, 1}, {0x21, 1, 0, 0}, {}} {
		n++
		ok, _, decided, why := run(bs)
		key := fmt.Sprintf("lzmaFilter.UnmarshalBinary(% x)", bs)
		if !decided {
			r.Undecided(rule, key, c.Pos(unm.Pos()), "cannot evaluate: "+why)
			bad++
		} else if ok {
			r.Fail(rule, key, c.Pos(unm.Pos()), fmt.Sprintf("malformed LZMA2 filter flags % x are accepted", bs))
			bad++
		}
	}
	if bad == 0 {
		r.Pass(rule, "lzmaFilter.UnmarshalBinary", c.Pos(unm.Pos()), "accepts exactly {0x21, 1, code<=40} with the specified size; rejects other ids, sizes, lengths and codes", n)
	}
}

func init() {
	register(&propCheck{
		id: "C18",
		explain: "The whole statement of C18 is decided by finite-domain abstract evaluation (CE) of the SSA of lzma.DecodeDictCap over all 256 " +
			"code bytes and of lzma.EncodeDictCap over an exact finite partition of all capacities: the capacity is an order-abstract " +
			"symbol that the code may only compare with representable sizes (any other use makes the rule undecided = reported), so the " +
			"~85 order regions around the 41 sizes cover every n in 1..2^32-1. The oracle is the specification's formula frozen in the " +
			"checker. Also decided: the xz block header's filter flags are {0x21, 1, EncodeDictCap(dictCap)} and the reader mirrors it " +
			"(all 256 dictionary bytes, malformed ids/sizes/lengths).",
		assume: []string{"the CE interpreter (ce.go, ~700 lines over go/constant with Go integer widths) is correct"},
		run: func(c *Ctx, r *Report) {
			ruleDictCapDecode(c, r, "")
			ruleDictCapEncode(c, r, "")
			ruleLzmaFilterCodec(c, r, "")
			ruleBlockFilters(c, r, "")
			ruleFilterWriterDict(c, r, "")
			ruleEncoderDictArgs(c, r, "")
			ruleDictCapRange(c, r, "")
			// the reading side of the size byte: the filter properties are one raw byte each (size, code),
			// codes above 40 are rejected (container check catalogue of the xz reader)
			ruleXZReaderChecks(c, r, "rd:")
			r.Floor("CE-DICT-DEC", 1)
			r.Floor("CE-DICT-ENC", 1)
			r.Floor("CE-FILTER", 2)
		},
	})
}

package main

// Loading of /repo's current working tree: type-checked packages, SSA, VTA call graph,
// and the type-resolved anchor lookups every rule uses (DESIGN §2, §2.1).

import (
	_ "embed"
	"fmt"
	"go/constant"
	"go/token"
	"go/types"
	"os"
	"sort"
	"strings"

	"golang.org/x/tools/go/callgraph"
	"golang.org/x/tools/go/callgraph/cha"
	"golang.org/x/tools/go/callgraph/vta"
	"golang.org/x/tools/go/packages"
	"golang.org/x/tools/go/ssa"
	"golang.org/x/tools/go/ssa/ssautil"
)

const modPath = "github.com/ulikunitz/xz"

// Ctx is one loaded program.
type Ctx struct {
	Dir   string
	Arch  string
	Fset  *token.FileSet
	Pkgs  []*packages.Package
	Prog  *ssa.Program
	SPkgs map[string]*ssa.Package // by import path
	All   map[*ssa.Function]bool
	CG    *callgraph.Graph

	modFuncs []*ssa.Function // all functions of the module with bodies, sorted

	unresolved  []string // anchors that could not be resolved
	inlinedInto []string // reference functions that are gone and are looked at through their single caller
	pure        map[*ssa.Function]int8
	sites       map[*ssa.Function][]ssa.CallInstruction
	bindParam   map[*ssa.Parameter]ssa.Value
	curRoot     *ssa.Function // the function a guard-obligation context is analysing
	frozen      map[*ssa.Global]bool
	renamed     map[*ssa.Function]string // functions of the reference tree found under a new name -> reference FnName
	renamedBy   map[string]*ssa.Function
	keyFrozen   map[*ssa.Global]bool
	syms        *symRenames     // renamed constants, variables, types and fields (renames.go)
	privRoots   map[string]bool // locals (by address) that no call can change; their fields survive calls in the walker
	initCells   map[*ssa.Package]map[*ssa.Global]*cell
	stats       struct {
		packages, functions, blocks, instrs int
	}
}

// scopePkgs are the packages that are analysed (DESIGN §2).
var scopePkgs = []string{
	modPath, modPath + "/lzma", modPath + "/internal/hash", modPath + "/internal/xlog",
	modPath + "/cmd/gxz", modPath + "/internal/gflag", modPath + "/internal/term",
}

func repoDir() string {
	if d := os.Getenv("XZVERIFY_REPO"); d != "" {
		return d
	}
	return "/repo"
}

// Load loads and builds everything. Any failure is fatal for the run (exit 2 is not a
// verdict; the caller turns it into a violation "undecided").
func Load(dir, arch string) (*Ctx, error) {
	env := append(os.Environ(), "GOFLAGS=-mod=mod", "GOPROXY=off", "GOSUMDB=off",
		"GOTOOLCHAIN=local", "GOWORK=off", "CGO_ENABLED=0")
	if arch != "" {
		env = append(env, "GOARCH="+arch)
	}
	cfg := &packages.Config{Mode: packages.LoadAllSyntax, Dir: dir, Env: env, Tests: false}
	pkgs, err := packages.Load(cfg, "./...")
	if err != nil {
		return nil, fmt.Errorf("packages.Load: %v", err)
	}
	var errs []string
	packages.Visit(pkgs, nil, func(p *packages.Package) {
		for _, e := range p.Errors {
			errs = append(errs, e.Error())
		}
	})
	if len(errs) > 0 {
		sort.Strings(errs)
		if len(errs) > 5 {
			errs = errs[:5]
		}
		return nil, fmt.Errorf("type/load errors: %s", strings.Join(errs, "; "))
	}
	c := &Ctx{Dir: dir, Arch: arch, Pkgs: pkgs, SPkgs: map[string]*ssa.Package{}}
	have := map[string]bool{}
	for _, p := range pkgs {
		have[p.PkgPath] = true
	}
	for _, want := range scopePkgs {
		if !have[want] {
			return nil, fmt.Errorf("package %s not loaded", want)
		}
	}
	if len(pkgs) < 7 {
		return nil, fmt.Errorf("only %d packages loaded", len(pkgs))
	}
	c.Fset = pkgs[0].Fset
	prog, _ := ssautil.AllPackages(pkgs, ssa.InstantiateGenerics)
	prog.Build()
	c.Prog = prog
	for _, sp := range prog.AllPackages() {
		c.SPkgs[sp.Pkg.Path()] = sp
	}
	c.All = ssautil.AllFunctions(prog)
	c.CG = vta.CallGraph(c.All, cha.CallGraph(prog))
	for fn := range c.All {
		if fn.Blocks == nil || !c.InModule(fn) {
			continue
		}
		c.modFuncs = append(c.modFuncs, fn)
		canonComparisons(fn)
	}
	sort.Slice(c.modFuncs, func(i, j int) bool {
		a, b := c.modFuncs[i], c.modFuncs[j]
		if a.String() != b.String() {
			return a.String() < b.String()
		}
		return a.Pos() < b.Pos()
	})
	c.stats.packages = len(pkgs)
	for _, fn := range c.modFuncs {
		if !c.InScope(fn) {
			continue
		}
		c.stats.functions++
		c.stats.blocks += len(fn.Blocks)
		for _, b := range fn.Blocks {
			c.stats.instrs += len(b.Instrs)
		}
	}
	theCtx = c
	c.detectSymRenames()
	c.detectRenames()
	return c, nil
}

// pkgPathOf returns the import path of the package a function belongs to (closures and
// wrappers are attributed to their parent / object package).
func pkgPathOf(fn *ssa.Function) string {
	for f := fn; f != nil; f = f.Parent() {
		if f.Pkg != nil {
			return f.Pkg.Pkg.Path()
		}
		if o := f.Object(); o != nil && o.Pkg() != nil {
			return o.Pkg().Path()
		}
		if f.Origin() != nil && f.Origin().Pkg != nil {
			return f.Origin().Pkg.Pkg.Path()
		}
	}
	return ""
}

func (c *Ctx) InModule(fn *ssa.Function) bool {
	if fn == nil {
		return false
	}
	p := pkgPathOf(fn)
	return p == modPath || strings.HasPrefix(p, modPath+"/")
}

func (c *Ctx) InModulePkg(p *types.Package) bool {
	return p != nil && (p.Path() == modPath || strings.HasPrefix(p.Path(), modPath+"/"))
}

// InScope: function belongs to one of the analysed packages.
func (c *Ctx) InScope(fn *ssa.Function) bool {
	p := pkgPathOf(fn)
	for _, s := range scopePkgs {
		if p == s {
			return true
		}
	}
	return false
}

// ModFuncs returns the module's functions (with bodies) whose package path is one of pkgs
// (short names relative to the module: "", "lzma", "cmd/gxz", ...).
func (c *Ctx) ModFuncs(pkgs ...string) []*ssa.Function {
	var r []*ssa.Function
	for _, fn := range c.modFuncs {
		if c.IsNew(fn) {
			continue // new helpers are seen through the groups of their callers (GB)
		}
		p := pkgPathOf(fn)
		for _, s := range pkgs {
			if p == full(s) {
				r = append(r, fn)
			}
		}
	}
	return r
}

func full(short string) string {
	if short == "" || short == "xz" {
		return modPath
	}
	return modPath + "/" + short
}

// ---- anchors ----

func (c *Ctx) miss(what string) {
	for _, u := range c.unresolved {
		if u == what {
			return
		}
	}
	c.unresolved = append(c.unresolved, what)
}

func (c *Ctx) Pkg(short string) *ssa.Package {
	p := c.SPkgs[full(short)]
	if p == nil {
		c.miss("package " + short)
	}
	return p
}

// Func resolves "name" (package-level function) or "T.name" / "(*T).name" (method; pointer
// or value receiver is found automatically) in the package.
func (c *Ctx) Func(pkg, name string) *ssa.Function {
	fn := c.funcQuiet(pkg, name)
	if fn == nil {
		if rf := c.renamedFunc(pkg, name); rf != nil {
			return rf
		}
		// the function of the reference tree is gone: if it had exactly one caller there and
		// that caller still exists, its body was (in all likelihood) inlined into that caller;
		// the rule then looks at the caller. Otherwise the anchor is unresolved (undecided).
		if heir := c.heirOf(pkg, name); heir != nil {
			c.inlinedInto = append(c.inlinedInto, pkg+"."+name+" -> "+FnName(heir))
			return heir
		}
		c.miss("func " + pkg + "." + name)
	}
	return fn
}

//go:embed knownedges.txt
var knownEdgesTxt string

// heirOf: the single caller (on the reference tree) of a function that no longer exists.
func (c *Ctx) heirOf(pkg, name string) *ssa.Function {
	// FnName form of pkg.name: try the spellings used in knownfuncs.txt
	short := map[string]string{"": "xz", "xz": "xz", "lzma": "lzma", "cmd/gxz": "gxz", "internal/gflag": "gflag", "internal/xlog": "xlog", "internal/hash": "hash", "internal/term": "term"}[pkg]
	var cands []string
	if i := strings.Index(name, "."); i >= 0 {
		cands = []string{"(*" + short + "." + name[:i] + ")." + name[i+1:], "(" + short + "." + name[:i] + ")." + name[i+1:]}
	} else {
		cands = []string{short + "." + name}
	}
	var callers []string
	for _, l := range strings.Split(knownEdgesTxt, "\n") {
		f := strings.Split(strings.TrimSpace(l), "\t")
		if len(f) != 2 {
			continue
		}
		for _, cd := range cands {
			if f[0] == cd && f[1] != cd {
				callers = append(callers, f[1])
			}
		}
	}
	// callers that are gone themselves (promotion wrappers of the deleted method, or functions
	// removed in the same change) cannot have taken the code over
	var alive []*ssa.Function
	for _, cl := range callers {
		for _, fn := range c.modFuncs {
			if FnName(fn) == cl {
				alive = append(alive, fn)
				break
			}
		}
	}
	if len(alive) == 0 && len(callers) == 1 {
		return c.heirChain(callers[0], 0) // the single caller was folded away too: follow the chain
	}
	if len(alive) != 1 {
		return nil
	}
	return alive[0]
}

func (c *Ctx) funcQuiet(pkg, name string) *ssa.Function {
	p := c.SPkgs[full(pkg)]
	if p == nil {
		return nil
	}
	name = strings.TrimPrefix(name, "(*")
	name = strings.Replace(name, ").", ".", 1)
	if i := strings.Index(name, "."); i >= 0 {
		tn, mn := name[:i], name[i+1:]
		t := p.Type(tn)
		if t == nil {
			t = p.Type(c.curName("type", pkg, tn))
		}
		if t == nil {
			return nil
		}
		for _, typ := range []types.Type{t.Type(), types.NewPointer(t.Type())} {
			ms := c.Prog.MethodSets.MethodSet(typ)
			for i := 0; i < ms.Len(); i++ {
				sel := ms.At(i)
				if sel.Obj().Name() == mn && sel.Obj().Pkg() == p.Pkg {
					// only methods declared on this type (not promoted through embedding)
					if len(sel.Index()) != 1 {
						continue
					}
					if f := c.Prog.FuncValue(sel.Obj().(*types.Func)); f != nil && f.Blocks != nil {
						return f
					}
				}
			}
		}
		return nil
	}
	if f := p.Func(name); f != nil && f.Blocks != nil {
		return f
	}
	return nil
}

// Field resolves struct field "T.f".
func (c *Ctx) Field(pkg, tf string) *types.Var {
	p := c.SPkgs[full(pkg)]
	i := strings.Index(tf, ".")
	if p != nil && i > 0 {
		t := p.Type(tf[:i])
		if t == nil {
			t = p.Type(c.curName("type", pkg, tf[:i]))
		}
		if t != nil {
			if st, ok := t.Type().Underlying().(*types.Struct); ok {
				for _, fname := range []string{tf[i+1:], c.curName("field", pkg, tf)} {
					for j := 0; j < st.NumFields(); j++ {
						if st.Field(j).Name() == fname {
							return st.Field(j)
						}
					}
				}
			}
		}
	}
	c.miss("field " + pkg + "." + tf)
	return nil
}

// Global resolves a package-level variable.
func (c *Ctx) Global(pkg, name string) *ssa.Global {
	if p := c.SPkgs[full(pkg)]; p != nil {
		if g := p.Var(name); g != nil {
			return g
		}
		if g := p.Var(c.curName("var", pkg, name)); g != nil {
			return g
		}
	}
	c.miss("var " + pkg + "." + name)
	return nil
}

// ConstVal resolves a package-level constant.
func (c *Ctx) Const(pkg, name string) *ssa.NamedConst {
	if p := c.SPkgs[full(pkg)]; p != nil {
		if k := p.Const(name); k != nil {
			return k
		}
		if k := p.Const(c.curName("const", pkg, name)); k != nil {
			return k
		}
	}
	c.miss("const " + pkg + "." + name)
	return nil
}

func (c *Ctx) Type(pkg, name string) types.Type {
	if p := c.SPkgs[full(pkg)]; p != nil {
		if t := p.Type(name); t != nil {
			return t.Type()
		}
		if t := p.Type(c.curName("type", pkg, name)); t != nil {
			return t.Type()
		}
	}
	c.miss("type " + pkg + "." + name)
	return nil
}

// StdFunc resolves a standard-library function or method (e.g. "io", "ReadFull";
// "os", "Remove").
func (c *Ctx) StdFunc(pkg, name string) *ssa.Function {
	if p := c.Prog.ImportedPackage(pkg); p != nil {
		if f := p.Func(name); f != nil {
			return f
		}
	}
	return nil
}

// ---- positions and names ----

func (c *Ctx) Pos(p token.Pos) string {
	if !p.IsValid() {
		return "-"
	}
	ps := c.Fset.Position(p)
	f := ps.Filename
	if strings.HasPrefix(f, c.Dir+"/") {
		f = f[len(c.Dir)+1:]
	}
	return fmt.Sprintf("%s:%d", f, ps.Line)
}

// InstrPos returns the best position for an instruction (falls back to the nearest
// earlier instruction with a position in the block, then to the function).
func (c *Ctx) InstrPos(ins ssa.Instruction) string {
	if ins == nil {
		return "-"
	}
	if ins.Pos().IsValid() {
		return c.Pos(ins.Pos())
	}
	if v, ok := ins.(ssa.Value); ok {
		_ = v
	}
	b := ins.Block()
	if b != nil {
		for _, i := range b.Instrs {
			if i.Pos().IsValid() {
				return c.Pos(i.Pos())
			}
		}
		return c.Pos(b.Parent().Pos())
	}
	return "-"
}

// FnName gives a short stable name: "lzma.(*Reader2).Read", "xz.NewReader", "gxz.processFile".
func FnName(fn *ssa.Function) string {
	if fn == nil {
		return "<nil>"
	}
	if theCtx != nil && theCtx.renamed != nil {
		if old, ok := theCtx.renamed[fn]; ok {
			return old // a reference function under a new name keeps its reference name in all tables
		}
	}
	return rawFnName(fn)
}

func rawFnName(fn *ssa.Function) string {
	s := fn.String()
	s = strings.ReplaceAll(s, modPath+"/cmd/gxz", "gxz")
	s = strings.ReplaceAll(s, modPath+"/internal/", "")
	s = strings.ReplaceAll(s, modPath+"/lzma", "lzma")
	s = strings.ReplaceAll(s, modPath, "xz")
	if theCtx != nil && theCtx.syms != nil && len(theCtx.syms.typeRe) > 0 {
		// methods of a renamed type keep their reference names
		if i := strings.Index(s, ")."); i >= 0 && strings.HasPrefix(s, "(") {
			s = theCtx.syms.normType(s[:i]) + s[i:]
		}
	}
	return s
}

// ---- call-graph helpers ----

// Callees returns the possible callees of a call instruction: the static callee, or the
// VTA edges.
func (c *Ctx) Callees(caller *ssa.Function, ci ssa.CallInstruction) []*ssa.Function {
	if f := ci.Common().StaticCallee(); f != nil {
		return []*ssa.Function{f}
	}
	var r []*ssa.Function
	if n := c.CG.Nodes[caller]; n != nil {
		for _, e := range n.Out {
			if e.Site == ci {
				r = append(r, e.Callee.Func)
			}
		}
	}
	sort.Slice(r, func(i, j int) bool { return r[i].String() < r[j].String() })
	return r
}

// Cone returns all functions reachable (VTA) from the roots, restricted to the module
// unless ext is set; the walk itself only continues through module functions.
func (c *Ctx) Cone(roots ...*ssa.Function) map[*ssa.Function]bool {
	seen := map[*ssa.Function]bool{}
	var walk func(fn *ssa.Function)
	walk = func(fn *ssa.Function) {
		if fn == nil || seen[fn] {
			return
		}
		seen[fn] = true
		if !c.InModule(fn) {
			return
		}
		if n := c.CG.Nodes[fn]; n != nil {
			for _, e := range n.Out {
				walk(e.Callee.Func)
			}
		}
		for _, af := range fn.AnonFuncs {
			walk(af)
		}
	}
	for _, r := range roots {
		walk(r)
	}
	return seen
}

func sortedFuncs(m map[*ssa.Function]bool) []*ssa.Function {
	var r []*ssa.Function
	for f := range m {
		r = append(r, f)
	}
	sort.Slice(r, func(i, j int) bool {
		if r[i].String() != r[j].String() {
			return r[i].String() < r[j].String()
		}
		return r[i].Pos() < r[j].Pos()
	})
	return r
}

// fieldOfAddr returns the struct field addressed by a FieldAddr.
func fieldOfAddr(fa *ssa.FieldAddr) *types.Var {
	pt, ok := fa.X.Type().Underlying().(*types.Pointer)
	if !ok {
		return nil
	}
	st, ok := pt.Elem().Underlying().(*types.Struct)
	if !ok {
		return nil
	}
	return st.Field(fa.Field)
}

func fieldOfField(f *ssa.Field) *types.Var {
	st, ok := f.X.Type().Underlying().(*types.Struct)
	if !ok {
		return nil
	}
	return st.Field(f.Field)
}

// ---- reference function table ----
//
// knownfuncs.txt lists every function of the module on the reference tree (the tree the
// rules were written against). A function of the module that is NOT in the table is a
// helper introduced by a later edit; rules treat such functions as transparent: the path
// walker steps into them (PATH inlining) and scanning rules attribute their instructions
// to the functions that call them. This keeps "extract a block into a helper" from
// looking like a deleted check.

//go:embed knownfuncs.txt
var knownFuncsTxt string

var knownFuncs = func() map[string]bool {
	m := map[string]bool{}
	for _, l := range strings.Split(knownFuncsTxt, "\n") {
		if l = strings.TrimSpace(l); l != "" {
			m[l] = true
		}
	}
	return m
}()

// IsNew: fn is a module function with a body that does not exist on the reference tree.
func (c *Ctx) IsNew(fn *ssa.Function) bool {
	if fn == nil || fn.Blocks == nil || fn.Synthetic != "" || !c.InModule(fn) {
		return false
	}
	if knownFuncs[FnName(fn)] {
		return false
	}
	// an anonymous function is new when its name is not in the table; its free variables
	// are bound by the walker at the call
	return true
}

// Group returns fn followed by the new helper functions it reaches through static calls
// (transitively, helpers only).
func (c *Ctx) Group(fn *ssa.Function) []*ssa.Function {
	if fn == nil {
		return nil
	}
	out := []*ssa.Function{fn}
	seen := map[*ssa.Function]bool{fn: true}
	for i := 0; i < len(out); i++ {
		for _, b := range out[i].Blocks {
			for _, ins := range b.Instrs {
				ci, ok := ins.(ssa.CallInstruction)
				if !ok {
					continue
				}
				if cal := ci.Common().StaticCallee(); cal != nil && !seen[cal] && c.IsNew(cal) {
					seen[cal] = true
					out = append(out, cal)
				}
			}
		}
		// new closures created by the function (called through a local variable)
		for _, af := range out[i].AnonFuncs {
			if !seen[af] && c.IsNew(af) {
				seen[af] = true
				out = append(out, af)
			}
		}
	}
	return out
}

// theCtx is the context of the current analysis (one Load per process at a time); free
// helper functions (stripConv, roles) use it to look through new helper functions.
var theCtx *Ctx

// GB returns the basic blocks of fn followed by those of the new helpers of its group.
func (c *Ctx) GB(fn *ssa.Function) []*ssa.BasicBlock {
	if fn == nil {
		return nil
	}
	// whoever scans the group of a known function analyses that function: helpers shared with other
	// functions are looked at through its calls (lookThrough)
	if c.curRoot != fn && !c.IsNew(fn) {
		c.curRoot, c.bindParam = fn, nil
	}
	g := c.Group(fn)
	if len(g) == 1 {
		return fn.Blocks
	}
	var out []*ssa.BasicBlock
	for _, f := range g {
		out = append(out, f.Blocks...)
	}
	return out
}

// callSites returns the static call instructions of fn in the module.
func (c *Ctx) callSites(fn *ssa.Function) []ssa.CallInstruction {
	if c.sites == nil {
		c.sites = map[*ssa.Function][]ssa.CallInstruction{}
		for _, f := range c.modFuncs {
			for _, b := range f.Blocks {
				for _, ins := range b.Instrs {
					if ci, ok := ins.(ssa.CallInstruction); ok {
						if cal := ci.Common().StaticCallee(); cal != nil {
							c.sites[cal] = append(c.sites[cal], ci)
						}
					}
				}
			}
		}
	}
	return c.sites[fn]
}

// Dom: block a dominates block b, looking through new helper functions: a block of a
// helper is dominated by whatever dominates all its call sites; a block of a helper
// dominates what the blocks of its call sites dominate when it dominates every return of
// the helper.
func (c *Ctx) Dom(a, b *ssa.BasicBlock) bool { return c.dom(a, b, 0) }

func (c *Ctx) dom(a, b *ssa.BasicBlock, depth int) bool {
	if a.Parent() == b.Parent() {
		return a.Dominates(b)
	}
	if depth > 4 {
		return false
	}
	if c.IsNew(b.Parent()) {
		sites := c.callSites(b.Parent())
		if !c.IsNew(a.Parent()) && len(sites) > 1 {
			// a helper shared by several functions: the calls made on behalf of a's function
			inRoot := map[*ssa.Function]bool{}
			for _, g := range c.Group(a.Parent()) {
				inRoot[g] = true
			}
			var mine []ssa.CallInstruction
			for _, s := range sites {
				if inRoot[s.Parent()] {
					mine = append(mine, s)
				}
			}
			sites = mine
		}
		if len(sites) == 0 {
			return false
		}
		for _, s := range sites {
			if !c.dom(a, s.Block(), depth+1) {
				return false
			}
		}
		return true
	}
	if c.IsNew(a.Parent()) {
		// a must dominate every SUCCESS return of its function (returns with a nil-constant error,
		// or all returns when there is no error result); then it dominates what follows each
		// call on the paths where the caller goes on after testing the error
		res := a.Parent().Signature.Results()
		errIdx := -1
		if n := res.Len(); n > 0 && isErrType(res.At(n-1).Type()) {
			errIdx = n - 1
		}
		for _, rb := range a.Parent().Blocks {
			ret, isRet := rb.Instrs[len(rb.Instrs)-1].(*ssa.Return)
			if !isRet {
				continue
			}
			if errIdx >= 0 && !isNilConst(ret.Results[errIdx]) {
				continue
			}
			if !a.Dominates(rb) {
				return false
			}
		}
		sites := c.callSites(a.Parent())
		if len(sites) != 1 {
			return false
		}
		sb := sites[0].Block()
		return sb != b && c.dom(sb, b, depth+1) || (sb == b)
	}
	return false
}

// lookThrough maps a value to the value it stands for across a new-helper boundary: a
// parameter of a helper with a single call site is the argument; the (single) result of a
// call to a helper with one return statement is the returned value.
func (c *Ctx) lookThrough(v ssa.Value) (ssa.Value, bool) {
	switch x := v.(type) {
	case *ssa.Parameter:
		fn := x.Parent()
		if !c.IsNew(fn) {
			return v, false
		}
		if b, ok := c.bindParam[x]; ok {
			return b, true // bound by the call we looked through last
		}
		sites := c.callSites(fn)
		if len(sites) > 1 && c.curRoot != nil {
			// a helper shared by several functions: the call made by the function under analysis
			inRoot := map[*ssa.Function]bool{}
			for _, g := range c.Group(c.curRoot) {
				inRoot[g] = true
			}
			var mine []ssa.CallInstruction
			for _, s := range sites {
				if inRoot[s.Parent()] {
					mine = append(mine, s)
				}
			}
			sites = mine
		}
		if len(sites) != 1 {
			return v, false
		}
		for i, p := range fn.Params {
			if p == x && i < len(sites[0].Common().Args) {
				return sites[0].Common().Args[i], true
			}
		}
	case *ssa.Call:
		if cal := x.Call.StaticCallee(); cal != nil && c.IsNew(cal) && cal.Signature.Results().Len() == 1 {
			if rv := singleReturn(cal, 0); rv != nil {
				c.bindCall(cal, x)
				return rv, true
			}
		}
	case *ssa.Extract:
		if call, ok := x.Tuple.(*ssa.Call); ok {
			if cal := call.Call.StaticCallee(); cal != nil && c.IsNew(cal) {
				if rv := singleReturn(cal, x.Index); rv != nil {
					c.bindCall(cal, call)
					return rv, true
				}
			}
		}
	}
	return v, false
}

// singleReturn: the one value result #idx has at the returns of fn; for a non-error result
// of a function that also returns an error only the returns with a nil error constant count
// (the value delivered on success).
// bindCall remembers the arguments of the helper call a role predicate is looking through,
// so that the helper's parameters resolve to the arguments of THAT call site.
func (c *Ctx) bindCall(cal *ssa.Function, call *ssa.Call) {
	if c.bindParam == nil {
		c.bindParam = map[*ssa.Parameter]ssa.Value{}
	}
	for i, p := range cal.Params {
		if i < len(call.Call.Args) {
			c.bindParam[p] = call.Call.Args[i]
		}
	}
}

func singleReturn(fn *ssa.Function, idx int) ssa.Value {
	var rv ssa.Value
	nres := fn.Signature.Results().Len()
	errIdx := -1
	if nres > 1 && isErrType(fn.Signature.Results().At(nres-1).Type()) && idx != nres-1 {
		errIdx = nres - 1
	}
	for _, b := range fn.Blocks {
		if r, ok := b.Instrs[len(b.Instrs)-1].(*ssa.Return); ok && idx < len(r.Results) {
			if errIdx >= 0 && !isNilConst(r.Results[errIdx]) {
				continue
			}
			if rv != nil && rv != r.Results[idx] {
				return nil
			}
			rv = r.Results[idx]
		}
	}
	return rv
}

// heirByFnName: fnName (FnName form) does not exist any more and had exactly one caller on
// the reference tree, which still exists: that caller.
func (c *Ctx) heirByFnName(fnName string) *ssa.Function {
	for _, fn := range c.modFuncs {
		if FnName(fn) == fnName {
			return nil // still exists
		}
	}
	var callers []string
	for _, l := range strings.Split(knownEdgesTxt, "\n") {
		f := strings.Split(strings.TrimSpace(l), "\t")
		if len(f) == 2 && f[0] == fnName && f[1] != fnName {
			callers = append(callers, f[1])
		}
	}
	if len(callers) != 1 {
		return nil
	}
	for _, fn := range c.modFuncs {
		if FnName(fn) == callers[0] {
			return fn
		}
	}
	// the one caller is gone as well (a chain of small helpers folded into the function at its end)
	if callers[0] != fnName {
		return c.heirChain(callers[0], 0)
	}
	return nil
}

func (c *Ctx) heirChain(fnName string, depth int) *ssa.Function {
	if depth > 3 {
		return nil
	}
	var callers []string
	for _, l := range strings.Split(knownEdgesTxt, "\n") {
		f := strings.Split(strings.TrimSpace(l), "\t")
		if len(f) == 2 && f[0] == fnName && f[1] != fnName {
			callers = append(callers, f[1])
		}
	}
	if len(callers) != 1 {
		return nil
	}
	for _, fn := range c.modFuncs {
		if FnName(fn) == callers[0] {
			return fn
		}
	}
	return c.heirChain(callers[0], depth+1)
}

// ---- renamed reference functions ----
//
// A function of the reference tree that is missing while exactly one function that is not in the
// reference table has the same package / receiver and is called by exactly the functions that called
// the missing one (knownedges.txt) is that function under a new name. It keeps its reference name for
// every table of the checker (FnName), is not a "new helper" (IsNew) and resolves as an anchor.
func (c *Ctx) detectRenames() {
	c.renamed = map[*ssa.Function]string{}
	c.renamedBy = map[string]*ssa.Function{}
	cur := map[string]*ssa.Function{}
	for _, fn := range c.modFuncs {
		if fn.Parent() == nil && fn.Synthetic == "" {
			cur[rawFnName(fn)] = fn
		}
	}
	prefixOf := func(n string) string {
		if i := strings.LastIndex(n, "."); i >= 0 {
			return n[:i]
		}
		return n
	}
	refCallers := map[string]map[string]bool{}
	for _, l := range strings.Split(knownEdgesTxt, "\n") {
		f := strings.Split(strings.TrimSpace(l), "\t")
		if len(f) == 2 {
			// closures count as the function they are written in
			if i := strings.Index(f[1], "$"); i >= 0 {
				f[1] = f[1][:i]
			}
		}
		if len(f) == 2 && f[0][strings.LastIndex(f[0], ".")+1:] == f[1][strings.LastIndex(f[1], ".")+1:] {
			// callers with the method's own name are not compared: pointer-receiver and promotion
			// wrappers are renamed together with the method
			continue
		}
		if len(f) == 2 && f[0] != f[1] {
			if refCallers[f[0]] == nil {
				refCallers[f[0]] = map[string]bool{}
			}
			refCallers[f[0]][f[1]] = true
		}
	}
	var missing []string
	for n := range knownFuncs {
		if cur[n] == nil && !strings.Contains(n, "$") {
			missing = append(missing, n)
		}
	}
	sort.Strings(missing)
	var fresh []*ssa.Function
	for n, fn := range cur {
		if !knownFuncs[n] && !strings.Contains(n, "$") {
			fresh = append(fresh, fn)
		}
	}
	sort.Slice(fresh, func(i, j int) bool { return rawFnName(fresh[i]) < rawFnName(fresh[j]) })
	nowCallers := func(fn *ssa.Function) map[string]bool {
		out := map[string]bool{}
		for _, s := range c.callSites(fn) {
			p := s.Parent()
			for p != nil && p.Parent() != nil {
				p = p.Parent()
			}
			if p != nil && p != fn && p.Synthetic == "" && p.Name() != fn.Name() {
				out[rawFnName(p)] = true
			}
		}
		return out
	}
	taken := map[*ssa.Function]bool{}
	for _, m := range missing {
		want := refCallers[m]
		var cands []*ssa.Function
		for _, fn := range fresh {
			if taken[fn] || prefixOf(rawFnName(fn)) != prefixOf(m) {
				continue
			}
			got := nowCallers(fn)
			if len(want) == 0 {
				continue
			}
			same := len(got) == len(want)
			for k := range want {
				// a caller may itself have been renamed in the same change
				if !got[k] {
					ok := false
					for rf, old := range c.renamed {
						if old == k && got[rawFnName(rf)] {
							ok = true
						}
					}
					if !ok {
						same = false
					}
				}
			}
			if same {
				cands = append(cands, fn)
			}
		}
		if len(cands) == 1 {
			c.renamed[cands[0]] = m
			c.renamedBy[m] = cands[0]
			taken[cands[0]] = true
		}
	}
	// functions without recorded callers (methods called through interfaces): the only missing and the
	// only fresh function under one receiver
	for _, m := range missing {
		if c.renamedBy[m] != nil || len(refCallers[m]) != 0 {
			continue
		}
		nm, nf := 0, 0
		var cand *ssa.Function
		for _, m2 := range missing {
			if prefixOf(m2) == prefixOf(m) && c.renamedBy[m2] == nil {
				nm++
			}
		}
		for _, fn := range fresh {
			if !taken[fn] && prefixOf(rawFnName(fn)) == prefixOf(m) && len(nowCallers(fn)) == 0 {
				nf++
				cand = fn
			}
		}
		if sg := refSigOf(m); sg != "" {
			// address-taken functions and interface methods: the only fresh function of that
			// package / receiver with the same signature that nothing calls directly
			var same []*ssa.Function
			for _, fn := range fresh {
				if !taken[fn] && prefixOf(rawFnName(fn)) == prefixOf(m) && len(nowCallers(fn)) == 0 && c.curSigOf(fn) == sg {
					same = append(same, fn)
				}
			}
			if len(same) == 1 {
				c.renamed[same[0]] = m
				c.renamedBy[m] = same[0]
				taken[same[0]] = true
				continue
			}
		}
		if nm == 1 && nf == 1 && strings.HasPrefix(prefixOf(m), "(") {
			c.renamed[cand] = m
			c.renamedBy[m] = cand
			taken[cand] = true
		}
	}
}

// renamedFunc: the reference function pkg.name under its new name, if detectRenames found it.
func (c *Ctx) renamedFunc(pkg, name string) *ssa.Function {
	short := map[string]string{"": "xz", "xz": "xz", "lzma": "lzma", "cmd/gxz": "gxz", "internal/gflag": "gflag", "internal/xlog": "xlog", "internal/hash": "hash", "internal/term": "term"}[pkg]
	var cands []string
	if i := strings.Index(name, "."); i >= 0 {
		cands = []string{"(*" + short + "." + name[:i] + ")." + name[i+1:], "(" + short + "." + name[:i] + ")." + name[i+1:]}
	} else {
		cands = []string{short + "." + name}
	}
	for _, cd := range cands {
		if fn := c.renamedBy[cd]; fn != nil {
			return fn
		}
	}
	return nil
}

// canonComparisons rewrites the comparisons of fn that have a constant on the left (`0 == x`,
// `nil != err`, `4 < lc+lp`) into the form with the constant on the right (`x == 0`, `err != nil`,
// `lc+lp > 4`). Both spell the same test; the rules describe comparisons in the second form.
func canonComparisons(fn *ssa.Function) {
	flip := map[token.Token]token.Token{token.EQL: token.EQL, token.NEQ: token.NEQ, token.LSS: token.GTR, token.GTR: token.LSS, token.LEQ: token.GEQ, token.GEQ: token.LEQ}
	for _, b := range fn.Blocks {
		for _, ins := range b.Instrs {
			bo, ok := ins.(*ssa.BinOp)
			if !ok {
				continue
			}
			f, isCmp := flip[bo.Op]
			if !isCmp {
				continue
			}
			_, xk := bo.X.(*ssa.Const)
			_, yk := bo.Y.(*ssa.Const)
			if xk && !yk {
				bo.X, bo.Y, bo.Op = bo.Y, bo.X, f
			}
			// integer tests against the neighbours of zero: x <= -1 is x < 0, x > -1 is x >= 0; a
			// length is never negative: len(s) < 1 and len(s) <= 0 are len(s) == 0, len(s) > 0 and
			// len(s) >= 1 are len(s) != 0
			k, isK := bo.Y.(*ssa.Const)
			if !isK || k.Value == nil || k.Value.Kind() != constant.Int || !isIntegerType(bo.X.Type()) {
				continue
			}
			kv, exact := constant.Int64Val(k.Value)
			if !exact {
				continue
			}
			zero := ssa.NewConst(constant.MakeInt64(0), k.Type())
			isLen := false
			if call, isC := bo.X.(*ssa.Call); isC {
				if bi, isB := call.Call.Value.(*ssa.Builtin); isB && (bi.Name() == "len" || bi.Name() == "cap") {
					isLen = true
				}
			}
			switch {
			case isLen && (bo.Op == token.LSS && kv == 1 || bo.Op == token.LEQ && kv == 0):
				bo.Op, bo.Y = token.EQL, zero
			case isLen && (bo.Op == token.GTR && kv == 0 || bo.Op == token.GEQ && kv == 1):
				bo.Op, bo.Y = token.NEQ, zero
			case bo.Op == token.LEQ && kv == -1:
				bo.Op, bo.Y = token.LSS, zero
			case bo.Op == token.GTR && kv == -1:
				bo.Op, bo.Y = token.GEQ, zero
			}
		}
	}
	dropRef := func(v ssa.Value, user ssa.Instruction) {
		if refs := v.Referrers(); refs != nil {
			for i, r := range *refs {
				if r == user {
					*refs = append((*refs)[:i:i], (*refs)[i+1:]...)
					break
				}
			}
		}
	}
	for _, b := range fn.Blocks {
		for _, ins := range b.Instrs {
			switch x := ins.(type) {
			case *ssa.Slice:
				// s[0:n] is s[:n]; s[n:len(s)] is s[n:]
				if k, ok := x.Low.(*ssa.Const); ok && k.Value != nil && k.Value.ExactString() == "0" {
					x.Low = nil
				}
				if call, ok := x.High.(*ssa.Call); ok && x.Max == nil {
					if bi, isB := call.Call.Value.(*ssa.Builtin); isB && bi.Name() == "len" && len(call.Call.Args) == 1 && call.Call.Args[0] == x.X {
						if _, isPtr := x.X.Type().Underlying().(*types.Pointer); !isPtr {
							x.High = nil
							dropRef(call, x)
						}
					}
				}
			case *ssa.If:
				// `if b == false` is `if !b`: branch on b with the successors exchanged
				cmp, ok := x.Cond.(*ssa.BinOp)
				if !ok || (cmp.Op != token.EQL && cmp.Op != token.NEQ) || len(b.Succs) != 2 {
					continue
				}
				k, isK := cmp.Y.(*ssa.Const)
				if !isK || k.Value == nil || k.Value.Kind() != constant.Bool {
					continue
				}
				dropRef(cmp, x)
				x.Cond = cmp.X
				if refs := cmp.X.Referrers(); refs != nil {
					*refs = append(*refs, x)
				}
				if constant.BoolVal(k.Value) != (cmp.Op == token.EQL) {
					b.Succs[0], b.Succs[1] = b.Succs[1], b.Succs[0]
				}
			}
		}
	}
	// polarity: `if !(a == b) { T }` and `if a != b { T }` are the same statement; the builder gives the
	// first the test a == b with T as the *false* successor. The test is written the way that makes the
	// body (then-part, loop body, case body, right operand of &&) the true successor.
	neg := map[token.Token]token.Token{token.EQL: token.NEQ, token.NEQ: token.EQL, token.LSS: token.GEQ, token.GEQ: token.LSS, token.LEQ: token.GTR, token.GTR: token.LEQ}
	negatable := func(v ssa.Value, user ssa.Instruction) (*ssa.BinOp, bool) {
		cmp, ok := v.(*ssa.BinOp)
		if !ok {
			return nil, false
		}
		if _, isCmp := neg[cmp.Op]; !isCmp {
			return nil, false
		}
		if bt, isB := cmp.X.Type().Underlying().(*types.Basic); isB && bt.Info()&(types.IsFloat|types.IsComplex) != 0 {
			return nil, false // !(a < b) is not a >= b for NaN
		}
		refs := cmp.Referrers()
		if refs == nil {
			return nil, false
		}
		for _, r := range *refs {
			if _, isD := r.(*ssa.DebugRef); !isD && r != user {
				return nil, false
			}
		}
		return cmp, true
	}
	for _, b := range fn.Blocks {
		for _, ins := range b.Instrs {
			// a negated comparison as a value: !(a < b) is a >= b
			un, ok := ins.(*ssa.UnOp)
			if !ok || un.Op != token.NOT || un.Referrers() == nil {
				continue
			}
			cmp, ok := negatable(un.X, un)
			if !ok {
				continue
			}
			cmp.Op = neg[cmp.Op]
			for _, user := range *un.Referrers() {
				for _, op := range user.Operands(nil) {
					if *op == ssa.Value(un) {
						*op = cmp
					}
				}
				if refs := cmp.Referrers(); refs != nil {
					*refs = append(*refs, user)
				}
			}
			*un.Referrers() = nil
			dropRef(cmp, un)
			un.X = ssa.NewConst(constant.MakeBool(false), un.Type()) // (dead)
		}
	}
	// how much a successor looks like "the part executed when the test holds": the then-part of the if
	// statement the test belongs to, a case body, the right operand of &&, a loop body (a join block in
	// front of a loop is threaded into the loop body, so a loop body can also be the *false* successor
	// of an if statement)
	rank := map[string]int{"if.then": 3, "switch.body": 3, "cond.true": 2, "for.body": 1, "rangeindex.body": 1}
	for _, b := range fn.Blocks {
		if len(b.Instrs) == 0 || len(b.Succs) != 2 {
			continue
		}
		iff, ok := b.Instrs[len(b.Instrs)-1].(*ssa.If)
		if !ok {
			continue
		}
		r0, r1 := rank[b.Succs[0].Comment], rank[b.Succs[1].Comment]
		// (a then-part that only jumps - `break`, `continue` - is folded away by the builder: then the
		// false successor of `if c { break }` is the join block "if.done")
		if !(r1 > r0 || (r0 == 0 && r1 == 0 && b.Succs[0].Comment == "if.done" && b.Succs[1].Comment != "if.done")) {
			continue
		}
		if cmp, ok := negatable(iff.Cond, iff); ok {
			cmp.Op = neg[cmp.Op]
			b.Succs[0], b.Succs[1] = b.Succs[1], b.Succs[0]
		}
	}
}

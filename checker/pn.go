package main

// PN engine (DESIGN §3.7): census of explicit panics and comma-less type assertions
// reachable from the reader / writer API. Every site must be discharged automatically or
// carry a named justification; a site that is not in the frozen table, or whose panic is
// fed by an I/O error, is a violation.

import (
	"fmt"
	"go/token"
	"go/types"
	"sort"
	"strings"

	"golang.org/x/tools/go/ssa"
)

type pnEntry struct {
	reason string
	auto   string // "", "neverfail", "typeswitch", "ce-init", "ce-headerlen", "param-range", "assert"
}

// pnTable: frozen justification table, keyed by "<function>:panic#<ordinal>" /
// "<function>:assert#<ordinal>" (ordinal in source order within the function).
var pnTable = map[string]pnEntry{
	// ---- reader cone ----
	"(*lzma.decoder).Read:panic#1":           {"guarded by err != nil of decoderDict.Read, which never fails (computed)", "neverfail"},
	"(*lzma.decoder).apply:panic#1":          {"type switch default: every concrete type ever converted to lzma.operation is a case", "typeswitch"},
	"(*lzma.decoderDict).writeMatch:panic#1": {"d.buf.Write cannot fail: the space guard `length > d.buf.Available()` returned before (OB-C11 writeMatch-space)", ""},
	"(*lzma.literalCodec).init:panic#1":      {"lc outside 0..8: no path for lc in 0..8; properties come from PropertiesForCode (CE-PROPS: lc = b%9) or pass Properties.verify", "param-range"},
	"(*lzma.literalCodec).init:panic#2":      {"lp outside 0..4: no path for lp in 0..4; properties come from PropertiesForCode (CE-PROPS: lp = b/9%5) or pass Properties.verify", "param-range"},
	"lzma.headerLen:panic#1":                 {"all 7 chunk types return before it (CE-CTRL headerLen:7); callers pass headerChunkType results or w.ctype, whose stores are chunk type constants", "ce-headerlen"},
	"lzma.makeProbTree:panic#1":              {"bits outside 1..32: all callers are the codec init functions, which complete without panic (CE)", "ce-init"},
	"xz.readIndexBody:assert#1":              {"lzma.ByteReader returns either its io.Reader argument or a *breader embedding it: both implement io.Reader", "assert"},
	"xz.readIndexBody:assert#2":              {"as assert#1", "assert"},
	// ---- writer cone ----
	"(*lzma.Writer).writeHeader:assert#1":            {"w.bw is the sink itself (an io.Writer that also is an io.ByteWriter) or a *bufio.Writer", "assert"},
	"(*lzma.Writer2).Write:panic#1":                  {"written() < maxUncompressed: a chunk is flushed as soon as the budget m = maxUncompressed - written() is used up (k == m); numeric invariant, argued not decided", ""},
	"(*lzma.Writer2).writeCompressedChunk:panic#1":   {"writeChunk routes cU/cUD to writeUncompressedChunk; w.ctype holds an LZMA type here (SEQ-W2 ctype stores)", ""},
	"(*lzma.Writer2).writeCompressedChunk:panic#2":   {"u <= maxUncompressed: see Write:panic#1", ""},
	"(*lzma.Writer2).writeCompressedChunk:panic#3":   {"the range encoder's Close wrote at least its 5 flush bytes into the buffer", ""},
	"(*lzma.Writer2).writeCompressedChunk:panic#4":   {"the LimitedByteWriter budget is 65536 (TM-CHUNKLIMIT store-N)", ""},
	"(*lzma.Writer2).writeUncompressedChunk:panic#1": {"u <= maxUncompressed: see Write:panic#1", ""},
	"(*lzma.binTree).NextOp:panic#1":                 {"encoder.compress calls NextOp only while Buffered() > n >= 0", ""},
	"(*lzma.encoder).writeMatch:panic#1":             {"matchers return distances 1..dictLen (OB-M1) and eosMatch has distance 2^32", ""},
	"(*lzma.encoder).writeMatch:panic#2":             {"matchers return lengths 2..273 or a length-1 rep0 match (NextOp case 1)", ""},
	"(*lzma.encoder).writeOp:panic#1":                {"type switch default: every concrete type ever converted to lzma.operation is a case", "typeswitch"},
	"(*lzma.encoderDict).Discard:panic#1":            {"compress discards op.Len() <= Buffered() bytes: matchLen is bounded by the buffered data", ""},
	"(*lzma.hashTable).Matches:panic#1":              {"NextOp passes data[:t.wordLen]", ""},
	"(*lzma.rangeEncoder).shiftLow:panic#1":          {"cacheLen >= 1 on entry of the loop and is decremented once per iteration", ""},
	"(*xz.blockHeader).MarshalBinary:panic#1":        {"the buffer is padded to a multiple of four by the padLen loop (CE-PADLEN) plus a 4-byte CRC", ""},
	"(*xz.blockHeader).MarshalBinary:panic#2":        {"header = 2 + <=20 + 3 bytes + padding + 4: size field between 2 and 7", ""},
	"(*xz.blockWriter).unpaddedSize:panic#1":         {"headerLen > 0: Writer.bw is published only after writeHeader succeeded (SEQ-W-PUB)", ""},
	"hash.NewCyclicPoly:panic#1":                     {"newHashTable checks 1 <= wordLen <= 4 before calling newRoller", ""},
	"lzma.newHashTable:panic#1":                      {"hashTableExponent clamps the exponent to 9..20", ""},
}

type pnSite struct {
	fn   *ssa.Function
	ins  ssa.Instruction
	key  string
	kind string
}

func pnSites(c *Ctx, cone map[*ssa.Function]bool) []pnSite {
	var out []pnSite
	for _, fn := range sortedFuncs(moduleOnly(c, cone)) {
		if c.IsNew(fn) {
			continue // seen through the groups of its callers
		}
		var ps, as []ssa.Instruction
		for _, b := range theCtx.GB(fn) {
			for _, ins := range b.Instrs {
				switch x := ins.(type) {
				case *ssa.Panic:
					ps = append(ps, ins)
				case *ssa.TypeAssert:
					if !x.CommaOk {
						as = append(as, ins)
					}
				}
			}
		}
		sort.Slice(ps, func(i, j int) bool { return ps[i].Pos() < ps[j].Pos() })
		sort.Slice(as, func(i, j int) bool { return as[i].Pos() < as[j].Pos() })
		for i, p := range ps {
			out = append(out, pnSite{fn, p, fmt.Sprintf("%s:panic#%d", FnName(fn), i+1), "panic"})
		}
		for i, a := range as {
			out = append(out, pnSite{fn, a, fmt.Sprintf("%s:assert#%d", FnName(fn), i+1), "assert"})
		}
	}
	return out
}

func rulePanicCensus(c *Ctx, r *Report, roots []*ssa.Function, which string) {
	rule := "PN-" + which
	cone := c.Cone(roots...)
	e := GetEF(c)
	adopted := map[string]bool{}
	// a site inside a new helper shows up under every known function that calls the helper; where it
	// is justified under one of them (the function it was taken out of) it is the same site elsewhere
	sites := pnSites(c, cone)
	justifiedAs := map[ssa.Instruction]string{}
	tableFns := map[*ssa.Function]bool{}
	for k := range pnTable {
		if i := strings.LastIndex(k, ":"); i > 0 {
			for _, fn := range c.modFuncs {
				if FnName(fn) == k[:i] {
					tableFns[fn] = true
				}
			}
		}
	}
	for _, s := range append(append([]pnSite(nil), sites...), pnSites(c, tableFns)...) {
		if _, known := pnTable[s.key]; known && c.IsNew(s.ins.Parent()) {
			justifiedAs[s.ins] = s.key
		}
	}
	for _, s := range sites {
		pos := c.InstrPos(s.ins)
		if _, known := pnTable[s.key]; !known {
			if k, dup := justifiedAs[s.ins]; dup && k != s.key {
				r.Pass(rule, s.key, pos, "the same site as "+k+" (in a helper both functions call)", 1)
				continue
			}
		}
		// (a) a panic fed or guarded by an I/O error is a violation of "no call panics"
		if p, ok := s.ins.(*ssa.Panic); ok {
			if why := panicOnIOError(c, e, s.fn, p); why != "" {
				r.Fail(rule, s.key, pos, "explicit panic reachable from the "+which+" API is triggered by an I/O error: "+why)
				continue
			}
		}
		ent, known := pnTable[s.key]
		if !known {
			// a site that moved here because its (reference-tree) function was inlined into this one
			for k, e2 := range pnTable {
				i := strings.LastIndex(k, ":")
				if i < 0 || !strings.HasPrefix(k[i+1:], s.kind) || adopted[k] {
					continue
				}
				if h := c.heirByFnName(k[:i]); h == s.fn {
					ent, known = e2, true
					adopted[k] = true
					if ent.auto == "assert" || ent.auto == "neverfail" || ent.auto == "typeswitch" {
						// these discharges look at the site itself and still apply
					} else {
						ent.auto = ""
					}
					break
				}
			}
		}
		if !known {
			r.Fail(rule, s.key, pos, fmt.Sprintf("%s site in %s is reachable from the %s API and is not in the frozen justification table: "+
				"a new explicit panic / unchecked type assertion needs a proof obligation or must become an error return", s.kind, FnName(s.fn), which))
			continue
		}
		ok, detail := true, ""
		switch ent.auto {
		case "neverfail":
			ok, detail = pnNeverFail(c, e, s)
		case "typeswitch":
			ok, detail = pnTypeSwitch(c, s)
		case "ce-init":
			ok, detail = pnCEInit(c)
		case "ce-headerlen":
			ok, detail = pnCEHeaderLen(c)
		case "param-range":
			ok, detail = pnParamRange(c, s)
		case "assert":
			ok, detail = pnAssert(c, s)
		}
		if ok {
			msg := ent.reason
			if ent.auto != "" {
				msg = "[discharged automatically: " + ent.auto + "] " + msg
			} else {
				msg = "[justified, not decided] " + msg
			}
			r.Pass(rule, s.key, pos, msg, 1)
		} else {
			r.Fail(rule, s.key, pos, "the justification of this "+s.kind+" site no longer holds: "+detail+" ("+ent.reason+")")
		}
	}
}

// panicOnIOError: the panic's operand, or the condition of a branch that controls it,
// derives from an error value with I/O origins.
func panicOnIOError(c *Ctx, e *EF, fn *ssa.Function, p *ssa.Panic) string {
	hasIO := func(v ssa.Value) bool {
		seen := map[ssa.Value]bool{}
		var rec func(v ssa.Value) bool
		rec = func(v ssa.Value) bool {
			if v == nil || seen[v] {
				return false
			}
			seen[v] = true
			switch x := v.(type) {
			case *ssa.Call:
				if o, _ := e.callOrigins(fn, x); o != nil {
					for _, os := range o {
						if len(os) > 0 {
							return true
						}
					}
				}
				for _, a := range x.Call.Args {
					if isErrType(a.Type()) && rec(a) {
						return true
					}
				}
			case *ssa.Extract:
				if isErrType(x.Type()) {
					if call, ok := x.Tuple.(*ssa.Call); ok {
						if o, _ := e.callOrigins(fn, call); o != nil && len(o[x.Index]) > 0 {
							return true
						}
					}
				}
			case *ssa.MakeInterface:
				return rec(x.X)
			case *ssa.ChangeInterface:
				return rec(x.X)
			case *ssa.Phi:
				for _, ed := range x.Edges {
					if rec(ed) {
						return true
					}
				}
			case *ssa.BinOp:
				return rec(x.X) || rec(x.Y)
			case *ssa.UnOp:
				if x.Op == token.MUL {
					if fa, ok := x.X.(*ssa.FieldAddr); ok && isErrType(x.Type()) {
						return len(e.fieldOrig[fieldOfAddr(fa)]) > 0
					}
				}
				return rec(x.X)
			}
			return false
		}
		return rec(v)
	}
	if hasIO(p.X) {
		return "the panic value derives from a sink/source error"
	}
	// controlling branches: blocks that dominate the panic block and end in an If
	for b := p.Block().Idom(); b != nil; b = b.Idom() {
		if len(b.Instrs) == 0 {
			continue
		}
		if iff, ok := b.Instrs[len(b.Instrs)-1].(*ssa.If); ok {
			// only the immediately controlling condition(s): the panic block is not
			// post-dominated... approximate by: the If has a successor that does not reach the panic block
			if bo, ok := iff.Cond.(*ssa.BinOp); ok && isErrType(bo.X.Type()) {
				if hasIO(bo.X) || hasIO(bo.Y) {
					return "it is guarded by a test on an error with I/O origins at " + c.InstrPos(iff)
				}
			}
			break
		}
	}
	return ""
}

func pnNeverFail(c *Ctx, e *EF, s pnSite) (bool, string) {
	b := s.ins.Block()
	for d := b.Idom(); d != nil; d = d.Idom() {
		if len(d.Instrs) == 0 {
			continue
		}
		iff, ok := d.Instrs[len(d.Instrs)-1].(*ssa.If)
		if !ok {
			continue
		}
		bo, ok := iff.Cond.(*ssa.BinOp)
		if !ok || !isErrType(bo.X.Type()) {
			return false, "the controlling branch is not a test of an error value"
		}
		v := bo.X
		if isNilConst(v) {
			v = bo.Y
		}
		var call *ssa.Call
		switch x := v.(type) {
		case *ssa.Call:
			call = x
		case *ssa.Extract:
			call, _ = x.Tuple.(*ssa.Call)
		}
		if call == nil {
			return false, "the tested error is not a call result"
		}
		if _, mf := e.callOrigins(s.fn, call); mf {
			return false, calleeName(call) + " may now fail"
		}
		return true, ""
	}
	return false, "no controlling branch"
}

func pnTypeSwitch(c *Ctx, s pnSite) (bool, string) {
	opT := c.Type("lzma", "operation")
	if opT == nil {
		return false, "type lzma.operation not found"
	}
	conv := map[string]bool{}
	for _, fn := range c.ModFuncs("lzma", "") {
		for _, b := range theCtx.GB(fn) {
			for _, ins := range b.Instrs {
				if mi, ok := ins.(*ssa.MakeInterface); ok && types.Identical(mi.Type(), opT) {
					conv[mi.X.Type().String()] = true
				}
			}
		}
	}
	cases := map[string]bool{}
	for _, b := range theCtx.GB(s.fn) {
		for _, ins := range b.Instrs {
			if ta, ok := ins.(*ssa.TypeAssert); ok && ta.CommaOk {
				cases[ta.AssertedType.String()] = true
			}
		}
	}
	for t := range conv {
		if !cases[t] {
			return false, "values of type " + t + " are converted to lzma.operation but the type switch in " + FnName(s.fn) + " has no case for it"
		}
	}
	return len(conv) > 0, "no conversion to lzma.operation found"
}

var pnCEInitMemo = map[*Ctx][2]interface{}{}

func pnCEInit(c *Ctx) (bool, string) {
	if m, ok := pnCEInitMemo[c]; ok {
		return m[0].(bool), m[1].(string)
	}
	res, detail := true, ""
	for _, tn := range []string{"lengthCodec", "distCodec"} {
		fn := c.Func("lzma", tn+".init")
		t := c.Type("lzma", tn)
		if fn == nil || t == nil {
			res, detail = false, tn+".init not found"
			break
		}
		in := NewInterp(c)
		in.MaxSteps = 2000000
		cl := in.newCellOf(t)
		out := in.Call(fn, []aval{{k: kPtr, cell: cl}})
		if !out.OK {
			res, detail = false, tn+".init cannot be evaluated: "+in.Undecided
			break
		}
		if out.Panicked {
			res, detail = false, tn+".init panics (makeProbTree called with bits outside 1..32)"
			break
		}
	}
	pnCEInitMemo[c] = [2]interface{}{res, detail}
	return res, detail
}

func pnCEHeaderLen(c *Ctx) (bool, string) {
	hl := c.Func("lzma", "headerLen")
	vals, ctT, ok := chunkConsts(c)
	if hl == nil || !ok {
		return false, "headerLen / chunk type constants not found"
	}
	for k := 0; k < nKinds; k++ {
		in := NewInterp(c)
		res := in.Call(hl, []aval{aInt(vals[k], ctT)})
		if !res.OK || res.Panicked {
			return false, fmt.Sprintf("headerLen panics or cannot be evaluated for chunk type %s", kindNames[k])
		}
	}
	// every store to Writer2.ctype is a chunk type constant or defaultChunkType's result
	fCtype := c.Field("lzma", "Writer2.ctype")
	dflt := c.Func("lzma", "chunkState.defaultChunkType")
	isKind := map[int64]bool{}
	for _, v := range vals {
		isKind[v] = true
	}
	for _, fn := range c.ModFuncs("lzma") {
		for _, b := range theCtx.GB(fn) {
			for _, ins := range b.Instrs {
				if st, ok := storeToField(ins, fCtype); ok {
					if k, isK := constInt(st.Val); isK && isKind[k] {
						continue
					}
					if call, isC := st.Val.(*ssa.Call); isC && call.Call.StaticCallee() == dflt {
						continue
					}
					return false, "Writer2.ctype is stored with something other than a chunk type constant in " + FnName(fn)
				}
			}
		}
	}
	return true, ""
}

// pnParamRange: with lc in 0..8 and lp in 0..4 no path of literalCodec.init reaches a panic.
func pnParamRange(c *Ctx, s pnSite) (bool, string) {
	fn := s.fn
	if len(fn.Params) != 3 {
		return false, "unexpected signature of " + FnName(fn)
	}
	ranges := map[string][2]int64{"lc": {0, 8}, "lp": {0, 4}}
	reached := false
	w := &Walker{C: c, Fn: fn}
	first := true
	w.Instr = func(p *PState, ins ssa.Instruction) bool {
		if first {
			first = false
			for _, pr := range fn.Params {
				if rg, ok := ranges[pr.Name()]; ok {
					f := p.facts[pr]
					f.hasLo, f.hasHi, f.lo, f.hi = true, true, rg[0], rg[1]
					p.facts[pr] = f
				}
			}
		}
		return true
	}
	w.Exit = func(p *PState, ins ssa.Instruction) {
		if ins == s.ins {
			reached = true
		}
	}
	w.Sig = func(p *PState) string { return "" }
	w.Run(nil)
	if w.Overflow {
		return false, "path budget exceeded"
	}
	if reached {
		return false, "the panic is reachable with lc in 0..8 and lp in 0..4"
	}
	// the gates: PropertiesForCode and Properties.verify only let lc 0..8 / lp 0..4 through
	verify := c.Func("lzma", "Properties.verify")
	prT := c.Type("lzma", "Properties")
	if verify == nil || prT == nil {
		return false, "Properties.verify not found"
	}
	lcI, lpI, pbI := fieldIndex(prT, "LC"), fieldIndex(prT, "LP"), fieldIndex(prT, "PB")
	it := types.Typ[types.Int]
	for lc := int64(-1); lc <= 10; lc++ {
		for lp := int64(-1); lp <= 6; lp++ {
			in := NewInterp(c)
			cl := in.newCellOf(prT)
			in.storeCell(cl, aval{k: kStruct, typ: prT, flds: map[int]aval{lcI: aInt(lc, it), lpI: aInt(lp, it), pbI: aInt(2, it)}}, prT)
			res := in.Call(verify, []aval{{k: kPtr, cell: cl}})
			if !res.OK || len(res.Rets) != 1 {
				return false, "Properties.verify cannot be evaluated: " + in.Undecided
			}
			inRange := lc >= 0 && lc <= 8 && lp >= 0 && lp <= 4
			if isNilErr(res.Rets[0]) && !inRange {
				return false, fmt.Sprintf("Properties.verify accepts lc=%d lp=%d", lc, lp)
			}
		}
	}
	return true, ""
}

// pnAssert: x.(I) without comma-ok where every value that can flow into x implements I.
func pnAssert(c *Ctx, s pnSite) (bool, string) {
	ta := s.ins.(*ssa.TypeAssert)
	iface, ok := ta.AssertedType.Underlying().(*types.Interface)
	if !ok {
		return false, "asserted type is not an interface"
	}
	impl := func(t types.Type) bool { return types.Implements(t, iface) }
	var check func(v ssa.Value, depth int) (bool, string)
	check = func(v ssa.Value, depth int) (bool, string) {
		if depth > 6 {
			return false, "value flow too deep"
		}
		switch x := v.(type) {
		case *ssa.MakeInterface:
			if impl(x.X.Type()) {
				return true, ""
			}
			return false, x.X.Type().String() + " does not implement " + ta.AssertedType.String()
		case *ssa.Extract:
			if t, ok := x.Tuple.(*ssa.TypeAssert); ok && t.CommaOk && x.Index == 0 {
				// same dynamic value as t.X: fine if t.X's static type implements I
				if impl(t.X.Type()) {
					return true, ""
				}
				return check(t.X, depth+1)
			}
			// one result of a multi-result helper
			if tcall, isCall := x.Tuple.(*ssa.Call); isCall {
				callee := tcall.Call.StaticCallee()
				if callee != nil && c.InModule(callee) && callee.Blocks != nil {
					for _, b := range callee.Blocks {
						if ret, ok := b.Instrs[len(b.Instrs)-1].(*ssa.Return); ok && x.Index < len(ret.Results) {
							if ok, why := check(ret.Results[x.Index], depth+1); !ok {
								return false, why
							}
						}
					}
					return true, ""
				}
			}
		case *ssa.TypeAssert:
			if impl(x.X.Type()) {
				return true, ""
			}
			return check(x.X, depth+1)
		case *ssa.Phi:
			for _, e := range x.Edges {
				if ok, why := check(e, depth+1); !ok {
					return false, why
				}
			}
			return true, ""
		case *ssa.ChangeInterface:
			if impl(x.X.Type()) {
				return true, ""
			}
			return check(x.X, depth+1)
		case *ssa.Parameter:
			if impl(x.Type()) {
				return true, ""
			}
		case *ssa.Call:
			callee := x.Call.StaticCallee()
			if callee != nil && c.InModule(callee) && callee.Blocks != nil {
				for _, b := range theCtx.GB(callee) {
					for _, ins := range b.Instrs {
						if ret, ok := ins.(*ssa.Return); ok {
							if ok, why := check(ret.Results[0], depth+1); !ok {
								return false, why
							}
						}
					}
				}
				return true, ""
			}
		case *ssa.UnOp:
			if fa, ok := x.X.(*ssa.FieldAddr); ok && x.Op == token.MUL {
				f := fieldOfAddr(fa)
				n := 0
				for _, fn := range c.modFuncs {
					for _, b := range theCtx.GB(fn) {
						for _, ins := range b.Instrs {
							if st, ok := storeToField(ins, f); ok {
								n++
								if ok, why := check(st.Val, depth+1); !ok {
									return false, "store in " + FnName(fn) + ": " + why
								}
							}
						}
					}
				}
				return n > 0, "no store to the field found"
			}
		}
		if impl(v.Type()) {
			return true, ""
		}
		return false, fmt.Sprintf("cannot show that %s implements %s", v.Type(), ta.AssertedType)
	}
	return check(ta.X, 0)
}

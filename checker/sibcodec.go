package main

// SIB-CODEC — encoder / decoder agreement of the bit-level codecs (TERM engine with the
// loops unrolled: their trip counts are decided by interval reasoning on the terms, or
// by a concrete geometry put into the symbolic store).
//
// For each pair Encode / Decode the rule extracts every successful path as a sequence of
// coded bits (probability-array index term, bit term) or sub-codec calls (receiver path,
// value / result), renames the decoder's j-th result to the value the encoder codes at
// position j, and requires (1) the same set of paths: same receivers / index terms, same
// path conditions; (2) that the decoder's returned value, evaluated in a symbolic
// bit-vector domain after that renaming, is the encoder's input (all inputs at once);
// (3) for the distance codec, whose slot arithmetic is not bit-sliced, the format's
// formulas as normal-form templates on both sides.
//
// Necessary: encoder and decoder that disagree on one index, one exit condition or one
// offset decode a different value / lose synchronisation for the inputs that reach it.

import (
	"fmt"
	"sort"
	"strconv"
	"strings"

	"golang.org/x/tools/go/ssa"
)

type codedEv struct {
	recv  string // receiver / probability address term
	val   string // encoder: coded value term; decoder: result term "(ext0 <res>)"
	extra []string
	name  string
}

type codecPath struct {
	evs   []codedEv
	conds []string
	ret   string
}

func isBitCallee(cal *ssa.Function) bool {
	n := cal.Name()
	return n == "Decode" && strings.Contains(FnName(cal), "prob)") || n == "DecodeBit" || n == "DirectDecodeBit"
}

// extractCodecPaths: successful paths of an Encode (encoder=true) or Decode function.
func extractCodecPaths(c *Ctx, fn *ssa.Function, encoder bool, initMem map[string]string, initSym map[ssa.Value]string) ([]codecPath, bool) {
	paths, over := collectTermPaths(c, termSpec{Fn: fn, MaxVisit: 40, InitMem: initMem, InitSym: initSym,
		BitCallee: isBitCallee,
		KeepMem:   func(string) bool { return true }})
	var out []codecPath
	for _, tp := range paths {
		cp := codecPath{}
		for _, ev := range tp.Events {
			if ev.Callee == nil {
				continue
			}
			n := ev.Callee.Name()
			ce := codedEv{name: shortFn(ev.Callee)}
			switch {
			case encoder && (n == "Encode" || n == "EncodeBit" || n == "DirectEncodeBit"):
				// receiver first; the range encoder argument is dropped; the value is the remaining integer argument
				var rest []string
				for i, a := range ev.Args {
					if i == 0 && n != "EncodeBit" && n != "DirectEncodeBit" {
						ce.recv = a
						continue
					}
					if strings.HasPrefix(a, "&") || strings.HasPrefix(a, "@") && strings.HasSuffix(a, ".re") {
						if n == "EncodeBit" && i == 2 {
							ce.recv = a
						}
						continue
					}
					rest = append(rest, a)
				}
				if len(rest) > 0 {
					ce.val = rest[0]
					ce.extra = rest[1:]
				}
			case !encoder && (n == "Decode" || n == "DecodeBit" || n == "DirectDecodeBit"):
				for i, a := range ev.Args {
					if i == 0 && n == "Decode" {
						ce.recv = a
						continue
					}
					if n == "DecodeBit" && i == 1 {
						ce.recv = a
						continue
					}
					if strings.HasPrefix(a, "&") || strings.HasPrefix(a, "@") && strings.HasSuffix(a, ".rd") {
						continue
					}
					ce.extra = append(ce.extra, a)
				}
				ce.val = "(ext0 " + ev.Result + ")"
			default:
				continue
			}
			cp.evs = append(cp.evs, ce)
		}
		for _, cd := range tp.Conds {
			if strings.Contains(cd, "nil") {
				continue // error plumbing
			}
			cp.conds = append(cp.conds, cd)
		}
		if len(tp.Rets) > 0 {
			cp.ret = tp.Rets[0]
		}
		out = append(out, cp)
	}
	return out, over
}

// canonical signature of a path: values / results replaced by position placeholders V1, V2, …
func (cp codecPath) signature(recvCanon func(string) string) (string, map[string]string) {
	sigma := map[string]string{}
	for i, ev := range cp.evs {
		if ev.val != "" {
			if _, dup := sigma[ev.val]; !dup {
				sigma[ev.val] = "V" + strconv.Itoa(i+1)
			}
		}
	}
	var parts []string
	for _, ev := range cp.evs {
		x := substTerm(recvCanon(ev.recv), sigma)
		for _, a := range ev.extra {
			x += " " + substTerm(a, sigma)
		}
		parts = append(parts, x)
	}
	var cs []string
	for _, cd := range cp.conds {
		cs = append(cs, substTerm(cd, sigma))
	}
	sort.Strings(cs)
	cs = uniqStrings(cs)
	return strings.Join(parts, " ; ") + " | " + strings.Join(cs, " & "), sigma
}

func uniqStrings(a []string) []string {
	var out []string
	for i, s := range a {
		if i == 0 || s != a[i-1] {
			out = append(out, s)
		}
	}
	return out
}

// ---- symbolic bit vectors ----

type sbit struct {
	k   int8 // 0 const0, 1 const1, 2 variable bit, 3 unknown
	v   string
	pos int
}

type sbv [40]sbit

func bvConst(x int64) sbv {
	var r sbv
	for i := range r {
		if x>>uint(i)&1 == 1 {
			r[i] = sbit{k: 1}
		}
	}
	return r
}

func bvVar(name string, width int) sbv {
	var r sbv
	for i := 0; i < width && i < len(r); i++ {
		r[i] = sbit{k: 2, v: name, pos: i}
	}
	return r
}

func bvUnknown() sbv {
	var r sbv
	for i := range r {
		r[i] = sbit{k: 3}
	}
	return r
}

// bvEval evaluates a term over or / and / shl / shr by constants / addition of a negative
// power of two; vars gives the width of the input variables ("$v" -> 32).
func bvEval(t string, vars map[string]int) sbv {
	if k, err := strconv.ParseInt(t, 10, 64); err == nil {
		if k >= 0 {
			return bvConst(k)
		}
		return bvUnknown()
	}
	if w, ok := vars[t]; ok {
		return bvVar(t, w)
	}
	if !strings.HasPrefix(t, "(") {
		return bvUnknown()
	}
	sp := strings.IndexByte(t, ' ')
	if sp < 0 {
		return bvUnknown()
	}
	op := t[1:sp]
	args := splitTerm(t[sp+1 : len(t)-1])
	switch op {
	case "u8", "u16":
		x := bvEval(args[0], vars)
		w := 8
		if op == "u16" {
			w = 16
		}
		for i := w; i < len(x); i++ {
			x[i] = sbit{}
		}
		return x
	case "shl", "shr":
		if len(args) != 2 {
			return bvUnknown()
		}
		k, err := strconv.Atoi(args[1])
		if err != nil || k < 0 || k >= 40 {
			return bvUnknown()
		}
		x := bvEval(args[0], vars)
		var r sbv
		for i := range r {
			j := i - k
			if op == "shr" {
				j = i + k
			}
			if j >= 0 && j < len(x) {
				r[i] = x[j]
			}
		}
		if op == "shl" {
			// 32-bit values: bits shifted beyond bit 31 are lost
			for i := 32; i < len(r); i++ {
				r[i] = sbit{}
			}
		}
		return r
	case "and", "or":
		r := bvEval(args[0], vars)
		for _, a := range args[1:] {
			y := bvEval(a, vars)
			for i := range r {
				r[i] = combineBit(op, r[i], y[i])
			}
		}
		return r
	case "+":
		// X + (-2^n) with bit n of X known to be 1, or sums of disjoint values
		var neg int64
		var pos []sbv
		for _, a := range args {
			if k, err := strconv.ParseInt(a, 10, 64); err == nil && k < 0 {
				neg += -k
				continue
			}
			pos = append(pos, bvEval(a, vars))
		}
		r := bvConst(0)
		for _, y := range pos {
			for i := range r {
				switch {
				case r[i].k == 0:
					r[i] = y[i]
				case y[i].k == 0:
				default:
					return bvUnknown() // overlapping addends
				}
			}
		}
		if neg != 0 {
			if neg&(neg-1) != 0 {
				return bvUnknown()
			}
			n := 0
			for neg>>uint(n) != 1 {
				n++
			}
			if n >= len(r) || r[n].k != 1 {
				return bvUnknown()
			}
			r[n] = sbit{}
		}
		return r
	}
	return bvUnknown()
}

func combineBit(op string, a, b sbit) sbit {
	if op == "and" {
		switch {
		case a.k == 0 || b.k == 0:
			return sbit{}
		case a.k == 1:
			return b
		case b.k == 1:
			return a
		case a == b:
			return a
		}
		return sbit{k: 3}
	}
	switch {
	case a.k == 1 || b.k == 1:
		return sbit{k: 1}
	case a.k == 0:
		return b
	case b.k == 0:
		return a
	case a == b:
		return a
	}
	return sbit{k: 3}
}

// bvIsVar: x is exactly the low `width` bits of variable name (higher bits zero).
func bvIsVar(x sbv, name string, width int) bool {
	for i := range x {
		if i < width {
			if x[i].k != 2 || x[i].v != name || x[i].pos != i {
				return false
			}
		} else if x[i].k != 0 {
			return false
		}
	}
	return true
}

// ---- the rule ----

type codecPair struct {
	key      string
	enc, dec *ssa.Function
	valParam string // encoder's input value parameter
	width    int    // number of significant bits of the value (0 = not bit-sliced, skip identity)
	initEnc  map[string]string
	initDec  map[string]string
	symEnc   map[ssa.Value]string
	symDec   map[ssa.Value]string
	offset   int64 // decoder result = value (after offsetting handled in terms)
}

func compareCodecPair(c *Ctx, r *Report, rule string, cp codecPair) {
	pos := c.Pos(cp.enc.Pos())
	encP, o1 := extractCodecPaths(c, cp.enc, true, cp.initEnc, cp.symEnc)
	decP, o2 := extractCodecPaths(c, cp.dec, false, cp.initDec, cp.symDec)
	if o1 || o2 || len(encP) == 0 || len(decP) == 0 {
		r.Undecided(rule, cp.key, pos, fmt.Sprintf("cannot enumerate the paths of %s / %s (encoder %d, decoder %d paths, overflow %v)", FnName(cp.enc), FnName(cp.dec), len(encP), len(decP), o1 || o2))
		return
	}
	er, dr := cp.enc.Params[0].Name(), cp.dec.Params[0].Name()
	canon := func(recvName string) func(string) string {
		return func(t string) string {
			t = strings.ReplaceAll(t, "&"+recvName+".", "&C.")
			t = strings.ReplaceAll(t, "@"+recvName+".", "@C.")
			t = strings.ReplaceAll(t, "&"+recvName+"[", "&C[")
			if t == "&"+recvName {
				t = "&C"
			}
			return t
		}
	}
	encSig := map[string]codecPath{}
	for _, p := range encP {
		s, _ := p.signature(canon(er))
		encSig[s] = p
	}
	decSig := map[string]codecPath{}
	decSigma := map[string]map[string]string{}
	for _, p := range decP {
		s, sg := p.signature(canon(dr))
		decSig[s] = p
		decSigma[s] = sg
	}
	var missing, extra []string
	for s := range decSig {
		if _, ok := encSig[s]; !ok {
			extra = append(extra, s)
		}
	}
	for s := range encSig {
		if _, ok := decSig[s]; !ok {
			missing = append(missing, s)
		}
	}
	sort.Strings(missing)
	sort.Strings(extra)
	if len(missing) > 0 || len(extra) > 0 {
		msg := fmt.Sprintf("%s and %s do not code the same bit sequences: %d encoder path(s) have no decoder counterpart, %d decoder path(s) no encoder counterpart", FnName(cp.enc), FnName(cp.dec), len(missing), len(extra))
		if len(missing) > 0 {
			msg += "; encoder only: " + clip(missing[0], 260)
		}
		if len(extra) > 0 {
			msg += "; decoder only: " + clip(extra[0], 260)
		}
		r.Fail(rule, cp.key, pos, msg)
		return
	}
	// decoded value = encoded value
	if cp.width > 0 {
		for s, dp := range decSig {
			ep := encSig[s]
			// decoder result names -> encoder value terms
			sg := map[string]string{}
			for i, ev := range dp.evs {
				if i < len(ep.evs) {
					v := ep.evs[i].val
					if strings.Contains(ep.evs[i].name, "DirectEncodeBit") {
						v = normTerm("(and " + v + " 1)") // the direct coder codes the low bit of its argument
					}
					sg[ev.val] = v
				}
			}
			got := substTerm(dp.ret, sg)
			bv := bvEval(got, map[string]int{cp.valParam: 32})
			if !bvIsVar(bv, cp.valParam, cp.width) {
				r.Fail(rule, cp.key, pos, fmt.Sprintf("%s does not return the value %s codes: with the decoded bits replaced by the coded ones the result is %s, which is not the low %d bits of %s", FnName(cp.dec), FnName(cp.enc), clip(got, 300), cp.width, cp.valParam))
				return
			}
		}
	}
	r.Pass(rule, cp.key, pos, fmt.Sprintf("%d paths: same probability indices / sub-codecs and exit conditions on both sides; decoded value = coded value", len(decSig)), len(decSig)*4)
}

func clip(s string, n int) string {
	if len(s) > n {
		return s[:n] + "…"
	}
	return s
}

func ruleCodecSiblings(c *Ctx, r *Report, prefix string) {
	rule := prefix + "SIB-CODEC"
	// literal codec: 9 + 1 paths, value = the byte s (8 bits)
	if e, d := c.Func("lzma", "literalCodec.Encode"), c.Func("lzma", "literalCodec.Decode"); e != nil && d != nil {
		compareCodecPair(c, r, rule, codecPair{key: "literalCodec", enc: e, dec: d, valParam: "$s", width: 8})
	}
	// tree codecs for every width used by the format (1..8 bits)
	for _, tc := range []struct{ typ, bitsPath string }{{"treeCodec", "probTree.bits"}, {"treeReverseCodec", "probTree.bits"}} {
		e, d := c.Func("lzma", tc.typ+".Encode"), c.Func("lzma", tc.typ+".Decode")
		if e == nil || d == nil {
			continue
		}
		for bits := 1; bits <= 8; bits++ {
			ie := map[string]string{e.Params[0].Name() + "." + tc.bitsPath: strconv.Itoa(bits)}
			id := map[string]string{d.Params[0].Name() + "." + tc.bitsPath: strconv.Itoa(bits)}
			compareCodecPair(c, r, rule, codecPair{key: fmt.Sprintf("%s/bits=%d", tc.typ, bits), enc: e, dec: d, valParam: "$v", width: bits, initEnc: ie, initDec: id})
		}
	}
	if e, d := c.Func("lzma", "directCodec.Encode"), c.Func("lzma", "directCodec.Decode"); e != nil && d != nil {
		for _, bits := range []int{1, 2, 5, 13, 26} {
			se := map[ssa.Value]string{e.Params[0]: strconv.Itoa(bits)}
			sd := map[ssa.Value]string{d.Params[0]: strconv.Itoa(bits)}
			compareCodecPair(c, r, rule, codecPair{key: fmt.Sprintf("directCodec/bits=%d", bits), enc: e, dec: d, valParam: "$v", width: bits, symEnc: se, symDec: sd})
		}
	}
	// length codec: three ranges with offsets 0 / 8 / 16
	if e, d := c.Func("lzma", "lengthCodec.Encode"), c.Func("lzma", "lengthCodec.Decode"); e != nil && d != nil {
		ruleLengthSiblings(c, r, rule, e, d)
	}
	if e, d := c.Func("lzma", "distCodec.Encode"), c.Func("lzma", "distCodec.Decode"); e != nil && d != nil {
		ruleDistSiblings(c, r, rule, e, d)
	}
}

// lengthCodec: pair paths by the sub-codec reached; the decoder adds back what the encoder
// subtracted; the encoder's range conditions are the format's (l < 8, l < 16).
func ruleLengthSiblings(c *Ctx, r *Report, rule string, enc, dec *ssa.Function) {
	pos := c.Pos(enc.Pos())
	encP, o1 := extractCodecPaths(c, enc, true, nil, nil)
	decP, o2 := extractCodecPaths(c, dec, false, nil, nil)
	if o1 || o2 {
		r.Undecided(rule, "lengthCodec", pos, "path budget exceeded")
		return
	}
	er, dr := enc.Params[0].Name(), dec.Params[0].Name()
	seq := func(p codecPath, recv string) string {
		var s []string
		for _, ev := range p.evs {
			x := strings.ReplaceAll(ev.recv, "&"+recv+".", "&C.")
			if isBitName(ev.name) && ev.val != "" && !strings.HasPrefix(ev.val, "(ext0") {
				x += "=" + ev.val
			}
			s = append(s, x)
		}
		return strings.Join(s, " ; ")
	}
	// decoder: bit values from its conditions
	decKey := func(p codecPath) string {
		var s []string
		for _, ev := range p.evs {
			x := strings.ReplaceAll(ev.recv, "&"+dr+".", "&C.")
			if isBitName(ev.name) {
				b := "?"
				for _, cd := range p.conds {
					if cd == "(eq "+ev.val+" 0)" || cd == "(eq 0 "+ev.val+")" {
						b = "0"
					}
					if cd == "(ne "+ev.val+" 0)" || cd == "(ne 0 "+ev.val+")" {
						b = "1"
					}
				}
				x += "=" + b
			}
			s = append(s, x)
		}
		return strings.Join(s, " ; ")
	}
	decBy := map[string]codecPath{}
	for _, p := range decP {
		decBy[decKey(p)] = p
	}
	n := 0
	want := map[string][2]string{ // sub-codec -> range of l, offset
		"&C.low[$posState]": {"[0,7]", "0"},
		"&C.mid[$posState]": {"[8,15]", "8"},
		"&C.high":           {"[16,inf]", "16"},
	}
	seen := map[string]bool{}
	for _, ep := range encP {
		if len(ep.evs) == 0 {
			continue // the out-of-range error path has no events (filtered as error) or none at all
		}
		k := seq(ep, er)
		dp, ok := decBy[k]
		if !ok {
			r.Fail(rule, "lengthCodec", pos, "lengthCodec.Encode codes the sequence "+k+" which no path of lengthCodec.Decode consumes")
			return
		}
		last := ep.evs[len(ep.evs)-1]
		sub := strings.ReplaceAll(last.recv, "&"+er+".", "&C.")
		w, known := want[sub]
		if !known {
			r.Fail(rule, "lengthCodec", pos, "lengthCodec.Encode ends in the unexpected sub-codec "+sub)
			return
		}
		seen[sub] = true
		// conditions of the encoder on l (without the range check l <= 271)
		var cs []string
		for _, cd := range ep.conds {
			if strings.Contains(cd, "271") {
				continue
			}
			cs = append(cs, cd)
		}
		if got := boundsOf(cs, "$l"); got != w[0] {
			r.Fail(rule, "lengthCodec", pos, "lengthCodec.Encode reaches "+sub+" for l in "+got+" (conditions "+strings.Join(cs, " & ")+"); the format requires "+w[0])
			return
		}
		// decoder result with its last result replaced by the encoder's value = $l
		dl := dp.evs[len(dp.evs)-1]
		got := substTerm(dp.ret, map[string]string{dl.val: last.val})
		if got != "$l" {
			r.Fail(rule, "lengthCodec", pos, "for "+sub+" the encoder codes "+last.val+" and the decoder returns "+dp.ret+": together "+got+", not $l (offset "+w[1]+")")
			return
		}
		// posState contexts already part of the receiver terms
		n++
	}
	if len(seen) != 3 || len(decP) != 3 {
		r.Fail(rule, "lengthCodec", pos, fmt.Sprintf("the length codec must have the three ranges low/mid/high on both sides (encoder reaches %d, decoder has %d paths)", len(seen), len(decP)))
		return
	}
	r.Pass(rule, "lengthCodec", pos, "three ranges (l<8, l<16, else) with offsets 0/8/16 and the same choice bits and posState contexts on both sides", 9)
}

func isBitName(n string) bool { return strings.HasPrefix(n, "prob.") }

// distCodec: same sequence of sub-codecs with mirrored arguments, and the format's slot
// formulas as normal forms.
func ruleDistSiblings(c *Ctx, r *Report, rule string, enc, dec *ssa.Function) {
	pos := c.Pos(enc.Pos())
	encP, o1 := extractCodecPaths(c, enc, true, nil, nil)
	decP, o2 := extractCodecPaths(c, dec, false, nil, nil)
	if o1 || o2 || len(decP) == 0 {
		r.Undecided(rule, "distCodec", pos, "path budget exceeded")
		return
	}
	er, dr := enc.Params[0].Name(), dec.Params[0].Name()
	shape := func(p codecPath, recv string, sigma map[string]string) string {
		var s []string
		for _, ev := range p.evs {
			x := substTerm(strings.ReplaceAll(ev.recv, "&"+recv+".", "&C."), sigma)
			s = append(s, ev.name[:strings.Index(ev.name, ".")]+":"+x)
		}
		return strings.Join(s, " ; ")
	}
	bitsT := normTerm("(+ (neg (call nlz32 $dist)) 30)")
	slotT := normTerm("(+ (and (shr $dist " + bitsT + ") 1) (shl " + bitsT + " 1) 2)")
	// encoder side templates
	okEnc, nEnc := true, 0
	var why string
	for _, ep := range encP {
		if len(ep.evs) == 0 {
			continue
		}
		nEnc++
		first := ep.evs[0]
		if !slotCodecOK(strings.ReplaceAll(first.recv, "&"+er+".", "&C."), ep.conds) {
			okEnc, why = false, "the position slot is not coded with posSlotCodecs[min(l, 3)] but "+first.recv
		}
		switch len(ep.evs) {
		case 1:
			if first.val != "$dist" && normTerm(first.val) != slotT {
				okEnc, why = false, "a distance below 4 must be its own slot, and a slot below 4 can only be the distance; coded "+first.val
			}
		case 2:
			if normTerm(first.val) != slotT {
				okEnc, why = false, "position slot is "+first.val+"; the format requires 2*bits+2+((dist>>bits)&1) with bits = 30-nlz32(dist)"
			}
			if want := "&" + er + ".posModel[" + normTerm("(+ "+slotT+" -4)") + "]"; normIdx(ep.evs[1].recv) != want || ep.evs[1].val != "$dist" {
				okEnc, why = false, "slots 4..13 must code dist with posModel[posSlot-4]; found "+ep.evs[1].recv+" value "+ep.evs[1].val
			}
		case 3:
			if normTerm(first.val) != slotT {
				okEnc, why = false, "position slot is "+first.val
			}
			if ep.evs[1].val != "(shr $dist 4)" || ep.evs[1].recv != "" && ep.evs[1].recv != "(u8 "+normTerm("(+ "+bitsT+" -4)")+")" {
				okEnc, why = false, "slots >= 14 must code dist>>4 with bits-4 direct bits; found "+ep.evs[1].recv+" value "+ep.evs[1].val
			}
			if ep.evs[2].recv != "&"+er+".alignCodec" || ep.evs[2].val != "$dist" {
				okEnc, why = false, "slots >= 14 must code the low 4 bits with alignCodec; found "+ep.evs[2].recv+" value "+ep.evs[2].val
			}
		default:
			okEnc, why = false, "unexpected number of sub-codec calls"
		}
	}
	// decoder side templates
	okDec, nDec := true, 0
	for _, dp := range decP {
		if len(dp.evs) == 0 {
			continue
		}
		nDec++
		slot := dp.evs[0].val
		if !slotCodecOK(strings.ReplaceAll(dp.evs[0].recv, "&"+dr+".", "&C."), dp.conds) {
			okDec, why = false, "the decoder reads the position slot with "+dp.evs[0].recv
		}
		base := "(shl (or (and " + slot + " 1) 2) " + normTerm("(+ (shr "+slot+" 1) -1)") + ")"
		switch len(dp.evs) {
		case 1:
			if dp.ret != slot {
				okDec, why = false, "for slots below 4 the distance is the slot; the decoder returns "+dp.ret
			}
		case 2:
			if want := "&" + dr + ".posModel[" + normTerm("(+ "+slot+" -4)") + "]"; normIdx(dp.evs[1].recv) != want {
				okDec, why = false, "slots 4..13 must use posModel[posSlot-4]; found "+dp.evs[1].recv
			}
			if want := normTerm("(+ " + base + " " + dp.evs[1].val + ")"); normTerm(dp.ret) != want {
				okDec, why = false, "decoded distance is "+dp.ret+"; the format requires ((2|(slot&1)) << ((slot>>1)-1)) + reverse bits"
			}
		case 3:
			if want := normTerm("(+ " + base + " (shl " + dp.evs[1].val + " 4) " + dp.evs[2].val + ")"); normTerm(dp.ret) != want {
				okDec, why = false, "decoded distance is "+dp.ret+"; the format requires base + (direct bits << 4) + align bits"
			}
			if want := "(u8 " + normTerm("(+ (shr "+slot+" 1) -5)") + ")"; dp.evs[1].recv != "" && dp.evs[1].recv != want {
				okDec, why = false, "the number of direct bits must be (slot>>1)-1-4; found "+dp.evs[1].recv
			}
			if dp.evs[2].recv != "&"+dr+".alignCodec" {
				okDec, why = false, "the low 4 bits must come from alignCodec; found "+dp.evs[2].recv
			}
		default:
			okDec, why = false, "unexpected number of sub-codec calls in the decoder"
		}
		// path conditions: slot < 4 | slot < 14 | else
		wantC := map[int]string{1: "[0,3]", 2: "[4,13]", 3: "[14,inf]"}[len(dp.evs)]
		var slotConds []string
		for _, cd := range dp.conds {
			if strings.Contains(cd, slot) {
				slotConds = append(slotConds, cd)
			}
		}
		if got := boundsOf(slotConds, slot); got != wantC {
			okDec, why = false, "the decoder takes this branch for slots in "+got+" ("+strings.Join(dp.conds, " & ")+"); the format requires "+wantC
		}
	}
	// same shapes on both sides
	es, ds := map[string]bool{}, map[string]bool{}
	for _, ep := range encP {
		if len(ep.evs) > 0 {
			es[itoa(len(ep.evs))] = true
		}
	}
	for _, dp := range decP {
		if len(dp.evs) > 0 {
			ds[itoa(len(dp.evs))] = true
		}
	}
	_ = shape
	r.Check(okEnc && okDec && nEnc >= 3 && nDec >= 3 && len(es) == 3 && len(ds) == 3, rule, "distCodec", pos,
		"position slot, reverse-bit models, direct bits and align bits follow the format's formulas on both sides ("+itoa(nEnc)+" encoder, "+itoa(nDec)+" decoder paths)",
		"distCodec: "+why)
}

// boundsOf reads a conjunction of simple bounds on one variable as an interval.
func boundsOf(conds []string, v string) string {
	lo, hi := int64(0), int64(-1)
	for _, cd := range conds {
		if len(cd) < 5 {
			return "?"
		}
		op := cd[1:strings.IndexByte(cd, ' ')]
		as := splitTerm(cd[strings.IndexByte(cd, ' ')+1 : len(cd)-1])
		if len(as) != 2 {
			return "?"
		}
		k0, e0 := strconv.ParseInt(as[0], 10, 64)
		k1, e1 := strconv.ParseInt(as[1], 10, 64)
		switch {
		case op == "lt" && as[0] == v && e1 == nil: // v < k
			if hi < 0 || k1-1 < hi {
				hi = k1 - 1
			}
		case op == "le" && as[0] == v && e1 == nil: // v <= k
			if hi < 0 || k1 < hi {
				hi = k1
			}
		case op == "lt" && as[1] == v && e0 == nil: // k < v
			if k0+1 > lo {
				lo = k0 + 1
			}
		case op == "le" && as[1] == v && e0 == nil: // k <= v
			if k0 > lo {
				lo = k0
			}
		default:
			return "?"
		}
	}
	if hi < 0 {
		return "[" + strconv.FormatInt(lo, 10) + ",inf]"
	}
	return "[" + strconv.FormatInt(lo, 10) + "," + strconv.FormatInt(hi, 10) + "]"
}

// normIdx re-normalises the index term inside an address term `&recv.field[idx]`.
func normIdx(t string) string {
	i := strings.IndexByte(t, '[')
	if i < 0 || !strings.HasSuffix(t, "]") {
		return t
	}
	return t[:i+1] + normTerm(t[i+1:len(t)-1]) + "]"
}

// slotCodecOK: the position-slot codec is selected by min(l, 3): through lenState(l), or
// with the clamp inlined (index $l under l < 4, index 3 under l >= 4).
func slotCodecOK(recv string, conds []string) bool {
	switch recv {
	case "&C.posSlotCodecs[(call lenState $l)]":
		return true
	case "&C.posSlotCodecs[$l]":
		return boundsOf(condsAbout(conds, "$l"), "$l") == "[0,3]"
	case "&C.posSlotCodecs[3]":
		return boundsOf(condsAbout(conds, "$l"), "$l") == "[4,inf]"
	}
	return false
}

func condsAbout(conds []string, v string) []string {
	var out []string
	for _, cd := range conds {
		as := splitTerm(cd[strings.IndexByte(cd, ' ')+1 : len(cd)-1])
		if len(as) == 2 && (as[0] == v || as[1] == v) {
			out = append(out, cd)
		}
	}
	return out
}

package main

import (
	"fmt"
	"go/types"
	"golang.org/x/tools/go/ssa"
	"os"
	"time"
)

func init() {
	debugCmds["ef"] = func(c *Ctx) {
		t := time.Now()
		e := GetEF(c)
		fmt.Println("EF passes", e.Passes, "final paths", e.PathsFinal, "functions", len(e.fns), "time", time.Since(t))
		for f := range e.closed {
			fmt.Println("closed field:", f)
		}
		for _, n := range e.overflow {
			fmt.Println("overflow:", n)
		}
		var nf []string
		for _, fn := range e.fns {
			if !e.mayFail[fn] && len(errResultIdx(fn.Signature)) > 0 {
				nf = append(nf, FnName(fn))
			}
		}
		fmt.Println("never-fail:", nf)
		for _, f := range e.Findings(nil) {
			fmt.Printf("%-18s %-70s %s\n      %s\n", f.Kind, f.Key, f.Pos, f.Msg)
		}
		for _, api := range readerAPI(c) {
			if r := e.APIRawEOF(api); len(r) > 0 {
				fmt.Println("API raw EOF:", FnName(api), r)
			}
		}
		rd, wr := e.Origins(nil)
		fmt.Println("read origins", len(rd), "write origins", len(wr))
		for _, k := range rd {
			fmt.Println("  R", k)
		}
		for _, k := range wr {
			fmt.Println("  W", k)
		}
	}
}

var debugCmds = map[string]func(c *Ctx){}

func runDebug(name string) int {
	f := debugCmds[name]
	if f == nil {
		fmt.Fprintln(os.Stderr, "no such debug command")
		return 2
	}
	c, err := Load(repoDir(), "")
	if err != nil {
		fmt.Println(err)
		return 2
	}
	f(c)
	for _, u := range c.unresolved {
		fmt.Println("UNRESOLVED:", u)
	}
	return 0
}

func init() {
	debugCmds["efsum"] = func(c *Ctx) {
		e := GetEF(c)
		for _, fn := range e.fns {
			for i, s := range e.summary[fn] {
				if len(s) == 0 {
					continue
				}
				var ks []string
				for site, inf := range s {
					k := e.originKey[site]
					if inf.raw {
						k += "[raw]"
					}
					ks = append(ks, k)
				}
				fmt.Println(FnName(fn), i, ks)
			}
		}
	}
}

func init() {
	debugCmds["eftrans"] = func(c *Ctx) {
		e := GetEF(c)
		for k, v := range e.translations {
			fmt.Println(k, len(v))
		}
	}
}

func init() {
	debugCmds["panics"] = func(c *Ctx) {
		for name, cone := range map[string]map[*ssa.Function]bool{"reader": readerCone(c), "writer": writerCone(c)} {
			for _, fn := range sortedFuncs(moduleOnly(c, cone)) {
				for _, b := range fn.Blocks {
					for _, ins := range b.Instrs {
						switch x := ins.(type) {
						case *ssa.Panic:
							fmt.Println(name, "PANIC", FnName(fn), c.InstrPos(ins), x.X)
						case *ssa.TypeAssert:
							if !x.CommaOk {
								fmt.Println(name, "ASSERT", FnName(fn), c.InstrPos(ins), x.AssertedType)
							}
						}
					}
				}
			}
		}
	}
}

func init() {
	debugCmds["tm"] = func(c *Ctx) {
		r := NewReport("X", "quick")
		ruleSpecConstants(c, r, "")
		ruleCodecGeometry(c, r, "")
		ruleStateFormulas(c, r, "")
		ruleDecoderReps(c, r, "")
		for _, o := range r.Obs {
			if o.Status != OK {
				fmt.Println(o.Status, o.Rule, o.Key, o.Pos, o.Msg)
			}
		}
		fmt.Println("obligations", len(r.Obs))
	}
}

// debugRules: `xzverify debug rule:<name>` runs one rule function and prints its obligations.
var debugRules = map[string]func(c *Ctx, r *Report){}

func init() {
	debugRules["ring"] = func(c *Ctx, r *Report) { ruleRingModulus(c, r, "", "") }
}

func runDebugRule(name string) int {
	f := debugRules[name]
	if f == nil {
		fmt.Fprintln(os.Stderr, "no such rule")
		return 2
	}
	c, err := Load(repoDir(), "")
	if err != nil {
		fmt.Println(err)
		return 2
	}
	r := NewReport("DEBUG", "quick")
	f(c, r)
	bad := 0
	for _, o := range r.Obs {
		fmt.Printf("%-9s %-14s %-60s %s\n      %s\n", o.Status, o.Rule, o.Key, o.Pos, o.Msg)
		if o.Status != OK {
			bad++
		}
	}
	for _, u := range c.unresolved {
		fmt.Println("UNRESOLVED:", u)
	}
	fmt.Println("obligations", len(r.Obs), "not ok", bad)
	return 0
}

func init() {
	debugRules["copy"] = func(c *Ctx, r *Report) { ruleDeepCopy(c, r, "") }
}

// `xzverify debug terms:<pkg>:<Func>` prints the term paths of one function.
func runDebugTerms(spec string) int {
	c, err := Load(repoDir(), "")
	if err != nil {
		fmt.Println(err)
		return 2
	}
	parts := splitN(spec, ":", 2)
	fn := c.Func(parts[0], parts[1])
	if fn == nil {
		fmt.Println("no such function")
		return 2
	}
	paths, over := collectTermPaths(c, termSpec{Fn: fn, MaxVisit: 12, BitCallee: func(cal *ssa.Function) bool {
		return cal.Name() == "Decode" || cal.Name() == "DecodeBit" || cal.Name() == "DirectDecodeBit"
	}})
	fmt.Println("paths", len(paths), "overflow", over)
	for i, p := range paths {
		fmt.Println("--- path", i)
		for _, cd := range p.Conds {
			fmt.Println("   if", cd)
		}
		for _, ev := range p.Events {
			fmt.Println("   ev", ev.String(), "->", ev.Result)
		}
		for k, v := range p.Mem {
			fmt.Println("   mem", k, "=", v)
		}
		fmt.Println("   ret", p.Rets)
	}
	return 0
}

func splitN(s, sep string, n int) []string {
	var out []string
	for len(out) < n-1 {
		i := -1
		for j := 0; j+len(sep) <= len(s); j++ {
			if s[j:j+len(sep)] == sep {
				i = j
				break
			}
		}
		if i < 0 {
			break
		}
		out = append(out, s[:i])
		s = s[i+len(sep):]
	}
	return append(out, s)
}

func init() {
	debugRules["sibop"] = func(c *Ctx, r *Report) { ruleOpSiblings(c, r, "") }
}

func init() {
	debugCmds["funcs"] = func(c *Ctx) {
		for _, fn := range c.modFuncs {
			fmt.Println(FnName(fn))
		}
	}
}

// `xzverify debug sterm:<pkg>:<Func>` prints the static terms of all stores and returns of a function.
func runDebugSTerm(spec string) int {
	c, err := Load(repoDir(), "")
	if err != nil {
		fmt.Println(err)
		return 2
	}
	parts := splitN(spec, ":", 2)
	fn := c.Func(parts[0], parts[1])
	if fn == nil {
		return 2
	}
	for _, b := range c.GB(fn) {
		for _, ins := range b.Instrs {
			switch x := ins.(type) {
			case *ssa.Store:
				fmt.Println(c.InstrPos(ins), "store", staticTerm(c, x.Addr), "=", staticTerm(c, x.Val))
			case *ssa.Return:
				for _, rv := range x.Results {
					fmt.Println(c.InstrPos(ins), "ret", staticTerm(c, rv))
				}
			case *ssa.If:
				fmt.Println(c.InstrPos(ins), "if", staticTerm(c, x.Cond))
			}
		}
	}
	return 0
}

func init() {
	debugRules["r3"] = func(c *Ctx, r *Report) {
		ruleCounting(c, r, "", "")
		ruleRawEOFFlag(c, r, "")
		ruleDecoderReadErr(c, r, "")
		ruleBudgetFresh(c, r, "")
		ruleHashTableAlloc(c, r, "")
		ruleBlockWriterHash(c, r, "")
		ruleBlockFilters(c, r, "")
	}
}

func init() {
	debugRules["r4"] = func(c *Ctx, r *Report) {
		ruleSizeSign(c, r, "")
		ruleLookahead(c, r, "")
		ruleDeferResult(c, r, "")
		ruleNilOnErr(c, r, "")
		ruleInitClosures(c, r, "")
		ruleDashDash(c, r, "")
	}
}

func init() {
	debugRules["sibcodec"] = func(c *Ctx, r *Report) { ruleCodecSiblings(c, r, "") }
}

func init() {
	debugCmds["edges"] = func(c *Ctx) {
		seen := map[string]bool{}
		for _, fn := range c.modFuncs {
			for _, b := range fn.Blocks {
				for _, ins := range b.Instrs {
					if ci, ok := ins.(ssa.CallInstruction); ok {
						if cal := ci.Common().StaticCallee(); cal != nil && c.InModule(cal) {
							k := FnName(cal) + "\t" + FnName(fn)
							if !seen[k] {
								seen[k] = true
								fmt.Println(k)
							}
						}
					}
				}
			}
		}
	}
}

func init() {
	debugRules["r5"] = func(c *Ctx, r *Report) {
		ruleSpecIndices(c, r, "")
		ruleCtorReopen(c, r, "")
		ruleFlushFailStop(c, r, "")
		ruleDeferFlush(c, r, "", "", "lzma", "cmd/gxz")
		ruleEncoderDictArgs(c, r, "")
		ruleFilterWriterDict(c, r, "")
		rulePeekLen(c, r, "")
		ruleDiscardFeed(c, r, "")
		ruleByteAtGuards(c, r, "")
	}
}

func init() {
	debugRules["r6"] = func(c *Ctx, r *Report) {
		ruleLcLp(c, r, "")
		ruleLitInit(c, r, "")
		ruleNilDecoder(c, r, "")
		ruleReadAdvance(c, r, "")
		ruleBlockReadOnlySize(c, r, "")
		ruleFlushFailStop(c, r, "")
	}
}

func init() {
	debugRules["rc"] = func(c *Ctx, r *Report) { ruleRangeCoder(c, r, "") }
}

func init() {
	debugRules["r7"] = func(c *Ctx, r *Report) {
		ruleValidDictCap(c, r, "")
		ruleSameSource(c, r, "")
		ruleLoopAdvanceExact(c, r, "")
	}
}

func init() {
	debugCmds["arrslices"] = func(c *Ctx) {
		for _, fn := range c.modFuncs {
			for _, b := range fn.Blocks {
				for _, ins := range b.Instrs {
					sl, ok := ins.(*ssa.Slice)
					if !ok {
						continue
					}
					pt, isP := sl.X.Type().Underlying().(*types.Pointer)
					if !isP {
						continue
					}
					at, isA := pt.Elem().Underlying().(*types.Array)
					if !isA {
						continue
					}
					nonConst := false
					for _, v := range []ssa.Value{sl.Low, sl.High, sl.Max} {
						if v != nil {
							if _, isK := v.(*ssa.Const); !isK {
								nonConst = true
							}
						}
					}
					if nonConst {
						fmt.Printf("%s %s [%d] %s\n", c.InstrPos(ins), FnName(fn), at.Len(), ins.String())
					}
				}
			}
		}
	}
}

func runDebugPaths(spec string) int {
	c, err := Load(repoDir(), "")
	if err != nil {
		fmt.Println(err)
		return 2
	}
	parts := splitN(spec, ":", 2)
	fn := c.Func(parts[0], parts[1])
	if fn == nil {
		fmt.Println("no such function")
		return 2
	}
	paths, over := CollectPaths(c, SeqSpec{Fn: fn})
	fmt.Println("paths", len(paths), "overflow", over)
	for i, sp := range paths {
		g := "-"
		if sp.ErrGlobal != nil {
			g = sp.ErrGlobal.Name()
		}
		ev := "-"
		if sp.ErrVal != nil {
			ev = fmt.Sprintf("%T %s", sp.ErrVal, sp.ErrVal.Name())
		}
		fmt.Printf("#%d panic=%v nil=%v nonnil=%v glob=%s errval=%s exit=%s\n", i, sp.Panic, sp.ErrNil, sp.ErrNonNil, g, ev, c.InstrPos(sp.Exit))
		for _, t := range sp.Trace {
			fmt.Println("      ", t)
		}
	}
	return 0
}

func init() {
	debugRules["writematch"] = func(c *Ctx, r *Report) { ruleWriteMatchCE(c, r, "") }
}

func init() {
	debugCmds["forwardee"] = func(c *Ctx) {
		fn := c.Func("", "readIndexBody")
		g, a := forwardee(c, fn)
		fmt.Println("forwardee", g, a)
		if fn != nil {
			for _, b := range fn.Blocks {
				for _, ins := range b.Instrs {
					fmt.Printf("  %T %s\n", ins, ins)
				}
			}
		}
	}
}

func init() {
	debugCmds["v11"] = func(c *Ctx) {
		fn := c.Func("", "streamReader.readTail")
		rib0 := c.Func("", "readIndexBody")
		fw, argOf := forwardee(c, rib0)
		fSR := c.Field("", "streamReader.index")
		c.curRoot = fn
		for _, b := range c.GB(fn) {
			for _, ins := range b.Instrs {
				if call, ok := ins.(*ssa.Call); ok && call.Call.StaticCallee() == fw {
					fmt.Println("call", call, "in", call.Parent().Name(), "args", len(call.Call.Args), argOf)
					for i, a := range call.Call.Args {
						fmt.Printf("  arg %d %T %s lenOf=%v\n", i, a, a, roleLenOf(roleFieldLoad(fSR))(a))
					}
				}
			}
		}
	}
}

func init() {
	debugCmds["ssa-target"] = func(c *Ctx) {
		fn := c.Func("cmd/gxz", "targetName")
		for _, b := range fn.Blocks {
			fmt.Printf("%d: %s\n", b.Index, b.Comment)
			for _, ins := range b.Instrs {
				if v, ok := ins.(ssa.Value); ok {
					fmt.Printf("   %s = %s   (%T)\n", v.Name(), ins, ins)
				} else {
					fmt.Printf("   %s   (%T)\n", ins, ins)
				}
			}
		}
	}
}

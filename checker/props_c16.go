package main

func init() {
	register(&propCheck{
		id: "C16",
		explain: "Decided: (1) the transition relation encoded by chunkState.next, extracted by finite-domain abstract evaluation of its SSA over all " +
			"reachable states x 7 chunk types, is LANGUAGE-EQUIVALENT to the specification's chunk automaton (need-dictionary-reset / need-properties; " +
			"product construction, so state names do not matter); (2) headerChunkType classifies all 256 control bytes as the format says and rejects " +
			"0x03-0x7F; header lengths; chunkHeader Marshal/UnmarshalBinary field layout at boundary values; (3) in Reader2.startChunk every use of the " +
			"header is dominated by the accepting edge of cstate.next and the per-type effects (dictionary reset, state reset, new properties, raw " +
			"chunks written into the dictionary) are exactly the format's; (4) the writer emits only legal sequences (default type / raw fallback / end " +
			"in every reachable writer state) and the two chunk limit constants and LimitedByteWriter budget equal 64 KiB / 2 MiB. " +
			"NOT decided: that accepted sequences decode to the right bytes beyond the resets; the 64 KiB bound on uncompressed chunks (numeric argument via opLenMargin).",
		assume: []string{"the CE interpreter (ce.go) is correct; specification automaton transcribed from liblzma lzma2_decoder.c (tables.go specNext)"},
		run: func(c *Ctx, r *Report) {
			t := getChunkTables(c, r, "")
			ruleChunkAutomaton(c, r, t, "", "equal")
			ruleControlByte(c, r, t, "", true)
			ruleChunkHeaderCodec(c, r, t, "")
			ruleWriterChunkLegality(c, r, t, "")
			ruleStartChunkEffects(c, r, t, "")
			ruleStateResetCE(c, r, "") // the "state reset" chunk kinds really start from the initial coder state
			ruleRawEOFFlag(c, r, "")
			ruleBudgetFresh(c, r, "")
			ruleByteAtGuards(c, r, "")
			ruleCtorReopen(c, r, "")
			ruleNilDecoder(c, r, "")
			ruleRingModulus(c, r, "", "enc")
			ruleRawVsCompressed(c, r, "")
			ruleChunkLimits(c, r, "")
			ruleOpMargin(c, r, "")
			ruleRawCopy(c, r, "")
			ruleCopyNCE(c, r, "")
			ruleReopenState(c, r, "")
			ruleWriter2(c, r, t, "")
			// "a chunk sequence ends with the end chunk": the source running dry at a chunk boundary is an
			// unexpected EOF, never a clean end (EF-EOF over the LZMA2 reader); matches never reach behind a
			// dictionary reset (window-length guards of the decoder dictionary); raw chunk refill contract
			{
				api := nonNilFns(c.Func("lzma", "Reader2.Read"), c.Func("lzma", "NewReader2"), c.Func("lzma", "Reader2Config.NewReader2"))
				ruleEOF(c, r, api, c.Cone(api...), "")
			}
			ruleDecoderBounds(c, r, "")
			ruleReaderFrom(c, r, "")
			ruleWriter2Split(c, r, "")
			ruleDefaultChunkType(c, r, t, "")
			ruleReader2ChunkEOF(c, r, "")
			ruleReadInvokes(c, r, "")
			r.Floor("SEQ-STARTCHUNK", 7)
			r.Floor("CE-CHUNK-AUTOMATON", 1)
			r.Floor("CE-CTRL", 2)
			r.Floor("CE-CHUNKHDR", 1)
			r.Floor("CE-CHUNK-WRITER", 1)
		},
	})
}

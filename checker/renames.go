package main

import (
	_ "embed"
	"fmt"
	"go/types"
	"os"
	"regexp"
	"sort"
	"strconv"
	"strings"

	"golang.org/x/tools/go/ssa"
)

// ---- reference symbol table ----
//
// knownsyms.txt lists the package-level constants, variables, named types and struct fields of
// the module on the reference tree (`xzverify debug dump-syms`). The rules name their anchors by
// the reference names. When such a name is gone and exactly one symbol of the same kind that the
// reference tree does not have stands in its place - a constant with the same type and value, a
// variable with the same type (and, for error values, the same message), a field with the same
// type in the same struct, a named type with the same methods or the same field list - the symbol
// was renamed, and the anchor resolves to it. Anything less than a unique stand-in leaves the
// anchor unresolved (UNDECIDED), as before.

//go:embed knownsyms.txt
var knownSymsTxt string

type refSym struct {
	kind, pkg, name, typ, extra string
}

var shortPkg = map[string]string{"": "xz", "xz": "xz", "lzma": "lzma", "cmd/gxz": "gxz", "internal/gflag": "gflag", "internal/xlog": "xlog", "internal/hash": "hash", "internal/term": "term", "internal/randtxt": "randtxt"}

func (c *Ctx) shortOfPath(path string) string {
	p := strings.TrimPrefix(strings.TrimPrefix(path, modPath), "/")
	if s, ok := shortPkg[p]; ok {
		return s
	}
	return p
}

// symLines: the symbol table of the loaded tree, in the form of knownsyms.txt.
func (c *Ctx) symLines() []string {
	var out []string
	qual := func(p *types.Package) string {
		if strings.HasPrefix(p.Path(), modPath) {
			return c.shortOfPath(p.Path())
		}
		return p.Path()
	}
	for path, sp := range c.SPkgs {
		if !strings.HasPrefix(path, modPath) || sp == nil || sp.Pkg == nil {
			continue
		}
		short := c.shortOfPath(path)
		sc := sp.Pkg.Scope()
		for _, n := range sc.Names() {
			switch o := sc.Lookup(n).(type) {
			case *types.Const:
				out = append(out, strings.Join([]string{"const", short, n, types.TypeString(o.Type(), qual), o.Val().ExactString()}, "\t"))
			case *types.Var:
				out = append(out, strings.Join([]string{"var", short, n, types.TypeString(o.Type(), qual), c.errMessageOf(sp, n)}, "\t"))
			case *types.TypeName:
				if o.IsAlias() {
					continue
				}
				named, ok := o.Type().(*types.Named)
				if !ok {
					continue
				}
				var ms []string
				for i := 0; i < named.NumMethods(); i++ {
					ms = append(ms, named.Method(i).Name())
				}
				sort.Strings(ms)
				kind := "other:" + types.TypeString(named.Underlying(), qual)
				if st, isS := named.Underlying().(*types.Struct); isS {
					kind = "struct"
					for i := 0; i < st.NumFields(); i++ {
						f := st.Field(i)
						out = append(out, strings.Join([]string{"field", short, n + "." + f.Name(), types.TypeString(f.Type(), qual), strconv.Itoa(i)}, "\t"))
					}
				} else if _, isI := named.Underlying().(*types.Interface); isI {
					kind = "interface"
				}
				out = append(out, strings.Join([]string{"type", short, n, kind, strings.Join(ms, ",")}, "\t"))
			}
		}
	}
	for _, fn := range c.modFuncs {
		if fn.Parent() == nil && fn.Synthetic == "" && fn.Signature != nil {
			sig := anonSig(fn.Signature)
			var pn []string
			for _, p := range fn.Params {
				pn = append(pn, p.Name())
			}
			out = append(out, strings.Join([]string{"func", "-", plainFnName(fn), types.TypeString(sig, qual), strings.Join(pn, ",")}, "\t"))
		}
	}
	sort.Strings(out)
	return out
}

// plainFnName: rawFnName without the type-rename normalisation.
func plainFnName(fn *ssa.Function) string {
	s := fn.String()
	s = strings.ReplaceAll(s, modPath+"/cmd/gxz", "gxz")
	s = strings.ReplaceAll(s, modPath+"/internal/", "")
	s = strings.ReplaceAll(s, modPath+"/lzma", "lzma")
	s = strings.ReplaceAll(s, modPath, "xz")
	return s
}

// refSigOf: the signature of a reference function (FnName form), "" if unknown.
var refSigs map[string]string

func refSigOf(name string) string {
	if refSigs == nil {
		refSigs = map[string]string{}
		for _, s := range parseSyms(strings.Split(knownSymsTxt, "\n")) {
			if s.kind == "func" {
				refSigs[s.name] = s.typ
			}
		}
	}
	return refSigs[name]
}

// curSigOf: the signature of a function of the loaded tree in the same form, with renamed types
// under their reference names.
func (c *Ctx) curSigOf(fn *ssa.Function) string {
	qual := func(p *types.Package) string {
		if strings.HasPrefix(p.Path(), modPath) {
			return c.shortOfPath(p.Path())
		}
		return p.Path()
	}
	sig := anonSig(fn.Signature)
	s := types.TypeString(sig, qual)
	if c.syms != nil {
		s = c.syms.normType(s)
	}
	return s
}

// errMessageOf: the constant message of `var name = errors.New("...")`, if that is its initialiser.
func (c *Ctx) errMessageOf(sp *ssa.Package, name string) string {
	g := sp.Var(name)
	ini := sp.Func("init")
	if g == nil || ini == nil {
		return ""
	}
	for _, b := range ini.Blocks {
		for _, ins := range b.Instrs {
			st, ok := ins.(*ssa.Store)
			if !ok || st.Addr != ssa.Value(g) {
				continue
			}
			v := st.Val
			if mi, isM := v.(*ssa.MakeInterface); isM {
				v = mi.X
			}
			if call, isC := v.(*ssa.Call); isC {
				if cal := call.Call.StaticCallee(); cal != nil && cal.Pkg != nil && cal.Pkg.Pkg.Path() == "errors" && cal.Name() == "New" && len(call.Call.Args) == 1 {
					if k, isK := call.Call.Args[0].(*ssa.Const); isK && k.Value != nil {
						return k.Value.ExactString()
					}
				}
			}
		}
	}
	return ""
}

func parseSyms(lines []string) map[string]refSym {
	m := map[string]refSym{}
	for _, l := range lines {
		f := strings.Split(strings.TrimRight(l, "\r\n"), "\t")
		if len(f) != 5 {
			continue
		}
		m[f[0]+"\t"+f[1]+"\t"+f[2]] = refSym{f[0], f[1], f[2], f[3], f[4]}
	}
	return m
}

// symRenames: reference name -> current name (keys "kind\tpkg\tname"; fields "T.f" with T the
// reference type name), and the reverse for objects.
type symRenames struct {
	to      map[string]string // "kind\tpkg\trefname" -> current name (field: bare field name)
	typeOld map[string]string // "pkg.CurType" -> "RefType"
	objOld  map[types.Object]string
	typeRe  []*regexp.Regexp
	typeRep []string
	notes   []string
}

// normType rewrites current type names in a type string to the reference names.
func (r *symRenames) normType(s string) string {
	for i, re := range r.typeRe {
		s = re.ReplaceAllString(s, r.typeRep[i])
	}
	return s
}

func (c *Ctx) detectSymRenames() {
	r := &symRenames{to: map[string]string{}, typeOld: map[string]string{}, objOld: map[types.Object]string{}}
	c.syms = r
	ref := parseSyms(strings.Split(knownSymsTxt, "\n"))
	if len(ref) == 0 {
		return
	}
	cur := parseSyms(c.symLines())
	byKind := func(m map[string]refSym, kind string, other map[string]refSym) []refSym {
		var out []refSym
		for k, s := range m {
			if s.kind == kind {
				if _, ok := other[k]; !ok {
					out = append(out, s)
				}
			}
		}
		sort.Slice(out, func(i, j int) bool { return out[i].pkg+"."+out[i].name < out[j].pkg+"."+out[j].name })
		return out
	}
	fieldsOf := func(m map[string]refSym, pkg, tn string) []refSym {
		var out []refSym
		for _, s := range m {
			if s.kind == "field" && s.pkg == pkg && strings.HasPrefix(s.name, tn+".") {
				out = append(out, s)
			}
		}
		sort.Slice(out, func(i, j int) bool {
			a, _ := strconv.Atoi(out[i].extra)
			b, _ := strconv.Atoi(out[j].extra)
			return a < b
		})
		return out
	}
	// 1. named types
	missT, freshT := byKind(ref, "type", cur), byKind(cur, "type", ref)
	takenT := map[string]bool{}
	for _, m := range missT {
		var cands []refSym
		for _, f := range freshT {
			if f.pkg != m.pkg || takenT[f.pkg+"."+f.name] || f.typ != m.typ && !(strings.HasPrefix(m.typ, "other:") && strings.HasPrefix(f.typ, "other:")) {
				continue
			}
			sameMethods := m.extra != "" && m.extra == f.extra
			sameFields := false
			if m.typ == "struct" {
				rf, cf := fieldsOf(ref, m.pkg, m.name), fieldsOf(cur, f.pkg, f.name)
				if len(rf) == len(cf) && len(rf) > 0 {
					sameFields = true
					re := regexp.MustCompile(`\b` + regexp.QuoteMeta(f.pkg+"."+f.name) + `\b`)
					for i := range rf {
						if re.ReplaceAllString(cf[i].typ, m.pkg+"."+m.name) != rf[i].typ {
							sameFields = false
						}
					}
				}
			} else if m.typ == f.typ && m.extra == f.extra {
				sameFields = true
			}
			if sameMethods || sameFields {
				cands = append(cands, f)
			}
		}
		if len(cands) == 1 {
			f := cands[0]
			takenT[f.pkg+"."+f.name] = true
			r.to["type\t"+m.pkg+"\t"+m.name] = f.name
			r.typeOld[f.pkg+"."+f.name] = m.name
			r.typeRe = append(r.typeRe, regexp.MustCompile(`\b`+regexp.QuoteMeta(f.pkg+"."+f.name)+`\b`))
			r.typeRep = append(r.typeRep, m.pkg+"."+m.name)
			r.notes = append(r.notes, fmt.Sprintf("type %s.%s is %s.%s of the reference tree under a new name", f.pkg, f.name, m.pkg, m.name))
		}
	}
	curTypeName := func(pkg, refName string) string {
		if n, ok := r.to["type\t"+pkg+"\t"+refName]; ok {
			return n
		}
		return refName
	}
	// 2. struct fields (per reference struct type, under its current name)
	for _, t := range ref {
		if t.kind != "type" || t.typ != "struct" {
			continue
		}
		cn := curTypeName(t.pkg, t.name)
		rf, cf := fieldsOf(ref, t.pkg, t.name), fieldsOf(cur, t.pkg, cn)
		has := func(l []refSym, tn, fname string) bool {
			for _, s := range l {
				if s.name == tn+"."+fname {
					return true
				}
			}
			return false
		}
		taken := map[string]bool{}
		for _, m := range rf {
			fname := strings.TrimPrefix(m.name, t.name+".")
			if has(cf, cn, fname) {
				continue
			}
			var cands []refSym
			for _, f := range cf {
				fn := strings.TrimPrefix(f.name, cn+".")
				if has(rf, t.name, fn) || taken[fn] || r.normType(f.typ) != m.typ {
					continue
				}
				cands = append(cands, f)
			}
			if len(cands) > 1 {
				// several fresh fields of that type: the one at the same position
				var at []refSym
				for _, f := range cands {
					if f.extra == m.extra {
						at = append(at, f)
					}
				}
				cands = at
			}
			if len(cands) == 1 {
				fn := strings.TrimPrefix(cands[0].name, cn+".")
				taken[fn] = true
				r.to["field\t"+t.pkg+"\t"+t.name+"."+fname] = fn
				r.notes = append(r.notes, fmt.Sprintf("field %s.%s.%s is %s.%s of the reference tree under a new name", t.pkg, cn, fn, t.name, fname))
			}
		}
	}
	// 3. constants and variables
	for _, kind := range []string{"const", "var"} {
		miss, fresh := byKind(ref, kind, cur), byKind(cur, kind, ref)
		taken := map[string]bool{}
		for _, m := range miss {
			var cands []refSym
			for _, f := range fresh {
				if f.pkg != m.pkg || taken[f.pkg+"."+f.name] || r.normType(f.typ) != m.typ {
					continue
				}
				if kind == "const" && f.extra != m.extra {
					continue
				}
				cands = append(cands, f)
			}
			if kind == "var" && len(cands) > 1 && m.extra != "" {
				var same []refSym
				for _, f := range cands {
					if f.extra == m.extra {
						same = append(same, f)
					}
				}
				cands = same
			}
			if len(cands) == 1 {
				f := cands[0]
				taken[f.pkg+"."+f.name] = true
				r.to[kind+"\t"+m.pkg+"\t"+m.name] = f.name
				r.notes = append(r.notes, fmt.Sprintf("%s %s.%s is %s of the reference tree under a new name", kind, f.pkg, f.name, m.name))
			}
		}
	}
	// objects -> reference names
	for path, sp := range c.SPkgs {
		if !strings.HasPrefix(path, modPath) || sp == nil || sp.Pkg == nil {
			continue
		}
		short := c.shortOfPath(path)
		for k, now := range r.to {
			f := strings.Split(k, "\t")
			if f[1] != short {
				continue
			}
			switch f[0] {
			case "const", "var", "type":
				if o := sp.Pkg.Scope().Lookup(now); o != nil {
					r.objOld[o] = f[2]
				}
			case "field":
				i := strings.Index(f[2], ".")
				if tn, ok := sp.Pkg.Scope().Lookup(curTypeName(short, f[2][:i])).(*types.TypeName); ok {
					if st, isS := tn.Type().Underlying().(*types.Struct); isS {
						for j := 0; j < st.NumFields(); j++ {
							if st.Field(j).Name() == now {
								r.objOld[st.Field(j)] = f[2][i+1:]
							}
						}
					}
				}
			}
		}
	}
	sort.Strings(r.notes)
}

// curName: the current name of the reference symbol (kind, pkg, name); name itself if it was
// not renamed.
func (c *Ctx) curName(kind, pkg, name string) string {
	if c.syms == nil {
		return name
	}
	if n, ok := c.syms.to[kind+"\t"+shortPkg[pkg]+"\t"+name]; ok {
		return n
	}
	return name
}

// refNameOf: the reference name of a (possibly renamed) field, variable, constant or type.
func refNameOf(o types.Object) string {
	if o == nil {
		return ""
	}
	if theCtx != nil && theCtx.syms != nil {
		if n, ok := theCtx.syms.objOld[o]; ok {
			return n
		}
	}
	return o.Name()
}

func init() {
	debugCmds["dump-syms"] = func(c *Ctx) {
		for _, l := range c.symLines() {
			fmt.Println(l)
		}
	}
	debugCmds["renames"] = func(c *Ctx) {
		for _, n := range c.syms.notes {
			fmt.Println(n)
		}
		for fn, old := range c.renamed {
			fmt.Println("func", rawFnName(fn), "is", old)
		}
	}
}

// anonSig: the signature without receiver and without parameter names.
func anonSig(sg *types.Signature) *types.Signature {
	strip := func(t *types.Tuple) *types.Tuple {
		var vs []*types.Var
		for i := 0; i < t.Len(); i++ {
			vs = append(vs, types.NewVar(0, nil, "", t.At(i).Type()))
		}
		return types.NewTuple(vs...)
	}
	return types.NewSignatureType(nil, nil, nil, strip(sg.Params()), strip(sg.Results()), sg.Variadic())
}

// refParamName: the name the parameter has on the reference tree. A parameter whose name the
// reference function also has keeps it (parameters may have been reordered); a parameter with a
// name the reference function does not have stands for the reference parameter at its position,
// if that name is not in use any more. Functions the reference tree does not have: the name itself.
var refParams map[string][]string

func refParamName(p *ssa.Parameter) string {
	if p == nil || p.Parent() == nil {
		return ""
	}
	if refParams == nil {
		refParams = map[string][]string{}
		for _, s := range parseSyms(strings.Split(knownSymsTxt, "\n")) {
			if s.kind == "func" && s.extra != "" {
				refParams[s.name] = strings.Split(s.extra, ",")
			}
		}
	}
	fn := p.Parent()
	names, ok := refParams[FnName(fn)]
	if !ok {
		return p.Name()
	}
	for _, n := range names {
		if n == p.Name() {
			return n
		}
	}
	if len(names) != len(fn.Params) {
		return p.Name()
	}
	for i, q := range fn.Params {
		if q == p {
			for _, o := range fn.Params {
				if o.Name() == names[i] {
					return p.Name()
				}
			}
			return names[i]
		}
	}
	return p.Name()
}

func isRefParam(p *ssa.Parameter, name string) bool {
	return p != nil && p.Parent() != nil && refParamName(p) == name
}

// refFuncName: the unqualified name a function has on the reference tree.
func refFuncName(fn *ssa.Function) string {
	n := FnName(fn)
	return n[strings.LastIndex(n, ".")+1:]
}

func init() {
	debugCmds["frozen"] = func(c *Ctx) {
		for _, sp := range c.SPkgs {
			if sp == nil || !c.InModulePkg(sp.Pkg) {
				continue
			}
			for _, m := range sp.Members {
				if g, ok := m.(*ssa.Global); ok {
					cell := c.initialCell(g)
					fmt.Printf("%s.%s frozen=%v keyFrozen=%v cell=%v\n", sp.Pkg.Name(), g.Name(), c.frozenGlobal(g), c.keyFrozenMap(g), cell != nil)
					if cell != nil && os.Getenv("XZV_DEBUG_CELL") == g.Name() {
						in := NewInterp(c)
						fmt.Printf("   %v\n", in.loadCell(cell, g.Type().(*types.Pointer).Elem()))
					}
				}
			}
		}
	}
}

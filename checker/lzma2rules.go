package main

// SEQ/OB rules about the LZMA2 reader and writer (C03, C08, C16, C02).

import (
	"fmt"
	"go/token"
	"go/types"
	"strings"

	"golang.org/x/tools/go/ssa"
)

// pureLeafs: small in-module functions without stores, calls or other effects whose
// parameters are all of basic type; evaluated with CE inside PATH when arguments are known.
func pureLeafs(c *Ctx, pkgs ...string) map[*ssa.Function]bool {
	m := map[*ssa.Function]bool{}
	for _, fn := range c.ModFuncs(pkgs...) {
		ok := len(fn.Params) > 0
		for _, p := range fn.Params {
			if !isBasic(p.Type()) {
				ok = false
			}
		}
		n := 0
		for _, b := range theCtx.GB(fn) {
			for _, ins := range b.Instrs {
				n++
				switch ins.(type) {
				case *ssa.Store, *ssa.Call, *ssa.Go, *ssa.Defer, *ssa.Send, *ssa.MapUpdate, *ssa.Panic, *ssa.Alloc, *ssa.MakeSlice, *ssa.MakeMap, *ssa.MakeChan:
					ok = false
				}
			}
		}
		if ok && n <= 60 {
			m[fn] = true
		}
	}
	return m
}

func eqLabels(a, b []string) bool {
	if len(a) != len(b) {
		return false
	}
	for i := range a {
		if a[i] != b[i] {
			return false
		}
	}
	return true
}

// partialOrder checks an event sequence against a set of required steps with precedence
// constraints: every event is a known step, none occurs twice, `a before b` holds whenever b
// occurred, and (complete) every step occurred. It returns "" or what is wrong.
func partialOrder(got, steps []string, before [][2]string, complete bool) string {
	idx := map[string]int{}
	known := map[string]bool{}
	for _, s := range steps {
		known[s] = true
	}
	for i, g := range got {
		if !known[g] {
			return "unexpected step " + g
		}
		if _, dup := idx[g]; dup {
			return "step " + g + " occurs twice"
		}
		idx[g] = i
	}
	for _, pr := range before {
		ib, okb := idx[pr[1]]
		if !okb {
			continue
		}
		ia, oka := idx[pr[0]]
		if !oka {
			return pr[1] + " without " + pr[0]
		}
		if ia > ib {
			return pr[1] + " before " + pr[0]
		}
	}
	if complete {
		for _, s := range steps {
			if _, ok := idx[s]; !ok {
				return "step " + s + " missing"
			}
		}
	}
	return ""
}

func isPrefix(a, b []string) bool {
	if len(a) > len(b) {
		return false
	}
	for i := range a {
		if a[i] != b[i] {
			return false
		}
	}
	return true
}

// ruleStartChunkEffects: per chunk kind, the effects of Reader2.startChunk are exactly
// the format's (DESIGN Appendix B "Per-type effects in the reader").
func ruleStartChunkEffects(c *Ctx, r *Report, t *chunkTables, prefix string) {
	rule := prefix + "SEQ-STARTCHUNK"
	if !t.ok {
		return
	}
	fn := c.Func("lzma", "Reader2.startChunk")
	fCtype := c.Field("lzma", "chunkHeader.ctype")
	fUnc := c.Field("lzma", "chunkHeader.uncompressed")
	fComp := c.Field("lzma", "chunkHeader.compressed")
	fProps := c.Field("lzma", "chunkHeader.props")
	fCstate := c.Field("lzma", "Reader2.cstate")
	fDict := c.Field("lzma", "Reader2.dict")
	fDec := c.Field("lzma", "Reader2.decoder")
	fUr := c.Field("lzma", "Reader2.ur")
	fCR := c.Field("lzma", "Reader2.chunkReader")
	fR := c.Field("lzma", "Reader2.r")
	fState := c.Field("lzma", "decoder.State")
	next := c.Func("lzma", "chunkState.next")
	dReset := c.Func("lzma", "decoderDict.Reset")
	sReset := c.Func("lzma", "state.Reset")
	newState := c.Func("lzma", "newState")
	newDec := c.Func("lzma", "newDecoder")
	reopen := c.Func("lzma", "decoder.Reopen")
	newUR := c.Func("lzma", "newUncompressedReader")
	urReopen := c.Func("lzma", "uncompressedReader.Reopen")
	if fn == nil || fCtype == nil || fUnc == nil || fComp == nil || fProps == nil || fCstate == nil || fDict == nil || fDec == nil ||
		fUr == nil || fCR == nil || fR == nil || fState == nil || next == nil || dReset == nil || sReset == nil || newState == nil ||
		newDec == nil || reopen == nil || newUR == nil || urReopen == nil {
		return
	}
	stopV := int64(t.stopSt)
	pure := pureLeafs(c, "lzma")
	pos := c.Pos(fn.Pos())

	for k := 0; k < nKinds; k++ {
		kind := k
		var nextCall *ssa.Call
		argBad := map[string]string{}
		spec := SeqSpec{Fn: fn, PureCalls: pure}
		spec.Assume = func(w *Walker, p *PState, ins ssa.Instruction) {
			if u, ok := loadOfField(ins, fCtype); ok {
				setIntFact(p, p.Resolve(u), t.vals[kind])
			}
			if iff, ok := ins.(*ssa.If); ok {
				cond := p.Resolve(iff.Cond)
				if bo, ok := cond.(*ssa.BinOp); ok && (bo.Op == token.EQL || bo.Op == token.NEQ) {
					for _, pr := range [][2]ssa.Value{{bo.X, bo.Y}, {bo.Y, bo.X}} {
						if kv, isK := constInt(pr[1]); isK && kv == stopV && isFieldLoadOf(pr[0], fCstate) {
							// End leads to `stop` from every state, no other kind does (CE-CHUNK-AUTOMATON)
							setBoolFact(p, cond, (bo.Op == token.EQL) == (kind == kEnd))
						}
					}
				}
			}
		}
		spec.Event = func(w *Walker, p *PState, ins ssa.Instruction) string {
			if call, ok := callTo(ins, next); ok {
				nextCall = call
				if len(call.Call.Args) != 2 || !isFieldLoadOf(call.Call.Args[1], fCtype) {
					argBad["next"] = "cstate.next is not called with the chunk header's type"
				}
				return "next"
			}
			if call, ok := callTo(ins, dReset); ok {
				if !isFieldLoadOf(call.Call.Args[0], fDict) {
					argBad["dictReset"] = "Reset is not applied to the reader's dictionary"
				}
				return "dictReset"
			}
			if _, ok := callTo(ins, sReset); ok {
				return "stateReset"
			}
			if call, ok := callTo(ins, newState); ok {
				if !isFieldLoadOf(call.Call.Args[0], fProps) {
					argBad["newState"] = "newState is not called with the chunk header's properties"
				}
				return "newState(props)"
			}
			if call, ok := callTo(ins, newDec); ok {
				a := call.Call.Args
				if len(a) != 4 || !isFieldLoadOf(a[2], fDict) || !isFieldLoadPlusConst(a[3], fUnc, 1) {
					argBad["newDecoder"] = "newDecoder must get the reader's dictionary and size = uncompressed+1"
				}
				if cs, ok := p.Resolve(a[1]).(*ssa.Call); !ok || cs.Call.StaticCallee() != newState {
					argBad["newDecoder.state"] = "the first compressed chunk must start from newState(header.props)"
				}
				return "newDecoder"
			}
			if call, ok := callTo(ins, reopen); ok {
				a := call.Call.Args
				if len(a) != 3 || !isFieldLoadPlusConst(a[2], fUnc, 1) {
					argBad["Reopen"] = "decoder.Reopen must get size = uncompressed+1"
				}
				return "Reopen"
			}
			if call, ok := callTo(ins, newUR); ok {
				a := call.Call.Args
				if len(a) != 3 || !isFieldLoadOf(a[0], fR) || !isFieldLoadOf(a[1], fDict) || !isFieldLoadPlusConst(a[2], fUnc, 1) {
					argBad["newUncompressedReader"] = "newUncompressedReader must get the raw stream, the reader's dictionary and size = uncompressed+1"
				}
				return "rawReader"
			}
			if newUR == fn {
				// the constructor was folded into startChunk: r.ur = &uncompressedReader{lr: {R, N}, Dict}
				if st, ok := storeToField(ins, fUr); ok {
					if al, isA := stripConv(st.Val).(*ssa.Alloc); isA {
						rv, nv, dv := urLiteral(al)
						if rv == nil || nv == nil || dv == nil || !isFieldLoadOf(rv, fR) || !isFieldLoadOf(dv, fDict) || !isFieldLoadPlusConst(nv, fUnc, 1) {
							argBad["newUncompressedReader"] = "the raw chunk reader must get the raw stream, the reader's dictionary and size = uncompressed+1"
						}
						return "rawReader"
					}
				}
			}
			if call, ok := callTo(ins, urReopen); ok {
				a := call.Call.Args
				if len(a) != 3 || !isFieldLoadOf(a[1], fR) || !isFieldLoadPlusConst(a[2], fUnc, 1) {
					argBad["ur.Reopen"] = "uncompressedReader.Reopen must get the raw stream and size = uncompressed+1"
				}
				return "rawReader"
			}
			if stdCalleeName(ins) == "io.LimitReader" {
				a := ins.(*ssa.Call).Call.Args
				if len(a) != 2 || !isFieldLoadOf(a[0], fR) || !isFieldLoadPlusConst(a[1], fComp, 1) {
					argBad["LimitReader"] = "the compressed chunk must be limited to compressed+1 bytes of the raw stream"
				}
				return "limit"
			}
			if st, ok := storeToField(ins, fState); ok {
				if cs, ok := st.Val.(*ssa.Call); ok && cs.Call.StaticCallee() == newState {
					return "State=newState"
				}
				// the value a new helper hands back on this path
				switch rv := p.Resolve(st.Val).(type) {
				case *ssa.Call:
					if rv.Call.StaticCallee() == newState {
						return "State=newState"
					}
				case *ssa.UnOp:
					if isFieldLoadOf(rv, fState) {
						return "" // the decoder keeps the state it has
					}
				}
				return "State=other"
			}
			if st, ok := storeToField(ins, fCR); ok {
				v := stripConv(st.Val)
				switch {
				case isNilConst(v):
					return ""
				case isFieldLoadOf(v, fUr):
					return "chunkReader=raw"
				case isFieldLoadOf(v, fDec):
					return "chunkReader=decoder"
				}
				return "chunkReader=other"
			}
			return ""
		}
		paths, overflow := CollectPaths(c, spec)
		key := "kind:" + kindNames[k]
		if overflow {
			r.Undecided(rule, key, pos, "path budget exceeded")
			continue
		}
		var d []string
		if k == kRawReset || k == kLZMAAll {
			d = []string{"dictReset"}
		}
		var full [][]string
		switch {
		case k == kEnd:
			full = [][]string{{}}
		case k <= kRaw:
			full = [][]string{append(append([]string{}, d...), "rawReader", "chunkReader=raw")}
		default:
			first := append(append([]string{}, d...), "limit", "newState(props)", "newDecoder", "chunkReader=decoder")
			var s []string
			switch k {
			case kLZMAState:
				s = []string{"stateReset"}
			case kLZMAProps, kLZMAAll:
				s = []string{"newState(props)", "State=newState"}
			}
			later := append(append(append([]string{}, d...), "limit"), append(s, "Reopen", "chunkReader=decoder")...)
			full = [][]string{first, later}
		}
		bad := 0
		accepted := 0
		for _, sp := range paths {
			labels := sp.Labels()
			i := sp.Index("next")
			if i < 0 {
				if len(labels) > 0 || !sp.ErrNonNil {
					r.Fail(rule, key+":before-next", pos, fmt.Sprintf("a path uses the chunk header (%v) or returns without error before cstate.next accepted it", labels), sp.Trace...)
					bad++
				}
				continue
			}
			after := labels[i+1:]
			if i != 0 {
				r.Fail(rule, key+":before-next", pos, fmt.Sprintf("effects %v happen before the chunk type was checked by cstate.next", labels[:i]), sp.Trace...)
				bad++
				continue
			}
			nextNil := nextCall != nil && sp.P.IsNil(nextCall)
			if !nextNil {
				if len(after) > 0 || !sp.ErrNonNil {
					r.Fail(rule, key+":rejected", pos, fmt.Sprintf("after cstate.next rejected the chunk the function still performs %v or returns no error", after), sp.Trace...)
					bad++
				}
				continue
			}
			accepted++
			okPath := false
			if k == kEnd {
				okPath = len(after) == 0 && sp.ErrGlobal != nil && isEOF(sp.ErrGlobal)
			} else if sp.ErrNil {
				for _, f := range full {
					if eqLabels(after, f) {
						okPath = true
					}
				}
			} else if sp.ErrNonNil {
				for _, f := range full {
					if isPrefix(after, f) && len(after) > 0 && (after[len(after)-1] == "newDecoder" || after[len(after)-1] == "Reopen") {
						okPath = true
					}
				}
			}
			if !okPath {
				var want []string
				for _, f := range full {
					want = append(want, "["+strings.Join(f, " ")+"]")
				}
				r.Fail(rule, key+":effects", pos, fmt.Sprintf("for a %s chunk startChunk performs [%s] (returns nil=%v); the format requires %s", kindNames[k], strings.Join(after, " "), sp.ErrNil, strings.Join(want, " or ")), sp.Trace...)
				bad++
			}
		}
		for what, msg := range argBad {
			r.Fail(rule, key+":arg:"+what, pos, msg)
			bad++
		}
		if accepted == 0 {
			r.Undecided(rule, key+":vacuous", pos, "no accepting path found for this chunk kind")
			bad++
		}
		if bad == 0 {
			r.Pass(rule, key, pos, fmt.Sprintf("all %d paths: header used only after cstate.next accepted it; effects are exactly those the format prescribes for a %s chunk", len(paths), kindNames[k]), len(paths))
		}
	}
	// Reopen keeps rep distances and state: its write set is frozen
	if reopen != nil {
		allowed := map[string]bool{"rd": true, "start": true, "size": true, "eos": true}
		var extra []string
		for _, b := range theCtx.GB(reopen) {
			for _, ins := range b.Instrs {
				if st, ok := ins.(*ssa.Store); ok {
					if fa, ok := st.Addr.(*ssa.FieldAddr); ok {
						if f := fieldOfAddr(fa); f != nil && !allowed[refNameOf(f)] {
							extra = append(extra, refNameOf(f))
						}
					}
				}
				if call, ok := ins.(*ssa.Call); ok {
					if f := call.Call.StaticCallee(); f != nil && c.InModule(f) && refFuncName(f) != "newRangeDecoder" && refFuncName(f) != "pos" {
						extra = append(extra, "call "+f.Name())
					}
				}
			}
		}
		r.Check(len(extra) == 0, prefix+"SEQ-REOPEN", "decoder.Reopen:write-set", c.Pos(reopen.Pos()),
			"decoder.Reopen only replaces the range decoder and the size bookkeeping; coder state and rep distances persist across chunks",
			fmt.Sprintf("decoder.Reopen also touches %v: the coder state / rep distances must persist over chunks without state reset", extra))
	}
	// raw chunks are written into the dictionary
	fill := c.Func("lzma", "uncompressedReader.fill")
	fURDict := c.Field("lzma", "uncompressedReader.Dict")
	fLr := c.Field("lzma", "uncompressedReader.lr")
	if fill != nil && fURDict != nil && fLr != nil {
		ok := false
		for _, b := range theCtx.GB(fill) {
			for _, ins := range b.Instrs {
				if stdCalleeName(ins) == "io.CopyN" {
					a := ins.(*ssa.Call).Call.Args
					src := stripConv(a[1])
					fa, isFA := src.(*ssa.FieldAddr)
					if isFieldLoadOf(a[0], fURDict) && isFA && fieldOfAddr(fa) == fLr {
						ok = true
					}
				}
			}
		}
		r.Check(ok, prefix+"SEQ-RAWDICT", "uncompressedReader.fill:CopyN", c.Pos(fill.Pos()),
			"raw chunk data is copied from the size-limited reader into the decoder dictionary",
			"uncompressedReader.fill no longer copies from its LimitedReader into the decoder dictionary: later matches could not reference raw chunk data")
	}
	for _, fnn := range []string{"newUncompressedReader", "uncompressedReader.Reopen"} {
		f := c.Func("lzma", fnn)
		if f == nil || fLr == nil {
			continue
		}
		// the LimitedReader's N is the size parameter
		ok := false
		if refFuncName(f) != "newUncompressedReader" && refFuncName(f) != "Reopen" {
			// folded into its caller (startChunk): the literal's N is checked there (SEQ-STARTCHUNK
			// raw kinds: size = uncompressed+1); here: a literal with an N exists
			for _, b := range theCtx.GB(f) {
				for _, ins := range b.Instrs {
					if al, isA := ins.(*ssa.Alloc); isA {
						if _, nv, _ := urLiteral(al); nv != nil {
							ok = true
						}
					}
				}
			}
		}
		for _, b := range theCtx.GB(f) {
			for _, ins := range b.Instrs {
				st, isSt := ins.(*ssa.Store)
				if !isSt {
					continue
				}
				if fa, isFA := st.Addr.(*ssa.FieldAddr); isFA {
					if fv := fieldOfAddr(fa); fv != nil && fv.Name() == "N" {
						if p, isP := st.Val.(*ssa.Parameter); isP && isRefParam(p, "size") {
							ok = true
						}
					}
				}
			}
		}
		r.Check(ok, prefix+"SEQ-RAWDICT", fnn+":limit", c.Pos(f.Pos()), "the raw chunk reader is limited to the declared size",
			fnn+" does not limit the raw chunk to its declared size")
	}
}

// ruleChunkLimits: the two limit constants, the stores to LimitedByteWriter.N and the
// budget of Writer2.Write.
func ruleChunkLimits(c *Ctx, r *Report, prefix string) {
	rule := prefix + "TM-CHUNKLIMIT"
	if v, ok := namedConstInt(c, "lzma", "maxCompressed"); ok {
		r.Check(v == 1<<16, rule, "maxCompressed", "", "maxCompressed = 64 KiB", fmt.Sprintf("maxCompressed is %d; an LZMA2 chunk holds at most 65536 compressed bytes", v))
	}
	if v, ok := namedConstInt(c, "lzma", "maxUncompressed"); ok {
		r.Check(v == 1<<21, rule, "maxUncompressed", "", "maxUncompressed = 2 MiB", fmt.Sprintf("maxUncompressed is %d; an LZMA2 chunk holds at most 2097152 uncompressed bytes", v))
	}
	fN := c.Field("lzma", "LimitedByteWriter.N")
	if fN == nil {
		return
	}
	allowed := map[string]string{
		"(lzma.Writer2Config).NewWriter2":     "65536",
		"(*lzma.Writer2).flushChunk":          "65536",
		"lzma.newRangeEncoder":                "9223372036854775807",
		"lzma.init":                           "9223372036854775807", // a package-level template of the unlimited writer (copied, GL-GLOBAL watches who writes it)
		"(*lzma.LimitedByteWriter).WriteByte": "N-1",
	}
	n := 0
	for _, fn := range c.ModFuncs("lzma", "") {
		for _, b := range theCtx.GB(fn) {
			for _, ins := range b.Instrs {
				st, ok := storeToField(ins, fN)
				if !ok {
					continue
				}
				n++
				desc := "?"
				if k, isK := constInt(st.Val); isK {
					desc = fmt.Sprint(k)
				} else if bo, isB := st.Val.(*ssa.BinOp); isB && bo.Op == token.SUB {
					if k, isK := constInt(bo.Y); isK && k == 1 && isFieldLoadOf(bo.X, fN) {
						desc = "N-1"
					}
				}
				want, known := allowed[FnName(fn)]
				r.Check(known && want == desc, rule, "store-N:"+FnName(fn), c.InstrPos(ins),
					"LimitedByteWriter budget store is one of the frozen set ("+desc+")",
					fmt.Sprintf("%s sets the compressed-chunk budget LimitedByteWriter.N to %s; allowed: 65536 at writer creation and after each chunk, maxInt64 for unlimited classic LZMA, N-1 per byte", FnName(fn), desc))
			}
		}
	}
	// Writer2.Write derives its budget from maxUncompressed - written()
	wr := c.Func("lzma", "Writer2.Write")
	written := c.Func("lzma", "Writer2.written")
	if wr != nil && written != nil {
		ok := false
		for _, b := range theCtx.GB(wr) {
			for _, ins := range b.Instrs {
				bo, isB := ins.(*ssa.BinOp)
				if !isB || bo.Op != token.SUB {
					continue
				}
				k, isK := constInt(bo.X)
				call, isC := bo.Y.(*ssa.Call)
				if isK && k == 1<<21 && isC && call.Call.StaticCallee() == written {
					// it must bound the slice handed to the encoder
					if reachesSliceBound(bo) {
						ok = true
					}
				}
			}
		}
		r.Check(ok, rule, "Writer2.Write:budget", c.Pos(wr.Pos()), "the data handed to the encoder per chunk is bounded by maxUncompressed - written()",
			"Writer2.Write no longer bounds the bytes handed to the encoder by maxUncompressed - written(): a chunk could exceed 2 MiB of uncompressed data")
	}
	r.Floor(rule, 6)
	_ = n
}

// reachesSliceBound: the value flows (through +, φ, conversions) into the High bound of a Slice.
func reachesSliceBound(v ssa.Value) bool {
	seen := map[ssa.Value]bool{}
	var rec func(v ssa.Value) bool
	rec = func(v ssa.Value) bool {
		if seen[v] || v.Referrers() == nil {
			return false
		}
		seen[v] = true
		for _, ref := range *v.Referrers() {
			switch x := ref.(type) {
			case *ssa.Slice:
				if x.High == v || x.Low == v {
					return true
				}
			case *ssa.BinOp:
				if x.Op == token.ADD || x.Op == token.SUB {
					if rec(x) {
						return true
					}
				}
			case *ssa.Phi:
				if rec(x) {
					return true
				}
			case *ssa.Convert:
				if rec(x) {
					return true
				}
			case *ssa.Return:
				// the value is the result of a new helper: follow the results of its calls
				if hp := x.Parent(); theCtx.IsNew(hp) && len(x.Results) == 1 {
					for _, site := range theCtx.callSites(hp) {
						if cv, ok := site.(ssa.Value); ok && rec(cv) {
							return true
						}
					}
				}
			case *ssa.Call:
				// the value is handed to a new helper function: follow the parameter
				if cal := x.Call.StaticCallee(); cal != nil && theCtx.IsNew(cal) && len(cal.Params) == len(x.Call.Args) {
					for i, a := range x.Call.Args {
						if a == v && rec(cal.Params[i]) {
							return true
						}
					}
				}
			}
		}
		return false
	}
	return rec(v)
}

// ---- Writer2 (C08, C02, C16) ----

func ruleWriter2(c *Ctx, r *Report, t *chunkTables, prefix string) {
	rule := prefix + "SEQ-W2"
	if !t.ok {
		return
	}
	fCstate := c.Field("lzma", "Writer2.cstate")
	fCtype := c.Field("lzma", "Writer2.ctype")
	fStart := c.Field("lzma", "Writer2.start")
	fEncState := c.Field("lzma", "encoder.state")
	fW := c.Field("lzma", "Writer2.w")
	fLbwN := c.Field("lzma", "LimitedByteWriter.N")
	write := c.Func("lzma", "Writer2.Write")
	flush := c.Func("lzma", "Writer2.Flush")
	closeF := c.Func("lzma", "Writer2.Close")
	flushChunk := c.Func("lzma", "Writer2.flushChunk")
	writeChunk := c.Func("lzma", "Writer2.writeChunk")
	written := c.Func("lzma", "Writer2.written")
	wUC := c.Func("lzma", "Writer2.writeUncompressedChunk")
	wCC := c.Func("lzma", "Writer2.writeCompressedChunk")
	encClose := c.Func("lzma", "encoder.Close")
	encReopen := c.Func("lzma", "encoder.Reopen")
	next := c.Func("lzma", "chunkState.next")
	dflt := c.Func("lzma", "chunkState.defaultChunkType")
	clone := c.Func("lzma", "cloneState")
	if fCstate == nil || fCtype == nil || fStart == nil || fEncState == nil || fW == nil || fLbwN == nil || write == nil || flush == nil ||
		closeF == nil || flushChunk == nil || writeChunk == nil || written == nil || wUC == nil || wCC == nil || encClose == nil ||
		encReopen == nil || next == nil || dflt == nil || clone == nil {
		return
	}
	stopV := int64(t.stopSt)
	assumeStop := func(val bool) func(w *Walker, p *PState, ins ssa.Instruction) {
		return func(w *Walker, p *PState, ins ssa.Instruction) {
			if iff, ok := ins.(*ssa.If); ok {
				cond := p.Resolve(iff.Cond)
				if bo, ok := cond.(*ssa.BinOp); ok && (bo.Op == token.EQL || bo.Op == token.NEQ) {
					for _, pr := range [][2]ssa.Value{{bo.X, bo.Y}, {bo.Y, bo.X}} {
						if kv, isK := constInt(pr[1]); isK && kv == stopV && isFieldLoadOf(pr[0], fCstate) {
							setBoolFact(p, cond, (bo.Op == token.EQL) == val)
						}
					}
				}
			}
		}
	}
	anyEffect := func(w *Walker, p *PState, ins ssa.Instruction) string {
		switch x := ins.(type) {
		case *ssa.Call:
			if _, isB := x.Call.Value.(*ssa.Builtin); isB {
				return ""
			}
			if f := x.Call.StaticCallee(); f != nil && !c.InModule(f) {
				if f.Pkg != nil && (f.Pkg.Pkg.Path() == "errors" || f.Pkg.Pkg.Path() == "fmt") {
					return ""
				}
				if n := stdCalleeName(ins); n == "(*bytes.Buffer).Len" || n == "(*bytes.Buffer).Cap" {
					return "" // pure observers
				}
			}
			if f := x.Call.StaticCallee(); f != nil && c.InModule(f) && c.isPure(f) {
				return "" // a call without effects is not a step
			}
			return "call:" + stdCalleeName(ins)
		case *ssa.Store:
			if _, isAlloc := x.Addr.(*ssa.Alloc); isAlloc {
				return ""
			}
			return "store"
		}
		return ""
	}
	// (a) calls after Close fail and emit nothing
	for _, fn := range []*ssa.Function{write, flush, closeF} {
		paths, over := CollectPaths(c, SeqSpec{Fn: fn, Assume: assumeStop(true), Event: anyEffect})
		key := "closed:" + FnName(fn)
		if over || len(paths) == 0 {
			r.Undecided(rule, key, c.Pos(fn.Pos()), "cannot enumerate paths")
			continue
		}
		bad := false
		for _, sp := range paths {
			if len(sp.Events) > 0 || !sp.ErrNonNil {
				r.Fail(rule, key, c.Pos(fn.Pos()), fmt.Sprintf("with the writer closed (cstate == stop) %s performs %v / returns a nil error: calls after Close must fail and emit nothing", FnName(fn), sp.Labels()), sp.Trace...)
				bad = true
				break
			}
		}
		if !bad {
			r.Pass(rule, key, c.Pos(fn.Pos()), "on the closed edge no call or store happens and a non-nil error is returned", len(paths))
		}
	}
	// (b) Close: nil return passes through Flush, the 0x00 write and cstate = stop
	{
		ev := func(w *Walker, p *PState, ins ssa.Instruction) string {
			if _, ok := callTo(ins, flush); ok {
				return "Flush"
			}
			if call, ok := ins.(*ssa.Call); ok && call.Call.IsInvoke() && call.Call.Method.Name() == "Write" && isFieldLoadOf(call.Call.Value, fW) {
				if oneZeroByte(call.Call.Args[0]) {
					return "write{0}"
				}
				return "write?"
			}
			if st, ok := storeToField(ins, fCstate); ok {
				if k, isK := constInt(st.Val); isK && k == stopV {
					return "cstate=stop"
				}
				return "cstate=?"
			}
			return ""
		}
		paths, over := CollectPaths(c, SeqSpec{Fn: closeF, Assume: assumeStop(false), Event: ev})
		key := "Close:sequence"
		if over {
			r.Undecided(rule, key, c.Pos(closeF.Pos()), "path budget exceeded")
		} else {
			bad := false
			nNil := 0
			for _, sp := range paths {
				if sp.ErrNil {
					nNil++
					if !eqLabels(sp.Labels(), []string{"Flush", "write{0}", "cstate=stop"}) {
						r.Fail(rule, key, c.Pos(closeF.Pos()), fmt.Sprintf("Close can return nil after [%s]; a successful Close must flush, write the 0x00 end chunk and enter the terminal state", strings.Join(sp.Labels(), " ")), sp.Trace...)
						bad = true
						break
					}
				} else if sp.Has("cstate=stop") && !sp.ErrNonNil {
					bad = true
				}
			}
			if !bad && nNil > 0 {
				r.Pass(rule, key, c.Pos(closeF.Pos()), "every nil return of Close passes Flush, the {0x00} write and cstate = stop, in this order", len(paths))
			} else if nNil == 0 {
				r.Undecided(rule, key, c.Pos(closeF.Pos()), "Close has no nil-returning path")
			}
		}
	}
	// (c) Flush: flushChunk only while written() > 0; nil only when nothing is pending
	{
		var lastWritten *ssa.Call
		ev := func(w *Walker, p *PState, ins ssa.Instruction) string {
			if call, ok := callTo(ins, written); ok {
				lastWritten = call
				return ""
			}
			if _, ok := callTo(ins, flushChunk); ok {
				if lastWritten == nil {
					return "flushChunk!unguarded"
				}
				f := p.facts[p.Resolve(lastWritten)]
				if f.hasLo && f.lo >= 1 {
					return "flushChunk"
				}
				return "flushChunk!unguarded"
			}
			return anyEffect(w, p, ins)
		}
		paths, over := CollectPaths(c, SeqSpec{Fn: flush, Assume: assumeStop(false), Event: ev, NoMerge: true})
		key := "Flush:guard"
		if over {
			r.Undecided(rule, key, c.Pos(flush.Pos()), "path budget exceeded")
		} else {
			bad := false
			for _, sp := range paths {
				for _, l := range sp.Labels() {
					if l != "flushChunk" {
						r.Fail(rule, key, c.Pos(flush.Pos()), fmt.Sprintf("Flush performs %q outside the `written() > 0` guard: a Flush with nothing pending must emit nothing", l), sp.Trace...)
						bad = true
					}
				}
				if bad {
					break
				}
			}
			if !bad {
				r.Pass(rule, key, c.Pos(flush.Pos()), "every effect of Flush is a flushChunk call dominated by written() > 0", len(paths))
			}
		}
	}
	// (d) flushChunk: with nothing written returns nil without effects; otherwise the frozen word
	{
		for _, pending := range []bool{false, true} {
			var firstWritten *ssa.Call
			assume := func(w *Walker, p *PState, ins ssa.Instruction) {
				if iff, ok := ins.(*ssa.If); ok && firstWritten != nil {
					cond := p.Resolve(iff.Cond)
					if bo, ok := cond.(*ssa.BinOp); ok && isCmp(bo.Op) {
						if p.Resolve(bo.X) == firstWritten || p.Resolve(bo.Y) == firstWritten {
							// written() == 0  <=> !pending
							if k, isK := constInt(bo.Y); isK && k == 0 {
								switch bo.Op {
								case token.EQL, token.LEQ:
									setBoolFact(p, cond, !pending)
								case token.NEQ, token.GTR:
									setBoolFact(p, cond, pending)
								}
							}
						}
					}
				}
			}
			ev := func(w *Walker, p *PState, ins ssa.Instruction) string {
				if call, ok := callTo(ins, written); ok {
					if firstWritten == nil {
						firstWritten = call
					}
					return ""
				}
				switch {
				case isCallTo(ins, encClose):
					return "encoder.Close"
				case isCallTo(ins, writeChunk) && writeChunk != flushChunk:
					return "writeChunk"
				case isCallTo(ins, wUC) || isCallTo(ins, wCC):
					// writeChunk inlined into flushChunk: its two outcomes are the step
					return "writeChunk"
				case isCallTo(ins, encReopen):
					return "encoder.Reopen"
				case isCallTo(ins, next):
					if !isFieldLoadOf(ins.(*ssa.Call).Call.Args[1], fCtype) {
						return "next(?)"
					}
					return "next(ctype)"
				case isCallTo(ins, dflt):
					return ""
				case isCallTo(ins, clone):
					return ""
				}
				if name := stdCalleeName(ins); name == "(*bytes.Buffer).Reset" {
					return "buf.Reset"
				}
				if st, ok := storeToField(ins, fLbwN); ok {
					if k, isK := constInt(st.Val); isK && k == 1<<16 {
						return "lbw.N=65536"
					}
					return "lbw.N=?"
				}
				if st, ok := storeToField(ins, fCtype); ok {
					if cs, ok := st.Val.(*ssa.Call); ok && cs.Call.StaticCallee() == dflt {
						return "ctype=default"
					}
					return "ctype=?"
				}
				if st, ok := storeToField(ins, fStart); ok {
					if cs, ok := st.Val.(*ssa.Call); ok && cs.Call.StaticCallee() == clone && isFieldLoadOf(cs.Call.Args[0], fEncState) {
						return "start=clone(encoder.state)"
					}
					return "start=?"
				}
				return anyEffect(w, p, ins)
			}
			firstWritten = nil
			paths, over := CollectPaths(c, SeqSpec{Fn: flushChunk, Assume: assume, Event: ev, NoMerge: true})
			key := fmt.Sprintf("flushChunk:pending=%v", pending)
			if over || len(paths) == 0 {
				r.Undecided(rule, key, c.Pos(flushChunk.Pos()), "cannot enumerate paths")
				continue
			}
			want := []string{"encoder.Close", "writeChunk", "buf.Reset", "lbw.N=65536", "encoder.Reopen", "next(ctype)", "ctype=default", "start=clone(encoder.state)"}
			bad := false
			for _, sp := range paths {
				l := sp.Labels()
				if !pending {
					if len(l) > 0 || !sp.ErrNil {
						r.Fail(rule, key, c.Pos(flushChunk.Pos()), fmt.Sprintf("with nothing written flushChunk performs [%s]", strings.Join(l, " ")), sp.Trace...)
						bad = true
						break
					}
					continue
				}
				// the order is a partial one: only dependent steps are ordered (the range coder is
				// closed before the chunk is chosen and written; buffer and limit are reset after
				// the chunk was written and before the range coder is reopened on them; the chunk
				// state advances by the type that was written, before that type is replaced; the
				// snapshot is taken after writeChunk, which may restore encoder.state)
				before := [][2]string{{"encoder.Close", "writeChunk"}, {"writeChunk", "buf.Reset"}, {"writeChunk", "lbw.N=65536"},
					{"buf.Reset", "encoder.Reopen"}, {"lbw.N=65536", "encoder.Reopen"}, {"writeChunk", "next(ctype)"},
					{"next(ctype)", "ctype=default"}, {"writeChunk", "start=clone(encoder.state)"}}
				if why := partialOrder(l, want, before, sp.ErrNil); why != "" {
					res := "fails"
					if sp.ErrNil {
						res = "returns nil"
					}
					r.Fail(rule, key, c.Pos(flushChunk.Pos()), fmt.Sprintf("flushChunk %s after [%s]: %s (required steps: [%s])", res, strings.Join(l, " "), why, strings.Join(want, " ")), sp.Trace...)
					bad = true
					break
				}
			}
			if !bad {
				r.Pass(rule, key, c.Pos(flushChunk.Pos()), "flushChunk's paths project onto the frozen event word", len(paths))
			}
		}
	}
	// (e) writeUncompressedChunk: restores the start state, maps the chunk type, header carries the mapped type
	{
		for _, k := range []int{kLZMA, kLZMAState, kLZMAProps, kLZMAAll} {
			kind := k
			assume := func(w *Walker, p *PState, ins ssa.Instruction) {
				if u, ok := loadOfField(ins, fCtype); ok {
					v := p.Resolve(u)
					if v == u { // not yet replaced by a stored value
						setIntFact(p, v, t.vals[kind])
					}
				}
			}
			ev := func(w *Walker, p *PState, ins ssa.Instruction) string {
				if st, ok := storeToField(ins, fCtype); ok {
					if kv, isK := constInt(st.Val); isK {
						return "ctype=" + kindNames[t.kindOf[kv]]
					}
					return "ctype=?"
				}
				if st, ok := storeToField(ins, fEncState); ok {
					if isFieldLoadOf(st.Val, fStart) {
						return "encoder.state=start"
					}
					return "encoder.state=?"
				}
				if call, ok := ins.(*ssa.Call); ok && call.Call.IsInvoke() && call.Call.Method.Name() == "Write" && isFieldLoadOf(call.Call.Value, fW) {
					return "sink.Write"
				}
				return ""
			}
			paths, over := CollectPaths(c, SeqSpec{Fn: wUC, Assume: assume, Event: ev})
			key := "writeUncompressedChunk:" + kindNames[k]
			if over || len(paths) == 0 {
				r.Undecided(rule, key, c.Pos(wUC.Pos()), "cannot enumerate paths")
				continue
			}
			wantType := "ctype=raw"
			if k == kLZMAAll {
				wantType = "ctype=raw+dict-reset"
			}
			bad := false
			seenWrite := false
			for _, sp := range paths {
				i := sp.Index("sink.Write")
				if i < 0 {
					continue
				}
				seenWrite = true
				pre := sp.Labels()[:i]
				hasT, hasS := false, false
				for _, l := range pre {
					if l == wantType {
						hasT = true
					} else if strings.HasPrefix(l, "ctype=") {
						hasT = false
					}
					if l == "encoder.state=start" {
						hasS = true
					}
				}
				if !hasT || !hasS {
					r.Fail(rule, key, c.Pos(wUC.Pos()), fmt.Sprintf("storing a %s chunk raw: before the header is written the writer does [%s]; it must record the emitted type in w.ctype (%s) so that the chunk state advances with it, and restore encoder.state = w.start", kindNames[k], strings.Join(pre, " "), wantType), sp.Trace...)
					bad = true
					break
				}
			}
			if !seenWrite {
				r.Undecided(rule, key, c.Pos(wUC.Pos()), "no path reaches the sink write")
			} else if !bad {
				r.Pass(rule, key, c.Pos(wUC.Pos()), "raw fallback records the mapped chunk type and restores the start-of-chunk coder state before writing", len(paths))
			}
		}
		// the header written carries w.ctype
		chT := c.Type("lzma", "chunkHeader")
		for _, fn := range []*ssa.Function{wUC, wCC} {
			ok := false
			for _, b := range theCtx.GB(fn) {
				for _, ins := range b.Instrs {
					st, isSt := ins.(*ssa.Store)
					if !isSt {
						continue
					}
					if fa, isFA := st.Addr.(*ssa.FieldAddr); isFA {
						if fv := fieldOfAddr(fa); fv != nil && refNameOf(fv) == "ctype" && chT != nil && types.Identical(fa.X.Type().(*types.Pointer).Elem(), chT) {
							if isFieldLoadOf(st.Val, fCtype) {
								ok = true
							}
						}
					}
				}
			}
			r.Check(ok, rule, "header.ctype:"+FnName(fn), c.Pos(fn.Pos()), "the chunk header carries w.ctype",
				FnName(fn)+" does not put w.ctype into the chunk header: the emitted type and the type used to advance the chunk state could differ")
		}
	}
}

func isCallTo(ins ssa.Instruction, fn *ssa.Function) bool {
	_, ok := callTo(ins, fn)
	return ok
}

// oneZeroByte: v is a []byte{0} literal (slice of a fresh 1-element array whose only store is 0).
func oneZeroByte(v ssa.Value) bool {
	sl, ok := v.(*ssa.Slice)
	if !ok {
		return false
	}
	al, ok := sl.X.(*ssa.Alloc)
	if !ok {
		return false
	}
	at, ok := al.Type().(*types.Pointer).Elem().Underlying().(*types.Array)
	if !ok || at.Len() != 1 {
		return false
	}
	for _, ref := range *al.Referrers() {
		if ia, ok := ref.(*ssa.IndexAddr); ok {
			for _, r2 := range *ia.Referrers() {
				if st, ok := r2.(*ssa.Store); ok {
					if k, isK := constInt(st.Val); !isK || k != 0 {
						return false
					}
				}
			}
		}
	}
	return true
}

// urLiteral: the values a composite literal &uncompressedReader{lr: io.LimitedReader{R: r, N: n}, Dict: d}
// stores (nil where absent).
func urLiteral(al *ssa.Alloc) (rv, nv, dv ssa.Value) {
	pt, ok := al.Type().Underlying().(*types.Pointer)
	if !ok {
		return
	}
	if n, isN := pt.Elem().(*types.Named); !isN || refNameOf(n.Obj()) != "uncompressedReader" {
		return
	}
	var scanLR func(base ssa.Value)
	scanLR = func(base ssa.Value) {
		for _, ref := range *base.Referrers() {
			switch x := ref.(type) {
			case *ssa.FieldAddr:
				fv := fieldOfAddr(x)
				if fv == nil {
					continue
				}
				for _, r2 := range *x.Referrers() {
					if st, isSt := r2.(*ssa.Store); isSt && st.Addr == x {
						switch fv.Name() {
						case "R":
							rv = stripConv(st.Val)
						case "N":
							nv = st.Val
						}
					}
				}
			}
		}
	}
	for _, ref := range *al.Referrers() {
		fa, isFA := ref.(*ssa.FieldAddr)
		if !isFA {
			continue
		}
		fv := fieldOfAddr(fa)
		if fv == nil {
			continue
		}
		switch fv.Name() {
		case "Dict":
			for _, r2 := range *fa.Referrers() {
				if st, isSt := r2.(*ssa.Store); isSt && st.Addr == fa {
					dv = st.Val
				}
			}
		case "lr":
			scanLR(fa)
			for _, r2 := range *fa.Referrers() {
				if st, isSt := r2.(*ssa.Store); isSt && st.Addr == fa {
					// *(&t.lr) = *tmp where tmp is the inner literal
					if u, isU := st.Val.(*ssa.UnOp); isU && u.Op == token.MUL {
						if tmp, isAl := u.X.(*ssa.Alloc); isAl {
							scanLR(tmp)
						}
					}
				}
			}
		}
	}
	return
}

package main

func init() {
	register(&propCheck{
		id: "C12",
		explain: "Decided on all paths of Reader.Read / newStreamReader: the stream header is read as a 4-byte io.ReadFull probe followed by the remaining 8 bytes; an all-zero " +
			"probe makes newStreamReader RETURN errPadding (so NewReader reports leading padding as an error) and Reader.Read re-probes on it, never returning it; with " +
			"SingleStream no further header is read, the only clean EOF is the EOF edge of the one-byte probe, a byte => errUnexpectedData, another error => that error; without " +
			"SingleStream the end of a stream sets sr = nil and continues, and is never returned; the only clean end is the whitelisted 4-byte probe hitting EOF (EF-EOF); no error " +
			"of the next-stream probe is postponed and lost (EF-IO); fixed-size reads use io.ReadFull (WMC-READ). NOT decided: the homomorphism on contents; padding-length " +
			"arithmetic beyond 'read in units of 4 bytes with an all-zero test'.",
		run: func(c *Ctx, r *Report) {
			ruleMultiStream(c, r, "")
			ruleSameSource(c, r, "")
			ruleLoopAdvanceExact(c, r, "") // every stream / block of the chain is decoded behind what the previous ones delivered
			// every member of a chain is a stream of its own: the container checks must have the exact
			// relations (an empty member with zero records is valid) and LZMA2 chunk effects
			ruleXZReaderChecks(c, r, "")
			// the per-block check the reader compares is the little-endian digest of the specification
			ruleCheckEncoding(c, r, "")
			ruleWriterTo(c, r, "")
			ruleReader2ChunkEOF(c, r, "")
			ruleBlockSource(c, r, "")
			ruleReopenState(c, r, "")
			// members of a chain share nothing but the source: no package-level state in the reader
			ruleGlobals(c, r, "")
			ruleNondeterminism(c, r, "")
			ruleAllZeros(c, r, "")
			{
				t := getChunkTables(c, r, "")
				ruleStartChunkEffects(c, r, t, "")
			}
			xzReader := c.Cone(nonNilFns(c.Func("", "NewReader"), c.Func("", "ReaderConfig.NewReader"), c.Func("", "Reader.Read"))...)
			ruleEOF(c, r, nonNilFns(c.Func("", "NewReader"), c.Func("", "ReaderConfig.NewReader"), c.Func("", "Reader.Read")), xzReader, "")
			ruleIO(c, r, xzReader, "", true)
			ruleReadInvokes(c, r, "")
		},
	})
}

package main

// TERM — normalised symbolic terms for SSA values, evaluated along one path (PATH).
//
// A term is a string in prefix form. Normal form: integer conversions that do not narrow
// below 32 bits are dropped; ADD/SUB chains are flattened to a sorted sum with a folded
// constant; AND/OR/XOR/MUL operands are flattened and sorted; `>`/`>=` are rewritten to
// `<`/`<=`; multiplication by 2^k is a shift; parameters are `$name`; memory locations are
// named by their access path from a parameter (`@e.state.rep[0]`); loads yield the term
// stored last on the path (symbolic store) or `@path`; one-block in-module functions
// without stores are inlined (getters, prob.bound, state.states, state.litState); other
// pure calls are `(call f args)`; calls with effects are events and their results are
// fresh names `r<k>`. φ-nodes are resolved by the path walker (edge actually taken).
//
// Terms are used to compare what two sibling functions (encoder / decoder side of one
// codec) compute, and to compare a function with a frozen specification term, without
// depending on local names, statement order of independent statements, helper extraction
// or if/switch form.

import (
	"fmt"
	"go/constant"
	"go/token"
	"go/types"
	"os"
	"sort"
	"strconv"
	"strings"

	"golang.org/x/tools/go/ssa"
)

type tEvent struct {
	Callee *ssa.Function
	Call   *ssa.Call
	Name   string   // short callee name
	Args   []string // argument terms at call time
	Result string   // name given to the result
}

func (e tEvent) String() string { return e.Name + "(" + strings.Join(e.Args, ", ") + ")" }

type tstate struct {
	mem     map[string]string    // symbolic store: path -> term
	symv    map[ssa.Value]string // values named at definition time (loads, call results)
	events  []tEvent
	dead    bool
	conds   []string
	nres    int
	extra   map[string]string // client data
	private map[string]bool   // locals no call can change (privateAlloc)
}

func newTState() *tstate {
	return &tstate{mem: map[string]string{}, symv: map[ssa.Value]string{}, extra: map[string]string{}}
}

func (s *tstate) Clone() UserState {
	q := &tstate{mem: make(map[string]string, len(s.mem)), symv: make(map[ssa.Value]string, len(s.symv)),
		events: append([]tEvent(nil), s.events...), conds: append([]string(nil), s.conds...), nres: s.nres, dead: s.dead,
		extra: make(map[string]string, len(s.extra))}
	for k, v := range s.mem {
		q.mem[k] = v
	}
	for k, v := range s.symv {
		q.symv[k] = v
	}
	for k, v := range s.extra {
		q.extra[k] = v
	}
	if len(s.private) > 0 {
		q.private = make(map[string]bool, len(s.private))
		for k, v := range s.private {
			q.private[k] = v
		}
	}
	return q
}

type termEnv struct {
	c     *Ctx
	p     *PState
	s     *tstate
	bind  map[*ssa.Parameter]string // callee parameter -> caller term / path
	depth int
	// rename maps path prefixes to canonical names (e.g. "e.state" -> "S")
	rename [][2]string
	// opaque callees are never inlined
	opaque map[*ssa.Function]bool
}

// staticTerm is the path-independent normal form of v (φ-nodes stay symbols, loads name
// their location): used for formula templates.
func staticTerm(c *Ctx, v ssa.Value, opaque ...*ssa.Function) string {
	env := &termEnv{c: c, s: newTState(), opaque: map[*ssa.Function]bool{}}
	for _, f := range opaque {
		if f != nil {
			env.opaque[f] = true
		}
	}
	return normTerm(env.T(v))
}

func (e *termEnv) canonPath(p string) string {
	for _, r := range e.rename {
		if p == r[0] {
			return r[1]
		}
		if strings.HasPrefix(p, r[0]+".") || strings.HasPrefix(p, r[0]+"[") {
			return r[1] + p[len(r[0]):]
		}
	}
	return p
}

// path of an address / pointer / struct value.
func (e *termEnv) path(v ssa.Value) string {
	if t, ok := e.s.symv[v]; ok && strings.HasPrefix(t, "&") {
		return t[1:]
	}
	if e.p != nil {
		v = e.p.Resolve(v)
	}
	if t, ok := e.s.symv[v]; ok && strings.HasPrefix(t, "&") {
		return t[1:]
	}
	return e.computePath(v)
}

func (e *termEnv) computePath(v ssa.Value) string {
	switch x := v.(type) {
	case *ssa.Parameter:
		if b, ok := e.bind[x]; ok {
			return strings.TrimPrefix(strings.TrimPrefix(b, "&"), "@")
		}
		return refParamName(x)
	case *ssa.FieldAddr:
		return e.path(x.X) + "." + refNameOf(fieldOfAddr(x))
	case *ssa.Field:
		return e.path(x.X) + "." + refNameOf(fieldOfField(x))
	case *ssa.UnOp:
		if x.Op == token.MUL {
			// a loaded pointer: if the store is known use it, else the location's own path
			if t, ok := e.s.symv[x]; ok && strings.HasPrefix(t, "&") {
				return t[1:]
			}
			return e.path(x.X)
		}
	case *ssa.IndexAddr:
		return e.path(x.X) + "[" + e.T(x.Index) + "]"
	case *ssa.Index:
		return e.path(x.X) + "[" + e.T(x.Index) + "]"
	case *ssa.ChangeType:
		return e.path(x.X)
	case *ssa.Alloc:
		// allocations of a new helper (stepped into by the walker) must not share names with the
		// caller's: t0 of the helper is not t0 of the caller
		if pf := x.Parent(); pf != nil && e.c != nil && e.c.IsNew(pf) {
			return "alloc:" + pf.Name() + "." + x.Name()
		}
		return "alloc:" + x.Name()
	case *ssa.Global:
		return "G:" + refNameOf(x.Object())
	case *ssa.Slice:
		if x.Low == nil && x.High == nil {
			return e.path(x.X)
		}
		lo, hi := "", ""
		if x.Low != nil {
			lo = e.T(x.Low)
		}
		if x.High != nil {
			hi = e.T(x.High)
		}
		return e.path(x.X) + "{" + lo + ":" + hi + "}"
	}
	return "v:" + v.Name()
}

func (e *termEnv) cpath(v ssa.Value) string { return e.canonPath(e.path(v)) }

type sumTerm struct {
	c int64
	t map[string]int64
}

func (e *termEnv) sumOf(v ssa.Value, sign int64, acc *sumTerm) {
	e.sumOfTop(v, sign, acc, false)
}

func (e *termEnv) sumOfTop(v ssa.Value, sign int64, acc *sumTerm, top bool) {
	if !top {
		if _, ok := e.s.symv[v]; !ok && e.p != nil {
			v = e.p.Resolve(v)
		}
		if t, ok := e.s.symv[v]; ok {
			e.addTermToSum(t, sign, acc)
			return
		}
	}
	switch x := v.(type) {
	case *ssa.BinOp:
		switch x.Op {
		case token.ADD:
			e.sumOf(x.X, sign, acc)
			e.sumOf(x.Y, sign, acc)
			return
		case token.SUB:
			e.sumOf(x.X, sign, acc)
			e.sumOf(x.Y, -sign, acc)
			return
		}
	case *ssa.UnOp:
		if x.Op == token.SUB {
			e.sumOf(x.X, -sign, acc)
			return
		}
	case *ssa.Convert:
		if keepConv(x) == "" {
			e.sumOf(x.X, sign, acc)
			return
		}
	}
	e.addTermToSum(e.T(v), sign, acc)
}

func (e *termEnv) addTermToSum(t string, sign int64, acc *sumTerm) {
	if k, err := strconv.ParseInt(t, 10, 64); err == nil {
		acc.c += sign * k
		return
	}
	if strings.HasPrefix(t, "(neg ") {
		sign, t = -sign, t[5:len(t)-1]
	}
	// a recorded term may itself be a sum
	if strings.HasPrefix(t, "(+ ") {
		parts := splitTerm(t[3 : len(t)-1])
		for _, part := range parts {
			coef := int64(1)
			if strings.HasPrefix(part, "(neg ") {
				coef, part = -1, part[5:len(part)-1]
			}
			if k, err := strconv.ParseInt(part, 10, 64); err == nil {
				acc.c += sign * coef * k
				continue
			}
			acc.t[part] += sign * coef
		}
		return
	}
	acc.t[t] += sign
}

func (a *sumTerm) String() string {
	var ks []string
	for k, v := range a.t {
		if v != 0 {
			ks = append(ks, k)
		}
	}
	sort.Strings(ks)
	var parts []string
	for _, k := range ks {
		v := a.t[k]
		n := v
		if n < 0 {
			n = -n
		}
		for i := int64(0); i < n; i++ {
			if v < 0 {
				parts = append(parts, "(neg "+k+")")
			} else {
				parts = append(parts, k)
			}
		}
	}
	if a.c != 0 || len(parts) == 0 {
		parts = append(parts, strconv.FormatInt(a.c, 10))
	}
	if len(parts) == 1 {
		return parts[0]
	}
	return "(+ " + strings.Join(parts, " ") + ")"
}

// splitTerm splits a space-separated list of terms at top level.
func splitTerm(s string) []string {
	var out []string
	depth, start := 0, 0
	for i := 0; i < len(s); i++ {
		switch s[i] {
		case '(':
			depth++
		case ')':
			depth--
		case ' ':
			if depth == 0 {
				if i > start {
					out = append(out, s[start:i])
				}
				start = i + 1
			}
		}
	}
	if start < len(s) {
		out = append(out, s[start:])
	}
	return out
}

// narrow32: also mark 64 -> 32 bit truncations (only the range coder rule needs them; the
// operation layer converts int64 distances it has range-checked).
var narrow32 bool

// keepConv names a conversion that changes the value (narrowing to 8/16 bits); "" = transparent.
func keepConv(x *ssa.Convert) string {
	to, ok1 := x.Type().Underlying().(*types.Basic)
	from, ok2 := x.X.Type().Underlying().(*types.Basic)
	if !ok1 || !ok2 || to.Info()&types.IsInteger == 0 || from.Info()&types.IsInteger == 0 {
		return "conv"
	}
	size := func(b *types.Basic) int {
		switch b.Kind() {
		case types.Int8, types.Uint8:
			return 8
		case types.Int16, types.Uint16:
			return 16
		case types.Int32, types.Uint32:
			return 32
		}
		return 64
	}
	if size(to) < size(from) && (size(to) <= 16 || narrow32) {
		return "u" + strconv.Itoa(size(to))
	}
	// arithmetic done in 8/16/32 bits and widened afterwards wraps before it is widened:
	// int64((s+1)*4) with s uint32 is not (int64(s)+1)*4
	if size(to) > size(from) && size(from) <= 32 {
		if bo, ok := x.X.(*ssa.BinOp); ok {
			switch bo.Op {
			case token.ADD, token.SUB, token.MUL, token.SHL:
				return "w" + strconv.Itoa(size(from))
			}
		}
	}
	return ""
}

func (e *termEnv) flat(op token.Token, v ssa.Value, out *[]string) {
	e.flatTop(op, v, out, false)
}

func (e *termEnv) flatTop(op token.Token, v ssa.Value, out *[]string, top bool) {
	if !top {
		if _, ok := e.s.symv[v]; !ok && e.p != nil {
			v = e.p.Resolve(v)
		}
		if t, ok := e.s.symv[v]; ok {
			pre := "(" + opNames[op] + " "
			if strings.HasPrefix(t, pre) {
				*out = append(*out, splitTerm(t[len(pre):len(t)-1])...)
			} else {
				*out = append(*out, t)
			}
			return
		}
	}
	if b, ok := v.(*ssa.BinOp); ok && b.Op == op {
		e.flat(op, b.X, out)
		e.flat(op, b.Y, out)
		return
	}
	if cv, ok := v.(*ssa.Convert); ok && keepConv(cv) == "" {
		e.flat(op, cv.X, out)
		return
	}
	*out = append(*out, e.T(v))
}

var opNames = map[token.Token]string{token.AND: "and", token.OR: "or", token.XOR: "xor", token.MUL: "mul",
	token.SHL: "shl", token.SHR: "shr", token.AND_NOT: "andnot", token.QUO: "div", token.REM: "rem",
	token.EQL: "eq", token.NEQ: "ne", token.LSS: "lt", token.LEQ: "le"}

// T returns the normal-form term of v on the current path.
func (e *termEnv) T(v ssa.Value) string {
	if t, ok := e.s.symv[v]; ok {
		return t
	}
	if e.p != nil {
		v = e.p.Resolve(v)
	}
	if t, ok := e.s.symv[v]; ok {
		return t
	}
	return simplify(e.compute(v))
}

// compute builds the term of v from its operands, ignoring a recorded term of v itself.
func (e *termEnv) compute(v ssa.Value) string {
	if e.p != nil {
		// results of helper calls the walker stepped through
		if r := e.p.Resolve(v); r != v {
			return e.T(r)
		}
	}
	switch x := v.(type) {
	case *ssa.Const:
		if x.Value == nil {
			return "nil"
		}
		switch x.Value.Kind() {
		case constant.Int:
			return x.Value.ExactString()
		case constant.Bool:
			return x.Value.String()
		}
		return "const:" + x.Value.ExactString()
	case *ssa.Parameter:
		if b, ok := e.bind[x]; ok {
			return b
		}
		if _, isPtr := x.Type().Underlying().(*types.Pointer); isPtr {
			return "&" + e.canonPath(refParamName(x))
		}
		return "$" + refParamName(x)
	case *ssa.Convert:
		if k := keepConv(x); k != "" {
			return "(" + k + " " + e.T(x.X) + ")"
		}
		return e.T(x.X)
	case *ssa.ChangeType:
		return e.T(x.X)
	case *ssa.MakeInterface:
		return e.T(x.X)
	case *ssa.UnOp:
		switch x.Op {
		case token.MUL:
			if av, ok := frozenLoad(e.c, e.p, x.X, func(iv ssa.Value) (int64, bool) {
				k, err := strconv.ParseInt(e.T(iv), 10, 64)
				return k, err == nil
			}); ok && e.c != nil {
				if k, isInt := av.Int(); isInt {
					return strconv.FormatInt(k, 10)
				}
				if b, isB := av.Bool(); isB {
					return strconv.FormatBool(b)
				}
			}
			p := e.cpath(x.X)
			if t, ok := e.s.mem[p]; ok {
				return t
			}
			// a field of a value that was stored as a whole (a by-value parameter spilled into a
			// local: mem[alloc:t0] = $m, load of alloc:t0.distance is $m.distance)
			for i := len(p) - 1; i > 0; i-- {
				if p[i] != '.' && p[i] != '[' {
					continue
				}
				if t, ok := e.s.mem[p[:i]]; ok && strings.HasPrefix(t, "$") && strings.HasPrefix(p, "alloc:") {
					return t + p[i:]
				}
			}
			return "@" + p
		case token.SUB:
			acc := &sumTerm{t: map[string]int64{}}
			e.sumOfTop(x, 1, acc, true)
			return acc.String()
		case token.NOT:
			return "(not " + e.T(x.X) + ")"
		case token.XOR:
			return "(compl " + e.T(x.X) + ")"
		}
	case *ssa.BinOp:
		switch x.Op {
		case token.ADD, token.SUB:
			acc := &sumTerm{t: map[string]int64{}}
			e.sumOfTop(x, 1, acc, true)
			return acc.String()
		case token.AND, token.OR, token.XOR:
			var parts []string
			e.flatTop(x.Op, x, &parts, true)
			sort.Strings(parts)
			return "(" + opNames[x.Op] + " " + strings.Join(parts, " ") + ")"
		case token.MUL:
			a, b := e.T(x.X), e.T(x.Y)
			for _, pr := range [][2]string{{a, b}, {b, a}} {
				if k, err := strconv.ParseInt(pr[0], 10, 64); err == nil && k > 0 && k&(k-1) == 0 {
					sh := 0
					for k > 1 {
						k >>= 1
						sh++
					}
					return "(shl " + pr[1] + " " + strconv.Itoa(sh) + ")"
				}
			}
			if a > b {
				a, b = b, a
			}
			return "(mul " + a + " " + b + ")"
		case token.GTR:
			return "(lt " + e.T(x.Y) + " " + e.T(x.X) + ")"
		case token.GEQ:
			return "(le " + e.T(x.Y) + " " + e.T(x.X) + ")"
		case token.EQL, token.NEQ:
			a, b := e.T(x.X), e.T(x.Y)
			if a > b {
				a, b = b, a
			}
			return "(" + opNames[x.Op] + " " + a + " " + b + ")"
		default:
			if n, ok := opNames[x.Op]; ok {
				return "(" + n + " " + e.T(x.X) + " " + e.T(x.Y) + ")"
			}
		}
	case *ssa.Field:
		return "@" + e.cpath(x)
	case *ssa.Index:
		return "@" + e.cpath(x)
	case *ssa.FieldAddr, *ssa.IndexAddr:
		return "&" + e.cpath(x)
	case *ssa.Alloc, *ssa.Global:
		return "&" + e.cpath(x)
	case *ssa.Slice:
		lo, hi := "", ""
		if x.Low != nil {
			lo = e.T(x.Low)
		}
		if x.High != nil {
			hi = e.T(x.High)
		}
		if lo == "" && hi == "" {
			return e.T(x.X)
		}
		return "(slice " + e.T(x.X) + " " + lo + ":" + hi + ")"
	case *ssa.Extract:
		t := e.T(x.Tuple)
		if strings.HasPrefix(t, "(tuple ") {
			parts := splitTerm(t[7 : len(t)-1])
			if x.Index < len(parts) {
				return parts[x.Index]
			}
		}
		return "(ext" + strconv.Itoa(x.Index) + " " + t + ")"
	case *ssa.Call:
		return e.callTerm(x)
	case *ssa.Phi:
		return "%" + x.Name()
	case *ssa.Function:
		return "fn:" + FnName(x)
	case *ssa.Builtin:
		return "builtin:" + x.Name()
	}
	return "v:" + v.Name()
}

func (e *termEnv) callTerm(x *ssa.Call) string {
	if b, ok := x.Call.Value.(*ssa.Builtin); ok {
		var as []string
		for _, a := range x.Call.Args {
			as = append(as, e.T(a))
		}
		return "(" + b.Name() + " " + strings.Join(as, " ") + ")"
	}
	callee := x.Call.StaticCallee()
	if callee == nil {
		if x.Call.IsInvoke() {
			as := []string{e.T(x.Call.Value)}
			for _, a := range x.Call.Args {
				as = append(as, e.T(a))
			}
			return "(invoke " + x.Call.Method.Name() + " " + strings.Join(as, " ") + ")"
		}
		return "(dyn " + x.Call.Value.Name() + ")"
	}
	var as []string
	for _, a := range x.Call.Args {
		as = append(as, e.T(a))
	}
	if e.c.InModule(callee) && e.depth < 4 && !e.opaque[callee] {
		if t, ok := e.inline(callee, x.Call.Args, as); ok {
			return t
		}
		if t, ok := iteCallee(callee, as); ok {
			return simplify(t)
		}
	}
	return "(call " + shortFn(callee) + " " + strings.Join(as, " ") + ")"
}

func shortFn(fn *ssa.Function) string {
	n := FnName(fn)
	n = strings.ReplaceAll(n, "(*lzma.", "")
	n = strings.ReplaceAll(n, "(lzma.", "")
	n = strings.ReplaceAll(n, "lzma.", "")
	n = strings.ReplaceAll(n, ")", "")
	return n
}

// inline evaluates a one-block callee without stores as terms over the caller's terms.
func (e *termEnv) inline(callee *ssa.Function, args []ssa.Value, argTerms []string) (string, bool) {
	if len(callee.Blocks) != 1 || len(callee.Params) != len(args) {
		return "", false
	}
	var ret *ssa.Return
	for _, ins := range callee.Blocks[0].Instrs {
		switch y := ins.(type) {
		case *ssa.Return:
			ret = y
		case *ssa.Store, *ssa.MapUpdate, *ssa.Send, *ssa.Go, *ssa.Defer, *ssa.Panic:
			return "", false
		case *ssa.Call:
			if _, ok := y.Call.Value.(*ssa.Builtin); ok {
				continue
			}
			sc := y.Call.StaticCallee()
			if sc == nil || !e.c.InModule(sc) || !e.c.isPure(sc) {
				return "", false
			}
		}
	}
	if ret == nil || len(ret.Results) == 0 {
		return "", false
	}
	sub := &termEnv{c: e.c, s: e.s, bind: map[*ssa.Parameter]string{}, depth: e.depth + 1, rename: e.rename, opaque: e.opaque}
	for i, p := range callee.Params {
		sub.bind[p] = argTerms[i]
	}
	if len(ret.Results) == 1 {
		return sub.T(ret.Results[0]), true
	}
	var rs []string
	for _, r := range ret.Results {
		rs = append(rs, sub.T(r))
	}
	return "(tuple " + strings.Join(rs, " ") + ")", true
}

// isPure: the function (transitively, in-module static calls) stores nothing outside its
// own allocations, makes no dynamic or foreign call.
func (c *Ctx) isPure(fn *ssa.Function) bool {
	if c.pure == nil {
		c.pure = map[*ssa.Function]int8{}
	}
	switch c.pure[fn] {
	case 1:
		return true
	case 2:
		return false
	case 3:
		return true // recursion: assume, fixed below
	}
	c.pure[fn] = 3
	ok := fn.Blocks != nil
	for _, b := range fn.Blocks {
		for _, ins := range b.Instrs {
			switch y := ins.(type) {
			case *ssa.Store:
				if !termLocalAddr(y.Addr) {
					ok = false
				}
			case *ssa.MapUpdate, *ssa.Send, *ssa.Go, *ssa.Defer:
				ok = false
			case *ssa.Call:
				if bi, isB := y.Call.Value.(*ssa.Builtin); isB {
					if bi.Name() == "copy" || bi.Name() == "append" || bi.Name() == "delete" {
						ok = false
					}
					continue
				}
				sc := y.Call.StaticCallee()
				if sc != nil && sc.Pkg != nil && (sc.Pkg.Pkg.Path() == "fmt" && strings.HasPrefix(sc.Name(), "Sprint") || sc.Pkg.Pkg.Path() == "fmt" && sc.Name() == "Errorf" || sc.Pkg.Pkg.Path() == "errors" && sc.Name() == "New") {
					continue // building a message / error value has no effect on the program state
				}
				if sc == nil || !c.InModule(sc) || !c.isPure(sc) {
					ok = false
				}
			}
		}
	}
	if ok {
		c.pure[fn] = 1
	} else {
		c.pure[fn] = 2
	}
	return ok
}

func termLocalAddr(a ssa.Value) bool {
	for i := 0; i < 8; i++ {
		switch x := a.(type) {
		case *ssa.Alloc:
			if x.Comment == "varargs" || x.Comment == "complit" {
				return true // fresh object built here
			}
			return !x.Heap
		case *ssa.FieldAddr:
			a = x.X
		case *ssa.IndexAddr:
			a = x.X
		default:
			return false
		}
	}
	return false
}

// ---- path extraction with symbolic store ----

type termPath struct {
	Events []tEvent
	Conds  []string
	Mem    map[string]string
	Rets   []string
	Exit   ssa.Instruction
	P      *PState
	S      *tstate
}

type termSpec struct {
	Fn     *ssa.Function
	Rename [][2]string
	// Event is asked for every call with effects (not pure); it says whether the call is
	// recorded as an event and may name the call's result ("" = default r<k>). nil = record all.
	Event func(env *termEnv, call *ssa.Call, callee *ssa.Function) (keep bool, result string)
	// InitSym presets the terms of values (e.g. a parameter bound to a constant).
	InitSym map[ssa.Value]string
	// InitMem seeds the symbolic store (e.g. a concrete geometry: "tc.probTree.bits" -> "3").
	InitMem map[string]string
	// BitCallee: results of these callees are named b<k>; result #0 is a single bit.
	BitCallee func(callee *ssa.Function) bool
	// KeepMem: locations of the symbolic store that no call can change (justified by the client).
	KeepMem func(path string) bool
	// KeepErrPaths keeps paths that return a non-nil error.
	KeepErrPaths bool
	MaxVisit     int
}

func collectTermPaths(c *Ctx, spec termSpec) (paths []termPath, overflow bool) {
	w := &Walker{C: c, Fn: spec.Fn, MaxVisit: spec.MaxVisit}
	mk := func(p *PState) *termEnv {
		return &termEnv{c: c, p: p, s: p.U.(*tstate), rename: spec.Rename}
	}
	w.Instr = func(p *PState, ins ssa.Instruction) bool {
		env := mk(p)
		s := env.s
		if s.dead {
			return false
		}
		if v, isVal := ins.(ssa.Value); isVal {
			if _, isCall := ins.(*ssa.Call); !isCall {
				if pa, isAddr := addrLike(v); isAddr {
					s.symv[v] = "&" + env.canonPath(env.computePath(pa))
				} else {
					s.symv[v] = simplify(env.compute(v))
				}
			}
		}
		if al, isAl := ins.(*ssa.Alloc); isAl && privateAlloc(c, al, 0) {
			if s.private == nil {
				s.private = map[string]bool{}
			}
			s.private[env.cpath(al)] = true
		}
		switch x := ins.(type) {
		case *ssa.Store:
			dst, val := env.cpath(x.Addr), env.T(x.Val)
			// a whole struct copied from another local (a by-value result of a helper): the fields known
			// for the source are known for the destination (a snapshot); older fields of it are gone
			if _, isSt := x.Val.Type().Underlying().(*types.Struct); isSt && strings.HasPrefix(val, "@alloc:") && strings.HasPrefix(dst, "alloc:") {
				src := val[1:]
				for k := range s.mem {
					if strings.HasPrefix(k, dst+".") || strings.HasPrefix(k, dst+"[") {
						delete(s.mem, k)
					}
				}
				for k, t := range s.mem {
					if strings.HasPrefix(k, src+".") || strings.HasPrefix(k, src+"[") {
						s.mem[dst+k[len(src):]] = t
					}
				}
			}
			s.mem[dst] = val
		case *ssa.Call:
			if _, isB := x.Call.Value.(*ssa.Builtin); isB {
				return true
			}
			callee := x.Call.StaticCallee()
			if callee != nil && c.InModule(callee) && c.isPure(callee) {
				// value computed at call time (memory may change later)
				s.symv[x] = env.callTerm(x)
				return true
			}
			keep, res := true, ""
			if spec.Event != nil {
				keep, res = spec.Event(env, x, callee)
			}
			if res == "" {
				s.nres++
				res = "r" + strconv.Itoa(s.nres)
				if spec.BitCallee != nil && callee != nil && spec.BitCallee(callee) {
					res = "b" + strconv.Itoa(s.nres)
				}
			}
			if keep {
				ev := tEvent{Callee: callee, Call: x, Name: "dyn:" + x.Call.Value.Name(), Result: res}
				if callee != nil {
					ev.Name = shortFn(callee)
				} else if x.Call.IsInvoke() {
					ev.Name = "invoke:" + x.Call.Method.Name()
					ev.Args = append(ev.Args, env.T(x.Call.Value))
				}
				for _, a := range x.Call.Args {
					ev.Args = append(ev.Args, env.T(a))
				}
				s.events = append(s.events, ev)
			}
			s.symv[x] = res
			// effects of the callee on memory named by the store: forget what it may write
			if callee != nil {
				ms := c.reachMods(callee)
				for k := range s.mem {
					if spec.KeepMem != nil && spec.KeepMem(k) {
						continue
					}
					if s.private[allocRoot(k)] {
						continue
					}
					if memMayChange(k, ms) {
						delete(s.mem, k)
					}
				}
			} else {
				for k := range s.mem {
					if (spec.KeepMem == nil || !spec.KeepMem(k)) && !s.private[allocRoot(k)] {
						delete(s.mem, k)
					}
				}
			}
		}
		return true
	}
	w.PhiAssign = func(p *PState, phis []*ssa.Phi, vals []ssa.Value) {
		env := mk(p)
		ts := make([]string, len(phis))
		for i, v := range vals {
			ts[i] = env.T(v)
		}
		for i, ph := range phis {
			env.s.symv[ph] = ts[i]
		}
	}
	w.Branch = func(p *PState, iff *ssa.If, taken bool) {
		env := mk(p)
		t := env.T(iff.Cond)
		if !taken {
			t = negTerm(t)
		}
		t = simplify(t)
		switch t {
		case "true":
			return
		case "false":
			env.s.dead = true
			if os.Getenv("XZV_TRACE") != "" {
				fmt.Println("DEAD at", c.InstrPos(iff), "taken", taken, "cond", env.T(iff.Cond), "after", env.s.conds)
			}
			return
		}
		env.s.conds = append(env.s.conds, t)
	}
	w.Exit = func(p *PState, ins ssa.Instruction) {
		env := mk(p)
		if env.s.dead {
			return
		}
		tp := termPath{Events: env.s.events, Conds: env.s.conds, Mem: env.s.mem, Exit: ins, P: p, S: env.s}
		if ret, ok := ins.(*ssa.Return); ok {
			for _, r := range ret.Results {
				tp.Rets = append(tp.Rets, env.T(r))
			}
			if !spec.KeepErrPaths {
				for _, r := range ret.Results {
					if isErrType(r.Type()) && p.NonNil(r) {
						return
					}
				}
			}
		} else if !spec.KeepErrPaths {
			return
		}
		paths = append(paths, tp)
	}
	init := newTState()
	for k, v := range spec.InitMem {
		init.mem[k] = v
	}
	for k, v := range spec.InitSym {
		init.symv[k] = v
	}
	w.Run(init)
	return paths, w.Overflow
}

func negTerm(t string) string {
	switch {
	case strings.HasPrefix(t, "(not "):
		return t[5 : len(t)-1]
	case strings.HasPrefix(t, "(eq "):
		return "(ne " + t[4:]
	case strings.HasPrefix(t, "(ne "):
		return "(eq " + t[4:]
	case strings.HasPrefix(t, "(lt "):
		parts := splitTerm(t[4 : len(t)-1])
		if len(parts) == 2 {
			return "(le " + parts[1] + " " + parts[0] + ")"
		}
	case strings.HasPrefix(t, "(le "):
		parts := splitTerm(t[4 : len(t)-1])
		if len(parts) == 2 {
			return "(lt " + parts[1] + " " + parts[0] + ")"
		}
	}
	return "(not " + t + ")"
}

// memMayChange: the symbolic location named by path key may be written by a callee with
// the given mod set (field-based: last field name on the path).
// privateAlloc: a local whose address never leaves the function except into new helpers (which
// the walker steps through) that use it for field access only: no other call can change it.
func privateAlloc(c *Ctx, v ssa.Value, depth int) bool {
	if depth > 3 || v.Referrers() == nil {
		return false
	}
	for _, ref := range *v.Referrers() {
		switch x := ref.(type) {
		case *ssa.Store:
			if x.Val == v {
				return false
			}
		case *ssa.UnOp, *ssa.DebugRef:
		case *ssa.FieldAddr:
			if !privateAlloc(c, x, depth+1) {
				return false
			}
		case *ssa.IndexAddr:
			if x.X != v || !privateAlloc(c, x, depth+1) {
				return false
			}
		case *ssa.Call:
			cal := x.Call.StaticCallee()
			if cal == nil || !c.IsNew(cal) || len(cal.Params) != len(x.Call.Args) {
				return false
			}
			for i, a := range x.Call.Args {
				if a == v && !privateAlloc(c, cal.Params[i], depth+1) {
					return false
				}
			}
		default:
			return false
		}
	}
	return true
}

// allocRoot: "alloc:t1.symbol[3]" -> "alloc:t1"; "alloc:helper.t0.m" -> "alloc:helper.t0".
func allocRoot(k string) string {
	if !strings.HasPrefix(k, "alloc:") {
		return ""
	}
	rest := k[len("alloc:"):]
	if n := allocNameLen(rest); n > 0 {
		return k[:len("alloc:")+n]
	}
	if i := strings.Index(rest, "."); i >= 0 {
		if n := allocNameLen(rest[i+1:]); n > 0 {
			return k[:len("alloc:")+i+1+n]
		}
	}
	return k
}

// allocNameLen: length of a leading register name tN that ends the component.
func allocNameLen(s string) int {
	if len(s) < 2 || s[0] != 't' {
		return 0
	}
	j := 1
	for j < len(s) && s[j] >= '0' && s[j] <= '9' {
		j++
	}
	if j > 1 && (j == len(s) || s[j] == '.' || s[j] == '[' || s[j] == '{') {
		return j
	}
	return 0
}

func memMayChange(key string, ms *modSet) bool {
	if ms == nil || ms.all {
		return true
	}
	// last field component
	k := key
	if i := strings.LastIndex(k, "["); i >= 0 && strings.HasSuffix(k, "]") {
		k = k[:i]
	}
	name := k
	if i := strings.LastIndex(k, "."); i >= 0 {
		name = k[i+1:]
	}
	for id := range ms.ids {
		if i := strings.Index(id, "@"); i >= 0 && id[:i] == name {
			return true
		}
	}
	return false
}

var _ = fmt.Sprintf

// addrLike: v denotes a memory location (field / element address).
func addrLike(v ssa.Value) (ssa.Value, bool) {
	switch v.(type) {
	case *ssa.FieldAddr, *ssa.IndexAddr:
		return v, true
	}
	return nil, false
}

// iteCallee recognises `func f(c bool) T { if c { return K1 }; return K0 }` (iverson).
func iteCallee(fn *ssa.Function, args []string) (string, bool) {
	if len(fn.Params) != 1 || len(args) != 1 || len(fn.Blocks) != 3 {
		return "", false
	}
	iff, ok := fn.Blocks[0].Instrs[len(fn.Blocks[0].Instrs)-1].(*ssa.If)
	if !ok || iff.Cond != fn.Params[0] || len(fn.Blocks[0].Instrs) != 1 {
		return "", false
	}
	val := func(b *ssa.BasicBlock) (string, bool) {
		if len(b.Instrs) != 1 {
			return "", false
		}
		r, ok := b.Instrs[0].(*ssa.Return)
		if !ok || len(r.Results) != 1 {
			return "", false
		}
		k, ok := constInt(r.Results[0])
		return strconv.FormatInt(k, 10), ok
	}
	a, ok1 := val(fn.Blocks[0].Succs[0])
	b, ok2 := val(fn.Blocks[0].Succs[1])
	if !ok1 || !ok2 {
		return "", false
	}
	return "(ite " + args[0] + " " + a + " " + b + ")", true
}

// simplify folds constant comparisons and selections at the top of a term.
func simplify(t string) string {
	if !strings.HasPrefix(t, "(") {
		return t
	}
	sp := strings.IndexByte(t, ' ')
	if sp < 0 {
		return t
	}
	op := t[1:sp]
	args := splitTerm(t[sp+1 : len(t)-1])
	num := func(s string) (int64, bool) {
		k, err := strconv.ParseInt(s, 10, 64)
		return k, err == nil
	}
	boolS := func(b bool) string {
		if b {
			return "true"
		}
		return "false"
	}
	switch op {
	case "lt", "le", "eq", "ne":
		if len(args) != 2 {
			return t
		}
		a, oka := num(args[0])
		b, okb := num(args[1])
		if !(oka && okb) {
			// interval reasoning: bits, shifts, disjoint ors
			alo, ahi, ok1 := termRange(args[0])
			blo, bhi, ok2 := termRange(args[1])
			if ok1 && ok2 {
				switch op {
				case "lt":
					if ahi < blo {
						return "true"
					}
					if alo >= bhi {
						return "false"
					}
				case "le":
					if ahi <= blo {
						return "true"
					}
					if alo > bhi {
						return "false"
					}
				case "eq":
					if ahi < blo || bhi < alo {
						return "false"
					}
				case "ne":
					if ahi < blo || bhi < alo {
						return "true"
					}
				}
			}
		}
		if oka && okb {
			switch op {
			case "lt":
				return boolS(a < b)
			case "le":
				return boolS(a <= b)
			case "eq":
				return boolS(a == b)
			case "ne":
				return boolS(a != b)
			}
		}
		if op == "eq" || op == "ne" {
			// (eq K (ite c A B)) with constants
			for i := 0; i < 2; i++ {
				k, okk := num(args[i])
				o := args[1-i]
				if okk && strings.HasPrefix(o, "(ite ") {
					ia := splitTerm(o[5 : len(o)-1])
					if len(ia) == 3 {
						x, okx := num(ia[1])
						y, oky := num(ia[2])
						if okx && oky && x != y {
							var r string
							switch {
							case k == x:
								r = ia[0]
							case k == y:
								r = negTerm(ia[0])
							default:
								r = "false"
							}
							if op == "ne" {
								r = negTerm(r)
							}
							return simplify(r)
						}
					}
				}
			}
			if args[0] == args[1] {
				return boolS(op == "eq")
			}
		}
	case "shl", "shr":
		if len(args) == 2 && op == "shl" && strings.HasPrefix(args[0], "(+ ") {
			// (a + b) << k  =  (a << k) + (b << k): one normal form for `(x+1)*4` and `x*4+4`
			if k, okk := num(args[1]); okk && k >= 0 && k < 32 {
				var parts []string
				for _, p := range splitTerm(args[0][3 : len(args[0])-1]) {
					if c, isC := num(p); isC {
						parts = append(parts, strconv.FormatInt(c<<uint(k), 10))
					} else {
						parts = append(parts, simplify("(shl "+p+" "+args[1]+")"))
					}
				}
				return normTerm("(+ " + strings.Join(parts, " ") + ")")
			}
		}
		if len(args) == 2 {
			a, oka := num(args[0])
			b, okb := num(args[1])
			if oka && okb && a >= 0 && b >= 0 && b < 62 {
				if op == "shl" {
					return strconv.FormatInt(a<<uint(b), 10)
				}
				return strconv.FormatInt(a>>uint(b), 10)
			}
			if okb && b == 0 {
				return args[0]
			}
		}
	case "neg":
		if len(args) == 1 {
			if a, ok := num(args[0]); ok {
				return strconv.FormatInt(-a, 10)
			}
		}
	case "not":
		if len(args) == 1 {
			switch args[0] {
			case "true":
				return "false"
			case "false":
				return "true"
			}
			if n := negTerm(args[0]); !strings.HasPrefix(n, "(not ") {
				return simplify(n)
			}
		}
	case "ite":
		if len(args) == 3 {
			switch simplify(args[0]) {
			case "true":
				return args[1]
			case "false":
				return args[2]
			}
		}
	}
	return t
}

// termRange: a conservative interval for a non-negative integer term. Results named b<k>
// are decoded bits (0/1); (and X 1) is a bit; shifts by constants scale; an `or` of a
// value shifted left by >= j with values below 2^j is their sum; sums add.
func termRange(t string) (lo, hi int64, ok bool) {
	if k, err := strconv.ParseInt(t, 10, 64); err == nil {
		return k, k, k >= 0
	}
	if strings.HasPrefix(t, "(ext0 b") && strings.HasSuffix(t, ")") {
		return 0, 1, true
	}
	if !strings.HasPrefix(t, "(") {
		return 0, 0, false
	}
	sp := strings.IndexByte(t, ' ')
	if sp < 0 {
		return 0, 0, false
	}
	op := t[1:sp]
	args := splitTerm(t[sp+1 : len(t)-1])
	switch op {
	case "and":
		// bounded by the smallest constant operand
		best := int64(-1)
		for _, a := range args {
			if k, err := strconv.ParseInt(a, 10, 64); err == nil && k >= 0 && (best < 0 || k < best) {
				best = k
			}
			if _, h, ok := termRange(a); ok && (best < 0 || h < best) {
				best = h
			}
		}
		if best >= 0 {
			return 0, best, true
		}
	case "shl":
		if len(args) == 2 {
			l, h, ok1 := termRange(args[0])
			k, err := strconv.ParseInt(args[1], 10, 64)
			if ok1 && err == nil && k >= 0 && k < 40 && h < 1<<20 {
				return l << uint(k), h << uint(k), true
			}
		}
	case "shr":
		if len(args) == 2 {
			l, h, ok1 := termRange(args[0])
			k, err := strconv.ParseInt(args[1], 10, 64)
			if ok1 && err == nil && k >= 0 && k < 62 {
				return l >> uint(k), h >> uint(k), true
			}
		}
	case "or":
		// a|b >= max(a, b) and a|b <= a+b
		var mlo, shi int64
		for _, a := range args {
			l, h, ok1 := termRange(a)
			if !ok1 {
				return 0, 0, false
			}
			if l > mlo {
				mlo = l
			}
			shi += h
		}
		return mlo, shi, true
	case "+":
		var sl, sh int64
		for _, a := range args {
			l, h, ok1 := termRange(a)
			if !ok1 {
				return 0, 0, false
			}
			sl += l
			sh += h
		}
		return sl, sh, true
	case "ite":
		if len(args) == 3 {
			l1, h1, ok1 := termRange(args[1])
			l2, h2, ok2 := termRange(args[2])
			if ok1 && ok2 {
				if l2 < l1 {
					l1 = l2
				}
				if h2 > h1 {
					h1 = h2
				}
				return l1, h1, true
			}
		}
	}
	return 0, 0, false
}

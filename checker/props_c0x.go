package main

func init() {
	register(&propCheck{
		id: "C02",
		explain: "Decided: the writer-side TABLES, CONSTANTS, FORMULAS and WIRING equal the formats' (each shared by encoder and decoder, hence invisible to round-trip " +
			"tests): ~45 named constants, magic bytes, CRC polynomials / constructors, range-coder thresholds (TM-CONST); padLen = [0,3,2,1]; check ids {0,1,4,10} -> " +
			"none/CRC32/CRC64/SHA-256; little-endian check encoding and uvarint encoding by finite-domain evaluation; CRC32 coverage of stream header, footer, block header; " +
			"index written through the CRC'd writer with the CRC taken afterwards; record field order in writer and reader; unpadded-size formula; backward-size formula; " +
			"block header size byte and flag bits; block trailer = padding + check; chunk header codec, chunk sequencing legality, chunk budget constants/stores; declared " +
			"dictionary = smallest code >= capacity (C18 rules) with matcher distances bounded by DictLen; coder state tables, probability update, literal/position context " +
			"formulas, codec geometry = LZMA specification. NOT decided: that an independent decoder recovers the bytes (range-coder arithmetic, codec loops, match finder " +
			"contents); the 64 KiB bound of raw chunks (numeric, via opLenMargin).",
		run: func(c *Ctx, r *Report) {
			ruleSpecConstants(c, r, "")
			ruleXZWriterFormat(c, r, "")
			rulePadLen(c, r, "")
			ruleCheckIDs(c, r, "")
			t := getChunkTables(c, r, "")
			ruleChunkHeaderCodec(c, r, t, "")
			ruleWriterChunkLegality(c, r, t, "")
			ruleWriter2(c, r, t, "")
			ruleChunkLimits(c, r, "")
			ruleDictCapDecode(c, r, "")
			ruleDictCapEncode(c, r, "")
			ruleLzmaFilterCodec(c, r, "")
			ruleMatcherGuard(c, r, "", false)
			ruleDeepCopy(c, r, "")
			ruleOpSiblings(c, r, "")
			ruleCodecSiblings(c, r, "")
			ruleCounting(c, r, "", "write")
			ruleBlockWriterHash(c, r, "")
			ruleBlockFilters(c, r, "")
			ruleFilterWriterDict(c, r, "")
			ruleEncoderDictArgs(c, r, "")
			ruleRingModulus(c, r, "", "enc")
			ruleSpecIndices(c, r, "")
			ruleLcLp(c, r, "")
			ruleRawVsCompressed(c, r, "")
			ruleCoderStates(c, r, "")
			ruleProbModel(c, r, "")
			ruleRangeCoder(c, r, "")
			ruleStateFormulas(c, r, "")
			ruleCodecGeometry(c, r, "")
			rulePropsCode(c, r, "")
			ruleXZWriter(c, r, "")
		},
	})
	register(&propCheck{
		id: "C03",
		explain: "Decided: the reader-side tables accept AT LEAST everything the format allows and apply the prescribed resets: all 256 control bytes classified (0,1,2, >= 0x80 " +
			"accepted with the right type); chunkState.next rejects no legal sequence; per-kind effects of Reader2.startChunk on every path (dictionary reset exactly for " +
			"raw+reset / LZMA+all, state reset, new properties, first compressed chunk, raw chunks into the dictionary, size limits); decoder.Reopen keeps rep distances and state; " +
			"the rep-distance permutation, state update and length coder of every decision path of decoder.readOp (symbolic extraction) equal the LZMA operation tree; " +
			"dictionary codes 0..40 and check ids {0,1,4,10} accepted; block header size fields by flag and order; window = max(configured, declared); coder state tables, " +
			"probability model, context formulas, codec geometry, constants = specification; every block gets a fresh check; header/footer/index parsing obligations. " +
			"NOT decided: correctness of bit-level operation decoding and ring-buffer copying; equality with the reference decoder's output.",
		run: func(c *Ctx, r *Report) {
			ruleWriteMatchCE(c, r, "") // matches are copied byte by byte from dist back (overlap, ring wrap)
			ruleStateResetCE(c, r, "") // a chunk with state reset starts from the initial coder state
			t := getChunkTables(c, r, "")
			ruleChunkAutomaton(c, r, t, "", "complete")
			ruleControlByte(c, r, t, "", false)
			ruleChunkHeaderCodec(c, r, t, "")
			ruleStartChunkEffects(c, r, t, "")
			ruleDecoderReps(c, r, "")
			ruleOpSiblings(c, r, "")
			ruleCodecSiblings(c, r, "")
			ruleRingModulus(c, r, "", "dec")
			ruleDecoderBounds(c, r, "")
			ruleByteAtGuards(c, r, "")
			ruleCtorReopen(c, r, "")
			ruleSpecIndices(c, r, "")
			ruleLitInit(c, r, "")
			ruleNilDecoder(c, r, "")
			ruleCounting(c, r, "", "read")
			ruleRawEOFFlag(c, r, "")
			ruleReaderFrom(c, r, "")
			ruleReopenState(c, r, "")
			ruleApplyOps(c, r, "")
			ruleReader2ChunkEOF(c, r, "")
			ruleBlockSource(c, r, "")
			ruleEOSTest(c, r, "")
			ruleDictCapRange(c, r, "")
			ruleRingWriters(c, r, "")
			ruleCheckEncoding(c, r, "")
			ruleDictCapDecode(c, r, "")
			ruleLzmaFilterCodec(c, r, "")
			ruleCheckIDs(c, r, "")
			rulePadLen(c, r, "")
			ruleReaderWindow(c, r, "")
			ruleCoderStates(c, r, "")
			ruleProbModel(c, r, "")
			ruleRangeCoder(c, r, "")
			ruleStateFormulas(c, r, "")
			ruleCodecGeometry(c, r, "")
			rulePropsCode(c, r, "")
			ruleSpecConstants(c, r, "")
			ruleXZReaderChecks(c, r, "")
		},
	})
	register(&propCheck{
		id: "C06",
		explain: "Decided - the contract plumbing of the classic LZMA writer: (CE) the 13-byte header codec both ways, the all-ones size written exactly when size < 0 " +
			"(size 0 is written as 0); properties byte codec over all 256 values; (OB) Writer.Close fails with errSize unless Compressed()+Buffered() equals the announced " +
			"size, before the encoder is closed; Writer.Write computes the remaining space as size - (Compressed()+Buffered()), cuts surplus bytes and reports ErrNoSpace; " +
			"WriterConfig.fill guarantees SizeInHeader || EOSMarker; encoder.Close writes the end marker exactly when created with the flag; reader window = max(header, " +
			"configured, 4096); matcher guards; no sink error masked. NOT decided: losslessness of the round trip.",
		run: func(c *Ctx, r *Report) {
			ruleWriteMatchCE(c, r, "")
			ruleLzmaHeaderCodec(c, r, "")
			ruleLzmaWriterContract(c, r, "")
			ruleSizeSign(c, r, "")
			ruleLookahead(c, r, "")
			ruleEncoderDictArgs(c, r, "")
			ruleDeferFlush(c, r, "", "lzma")
			rulePropsCode(c, r, "")
			ruleReaderWindow(c, r, "")
			ruleMatcherGuard(c, r, "", false)
			ruleRingModulus(c, r, "", "enc")
			ruleRingModulus(c, r, "dec:", "dec")
			ruleOpSiblings(c, r, "")
			ruleCodecSiblings(c, r, "")
			// the reading half of the round trip: the decoder accepts every operation the encoder may emit
			// (a maximum-length match into exactly that much free space included)
			ruleDecoderBounds(c, r, "")
			ruleEncAvail(c, r, "")
			ruleClassicVerify(c, r, "")
			ruleMatchLen(c, r, "")
			ruleLzmaHeaderDict(c, r, "")
			ruleSizeBeforeOp(c, r, "")
			ruleIO(c, r, c.Cone(nonNilFns(c.Func("lzma", "NewWriter"), c.Func("lzma", "WriterConfig.NewWriter"), c.Func("lzma", "Writer.Write"), c.Func("lzma", "Writer.Close"))...), "", true)
		},
	})
	register(&propCheck{
		id: "C07",
		explain: "Decided: the model shared by encoder and decoder equals the LZMA specification (12-state transition rows, probability update over all probability " +
			"values, literal/position context formulas, codec geometry, ~45 constants, range-coder thresholds); the rep-distance permutation / state update / length coder of " +
			"every decision path of decoder.readOp equals the LZMA operation tree (symbolic extraction); the 13-byte header codec both ways; reader window = max(header, " +
			"configured, 4096); (SEQ-D1) on every path of decoder.decompress the declared size is tested before an operation is read, so a stream whose declared size is " +
			"already reached ends without reading an operation; end-marker plumbing on the writer side. NOT decided: the reference decoder's verdict on the emitted bytes; " +
			"bit-exactness of the range coder.",
		run: func(c *Ctx, r *Report) {
			ruleWriteMatchCE(c, r, "")
			ruleCoderStates(c, r, "")
			ruleProbModel(c, r, "")
			ruleRangeCoder(c, r, "")
			ruleStateFormulas(c, r, "")
			ruleCodecGeometry(c, r, "")
			ruleSpecConstants(c, r, "")
			ruleDecoderReps(c, r, "")
			ruleOpSiblings(c, r, "")
			ruleCodecSiblings(c, r, "")
			ruleRingModulus(c, r, "", "dec")
			ruleLzmaHeaderCodec(c, r, "")
			rulePropsCode(c, r, "")
			ruleReaderWindow(c, r, "")
			ruleSizeBeforeOp(c, r, "")
			ruleLzmaWriterContract(c, r, "")
			ruleSizeSign(c, r, "")
			ruleSpecIndices(c, r, "")
			ruleDecoderBounds(c, r, "")
			ruleByteAtGuards(c, r, "")
			ruleValidDictCap(c, r, "")
			ruleLitInit(c, r, "")
			ruleEOSTest(c, r, "")
			ruleLzmaHeaderDict(c, r, "")
			ruleClassicVerify(c, r, "")
			// "every stream the library writes": a nil result of Write/Close means the bytes were delivered
			wcone := c.Cone(nonNilFns(c.Func("lzma", "Writer.Write"), c.Func("lzma", "Writer.Close"), c.Func("lzma", "WriterConfig.NewWriter"))...)
			ruleIO(c, r, wcone, "", true)
		},
	})
}

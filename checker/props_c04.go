package main

func init() {
	register(&propCheck{
		id: "C04",
		explain: "Decided: (1) OB catalogue V00-V31 (DESIGN Appendix A): every verification step of the xz reader - header/footer magic, CRC32 coverage, " +
			"reserved bytes, check ids, footer vs header flags, backward size vs measured index size, record count vs blocks seen (dominating the " +
			"allocation), record-by-record comparison, index padding and CRC (taken before its own bytes), block header length/CRC/reserved " +
			"flags/padding, size-field flags and order, filter count/id/properties, declared vs measured sizes (upper bound during, lower bound at " +
			"the end of the block), block padding, block check comparison without aliasing, uvarint length/overflow, filter list verification, " +
			"clean EOF only behind these checks - is located by operand roles in the SSA with the exact relation, and on the failing edge every " +
			"path returns a non-EOF error; (2) no verification result is dropped (EF-DROP over the reader cone); (3) end of input inside a " +
			"structure is never taken for the end of the stream (EF-EOF). NOT decided: that CRC/SHA detect a given bit flip (probabilistic); " +
			"consistency of sizes inside the LZMA2 chunk layer for check-less streams.",
		run: func(c *Ctx, r *Report) {
			ruleXZReaderChecks(c, r, "")
			ruleBlockEnd(c, r, "")
			ruleAllZeros(c, r, "")
			ruleCheckEncoding(c, r, "")
			ruleApplyOps(c, r, "")
			ruleLzmaFilterCodec(c, r, "")
			ruleCheckIDs(c, r, "")
			rulePadLen(c, r, "")
			ruleCounting(c, r, "", "read")
			ruleBlockReadOnlySize(c, r, "")
			xzReader := c.Cone(nonNilFns(c.Func("", "NewReader"), c.Func("", "ReaderConfig.NewReader"), c.Func("", "Reader.Read"))...)
			ruleIO(c, r, xzReader, "", true)
			ruleEOF(c, r, nonNilFns(c.Func("", "NewReader"), c.Func("", "ReaderConfig.NewReader"), c.Func("", "Reader.Read")), xzReader, "")
		},
	})
}

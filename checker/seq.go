package main

// SEQ engine (DESIGN §3.5): PATH with an event alphabet. CollectPaths enumerates the
// paths of a function, lets the rule inject assumptions (selector values), records the
// designated events in path order, and classifies the exit.

import (
	"fmt"
	"go/constant"
	"go/token"
	"go/types"
	"strings"

	"golang.org/x/tools/go/ssa"
)

type SeqSpec struct {
	Fn *ssa.Function
	// Assume may add facts before an instruction is processed (e.g. fix a selector field).
	Assume func(w *Walker, p *PState, ins ssa.Instruction)
	// Event returns a label if the instruction is an event of the rule's alphabet.
	Event func(w *Walker, p *PState, ins ssa.Instruction) string
	// PureCalls: in-module functions whose calls are evaluated with CE when all
	// arguments are known constants on the path.
	PureCalls map[*ssa.Function]bool
	NoMerge   bool
	// InlinedCalls: Event is also asked about calls to new helpers the walker steps into.
	InlinedCalls bool
}

type SeqEvent struct {
	Label string
	Ins   ssa.Instruction
}

type SeqPath struct {
	Events    []SeqEvent
	Exit      ssa.Instruction
	Panic     bool
	ErrNil    bool // error result provably nil
	ErrNonNil bool // provably non-nil
	ErrGlobal *ssa.Global
	ErrVal    ssa.Value
	Rets      []ssa.Value // resolved results
	Trace     []string
	P         *PState
}

func (sp *SeqPath) Labels() []string {
	var r []string
	for _, e := range sp.Events {
		r = append(r, e.Label)
	}
	return r
}

func (sp *SeqPath) Has(label string) bool {
	for _, e := range sp.Events {
		if e.Label == label {
			return true
		}
	}
	return false
}

func (sp *SeqPath) Count(label string) int {
	n := 0
	for _, e := range sp.Events {
		if e.Label == label {
			n++
		}
	}
	return n
}

func (sp *SeqPath) Index(label string) int {
	for i, e := range sp.Events {
		if e.Label == label {
			return i
		}
	}
	return -1
}

type tookKey struct {
	iff  *ssa.If
	site *ssa.Call
}

type seqState struct {
	evs  []SeqEvent
	took map[tookKey]bool
	// exact: the condition was a phi (`ctx && cmp`) that stood for the comparison itself on this path
	exact map[tookKey]bool
}

func (s *seqState) Clone() UserState {
	c := &seqState{evs: append([]SeqEvent(nil), s.evs...)}
	if len(s.took) > 0 {
		c.took = make(map[tookKey]bool, len(s.took))
		for k, v := range s.took {
			c.took[k] = v
		}
	}
	if len(s.exact) > 0 {
		c.exact = make(map[tookKey]bool, len(s.exact))
		for k, v := range s.exact {
			c.exact[k] = v
		}
	}
	return c
}

// TookExact: the phi condition at iff stood for its comparison on this path.
func (sp *SeqPath) TookExact(iff *ssa.If, site *ssa.Call) bool {
	s, ok := sp.P.U.(*seqState)
	return ok && s.exact[tookKey{iff, site}]
}

// Took: the edge the path took at branch iff the last time it got there (site: during that
// call of the helper containing iff; nil: wherever).
func (sp *SeqPath) Took(iff *ssa.If, site *ssa.Call) (taken, known bool) {
	s, ok := sp.P.U.(*seqState)
	if !ok || s.took == nil {
		return false, false
	}
	taken, known = s.took[tookKey{iff, site}]
	return
}

func CollectPaths(c *Ctx, spec SeqSpec) (paths []SeqPath, overflow bool) {
	w := &Walker{C: c, Fn: spec.Fn}
	w.Instr = func(p *PState, ins ssa.Instruction) bool {
		if spec.Assume != nil {
			spec.Assume(w, p, ins)
		}
		if call, ok := ins.(*ssa.Call); ok && spec.PureCalls != nil {
			if fn := call.Call.StaticCallee(); fn != nil && spec.PureCalls[fn] {
				evalPureCall(c, p, call, fn)
			}
		}
		if spec.Event != nil {
			if l := spec.Event(w, p, ins); l != "" {
				s := p.U.(*seqState)
				s.evs = append(s.evs, SeqEvent{l, ins})
			}
		}
		return true
	}
	w.EnterCall = func(p *PState, call *ssa.Call) {
		// a call the walker steps into is still an event if the rule names it
		if spec.Event != nil && spec.InlinedCalls {
			if l := spec.Event(w, p, call); l != "" {
				s := p.U.(*seqState)
				s.evs = append(s.evs, SeqEvent{l, call})
			}
		}
	}
	w.Branch = func(p *PState, x *ssa.If, taken bool) {
		s := p.U.(*seqState)
		if s.took == nil {
			s.took = map[tookKey]bool{}
		}
		s.took[tookKey{x, nil}] = taken
		_, isPhi := x.Cond.(*ssa.Phi)
		_, isCmp := p.Resolve(x.Cond).(*ssa.BinOp)
		if s.exact == nil {
			s.exact = map[tookKey]bool{}
		}
		s.exact[tookKey{x, nil}] = isPhi && isCmp
		if n := len(p.stack); n > 0 {
			s.took[tookKey{x, p.stack[n-1].call}] = taken
			s.exact[tookKey{x, p.stack[n-1].call}] = isPhi && isCmp
		}
	}
	w.Exit = func(p *PState, ins ssa.Instruction) {
		sp := SeqPath{Events: append([]SeqEvent(nil), p.U.(*seqState).evs...), Exit: ins, P: p, Trace: w.TraceStrings(p)}
		switch x := ins.(type) {
		case *ssa.Panic:
			sp.Panic = true
		case *ssa.Return:
			for _, rv := range x.Results {
				v := p.Resolve(rv)
				sp.Rets = append(sp.Rets, v)
				if isErrType(rv.Type()) {
					sp.ErrVal = v
					sp.ErrNil = p.IsNil(v)
					sp.ErrNonNil = p.NonNil(v)
					sp.ErrGlobal = p.EqGlobal(v)
				}
			}
		}
		paths = append(paths, sp)
	}
	if !spec.NoMerge {
		w.Sig = func(p *PState) string {
			var b strings.Builder
			for _, e := range p.U.(*seqState).evs {
				fmt.Fprintf(&b, "%s@%p;", e.Label, e.Ins)
			}
			return b.String()
		}
	}
	w.Run(&seqState{})
	return paths, w.Overflow
}

// evalPureCall evaluates a pure helper with CE when all arguments are constants on the
// path and records the result as a fact on the call value.
func evalPureCall(c *Ctx, p *PState, call *ssa.Call, fn *ssa.Function) {
	var args []aval
	for _, a := range call.Call.Args {
		v := p.Resolve(a)
		if k, ok := v.(*ssa.Const); ok && k.Value != nil {
			args = append(args, aConst(k.Value, k.Type()))
			continue
		}
		f := p.facts[v]
		if f.hasLo && f.hasHi && f.lo == f.hi {
			args = append(args, aInt(f.lo, v.Type()))
			continue
		}
		if f.boolK != 0 {
			args = append(args, aBool(f.boolK == 1))
			continue
		}
		return
	}
	in := NewInterp(c)
	res := in.Call(fn, args)
	if !res.OK || res.Panicked || len(res.Rets) != 1 {
		return
	}
	f := p.facts[call]
	if b, ok := res.Rets[0].Bool(); ok {
		f.boolK = 2
		if b {
			f.boolK = 1
		}
	} else if i, ok := res.Rets[0].Int(); ok {
		f.hasLo, f.hasHi, f.lo, f.hi = true, true, i, i
	} else {
		return
	}
	p.facts[call] = f
}

// ---- helpers to recognise instructions ----

// loadOfField: ins is a load of field f (through any base).
func loadOfField(ins ssa.Instruction, f *types.Var) (*ssa.UnOp, bool) {
	u, ok := ins.(*ssa.UnOp)
	if !ok || u.Op != token.MUL || f == nil {
		return nil, false
	}
	fa, ok := u.X.(*ssa.FieldAddr)
	if !ok {
		return nil, false
	}
	return u, fieldOfAddr(fa) == f
}

// storeToField: ins stores to field f.
func storeToField(ins ssa.Instruction, f *types.Var) (*ssa.Store, bool) {
	st, ok := ins.(*ssa.Store)
	if !ok || f == nil {
		return nil, false
	}
	fa, ok := st.Addr.(*ssa.FieldAddr)
	if !ok {
		return nil, false
	}
	return st, fieldOfAddr(fa) == f
}

// callTo: ins is a (non-deferred) call whose static callee is fn.
func callTo(ins ssa.Instruction, fn *ssa.Function) (*ssa.Call, bool) {
	call, ok := ins.(*ssa.Call)
	if !ok || fn == nil {
		return nil, false
	}
	return call, call.Call.StaticCallee() == fn
}

// stdCallee: name like "io.LimitReader", "os.Remove", "(*os.File).Close".
func stdCalleeName(ins ssa.Instruction) string {
	ci, ok := ins.(ssa.CallInstruction)
	if !ok {
		return ""
	}
	cc := ci.Common()
	if cc.IsInvoke() {
		return "(" + types.TypeString(cc.Value.Type(), func(p *types.Package) string { return p.Name() }) + ")." + cc.Method.Name()
	}
	if f := cc.StaticCallee(); f != nil {
		return FnName(f)
	}
	if b, ok := cc.Value.(*ssa.Builtin); ok {
		return "builtin." + b.Name()
	}
	return ""
}

func setIntFact(p *PState, v ssa.Value, k int64) {
	f := p.facts[v]
	f.hasLo, f.hasHi, f.lo, f.hi = true, true, k, k
	p.facts[v] = f
}

func setBoolFact(p *PState, v ssa.Value, b bool) {
	f := p.facts[v]
	f.boolK = 2
	if b {
		f.boolK = 1
	}
	p.facts[v] = f
}

// stripConv removes conversions / type changes.
func stripConv(v ssa.Value) ssa.Value {
	for {
		switch x := v.(type) {
		case *ssa.Convert:
			v = x.X
		case *ssa.ChangeType:
			v = x.X
		case *ssa.ChangeInterface:
			v = x.X
		case *ssa.MakeInterface:
			v = x.X
		default:
			if theCtx != nil {
				if w, ok := theCtx.lookThrough(v); ok && w != v {
					v = w
					continue
				}
				// a call of a pure getter (one block, returns a field load) stands for that load
				if call, ok := v.(*ssa.Call); ok {
					if fn := call.Call.StaticCallee(); fn != nil && theCtx.InModule(fn) && len(fn.Blocks) == 1 {
						if ret, ok := fn.Blocks[0].Instrs[len(fn.Blocks[0].Instrs)-1].(*ssa.Return); ok && len(ret.Results) == 1 {
							rv := ret.Results[0]
							for {
								cv, isConv := rv.(*ssa.Convert)
								if !isConv {
									break
								}
								rv = cv.X
							}
							if u, ok := rv.(*ssa.UnOp); ok && u.Op == token.MUL {
								if _, isFA := u.X.(*ssa.FieldAddr); isFA {
									v = u
									continue
								}
							}
						}
					}
				}
			}
			return v
		}
	}
}

// isFieldLoadOf: v (after stripping conversions) is a load of field f.
func isFieldLoadOf(v ssa.Value, f *types.Var) bool {
	v = stripConv(v)
	u, ok := v.(*ssa.UnOp)
	if !ok || u.Op != token.MUL {
		return false
	}
	fa, ok := u.X.(*ssa.FieldAddr)
	return ok && fieldOfAddr(fa) == f
}

// isFieldLoadPlusConst: v == conv(load f) + k.
func isFieldLoadPlusConst(v ssa.Value, f *types.Var, k int64) bool {
	v = stripConv(v)
	bo, ok := v.(*ssa.BinOp)
	if !ok || bo.Op != token.ADD {
		return false
	}
	// the addition must be done in at least 32 bits: uint16(x)+1 wraps at 65535
	if bt, isB := bo.Type().Underlying().(*types.Basic); isB {
		switch bt.Kind() {
		case types.Int8, types.Uint8, types.Int16, types.Uint16:
			return false
		}
	}
	if kv, ok := constInt(bo.Y); ok && kv == k && isFieldLoadOf(bo.X, f) {
		return true
	}
	if kv, ok := constInt(bo.X); ok && kv == k && isFieldLoadOf(bo.Y, f) {
		return true
	}
	return false
}

func constOf(v ssa.Value) (constant.Value, bool) {
	c, ok := v.(*ssa.Const)
	if !ok || c.Value == nil {
		return nil, false
	}
	return c.Value, true
}

func namedConstInt(c *Ctx, pkg, name string) (int64, bool) {
	k := c.Const(pkg, name)
	if k == nil {
		return 0, false
	}
	return constInt(k.Value)
}

package main

// RING — modulus of the circular buffers (lzma.buffer.data, lzma.hashTable.data).
//
// RING-MOD. Wherever an index is wrapped after a sign test —
//     if x < 0  { … x + D … }        or        if x >= 0 { … x - D … }
// — the quantity D added in the guarded region must be exactly the length of the ring's
// slice: +len(S) in the negative region, -len(S) in the non-negative one, with S one of
// the ring fields. D is taken as a linear form (LIN), so `len(b.data)`, `b.Cap()+1` and
// `1+b.Cap()` are the same D, whereas `b.Cap()` (one short) or the dictionary capacity are
// not. Necessary: with any other modulus the wrapped index addresses the wrong slot as soon
// as the data straddles the end of the slice — bytes of raw chunks, match sources in the
// decoder window and hash-chain deltas are then taken from the wrong place.
// An adjustment without any len()/capacity-like term is not a wrap and is not judged.

import (
	"go/token"
	"go/types"
	"sort"
	"strings"

	"golang.org/x/tools/go/ssa"
)

type wrapSite struct {
	fn     *ssa.Function
	iff    *ssa.If
	top    *ssa.BinOp
	neg    bool // region where x < 0 holds
	d      lin
	env    *linEnv
	ordKey string
}

// signTest normalises an If condition to (x, region-successor index where x < 0 holds, where x >= 0 holds).
func signTest(iff *ssa.If) (x ssa.Value, negSucc, nonnegSucc int, ok bool) {
	b, isb := iff.Cond.(*ssa.BinOp)
	if !isb {
		return nil, 0, 0, false
	}
	op := b.Op
	var v ssa.Value
	if k, isc := constInt(b.Y); isc && k == 0 {
		v = b.X
	} else if k, isc := constInt(b.X); isc && k == 0 {
		v = b.Y
		op = flipOp(op)
	} else {
		return nil, 0, 0, false
	}
	if !isIntegerType(v.Type()) {
		return nil, 0, 0, false
	}
	if bt, isBasic := v.Type().Underlying().(*types.Basic); isBasic && bt.Info()&types.IsUnsigned != 0 {
		return nil, 0, 0, false
	}
	switch op {
	case token.LSS:
		return v, 0, 1, true
	case token.GEQ:
		return v, 1, 0, true
	}
	return nil, 0, 0, false
}

func findWrapSites(c *Ctx, fn *ssa.Function) []wrapSite {
	var sites []wrapSite
	// capacity-like fields: a wrap by one of these instead of len(data) is the classic slip
	sizeFields := map[*types.Var]bool{}
	for _, n := range []string{"encoderDict.capacity"} {
		if f := c.Field("lzma", n); f != nil {
			sizeFields[f] = true
		}
	}
	n := 0
	for _, blk := range fn.Blocks {
		iff, ok := blk.Instrs[len(blk.Instrs)-1].(*ssa.If)
		if !ok {
			continue
		}
		x, negS, nonnegS, ok := signTest(iff)
		if !ok {
			continue
		}
		for _, side := range []struct {
			succ int
			neg  bool
		}{{negS, true}, {nonnegS, false}} {
			s := blk.Succs[side.succ]
			if len(s.Preds) != 1 {
				continue
			}
			env := newLinEnv(c)
			env.pivot[x] = "X"
			if cv, isConv := x.(*ssa.Convert); isConv {
				env.pivot[cv.X] = "X"
			}
			// candidates: ADD/SUB in the region with coefficient 1 on X
			type cand struct {
				b *ssa.BinOp
				l lin
			}
			var cands []cand
			inChain := map[ssa.Value]bool{}
			for _, rb := range fn.Blocks {
				if !s.Dominates(rb) {
					continue
				}
				for _, ins := range rb.Instrs {
					bo, isb := ins.(*ssa.BinOp)
					if !isb || (bo.Op != token.ADD && bo.Op != token.SUB) {
						continue
					}
					l := env.of(bo)
					if l.t["X"] != 1 {
						continue
					}
					cands = append(cands, cand{bo, l})
				}
			}
			for _, cd := range cands {
				for _, op := range []ssa.Value{cd.b.X, cd.b.Y} {
					op = stripConv(op)
					inChain[op] = true
				}
			}
			for _, cd := range cands {
				if inChain[cd.b] {
					continue // inner link of a longer chain
				}
				d := cd.l.add(linAtom("X"), -1)
				sizeLike := len(d.lenAtoms()) > 0
				for a := range d.t {
					if f := env.lenField[a]; f != nil && sizeFields[f] {
						sizeLike = true
					}
				}
				if !sizeLike {
					continue // no len()/capacity term: not a wrap adjustment
				}
				n++
				sites = append(sites, wrapSite{fn: fn, iff: iff, top: cd.b, neg: side.neg, d: d, env: env})
			}
		}
	}
	// a chain top inside several sign-test regions is judged against the innermost test only
	best := map[*ssa.BinOp]int{}
	for i, s := range sites {
		j, seen := best[s.top]
		if !seen || sites[j].iff.Block().Dominates(s.iff.Block()) {
			best[s.top] = i
		}
	}
	var out []wrapSite
	for i, s := range sites {
		if best[s.top] == i {
			out = append(out, s)
		}
	}
	return out
}

func ringFields(c *Ctx) map[*types.Var]string {
	m := map[*types.Var]string{}
	for _, n := range []string{"buffer.data", "hashTable.data"} {
		if f := c.Field("lzma", n); f != nil {
			m[f] = n
		}
	}
	return m
}

// ruleRingModulus judges the wrap sites of the functions whose receiver type is listed in
// scope (nil = every function of package lzma).
func ruleRingModulus(c *Ctx, r *Report, prefix string, side string) {
	var scope []string
	minSites := 10
	switch side {
	case "enc":
		scope, minSites = []string{"buffer", "encoderDict", "hashTable", "binTree"}, 9
	case "dec":
		scope, minSites = []string{"buffer", "decoderDict"}, 5
	}
	rule := prefix + "RING-MOD"
	rings := ringFields(c)
	inScope := func(fn *ssa.Function) bool {
		if scope == nil {
			return true
		}
		name := FnName(fn)
		for _, s := range scope {
			if strings.Contains(name, "lzma."+s+")") || strings.HasSuffix(name, "lzma."+s) {
				return true
			}
		}
		return false
	}
	fns := c.ModFuncs("lzma")
	sort.Slice(fns, func(i, j int) bool { return FnName(fns[i]) < FnName(fns[j]) })
	total := 0
	seenTop := map[*ssa.BinOp]bool{}
	for _, fn := range fns {
		if !inScope(fn) || fn.Blocks == nil {
			continue
		}
		// the function and the new helpers it calls (a wrap moved into a helper is still a wrap of this function)
		var sites []wrapSite
		for _, g := range c.Group(fn) {
			for _, ws := range findWrapSites(c, g) {
				if !seenTop[ws.top] {
					seenTop[ws.top] = true
					sites = append(sites, ws)
				} else if g != fn {
					// a wrap consolidated in a new helper: judged once, but it counts for every function that
					// wraps through it (the floor below is a vacuity guard on recognised uses)
					total++
				}
			}
		}
		for i, s := range sites {
			total++
			key := FnName(fn) + "#" + itoa(i)
			want := int64(1)
			region := "x < 0"
			if !s.neg {
				want = -1
				region = "x >= 0"
			}
			la := s.d.lenAtoms()
			ok := len(s.d.t) == 1 && len(la) == 1 && s.d.t[la[0]] == want && s.d.c == 0
			ringName := ""
			if ok {
				f := s.env.lenField[la[0]]
				ringName, ok = rings[f]
			}
			sign := "+"
			if !s.neg {
				sign = "-"
			}
			r.Check(ok, rule, key, c.InstrPos(s.top),
				"index wrapped in the region "+region+" by "+sign+"len("+ringName+") exactly (D = "+s.d.String()+")",
				"ring index adjusted in the region "+region+" by D = "+s.d.String()+"; the modulus of the circular buffer is len(data) of the ring (expected D = "+sign+"len(<ring>.data)): with another modulus the wrapped index addresses the wrong slot")
		}
	}
	r.Floor(rule, 1)
	if total < minSites {
		r.Undecided(rule, "instances", "-", "only "+itoa(total)+" ring wrap sites recognised (at least "+itoa(minSites)+" confirmed by hand on the reference tree): the idiom is no longer recognised")
	}
}

func itoa(i int) string {
	if i == 0 {
		return "0"
	}
	neg := i < 0
	if neg {
		i = -i
	}
	var b []byte
	for i > 0 {
		b = append([]byte{byte('0' + i%10)}, b...)
		i /= 10
	}
	if neg {
		b = append([]byte{'-'}, b...)
	}
	return string(b)
}

package main

// TM-RC — the range coder's state transformers equal the LZMA specification's (TERM).
//
// For EncodeBit / DecodeBit / DirectEncodeBit / DirectDecodeBit / updateCode / shiftLow the
// rule extracts, per path, the branch conditions and the final contents of the coder's
// fields as normal-form terms over their initial contents (symbolic store), with 64->32 bit
// truncations kept, and compares each path with the transformer the specification
// prescribes (LZMA SDK lzma-specification.txt, "Range Decoder" / rc_shift_low of liblzma):
//
//   bound = (range >> 11) * prob
//   bit 0: range = bound                 bit 1: low/code -+= bound ; range -= bound
//   normalise while range < 2^24: range <<= 8 ; shift_low / code = code<<8 | next byte
//   direct: range >>= 1 ; encoder low += range & -(b&1) ; decoder code -= range, restore by mask
//   shift_low: if (uint32)low < 0xFF000000 || (low>>32) != 0 { emit cache + carry, then
//              cacheLen-1 times 0xFF + carry ; cache = (low>>24)&0xFF } ; cacheLen++ ;
//              low = (uint32)low << 8
//
// Necessary: these transformers ARE the bit-level format; encoder and decoder are different
// code, so a slip in one is only seen by a round trip that reaches the rare path (carry
// propagation, cache runs), and a slip in a shared expression (bound) is seen by none.

import (
	"sort"
	"strings"

	"golang.org/x/tools/go/ssa"
)

type rcPath struct {
	conds []string
	mem   map[string]string
	evs   []string
	rets  []string
}

func rcPaths(c *Ctx, fn *ssa.Function, maxVisit int) ([]rcPath, bool) {
	narrow32 = true
	defer func() { narrow32 = false }()
	recv := fn.Params[0].Name()
	paths, over := collectTermPaths(c, termSpec{Fn: fn, MaxVisit: maxVisit, KeepErrPaths: false,
		Rename:  [][2]string{{recv, "R"}},
		KeepMem: func(p string) bool { return strings.HasPrefix(p, "R.") }})
	var out []rcPath
	for _, tp := range paths {
		rp := rcPath{mem: map[string]string{}}
		for _, cd := range tp.Conds {
			if strings.Contains(cd, "nil") {
				continue
			}
			rp.conds = append(rp.conds, normTerm(cd))
		}
		sort.Strings(rp.conds)
		for k, v := range tp.Mem {
			if strings.HasPrefix(k, "R.") {
				rp.mem[k[2:]] = normTerm(v)
			}
		}
		for _, ev := range tp.Events {
			a := ev.Name
			if strings.HasSuffix(strings.ToLower(a), "writebyte") && len(ev.Args) > 0 {
				// the byte handed to the sink, whether through rangeEncoder.writeByte or directly
				a = "emit(" + normTerm(ev.Args[len(ev.Args)-1]) + ")"
			} else if len(ev.Args) > 1 {
				a += "(" + normTerm(ev.Args[len(ev.Args)-1]) + ")"
			}
			rp.evs = append(rp.evs, a)
		}
		for _, rt := range tp.Rets {
			rp.rets = append(rp.rets, normTerm(rt))
		}
		out = append(out, rp)
	}
	return out, over
}

func (p rcPath) String() string {
	var ks []string
	for k := range p.mem {
		ks = append(ks, k)
	}
	sort.Strings(ks)
	var ms []string
	for _, k := range ks {
		ms = append(ms, k+"="+p.mem[k])
	}
	return "if " + strings.Join(p.conds, " & ") + " then " + strings.Join(ms, "; ") + " do " + strings.Join(p.evs, ", ") + " ret " + strings.Join(p.rets, ",")
}

func ruleRangeCoder(c *Ctx, r *Report, prefix string) {
	rule := prefix + "TM-RC"
	nt := normTerm
	top := "16777216"
	check := func(key string, fn *ssa.Function, maxVisit int, want []string, prefixOnly bool) {
		if fn == nil {
			return
		}
		for i, w := range want {
			// canonical order of the conditions
			if j := strings.Index(w, " then "); strings.HasPrefix(w, "if ") && j > 0 {
				cs := strings.Split(w[3:j], " & ")
				sort.Strings(cs)
				want[i] = "if " + strings.Join(cs, " & ") + w[j:]
			}
		}
		got, over := rcPaths(c, fn, maxVisit)
		if over || len(got) == 0 {
			r.Undecided(rule, key, c.Pos(fn.Pos()), "cannot enumerate the paths")
			return
		}
		have := map[string]bool{}
		for _, p := range got {
			have[p.String()] = true
		}
		var missing []string
		for _, w := range want {
			if !have[w] {
				missing = append(missing, w)
			}
		}
		extra := 0
		if !prefixOnly {
			wantSet := map[string]bool{}
			for _, w := range want {
				wantSet[w] = true
			}
			for h := range have {
				if !wantSet[h] {
					extra++
					if len(missing) == 0 {
						missing = append(missing, "unexpected: "+h)
					}
				}
			}
		}
		r.Check(len(missing) == 0, rule, key, c.Pos(fn.Pos()), "state transformer equals the specification on all "+itoa(len(want))+" paths",
			func() string {
				if len(missing) == 0 {
					return ""
				}
				var hs []string
				for h := range have {
					hs = append(hs, h)
				}
				sort.Strings(hs)
				return FnName(fn) + " deviates from the range coder of the LZMA specification; missing path: " + clip(missing[0], 330) + " ; paths found: " + clip(strings.Join(hs, " || "), 700)
			}())
	}
	bound := nt("(mul (shr @R.nrange 11) @p)")
	sub := func(a, b string) string { return nt("(+ " + a + " (neg " + b + "))") }
	// --- EncodeBit ---
	check("EncodeBit", c.Func("lzma", "rangeEncoder.EncodeBit"), 2, []string{
		"if " + nt("(eq (and $b 1) 0)") + " & " + nt("(le "+top+" "+bound+")") + " then nrange=" + bound + " do prob.inc ret nil",
		"if " + nt("(eq (and $b 1) 0)") + " & " + nt("(lt "+bound+" "+top+")") + " then nrange=" + nt("(shl "+bound+" 8)") + " do prob.inc, rangeEncoder.shiftLow ret r2",
		"if " + nt("(ne (and $b 1) 0)") + " & " + nt("(le "+top+" "+sub("@R.nrange", bound)+")") + " then low=" + nt("(+ "+bound+" @R.low)") + "; nrange=" + sub("@R.nrange", bound) + " do prob.dec ret nil",
		"if " + nt("(ne (and $b 1) 0)") + " & " + nt("(lt "+sub("@R.nrange", bound)+" "+top+")") + " then low=" + nt("(+ "+bound+" @R.low)") + "; nrange=" + nt("(shl "+sub("@R.nrange", bound)+" 8)") + " do prob.dec, rangeEncoder.shiftLow ret r2",
	}, false)
	// --- DecodeBit ---
	check("DecodeBit", c.Func("lzma", "rangeDecoder.DecodeBit"), 2, []string{
		"if " + nt("(le "+top+" "+bound+")") + " & " + nt("(lt @R.code "+bound+")") + " then nrange=" + bound + " do prob.inc ret 0,nil",
		"if " + nt("(lt "+bound+" "+top+")") + " & " + nt("(lt @R.code "+bound+")") + " then nrange=" + nt("(shl "+bound+" 8)") + " do prob.inc, rangeDecoder.updateCode ret 0,r2",
		"if " + nt("(le "+bound+" @R.code)") + " & " + nt("(le "+top+" "+sub("@R.nrange", bound)+")") + " then code=" + sub("@R.code", bound) + "; nrange=" + sub("@R.nrange", bound) + " do prob.dec ret 1,nil",
		"if " + nt("(le "+bound+" @R.code)") + " & " + nt("(lt "+sub("@R.nrange", bound)+" "+top+")") + " then code=" + sub("@R.code", bound) + "; nrange=" + nt("(shl "+sub("@R.nrange", bound)+" 8)") + " do prob.dec, rangeDecoder.updateCode ret 1,r2",
	}, false)
	// --- direct bits ---
	half := nt("(shr @R.nrange 1)")
	check("DirectEncodeBit", c.Func("lzma", "rangeEncoder.DirectEncodeBit"), 2, []string{
		"if " + nt("(le "+top+" "+half+")") + " then low=" + nt("(+ (and (neg (and $b 1)) "+half+") @R.low)") + "; nrange=" + half + " do  ret nil",
		"if " + nt("(lt "+half+" "+top+")") + " then low=" + nt("(+ (and (neg (and $b 1)) "+half+") @R.low)") + "; nrange=" + nt("(shl "+half+" 8)") + " do rangeEncoder.shiftLow ret r1",
	}, false)
	dcode := sub("@R.code", half)
	mask := nt("(neg (shr " + dcode + " 31))")
	dbit := nt("(and (+ " + mask + " 1) 1)")
	check("DirectDecodeBit", c.Func("lzma", "rangeDecoder.DirectDecodeBit"), 2, []string{
		"if " + nt("(le "+top+" "+half+")") + " then code=" + nt("(+ (and "+mask+" "+half+") "+dcode+")") + "; nrange=" + half + " do  ret " + dbit + ",nil",
		"if " + nt("(lt "+half+" "+top+")") + " then code=" + nt("(+ (and "+mask+" "+half+") "+dcode+")") + "; nrange=" + nt("(shl "+half+" 8)") + " do rangeDecoder.updateCode ret " + dbit + ",r1",
	}, false)
	// --- updateCode ---
	check("updateCode", c.Func("lzma", "rangeDecoder.updateCode"), 2, []string{
		"if  then code=" + nt("(or (ext0 r1) (shl @R.code 8))") + " do invoke:ReadByte ret nil",
	}, false)
	// --- shiftLow: no-emit path and the first two emit paths (cache run of length 1 and 2) ---
	lowNext := nt("(w32 (shl (u32 @R.low) 8))")
	carry := nt("(u8 (shr @R.low 32))")
	emit1 := "emit(" + nt("(+ "+carry+" @R.cache)") + ")"
	emitFF := "emit(" + nt("(+ "+carry+" 255)") + ")"
	newCache := nt("(u8 (shr (u32 @R.low) 24))")
	noEmit := "if " + nt("(eq 0 (shr @R.low 32))") + " & " + nt("(le 4278190080 (u32 @R.low))") + " then cacheLen=" + nt("(+ @R.cacheLen 1)") + "; low=" + lowNext + " do  ret nil"
	check("shiftLow", c.Func("lzma", "rangeEncoder.shiftLow"), 3, []string{noEmit}, true)
	// the emitting paths: check their shape (conditions differ by how the disjunction is taken)
	if fn := c.Func("lzma", "rangeEncoder.shiftLow"); fn != nil {
		got, _ := rcPaths(c, fn, 3)
		n1, n2, bad := 0, 0, ""
		for _, p := range got {
			var em []string
			for _, e := range p.evs {
				if strings.HasPrefix(e, "emit(") {
					em = append(em, e)
				}
			}
			p.evs = em
			if len(p.evs) == 0 {
				continue
			}
			if p.evs[0] != emit1 {
				bad = "the first byte emitted is " + p.evs[0] + ", expected cache + carry: " + emit1
			}
			for _, e := range p.evs[1:] {
				if e != emitFF {
					bad = "a pending 0xFF byte is emitted as " + e + ", expected 0xFF + carry: " + emitFF
				}
			}
			if p.mem["cache"] != newCache {
				bad = "cache becomes " + p.mem["cache"] + ", expected " + newCache
			}
			if p.mem["low"] != lowNext {
				bad = "low becomes " + p.mem["low"] + ", expected " + lowNext
			}
			// cacheLen after the run is 1 (all pending bytes flushed, plus the new cache byte)
			if want := nt("(+ @R.cacheLen " + itoa(-len(p.evs)) + " 1)"); p.mem["cacheLen"] != want && len(p.evs) <= 2 {
				bad = "cacheLen becomes " + p.mem["cacheLen"] + " after emitting " + itoa(len(p.evs)) + " byte(s), expected " + want
			}
			if len(p.evs) == 1 {
				n1++
			}
			if len(p.evs) == 2 {
				n2++
			}
		}
		r.Check(bad == "" && n1 > 0 && n2 > 0, rule, "shiftLow:emit", c.Pos(fn.Pos()), "cache byte + carry first, then 0xFF + carry for the run; cache = bits 24..31 of low; low = (uint32)low << 8",
			"rangeEncoder.shiftLow: "+bad)
	}
	// --- constructors: initial range, cache length, first byte zero, four code bytes ---
	if fn := c.Func("lzma", "newRangeEncoder"); fn != nil {
		ok1, ok2 := false, false
		for _, b := range c.GB(fn) {
			for _, ins := range b.Instrs {
				if st, ok := ins.(*ssa.Store); ok {
					if fa, isFA := st.Addr.(*ssa.FieldAddr); isFA {
						k, isK := constInt(st.Val)
						switch refNameOf(fieldOfAddr(fa)) {
						case "nrange":
							ok1 = isK && k == 0xffffffff
						case "cacheLen":
							ok2 = isK && k == 1
						}
					}
				}
			}
		}
		r.Check(ok1 && ok2, rule, "newRangeEncoder", c.Pos(fn.Pos()), "range = 0xFFFFFFFF, cacheLen = 1, low = 0", "newRangeEncoder does not start with range 0xFFFFFFFF and cacheLen 1")
	}
}

package main

import (
	"fmt"
	"go/token"
	"go/types"
	"math"

	"golang.org/x/tools/go/ssa"
)

// ---- TM-OPMARGIN: the space the encoder demands before it starts an operation covers the most
// expensive operation and the closing of the range coder ----
//
// encoder.writeOp admits an operation when rangeEncoder.Available() >= margin (opLenMargin). Every
// shiftLow lowers Available() by exactly one (a byte written or a byte parked in cacheLen), and
// rangeEncoder.Close needs K = 5 further shiftLows, each of which writes only while Available() >= 1.
// So margin >= S + K must hold, where S is the largest number of normalisations one operation can
// cause. S follows from the shared model (decided by CE-GEOMETRY, TM-PROB, TM-RC for this tree):
// a simple match codes m = 2 + (2 + 8) + 6 + 4 model bits and up to d = 26 direct bits; a model bit
// shrinks the range by at most log2(2^11 / pmin) bits (pmin = 2^moveBits - 1 = 31 is the fixed point
// of the probability update, 2^11 - pmax = 31 likewise), a direct bit by one; with the range at least
// 2^24 before the operation, S < (m*log2(2048/31*(1+2^-13)) + d + 8) / 8, i.e. S <= 20.
// Too small a margin makes Writer2 fail with ErrLimit (or cut an operation in half) for an input that
// drives the contexts of one long-distance match to their extremes right at a chunk limit.
func ruleOpMargin(c *Ctx, r *Report, prefix string) {
	rule := prefix + "TM-OPMARGIN"
	margin, ok := namedConstInt(c, "lzma", "opLenMargin")
	kc := c.Const("lzma", "opLenMargin")
	writeOp := c.Func("lzma", "encoder.writeOp")
	newEnc := c.Func("lzma", "newEncoder")
	avail := c.Func("lzma", "rangeEncoder.Available")
	closeF := c.Func("lzma", "rangeEncoder.Close")
	shiftLow := c.Func("lzma", "rangeEncoder.shiftLow")
	fMargin := c.Field("lzma", "encoder.margin")
	if !ok || kc == nil || writeOp == nil || newEnc == nil || avail == nil || closeF == nil || shiftLow == nil || fMargin == nil {
		return
	}
	pos := c.Pos(kc.Pos())
	// (1) wiring: newEncoder stores the constant, writeOp compares Available() with the field
	// the smallest value the stored expression can take: a constant, a choice between constants
	// (phi), or a sum of those
	var minOf func(v ssa.Value, depth int) (int64, bool)
	minOf = func(v ssa.Value, depth int) (int64, bool) {
		v = stripConv(v)
		if depth > 6 {
			return 0, false
		}
		if k, isK := constInt(v); isK {
			return k, true
		}
		switch x := v.(type) {
		case *ssa.Phi:
			best, any := int64(0), false
			for _, e := range x.Edges {
				k, ok := minOf(e, depth+1)
				if !ok {
					return 0, false
				}
				if !any || k < best {
					best, any = k, true
				}
			}
			return best, any
		case *ssa.BinOp:
			if x.Op == token.ADD {
				a, ok1 := minOf(x.X, depth+1)
				b, ok2 := minOf(x.Y, depth+1)
				if ok1 && ok2 {
					return a + b, true
				}
			}
		}
		return 0, false
	}
	okStore := false
	for _, b := range c.GB(newEnc) {
		for _, ins := range b.Instrs {
			if st, isSt := storeToField(ins, fMargin); isSt {
				if k, isK := minOf(st.Val, 0); isK {
					if k == margin {
						okStore = true
					} else if k < margin {
						okStore = false
						margin = k // the effective threshold is smaller than the constant
					}
				}
			}
		}
	}
	okGuard := false
	for _, b := range c.GB(writeOp) {
		for _, ins := range b.Instrs {
			bo, isB := ins.(*ssa.BinOp)
			if !isB {
				continue
			}
			x, y := stripConv(bo.X), stripConv(bo.Y)
			isAvail := func(v ssa.Value) bool {
				cl, ok := v.(*ssa.Call)
				return ok && cl.Call.StaticCallee() == avail
			}
			switch {
			case bo.Op == token.LSS && isAvail(x) && isFieldLoadOf(y, fMargin),
				bo.Op == token.GTR && isAvail(y) && isFieldLoadOf(x, fMargin),
				bo.Op == token.GEQ && isAvail(x) && isFieldLoadOf(y, fMargin),
				bo.Op == token.LEQ && isAvail(y) && isFieldLoadOf(x, fMargin):
				okGuard = true
			}
		}
	}
	r.Check(okStore && okGuard, rule, "wiring", pos, "newEncoder sets encoder.margin = opLenMargin; writeOp compares rangeEncoder.Available() with it",
		fmt.Sprintf("the margin test of encoder.writeOp is not Available() against encoder.margin = opLenMargin (stored=%v, guard=%v)", okStore, okGuard))
	// (2) the closing of the range coder: K shiftLow calls in a counted loop
	closeK := int64(-1)
	{
		// trip count of the counted loop around the one shiftLow call (either direction), or the
		// number of calls when the loop was unrolled
		nCalls := int64(0)
		inLoop := false
		for _, b := range c.GB(closeF) {
			for _, ins := range b.Instrs {
				if _, isC := callTo(ins, shiftLow); isC {
					nCalls++
					if b.Parent() == closeF {
						for _, hb := range closeF.Blocks {
							// b lies in a cycle through hb?
							if hb.Dominates(b) {
								for _, pr := range hb.Preds {
									if b == pr || b.Dominates(pr) {
										inLoop = true
									}
								}
							}
						}
					}
				}
			}
		}
		if nCalls >= 1 && !inLoop {
			closeK = nCalls
		} else if nCalls == 1 {
			for _, b := range closeF.Blocks {
				for _, ins := range b.Instrs {
					ph, isPhi := ins.(*ssa.Phi)
					if !isPhi || len(ph.Edges) != 2 {
						continue
					}
					var init, step int64
					okInit, okStep := false, false
					for _, e := range ph.Edges {
						if k, isK := constInt(e); isK {
							init, okInit = k, true
						} else if bo, isB := e.(*ssa.BinOp); isB && (bo.Op == token.ADD || bo.Op == token.SUB) && bo.X == ssa.Value(ph) {
							if k, isK := constInt(bo.Y); isK {
								step, okStep = k, true
								if bo.Op == token.SUB {
									step = -k
								}
							}
						}
					}
					if !okInit || !okStep || step == 0 {
						continue
					}
					// the comparison that keeps the loop running
					for _, ref := range *ph.Referrers() {
						bo, isB := ref.(*ssa.BinOp)
						if !isB || !isCmp(bo.Op) {
							continue
						}
						op := bo.Op
						var lim int64
						if k, isK := constInt(bo.Y); isK && bo.X == ssa.Value(ph) {
							lim = k
						} else if k, isK := constInt(bo.X); isK && bo.Y == ssa.Value(ph) {
							lim, op = k, flipOp(op)
						} else {
							continue
						}
						holds := func(v int64) bool {
							switch op {
							case token.LSS:
								return v < lim
							case token.LEQ:
								return v <= lim
							case token.GTR:
								return v > lim
							case token.GEQ:
								return v >= lim
							case token.NEQ:
								return v != lim
							}
							return false
						}
						cnt := int64(0)
						for v := init; holds(v) && cnt < 64; v += step {
							cnt++
						}
						if cnt > 0 && cnt < 64 {
							closeK = cnt
						}
					}
				}
			}
		}
	}
	if closeK <= 0 {
		r.Undecided(rule, "close-bytes", c.Pos(closeF.Pos()), "cannot count the shiftLow calls of rangeEncoder.Close")
		return
	}
	// (3) the bound
	probBits, ok1 := namedConstInt(c, "lzma", "probbits")
	moveBits, ok2 := namedConstInt(c, "lzma", "movebits")
	if !ok1 || !ok2 || probBits != 11 || moveBits != 5 {
		r.Undecided(rule, "bound", pos, "probability geometry is not probbits=11 / movebits=5 (TM-PROB)")
		return
	}
	pmin := float64(int64(1)<<uint(moveBits) - 1) // fixed point of dec(): p - p>>5 == p
	full := float64(int64(1) << uint(probBits))
	const modelBits = 2 + 2 + 8 + 6 + 4 // isMatch isRep | choice choice2 high-tree | posSlot | align
	const directBits = 26               // posSlot 63: (63>>1) - 1 - alignBits
	perBit := math.Log2(full/pmin) + math.Log2(1+1.0/8192) + 1e-9
	bits := modelBits*perBit + directBits + 8
	smax := int64(math.Ceil(bits/8)) - 1
	need := smax + closeK
	r.Check(margin >= need, rule, "opLenMargin", pos,
		fmt.Sprintf("opLenMargin = %d >= %d bytes of the most expensive operation (%d model bits at up to %.3f bits, %d direct bits) + %d to close the range coder", margin, smax, modelBits, perBit, directBits, closeK),
		fmt.Sprintf("opLenMargin = %d, but one match can need %d bytes of range-coder output (%d model bits at up to %.3f bits each when every context sits at its extreme, %d direct bits) and closing the coder needs %d more while Available() >= 1: an operation admitted with fewer than %d bytes available ends in ErrLimit inside the operation or in Close - Writer2.Write/Close fail on valid input (reproducer: /verif/findings/op-margin)", margin, smax, modelBits, perBit, directBits, closeK, need))
}

// ---- WR-RAWCOPY: a chunk is stored raw only if the encoder dictionary still holds its bytes ----
// writeUncompressedChunk copies encoder.Compressed() bytes out of the encoder dictionary
// (encoderDict.CopyN, which fails with ErrNoSpace beyond encoderDict.Len()). The dictionary retains
// DictCap bytes, a chunk of incompressible data reaches 64 KiB, and Verify admits DictCap = 4096:
// every call of writeUncompressedChunk must therefore lie behind the true edge of
// Compressed() <= dict.Len() (the compressed form is always possible).
func ruleRawCopy(c *Ctx, r *Report, prefix string) {
	rule := prefix + "WR-RAWCOPY"
	raw := c.Func("lzma", "Writer2.writeUncompressedChunk")
	comp := c.Func("lzma", "encoder.Compressed")
	dlen := c.Func("lzma", "encoderDict.Len")
	if raw == nil || comp == nil || dlen == nil {
		return
	}
	isCallOf := func(v ssa.Value, f *ssa.Function) bool {
		cl, ok := stripConv(v).(*ssa.Call)
		return ok && cl.Call.StaticCallee() == f
	}
	n := 0
	for _, fn := range c.modFuncs {
		if fn.Blocks == nil || fn == raw {
			continue
		}
		for _, b := range fn.Blocks {
			for _, ins := range b.Instrs {
				if _, isC := callTo(ins, raw); !isC {
					continue
				}
				n++
				guarded := false
				for _, gb := range fn.Blocks {
					if len(gb.Instrs) == 0 || len(gb.Succs) != 2 || gb.Succs[0] == gb.Succs[1] {
						continue
					}
					iff, isIf := gb.Instrs[len(gb.Instrs)-1].(*ssa.If)
					if !isIf {
						continue
					}
					bo, isB := iff.Cond.(*ssa.BinOp)
					if !isB {
						continue
					}
					okCond := (bo.Op == token.LEQ && isCallOf(bo.X, comp) && isCallOf(bo.Y, dlen)) ||
						(bo.Op == token.GEQ && isCallOf(bo.X, dlen) && isCallOf(bo.Y, comp))
					// the negated spelling: the relation holds on the false edge of Compressed() > Len()
					negCond := (bo.Op == token.GTR && isCallOf(bo.X, comp) && isCallOf(bo.Y, dlen)) ||
						(bo.Op == token.LSS && isCallOf(bo.X, dlen) && isCallOf(bo.Y, comp))
					if !okCond && !negCond {
						continue
					}
					t := gb.Succs[0]
					if negCond {
						t = gb.Succs[1]
					}
					if len(t.Preds) == 1 && (t == b || t.Dominates(b)) {
						guarded = true
					}
				}
				key := FnName(fn)
				r.Check(guarded, rule, key, c.InstrPos(ins), "writeUncompressedChunk is called only behind Compressed() <= encoder dictionary Len()",
					"a chunk can be stored raw although the encoder dictionary no longer holds all of its bytes (DictCap below the 64 KiB an incompressible chunk reaches): encoderDict.CopyN fails with ErrNoSpace after a partial copy and Writer2.Write reports 'insufficient space' (reproducer: /verif/findings/raw-chunk-small-dict)")
			}
		}
	}
	if n == 0 {
		r.Undecided(rule, "call-sites", c.Pos(raw.Pos()), "no call of writeUncompressedChunk found")
	}
}

// ---- SIB-REOPEN-STATE: Reopen re-arms every piece of per-chunk state ----
// An object that is reused through Reopen must come out of it like a new one: every field that any
// other method changes (or whose address it hands out) is stored by Reopen before it returns
// successfully. A field that only the constructor sets (the dictionary a reader works on) is kept.
func ruleReopenState(c *Ctx, r *Report, prefix string) {
	rule := prefix + "SIB-REOPEN-STATE"
	for _, it := range []struct{ typ, ctor string }{
		// (decoder.Reopen keeps the coder state across chunks by design - the chunk type decides about
		// resets, SEQ-STARTCHUNK - so it is not an instance of this rule)
		{"uncompressedReader", "newUncompressedReader"},
	} {
		reopen := c.Func("lzma", it.typ+".Reopen")
		tt := c.Type("lzma", it.typ)
		if reopen == nil || tt == nil || reopen.Name() != "Reopen" {
			continue
		}
		st, ok := tt.Underlying().(*types.Struct)
		if !ok {
			continue
		}
		// top-level field index of an address rooted at a *T value
		var topField func(v ssa.Value) (int, bool)
		topField = func(v ssa.Value) (int, bool) {
			fa, ok := v.(*ssa.FieldAddr)
			if !ok {
				return 0, false
			}
			if pt, isP := fa.X.Type().Underlying().(*types.Pointer); isP && types.Identical(pt.Elem(), tt) {
				return fa.Field, true
			}
			return topField(fa.X)
		}
		mutated := map[int]string{}
		ctorFn := c.Func("lzma", it.ctor) // the caller that took it over, when it was folded away
		for _, fn := range c.modFuncs {
			if fn.Blocks == nil || fn == reopen || fn == ctorFn {
				continue
			}
			for _, b := range fn.Blocks {
				for _, ins := range b.Instrs {
					switch x := ins.(type) {
					case *ssa.Store:
						if i, ok := topField(x.Addr); ok {
							mutated[i] = FnName(fn)
						}
					case *ssa.Call:
						for _, a := range x.Call.Args {
							if i, ok := topField(a); ok {
								mutated[i] = FnName(fn) + " (address passed on)"
							}
						}
					case *ssa.MakeInterface:
						if i, ok := topField(x.X); ok {
							mutated[i] = FnName(fn) + " (address passed on)"
						}
					}
				}
			}
		}
		// stores of Reopen that dominate every successful return
		var okRets []*ssa.BasicBlock
		for _, b := range reopen.Blocks {
			if len(b.Instrs) == 0 {
				continue
			}
			if ret, isR := b.Instrs[len(b.Instrs)-1].(*ssa.Return); isR {
				if n := len(ret.Results); n > 0 && isErrType(ret.Results[n-1].Type()) && !isNilConst(ret.Results[n-1]) {
					continue
				}
				okRets = append(okRets, b)
			}
		}
		whole := map[int]bool{}
		sub := map[int]map[int]bool{}
		for _, b := range c.GB(reopen) {
			domAll := b.Parent() == reopen
			if domAll {
				for _, rb := range okRets {
					if !b.Dominates(rb) {
						domAll = false
					}
				}
			}
			if !domAll {
				continue
			}
			for _, ins := range b.Instrs {
				stx, isSt := ins.(*ssa.Store)
				if !isSt {
					continue
				}
				fa, isFA := stx.Addr.(*ssa.FieldAddr)
				if !isFA {
					continue
				}
				if pt, isP := fa.X.Type().Underlying().(*types.Pointer); isP && types.Identical(pt.Elem(), tt) {
					whole[fa.Field] = true
					continue
				}
				if i, ok := topField(fa.X); ok {
					if sub[i] == nil {
						sub[i] = map[int]bool{}
					}
					sub[i][fa.Field] = true
				}
			}
		}
		for i := 0; i < st.NumFields(); i++ {
			who, isMut := mutated[i]
			if !isMut {
				continue
			}
			reset := whole[i]
			if !reset {
				if fst, isS := st.Field(i).Type().Underlying().(*types.Struct); isS && len(sub[i]) == fst.NumFields() {
					reset = true
				}
			}
			key := it.typ + ".Reopen:" + refNameOf(st.Field(i))
			r.Check(reset, rule, key, c.Pos(reopen.Pos()), "re-armed by Reopen (changed by "+who+")",
				fmt.Sprintf("%s.%s is changed by %s but not set by Reopen on its successful paths: the reused object starts the next chunk with stale state", it.typ, st.Field(i).Name(), who))
		}
	}
}

// ---- CE-RING-ACCOUNT / TM-ENCAVAIL: how much the encoder dictionary may accept ----
// buffer.Available() + buffer.Buffered() = buffer.Cap() = len(data) - 1 for every (front, rear) of a
// ring (finite-domain evaluation over small rings; one slot stays free to tell full from empty).
// encoderDict.Available() = that free space minus the history that has to stay resident (DictLen):
// one byte more and a refill overwrites the oldest byte of the window - a match at distance DictCap
// then references a byte the decoder still has and the encoder no longer.
func ruleEncAvail(c *Ctx, r *Report, prefix string) {
	bt := c.Type("lzma", "buffer")
	fAvail, fBuf, fCap := c.Func("lzma", "buffer.Available"), c.Func("lzma", "buffer.Buffered"), c.Func("lzma", "buffer.Cap")
	if bt != nil && fAvail != nil && fBuf != nil && fCap != nil {
		rule := prefix + "CE-RING-ACCOUNT"
		bad, n := "", 0
		iData, iFront, iRear := fieldIndex(bt, "data"), fieldIndex(bt, "front"), fieldIndex(bt, "rear")
		st, _ := bt.Underlying().(*types.Struct)
		for _, L := range []int{2, 3, 5, 8} {
			for front := 0; front < L && bad == ""; front++ {
				for rear := 0; rear < L && bad == ""; rear++ {
					get := func(fn *ssa.Function) (int64, bool) {
						in := NewInterp(c)
						cl := in.newCellOf(bt)
						cl.field(iData).v = aBytes(in, make([]byte, L), st.Field(iData).Type())
						cl.field(iFront).v = aInt(int64(front), types.Typ[types.Int])
						cl.field(iRear).v = aInt(int64(rear), types.Typ[types.Int])
						res := in.Call(fn, []aval{{k: kPtr, cell: cl}})
						if !res.OK || res.Panicked || len(res.Rets) != 1 {
							return 0, false
						}
						return res.Rets[0].Int()
					}
					a, ok1 := get(fAvail)
					b, ok2 := get(fBuf)
					cp, ok3 := get(fCap)
					n++
					if !ok1 || !ok2 || !ok3 {
						bad = fmt.Sprintf("cannot evaluate for len %d front %d rear %d", L, front, rear)
					} else if a+b != cp || cp != int64(L-1) || a < 0 || b < 0 {
						bad = fmt.Sprintf("len(data)=%d front=%d rear=%d: Available()=%d Buffered()=%d Cap()=%d; required Available+Buffered = Cap = len-1", L, front, rear, a, b, cp)
					}
				}
			}
		}
		if iData < 0 || iFront < 0 || iRear < 0 {
			bad = "buffer has no data/front/rear fields"
		}
		r.Check(bad == "", rule, "buffer", c.Pos(fAvail.Pos()), fmt.Sprintf("Available + Buffered = Cap = len(data) - 1 on %d ring states", n), bad)
	}
	fn := c.Func("lzma", "encoderDict.Available")
	dl := c.Func("lzma", "encoderDict.DictLen")
	if fn == nil || dl == nil || fn.Name() != "Available" {
		return
	}
	rule := prefix + "TM-ENCAVAIL"
	var rets []string
	for _, b := range fn.Blocks {
		if len(b.Instrs) == 0 {
			continue
		}
		if ret, ok := b.Instrs[len(b.Instrs)-1].(*ssa.Return); ok && len(ret.Results) == 1 {
			rets = append(rets, staticTerm(c, ret.Results[0], fAvail, fBuf, fCap, dl))
		}
	}
	canon := func(t string) string {
		// express the ring's free space through len(data) and Buffered (CE-RING-ACCOUNT)
		t = replaceToken(t, "(call buffer.Available &d.buf)", "(+ (len @d.buf.data) -1 (neg (call buffer.Buffered &d.buf)))")
		t = replaceToken(t, "(call buffer.Cap &d.buf)", "(+ (len @d.buf.data) -1)")
		return normTerm(t)
	}
	want := normTerm("(+ (len @d.buf.data) -1 (neg (call buffer.Buffered &d.buf)) (neg (call encoderDict.DictLen &d)))")
	ok := len(rets) == 1 && canon(rets[0]) == want
	got := ""
	if len(rets) > 0 {
		got = canon(rets[0])
	}
	r.Check(ok, rule, FnName(fn), c.Pos(fn.Pos()), "encoderDict.Available = free ring space (len(data) - 1 - Buffered) - DictLen",
		"encoderDict.Available is "+got+", not the free space of the ring minus the resident history ("+want+"): a refill may overwrite the oldest byte of the dictionary window (or refuses bytes it could take)")
}

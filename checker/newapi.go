package main

// NEWAPI: exported methods of the public reader / writer types that the frozen entry-point lists
// (api.go) do not name and that nothing in their cones calls. io.Copy, bufio and friends pick up
// optional interfaces (io.WriterTo, io.ReaderFrom, io.ByteReader, ...) by type assertion, so such a
// method is a way into the library although no function of the library calls it. The error rules
// (EF-EOF, EF-IO, EF-DROP) are applied to it and to whatever only it reaches; what the known
// entry points reach as well is judged there already.

import (
	"go/ast"
	"go/types"
	"strings"

	"golang.org/x/tools/go/ssa"
)

var publicReaderTypes = map[string]bool{"xz.Reader": true, "lzma.Reader": true, "lzma.Reader2": true}
var publicWriterTypes = map[string]bool{"xz.Writer": true, "lzma.Writer": true, "lzma.Writer2": true}

func recvTypeName(fn *ssa.Function) string {
	rv := fn.Signature.Recv()
	if rv == nil {
		return ""
	}
	t := rv.Type()
	if p, ok := t.(*types.Pointer); ok {
		t = p.Elem()
	}
	n, ok := t.(*types.Named)
	if !ok || n.Obj().Pkg() == nil {
		return ""
	}
	return n.Obj().Pkg().Name() + "." + n.Obj().Name()
}

// extraAPI returns the exported methods of the given public types that are outside base.
func extraAPI(c *Ctx, typs map[string]bool, base map[*ssa.Function]bool) []*ssa.Function {
	m := map[*ssa.Function]bool{}
	for _, fn := range c.modFuncs {
		if fn.Blocks == nil || fn.Synthetic != "" || fn.Parent() != nil || !ast.IsExported(fn.Name()) || efOutOfScope(fn) || base[fn] {
			continue
		}
		pp := pkgPathOf(fn)
		if pp != full("") && pp != full("lzma") {
			continue
		}
		if typs[recvTypeName(fn)] {
			m[fn] = true
		}
	}
	return sortedFuncs(m)
}

// ruleNewAPI applies the error rules to new public methods and their private cone.
func ruleNewAPI(c *Ctx, r *Report, readers, writers bool) {
	var base map[*ssa.Function]bool
	var ex []*ssa.Function
	var rdEx []*ssa.Function
	if readers {
		rc := readerCone(c)
		rdEx = extraAPI(c, publicReaderTypes, rc)
		ex = append(ex, rdEx...)
		base = unionCones(base, rc)
	}
	if writers {
		wc := writerCone(c)
		ex = append(ex, extraAPI(c, publicWriterTypes, wc)...)
		base = unionCones(base, wc)
	}
	var names []string
	for _, fn := range ex {
		names = append(names, FnName(fn))
	}
	if len(ex) == 0 {
		r.Pass("NEWAPI-CENSUS", "public-methods", "", "every exported method of the public reader / writer types is one of the known entry points or is called from their cone", 1)
		return
	}
	own := map[*ssa.Function]bool{}
	for fn := range c.Cone(ex...) {
		if !base[fn] {
			own[fn] = true
		}
	}
	r.Pass("NEWAPI-CENSUS", "public-methods", "", "exported methods outside the known entry points, judged as entry points of their own: "+strings.Join(names, ", "), len(own))
	if len(rdEx) > 0 {
		rown := map[*ssa.Function]bool{}
		for fn := range c.Cone(rdEx...) {
			if !base[fn] {
				rown[fn] = true
			}
		}
		ruleEOF(c, r, rdEx, rown, "NEWAPI-")
	}
	ruleIO(c, r, own, "NEWAPI-", true)
}

// newPublicRoots: exported methods of the public reader / writer types that do not exist on the
// reference tree and that no function of the module calls. The EF engine analyses them as
// functions of their own (a new helper is otherwise seen only through the known functions that call it).
func newPublicRoots(c *Ctx) []*ssa.Function {
	m := map[*ssa.Function]bool{}
	for _, fn := range c.modFuncs {
		if !c.IsNew(fn) || fn.Parent() != nil || !ast.IsExported(fn.Name()) || efOutOfScope(fn) || len(c.callSites(fn)) > 0 {
			continue
		}
		if tn := recvTypeName(fn); publicReaderTypes[tn] || publicWriterTypes[tn] {
			m[fn] = true
		}
	}
	return sortedFuncs(m)
}

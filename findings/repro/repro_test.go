// Demonstrations of the genuine defects found on the pinned tree (DESIGN §5). Each test
// fails on the pinned tree and passes once the corresponding "fix:" commit is applied.
// They are documentation only: no check in MANIFEST.json runs them (this task's family
// is static analysis).  Run: cd /verif/findings/repro && go test -mod=mod -count=1 ./...
package repro

import (
	"bytes"
	"errors"
	"io"
	"io/ioutil"
	"testing"

	"github.com/ulikunitz/xz"
	"github.com/ulikunitz/xz/lzma"
)

func xzStream(t *testing.T, data []byte, cfg xz.WriterConfig) []byte {
	var buf bytes.Buffer
	w, err := cfg.NewWriter(&buf)
	if err != nil {
		t.Fatal(err)
	}
	if _, err = w.Write(data); err != nil {
		t.Fatal(err)
	}
	if err = w.Close(); err != nil {
		t.Fatal(err)
	}
	return buf.Bytes()
}

// F1: a cut inside/at a block header must not be a clean EOF.
func TestF1_TruncatedAtBlockHeader(t *testing.T) {
	s := xzStream(t, []byte("hello world hello world"), xz.WriterConfig{})
	for _, cut := range []int{12, 13, 20} {
		r, err := xz.NewReader(bytes.NewReader(s[:cut]))
		if err != nil {
			continue
		}
		_, err = ioutil.ReadAll(r)
		if err == nil {
			t.Errorf("cut %d: clean EOF on truncated stream", cut)
		}
	}
}

// F2: cut within the first five payload bytes of a compressed LZMA2 chunk / after the .lzma header.
func TestF2_TruncatedRangeDecoderInit(t *testing.T) {
	var buf bytes.Buffer
	w, _ := lzma.NewWriter2(&buf)
	w.Write(bytes.Repeat([]byte("abcabcabc"), 100))
	w.Close()
	s := buf.Bytes()
	for cut := 7; cut <= 10; cut++ {
		r, err := lzma.NewReader2(bytes.NewReader(s[:cut]))
		if err != nil {
			continue
		}
		_, err = ioutil.ReadAll(r)
		if err == nil {
			t.Errorf("lzma2 cut %d: clean EOF", cut)
		}
	}
	buf.Reset()
	lw, _ := lzma.NewWriter(&buf)
	lw.Write([]byte("hello"))
	lw.Close()
	s = buf.Bytes()
	for cut := 13; cut <= 17; cut++ {
		_, err := lzma.NewReader(bytes.NewReader(s[:cut]))
		if err == io.EOF {
			t.Errorf("lzma cut %d: NewReader returned bare io.EOF", cut)
		}
	}
}

// F4: Size=0 in header must be written as 0, not as "unknown".
func TestF4_SizeZeroHeader(t *testing.T) {
	var buf bytes.Buffer
	cfg := lzma.WriterConfig{SizeInHeader: true, Size: 0}
	w, err := cfg.NewWriter(&buf)
	if err != nil {
		t.Fatal(err)
	}
	if err = w.Close(); err != nil {
		t.Fatal(err)
	}
	s := buf.Bytes()
	if !bytes.Equal(s[5:13], make([]byte, 8)) {
		t.Errorf("header size field = %x, want 0", s[5:13])
	}
	r, err := lzma.NewReader(bytes.NewReader(s))
	if err != nil {
		t.Fatalf("NewReader: %v", err)
	}
	out, err := ioutil.ReadAll(r)
	if err != nil || len(out) != 0 {
		t.Errorf("ReadAll: %q %v", out, err)
	}
}

// F5: header size 0 without end marker (LZMA SDK's empty file) must decode to "".
func TestF5_EmptyKnownSize(t *testing.T) {
	s := []byte{0x5d, 0, 0, 0x80, 0, 0, 0, 0, 0, 0, 0, 0, 0, 0, 0, 0, 0, 0}
	r, err := lzma.NewReader(bytes.NewReader(s))
	if err != nil {
		t.Fatalf("NewReader: %v", err)
	}
	out, err := ioutil.ReadAll(r)
	if err != nil || len(out) != 0 {
		t.Errorf("ReadAll: %q %v", out, err)
	}
}

type failAfter struct {
	n    int
	err  error
	once bool // fail only once, then accept writes again
}

func (f *failAfter) Write(p []byte) (int, error) {
	if f.n == 0 {
		f.n--
		return 0, f.err
	}
	if f.n < 0 && !f.once {
		return 0, f.err
	}
	f.n--
	return len(p), nil
}

var errSink = errors.New("sink failed")

// F6: Writer2.Close must report a failing Flush.
func TestF6_Writer2CloseMasksFlushError(t *testing.T) {
	fw := &failAfter{n: 0, err: errSink}
	w, err := lzma.NewWriter2(fw)
	if err != nil {
		t.Fatal(err)
	}
	w.Write([]byte("hello"))
	if err = w.Close(); err == nil {
		t.Errorf("Close returned nil although the sink failed")
	}
}

// F7: after a failed block-header write (block rotation), Close must not panic.
func TestF7_ClosePanicsAfterHeaderFailure(t *testing.T) {
	for k := 1; k < 12; k++ {
		func() {
			defer func() {
				if e := recover(); e != nil {
					t.Errorf("fail at sink write %d: panic %v", k, e)
				}
			}()
			fw := &failAfter{n: k, err: errSink, once: true}
			w, err := xz.WriterConfig{BlockSize: 4}.NewWriter(fw)
			if err != nil {
				return
			}
			_, werr := w.Write([]byte("0123456789abcdef"))
			cerr := w.Close()
			if werr == nil && cerr == nil {
				t.Errorf("fail at %d: no error reported", k)
			}
		}()
	}
}

type errReader struct {
	r   io.Reader
	err error
}

func (e *errReader) Read(p []byte) (int, error) {
	n, err := e.r.Read(p)
	if err == io.EOF {
		err = e.err
	}
	return n, err
}

var errSource = errors.New("source failed")

// F8: SingleStream probe must return the source's error, not errUnexpectedData.
func TestF8_SingleStreamProbeMasksSourceError(t *testing.T) {
	s := xzStream(t, []byte("hello"), xz.WriterConfig{})
	r, err := xz.ReaderConfig{SingleStream: true}.NewReader(&errReader{bytes.NewReader(s), errSource})
	if err != nil {
		t.Fatal(err)
	}
	_, err = ioutil.ReadAll(r)
	if err != errSource {
		t.Errorf("got %v, want the source error", err)
	}
}

// F11: a zero-length Read must not report EOF while data is still undelivered.
func TestF11_ZeroLengthRead(t *testing.T) {
	var buf bytes.Buffer
	w, _ := lzma.NewWriter(&buf)
	w.Write([]byte("hello world"))
	w.Close()
	r, err := lzma.NewReader(bytes.NewReader(buf.Bytes()))
	if err != nil {
		t.Fatal(err)
	}
	p := make([]byte, 1)
	if _, err = r.Read(p); err != nil {
		t.Fatal(err)
	}
	if _, err = r.Read(nil); err == io.EOF {
		n, err2 := r.Read(p)
		if n > 0 {
			t.Errorf("Read(nil) = EOF, then Read delivered %d more bytes (%v)", n, err2)
		}
	}
}

// F13: BinaryTree must not propose distances in front of the data.
func TestF13_BinTreeDistanceBeforeStart(t *testing.T) {
	data := []byte{0, 0, 0, 0, 1, 2, 3, 4, 5, 6, 7, 8, 9, 10, 0, 0, 0, 0, 0, 0, 0, 0, 0, 0, 0}
	s := xzStream(t, data, xz.WriterConfig{Matcher: lzma.BinaryTree})
	r, err := xz.NewReader(bytes.NewReader(s))
	if err != nil {
		t.Fatal(err)
	}
	out, err := ioutil.ReadAll(r)
	if err != nil || !bytes.Equal(out, data) {
		t.Errorf("round trip: %v %x", err, out)
	}
}

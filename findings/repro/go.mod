module repro

go 1.12

require github.com/ulikunitz/xz v0.0.0

replace github.com/ulikunitz/xz => /repo

// Reproducer for the LZMA2 writer failing with "lzma: limit reached" on valid input.
//
// The encoder admits an operation into the current 64 KiB LZMA2 chunk when at least opLenMargin
// (16) bytes are available. A single match can need up to 20 bytes of range-coder output when all
// 22 probability contexts it touches have been driven to the opposite extreme, and closing the
// range coder needs 5 more. The generated input (about 10 MB, deterministic) trains those contexts
// with planted matches and positions the expensive match exactly at the chunk limit; Write then
// returns ErrLimit to the caller of the public API with the default configuration.
//
//	go run . (in a module that replaces github.com/ulikunitz/xz by the tree under test)
//
// exit status 1 and "DEFECT" = the writer failed or the round trip is wrong; 0 = fine.
package main

import (
	"bytes"
	"fmt"
	"io"
	"math/rand"
	"os"

	"github.com/ulikunitz/xz/lzma"
)

type iv struct{ lo, hi int } // [lo,hi)

type gen struct {
	b       []byte
	rnd     *rand.Rand
	used    []iv
	fresh   []iv
	avoid   int
	rep     [4]int
	lfsr    uint32
	startAt int
}

func (g *gen) pos() int { return len(g.b) }

// rb: next byte of a maximal-length 32-bit LFSR bit stream: all byte-aligned 4-byte windows of the
// stream are distinct, so literal material never repeats a 4-gram by accident.
func (g *gen) rb() byte {
	var out byte
	for i := 0; i < 8; i++ {
		s := g.lfsr
		out |= byte(s&1) << uint(i)
		bit := (s ^ s>>10 ^ s>>30 ^ s>>31) & 1
		g.lfsr = s>>1 | bit<<31
	}
	return out
}

func (g *gen) lit1(avoid2 int) {
	for {
		c := g.rb()
		if int(c) == g.avoid || int(c) == avoid2 {
			continue
		}
		g.b = append(g.b, c)
		g.avoid = -1
		return
	}
}

// lits appends n random literals, recorded as fresh source material.
func (g *gen) lits(n int) {
	if n == 0 {
		return
	}
	start := g.pos()
	g.lit1(-1)
	for i := 1; i < n; i++ {
		g.b = append(g.b, g.rb())
	}
	g.fresh = append(g.fresh, iv{start, g.pos()})
}

func (g *gen) inFresh(lo, hi int) bool {
	for i := len(g.fresh) - 1; i >= 0; i-- {
		f := g.fresh[i]
		if f.lo <= lo && hi <= f.hi {
			return true
		}
	}
	return false
}

func (g *gen) isUsed(lo, hi int) bool {
	for _, u := range g.used {
		if lo < u.hi && u.lo < hi {
			return true
		}
	}
	return false
}

func (g *gen) inRep(dist int) bool {
	for _, r := range g.rep {
		if r == dist {
			return true
		}
	}
	return false
}

// srcOK: a match of n bytes at distance dist starting at position p has a clean, unique source.
func (g *gen) srcOK(p, dist, n int) bool {
	src := p - dist
	if src < 1 {
		return false
	}
	if src+n+1 > p-1 {
		return false // no overlapping copies
	}
	return g.inFresh(src-1, src+n+1) && !g.isUsed(src, src+n)
}

// copyAt appends the match (the caller has placed the separator).
func (g *gen) copyAt(dist, n int, isRep bool) {
	p := g.pos()
	src := p - dist
	g.used = append(g.used, iv{src, src + n})
	g.b = append(g.b, g.b[src:src+n]...)
	g.avoid = int(g.b[src+n]) // the next byte must not continue the match
	if isRep {
		// move to front
		k := 0
		for i, r := range g.rep {
			if r == dist {
				k = i
			}
		}
		for i := k; i > 0; i-- {
			g.rep[i] = g.rep[i-1]
		}
		g.rep[0] = dist
	} else {
		g.rep[3], g.rep[2], g.rep[1], g.rep[0] = g.rep[2], g.rep[1], g.rep[0], dist
	}
}

// sepMatch: one separator literal, then a new (non-rep) match with a distance chosen by pick.
// pick enumerates candidate distances (dist-1 values) in preference order.
func (g *gen) sepMatch(n int, cands func(yield func(d1 int) bool)) int {
	p := g.pos() + 1
	chosen := -1
	cands(func(d1 int) bool {
		dist := d1 + 1
		if g.inRep(dist) || !g.srcOK(p, dist, n) {
			return true
		}
		chosen = dist
		return false
	})
	if chosen < 0 {
		panic(fmt.Sprintf("no distance found at pos %d n %d", p, n))
	}
	// separator: must not extend the previous match and must not extend the new one backwards
	g.lit1(int(g.b[p-chosen-1]))
	g.copyAt(chosen, n, false)
	return chosen
}

// sepRep: separator literals then a rep0 match (same distance as the last match).
func (g *gen) sepRep(nlit, n int) bool {
	dist := g.rep[0]
	p := g.pos() + nlit
	if !g.srcOK(p, dist, n) {
		return false
	}
	st := g.pos()
	for i := 0; i < nlit; i++ {
		if i == nlit-1 {
			g.lit1(int(g.b[p-dist-1]))
		} else {
			g.lit1(-1)
		}
	}
	if nlit >= 8 {
		g.fresh = append(g.fresh, iv{st, g.pos()})
	}
	g.copyAt(dist, n, true)
	return true
}

func slotRange(slot int) (lo, hi int) {
	if slot < 4 {
		return slot, slot
	}
	bits := uint(slot/2 - 1)
	lo = (2 | (slot & 1)) << bits
	return lo, lo + (1 << bits) - 1
}

// candidates within a slot with given low-4-bit pattern constraint
func slotCands(g *gen, slots []int, alignOK func(a int) bool) func(yield func(d1 int) bool) {
	return func(yield func(d1 int) bool) {
		for _, s := range slots {
			lo, hi := slotRange(s)
			span := (hi - lo + 1) >> 4
			start := 0
			if g.startAt > lo && g.startAt < hi {
				start = (g.startAt - lo) >> 4
			}
			for k := 0; k < span; k++ {
				mid := (start + k) % span
				for a := 0; a < 16; a++ {
					if !alignOK(a) {
						continue
					}
					d1 := lo + mid<<4 + a
					if d1 > hi {
						continue
					}
					if !yield(d1) {
						return
					}
				}
			}
		}
	}
}

type plan struct {
	marks             []int
	posT, distT, lenT int
	data              []byte
}

const (
	symT   = 0xA5 // high-tree symbol of T: length = 18 + symT
	alignT = 0x6  // low four bits of distT-1
	slotT  = 42
)

func build(seed int64, nTrain, nFill, nRun, p1size int) plan {
	g := &gen{rnd: rand.New(rand.NewSource(seed)), avoid: -1, lfsr: 0xACE1ACE1 ^ uint32(seed)}
	anyAlign := func(int) bool { return true }
	// P0
	g.lits(9200000)
	big := []int{40, 41}
	// H: high tree, deepest first
	for k := 7; k >= 0; k-- {
		for i := 0; i < nTrain; i++ {
			sh := uint(7 - k)
			sym := (symT >> sh) ^ 1
			sym = sym<<sh | g.rnd.Intn(1<<sh)
			g.sepMatch(18+sym, slotCands(g, big, anyAlign))
		}
	}
	// C1: choice[1] -> 0
	for i := 0; i < nTrain; i++ {
		g.sepMatch(10+g.rnd.Intn(8), slotCands(g, big, anyAlign))
	}
	alignDepth := func(depth int) func(a int) bool {
		return func(a int) bool {
			m := (1 << uint(depth)) - 1
			return a&m == alignT&m && (a>>uint(depth))&1 != (alignT>>uint(depth))&1
		}
	}
	short := func() int { return 5 + g.rnd.Intn(5) }
	poolBallast := func(size int, slots []int) {
		g.lits(size)
		g.sepMatch(short(), slotCands(g, slots, anyAlign))
		for i := 0; i < 80; i++ {
			if !g.sepRep(1, 273) {
				break
			}
		}
	}
	for i := 0; i < nTrain; i++ { // posSlot depth 5
		g.sepMatch(short(), slotCands(g, []int{43}, anyAlign))
	}
	for i := 0; i < nTrain; i++ { // depth 4
		g.sepMatch(short(), slotCands(g, []int{40, 41}, anyAlign))
	}
	for i := 0; i < nTrain; i++ { // depth 3
		g.sepMatch(short(), slotCands(g, []int{44}, anyAlign))
	}
	marks := []int{g.pos()}
	poolBallast(530000, []int{36, 37})
	marks = append(marks, g.pos())
	for i := 0; i < nTrain; i++ { // depth 2
		g.sepMatch(short(), slotCands(g, []int{36, 37}, anyAlign))
	}
	marks = append(marks, g.pos())
	poolBallast(p1size, []int{30, 31})
	marks = append(marks, g.pos())
	// posSlot root + align depth 3, 2, 1, 0 (slots < 32 leave T's posSlot path at the root)
	for d := 3; d >= 0; d-- {
		for i := 0; i < nTrain; i++ {
			g.sepMatch(short(), slotCands(g, []int{30, 31}, alignDepth(d)))
		}
	}
	marks = append(marks, g.pos())
	// filler: 16 literals + rep match 273, sources far back in P0
	g.startAt = 6100000
	g.sepMatch(short(), slotCands(g, []int{44}, anyAlign))
	g.startAt = 0
	for i := 0; i < nFill; i++ {
		if !g.sepRep(16, 273) {
			panic("filler source exhausted")
		}
	}
	// literal run
	for i := 0; i < nRun; i++ {
		g.lit1(-1)
	}
	// T: a fresh, unused source at a distance of slot slotT with the trained align bits
	lenT := 18 + symT
	posT := g.pos()
	distT := -1
	slotCands(g, []int{slotT}, func(a int) bool { return a == alignT })(func(d1 int) bool {
		if g.srcOK(posT, d1+1, lenT) && g.b[posT-1] != g.b[posT-(d1+1)-1] {
			distT = d1 + 1
			return false
		}
		return true
	})
	if distT < 0 {
		panic("no source for T")
	}
	src := posT - distT
	g.b = append(g.b, g.b[src:src+lenT]...)
	g.avoid = int(g.b[src+lenT])
	for i := 0; i < 600; i++ {
		g.lit1(-1)
	}
	return plan{marks: marks, posT: posT, distT: distT, lenT: lenT, data: g.b}
}

func main() {
	bad := false
	// the three inputs place the expensive match with 17, 16 and 18 bytes available
	for _, c := range [][2]int{{76204, 700}, {76204, 701}, {76204, 699}} {
		pl := build(1, 150, 150, c[1], c[0])
		var buf bytes.Buffer
		w, err := lzma.Writer2Config{}.NewWriter2(&buf)
		if err != nil {
			panic(err)
		}
		_, werr := w.Write(pl.data)
		if werr == nil {
			werr = w.Close()
		}
		if werr != nil {
			fmt.Printf("DEFECT: input of %d bytes (pool %d, run %d): Writer2 fails: %v\n", len(pl.data), c[0], c[1], werr)
			bad = true
			continue
		}
		r, err := lzma.Reader2Config{}.NewReader2(&buf)
		if err != nil {
			panic(err)
		}
		dec, err := io.ReadAll(r)
		if err != nil || !bytes.Equal(dec, pl.data) {
			fmt.Printf("DEFECT: input of %d bytes: round trip fails: %v\n", len(pl.data), err)
			bad = true
			continue
		}
		fmt.Printf("ok: input of %d bytes (pool %d, run %d) round-trips\n", len(pl.data), c[0], c[1])
	}
	if bad {
		os.Exit(1)
	}
}

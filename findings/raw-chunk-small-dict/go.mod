module rawchunk

go 1.23

require github.com/ulikunitz/xz v0.0.0

replace github.com/ulikunitz/xz => /repo

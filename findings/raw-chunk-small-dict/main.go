// Reproducer: with a dictionary smaller than an LZMA2 chunk, an incompressible chunk cannot be
// copied back out of the encoder dictionary when it is to be stored raw.
//
// Writer2.writeChunk chooses the raw form whenever it is shorter; writeUncompressedChunk then
// copies encoder.Compressed() bytes (up to 64 KiB) from the encoder dictionary, which retains only
// DictCap bytes. exit 1 and "DEFECT" = Write/Close fail or the round trip is wrong.
package main

import (
	"bytes"
	"fmt"
	"io"
	"math/rand"
	"os"

	"github.com/ulikunitz/xz"
	"github.com/ulikunitz/xz/lzma"
)

func main() {
	bad := false
	data := make([]byte, 300000)
	rand.New(rand.NewSource(1)).Read(data)
	for _, dc := range []int{4096, 16384, 60000, 1 << 20} {
		// LZMA2 writer
		var buf bytes.Buffer
		w, err := lzma.Writer2Config{DictCap: dc}.NewWriter2(&buf)
		if err != nil {
			panic(err)
		}
		_, werr := w.Write(data)
		if werr == nil {
			werr = w.Close()
		}
		if werr != nil {
			fmt.Printf("DEFECT: lzma.Writer2 DictCap %d: %v\n", dc, werr)
			bad = true
		} else {
			clen := buf.Len()
			r, _ := lzma.Reader2Config{DictCap: dc}.NewReader2(&buf)
			dec, err := io.ReadAll(r)
			if err != nil || !bytes.Equal(dec, data) {
				fmt.Printf("DEFECT: lzma.Writer2 DictCap %d: round trip: %v\n", dc, err)
				bad = true
			} else {
				fmt.Printf("ok: lzma.Writer2 DictCap %d: %d -> %d bytes\n", dc, len(data), clen)
			}
		}
		// xz writer
		var xb bytes.Buffer
		xw, err := xz.WriterConfig{DictCap: dc}.NewWriter(&xb)
		if err != nil {
			panic(err)
		}
		_, werr = xw.Write(data)
		if werr == nil {
			werr = xw.Close()
		}
		if werr != nil {
			fmt.Printf("DEFECT: xz.Writer DictCap %d: %v\n", dc, werr)
			bad = true
			continue
		}
		xr, err := xz.NewReader(&xb)
		if err != nil {
			panic(err)
		}
		dec, err := io.ReadAll(xr)
		if err != nil || !bytes.Equal(dec, data) {
			fmt.Printf("DEFECT: xz.Writer DictCap %d: round trip: %v\n", dc, err)
			bad = true
		}
	}
	if bad {
		os.Exit(1)
	}
}

#!/usr/bin/env python3
"""Run the xzverify checks against seeded changes in a scratch worktree (never in /repo).

usage: seedeval.py [--props C05,C09|all] <seed dir with patch.diff> ...
For each seed: fresh detached worktree of /repo HEAD under $TMPDIR, git apply patch.diff,
run `xzverify check <prop>` for each requested property with XZVERIFY_REPO pointing at the
worktree and XZVERIFY_HOME at a scratch evidence dir, print which properties/rules fired,
remove the worktree.
"""
import json, os, subprocess, sys, tempfile, shutil, re

def sh(*a, **k):
    return subprocess.run(a, capture_output=True, text=True, **k)

def main():
    args = sys.argv[1:]
    props = None
    jsonout = None
    while args and args[0] in ('--props', '--json'):
        if args[0] == '--props':
            props = args[1]
        else:
            jsonout = args[1]
        args = args[2:]
    allprops = sh('/verif/bin/xzverify', 'list').stdout.split()
    base = tempfile.mkdtemp(prefix='seedeval-')
    home = os.path.join(base, 'home'); os.makedirs(home + '/evidence')
    shutil.copy('/verif/known_findings.txt', home)
    results = {}
    for seed in args:
        seed = seed.rstrip('/')
        patch = os.path.join(seed, 'patch.diff')
        wt = os.path.join(base, 'wt')
        sh('git', '-C', '/repo', 'worktree', 'add', '--detach', wt, 'HEAD')
        try:
            r = sh('git', '-C', wt, 'apply', os.path.abspath(patch))
            if r.returncode != 0:
                print(f'{seed}: patch does not apply: {r.stderr.strip()}'); continue
            want = allprops if props in (None, 'all') else props.split(',')
            fired = {}
            from concurrent.futures import ThreadPoolExecutor
            def one(p):
                h = os.path.join(base, 'home-' + p); os.makedirs(h + '/evidence', exist_ok=True)
                shutil.copy('/verif/known_findings.txt', h)
                return p, sh('/verif/bin/xzverify', 'check', p, env=dict(os.environ, XZVERIFY_REPO=wt, XZVERIFY_HOME=h))
            with ThreadPoolExecutor(9) as ex:
                for p, r in ex.map(one, want):
                    if r.returncode != 0:
                        rules = sorted(set(re.findall(r'^(?:FAIL|UNDECIDED) (\S+) (\S+)', r.stdout, re.M)))
                        fired[p] = [f'{a} {b}' for a, b in rules][:6]
            meta = {}
            try: meta = json.load(open(os.path.join(seed, 'meta.json')))
            except Exception: pass
            own = meta.get('property','?')
            tag = ('CAUGHT' if own in fired else 'OTHER ') if fired else 'MISSED'
            print(f'{tag} {seed} [{meta.get("property","?")}] {meta.get("summary","")[:110]}')
            for p, rs in fired.items():
                print(f'    {p}: ' + ' | '.join(rs))
            results[seed] = fired
        finally:
            sh('git', '-C', '/repo', 'worktree', 'remove', '--force', wt)
    shutil.rmtree(base, ignore_errors=True)
    sh('git', '-C', '/repo', 'worktree', 'prune')
    if jsonout:
        old = {}
        try: old = json.load(open(jsonout))
        except Exception: pass
        for k, v in results.items():
            old[os.path.basename(k)] = v
        json.dump(old, open(jsonout, 'w'), indent=1, sort_keys=True)

main()

#!/usr/bin/env python3
"""Regenerates /verif/MANIFEST.json from the table below (keeps it valid at all times)."""
import json, subprocess

ALL = [f"C{i:02d}" for i in range(1, 19)]

# property -> (technique, level text, level note, design ref)
CLAIMS = {}

def claim(pid, technique, text, note, ref):
    CLAIMS[pid] = (technique, text, note, ref)

TRUST = ("Trusted base: go/types + go/ssa + VTA call graph of golang.org/x/tools v0.29.0; the xzverify rule engines "
         "(PATH path walker, EF error provenance, CE finite-domain evaluator, OB/SEQ/GL/PN/TM rules) and their frozen tables "
         "(whitelists, specification tables) as listed in DESIGN.md; field-based heap abstraction. ")

claim("C05", "interprocedural error-provenance dataflow (raw-EOF tag) + path-sensitive SSA walk; guard obligations",
      "Decides a structural necessary condition of C05 on ALL paths of ALL reader entry points (xz, LZMA2, LZMA): an io.EOF coming from "
      "the underlying source at any read other than the four whitelisted stream-boundary probes is replaced by another error before it "
      "leaves an exported reader function or is interpreted as end of data; plus the explicit-length guards that turn a short source "
      "into an error. Tests sample a handful of cut positions; the rule quantifies over every read site and every path. "
      "It does not decide that bytes delivered before the error are a prefix of the original.",
      TRUST + "Whitelist of 5 boundary-probe origins (ef.go eofWhitelist), each with a reason.", "DESIGN.md §4 C05, §3.3")

claim("C09", "interprocedural error-provenance dataflow (EF-IO, EF-DROP, EF-EOF) over every I/O call site; panic census; typestate order",
      "Decides on ALL paths, for EVERY sink write and source read in the cones of the six reader/writer APIs (enumerated each run), that the "
      "error is consumed or the enclosing function returns a provably non-nil error; that a failing source read in the library is returned "
      "itself (or wrapped) unless an unrelated condition decided; that no fallible result is dropped; that no raw EOF turns a source fault "
      "into a clean end; that explicit panics reachable from the writer API are discharged and Writer.bw is published only after its header "
      "was written. Fault positions cannot be enumerated by tests; call sites and paths can be enumerated statically. "
      "Not decided: implicit panics (index/nil) after a fault; that a complete valid stream was accepted.",
      TRUST + "Never-fail table: hash.Hash*.Write, *bytes.Buffer writes; named suppressions breader.ReadByte, writer.removeTmpFile, writer.discard.",
      "DESIGN.md §4 C09, §3.3, §3.7")

claim("C18", "finite-domain abstract evaluation of the SSA (order-abstract capacity, all 256 code bytes) against the specification table",
      "Decides the WHOLE statement: DecodeDictCap over all 256 code bytes (accept set 0..40, the 41 specified sizes, reject set), EncodeDictCap over an exact "
      "finite partition of all capacities 1..2^32-1 (the capacity is an order-abstract symbol that may only be compared with representable sizes; any other "
      "use is reported as undecided), and the xz filter-flags codec {0x21,1,code} both ways. No test calls these functions; the domain is finite so it is settled completely.",
      TRUST + "Specification formula frozen in tables.go specDictCap.", "DESIGN.md §4 C18, §3.2")

claim("C16", "finite-domain abstract evaluation + automaton product (language equivalence); path-sensitive event-sequence rules per chunk kind",
      "Decides: chunkState.next (extracted over all reachable states x 7 kinds) is language-equivalent to the specification's chunk automaton; all 256 control bytes "
      "classified/rejected as specified; header lengths and the chunk-header field layout both ways at boundary values; in Reader2.startChunk the header is used only "
      "after the accepting edge of cstate.next and the per-kind effects (dictionary reset, state reset, new properties, raw reader into the dictionary, size limits) are "
      "exactly the format's on every path; decoder.Reopen's write set; writer emits only legal sequences, records the emitted type, budget constants and stores. "
      "Not decided: that accepted sequences decode to the right bytes beyond the resets; the 64 KiB bound on uncompressed chunks (numeric).",
      TRUST + "Specification automaton transcribed from liblzma lzma2_decoder.c (tables.go specNext).", "DESIGN.md §4 C16")

claim("C08", "typestate and must-pass-through rules over all paths (event words), error-provenance dataflow, chunk-automaton legality",
      "Decides on all paths of the LZMA2 writer: calls on a closed writer have no effect and fail; Close returns nil only after Flush . {0x00} write . cstate=stop; "
      "every effect of Flush is a flushChunk dominated by written() > 0; flushChunk projects onto the frozen 8-event word; the raw fallback records the mapped chunk type "
      "and restores the start-of-chunk coder state; headers carry w.ctype; emitted chunk sequences are legal; no sink error is masked (EF-IO). Call histories cannot be "
      "enumerated by tests; the paths of these seven functions can. Not decided: that the flushed prefix decodes to the data written (ring-buffer arithmetic, coder correctness).",
      TRUST, "DESIGN.md §4 C08, §3.5")

claim("C04", "guard-obligation catalogue located by operand roles in the SSA + consequence walk of the failing edge; error-provenance dataflow",
      "Decides that each of ~45 verification steps of the xz reader (Appendix A: magic, CRC coverage, reserved bits, ids, flags agreement, backward size, record count "
      "before allocation, record comparison, paddings, size bounds, check comparison without aliasing, uvarint limits, clean EOF only behind the checks) is present with "
      "the EXACT relation and that on its failing edge every path returns a non-EOF error; that no validation result is dropped; that end of input inside a structure "
      "is never taken for end of stream. Each check is 'an independent line that can be deleted without any test failing' - here each is one obligation. "
      "Not decided: that CRC/SHA detect a particular corruption; size consistency inside the LZMA2 layer for check-less streams.",
      TRUST + "Catalogue frozen in ob_xz.go.", "DESIGN.md §4 C04, Appendix A")

claim("C10", "who-may-call sets, dominance / must-pass-through and event-word rules on all paths of cmd/gxz; error-provenance dataflow",
      "Decides on ALL paths of cmd/gxz (which has no tests): the file-system mutation sites are exactly a frozen set with an exclusive-create temp file; the input is "
      "removed only under success && !keep; r.SetSuccess is dominated by w.Close()==nil . w.SetSuccess . io.Copy==nil; a successful writer.Close is Flush . f.Close . "
      "Rename(tmp,target), every failing path removes the temp file; temp name = target + non-empty suffix; no overwrite without -f; target never equals the input; every "
      "failure reaches a non-nil return and exit status 1. Since rename-dominates-remove holds on every path it holds at every kill point (static counterpart of the "
      "crash-point quantifier). Not decided: kernel/file-system behaviour, fsync, cross-device rename, contents.",
      TRUST + "fsMutators table (gxzrules.go).", "DESIGN.md §4 C10")

claim("C15", "who-may-write / dataflow / dominance rules over cmd/gxz; finite-domain evaluation of the header sniffing predicate",
      "Decides only the structurally visible clauses: per-file processing cannot change the shared options; keep = opts.keep || opts.stdout gates removal; -c reaches no "
      "file creation; no overwrite without -f; target != input and exact suffix removal; permission bits = mode & subset of 0666 flow into OpenFile; every 2^n / 2^n+2^(n-1) "
      "dictionary size passes .lzma sniffing; each file's failure reaches the exit status. Not decided: contents round trip, presets, interoperability, option parsing in gflag.",
      TRUST, "DESIGN.md §4 C15")

claim("C14", "escape / read-only-use analysis of every package-level variable; lockset walk for the logger; effect scan of the reader/writer call-graph cones",
      "Decides for ALL ~30 package-level variables of the four library packages that none is assigned after initialisation, none has its address escape, and reference "
      "contents are only read on every use chain (never stored into instance state, returned, appended to, or passed to a writing parameter); the logger's state is only "
      "touched under its mutex; no goroutine/channel/map-iteration/time/rand/env/runtime/sync.Pool/unsafe in the reader/writer cones. Hence distinct instances share no "
      "mutable memory and output depends on configuration and input only. Schedules cannot be enumerated by tests; the variables and their uses can. "
      "Not decided: races inside user-supplied io.Reader/io.Writer implementations; the Go runtime.",
      TRUST + "Read-only stdlib parameter table (gl.go readOnlyStdCall).", "DESIGN.md §4 C14, §3.6")

claim("C11", "census of explicit panics / unchecked assertions over the VTA cone with automatic discharge (CE, path walk, type coverage); guard obligations with exact relations",
      "Decides: every explicit panic and comma-less type assertion reachable from the reader API is discharged automatically or carries a named justification, and a new one is "
      "reported; the bounds between hostile input and an out-of-range index/allocation (match distance/length/space, dictLen = min(head, cap), >= 273 bytes free before decoding, "
      "window >= 4096 and max(declared, configured), uvarint limits, header length before slicing, record count before allocation, sign checks, reject sets for control bytes / "
      "dictionary codes / properties bytes) exist with the exact relation and fail on their bad edge; a failed chunk start is latched (no nil chunk reader on re-read). "
      "Not decided: implicit panics in general; BOUNDED TIME (no termination analysis - stated plainly); n <= len(p).",
      TRUST + "pnTable justification table (pn.go): writer-side numeric invariants are argued, not decided.", "DESIGN.md §4 C11, §3.7")

claim("C13", "typestate (sticky error) and dominance rules on all paths of the Read methods; who-may-call set of direct Read invocations; error-provenance dataflow",
      "Decides on all paths: every error/EOF return of Reader2.Read and uncompressedReader.Read is stored in the sticky field first and returned by the entry test; decoder.eos is "
      "cleared only in Reopen; every error / end-of-stream return of the Read methods lies behind an `n < len(p)` edge (nothing is reported when nothing was requested); Reader2's "
      "no-progress error needs (0, nil); the places that call Read directly (tolerating short reads) are a frozen set, fixed-size structures use io.ReadFull/CopyN; raw EOF "
      "discipline. Schedules of calls cannot be enumerated by tests; the paths of these functions can. Not decided: equality of the delivered bytes under all schedules.",
      TRUST, "DESIGN.md §4 C13")

claim("C12", "path-sensitive event rules per mode on Reader.Read / newStreamReader; guard obligations; error-provenance dataflow",
      "Decides on all paths: header = 4-byte ReadFull probe + 8 bytes; all-zero probe => errPadding RETURNED by newStreamReader (leading padding is an error for NewReader) and "
      "skipped, never returned, by Reader.Read; SingleStream: no further header, clean EOF only from the one-byte probe's EOF edge, a byte => errUnexpectedData, other error "
      "=> that error; multi-stream: a stream's EOF resets sr and continues; the only clean end is the whitelisted probe EOF; no probe error is postponed and lost. "
      "Not decided: the homomorphism on decoded contents.", TRUST, "DESIGN.md §4 C12")

claim("C01", "guard obligations (matchers, window length), typestate / event-word rules for xz.Writer and Writer2, error-provenance dataflow",
      "Decides NECESSARY structural conditions only: every matcher candidate distance is bounded by encoderDict.DictLen() before use; DictLen/dictLen are min(head, capacity); "
      "Write/Close on a closed writer do nothing and fail; Close = closed=true . closeBlockWriter . writeIndex . footer; fresh check per block; block rotation "
      "(truncate to blockSize-n, errNoSpace => close block, new block, continue; record appended exactly after a successful block close); LZMA2 chunk sequencing; no sink error "
      "masked. Not decided: equality of decoded and original bytes; success for every configuration (the small-dictionary raw-chunk defect named in the property text needs "
      "buffer-occupancy arithmetic and is NOT detected by this check); partition independence.", TRUST, "DESIGN.md §4 C01")

claim("C17", "guard-obligation with exact relation; control-dependence check; expression template over normalised SSA",
      "Decides three structural preconditions of the bounds, not the bounds: raw-vs-compressed choice controlled exactly by 3+u < headerLen+c; binTree node->distance conversion "
      "in signed arithmetic with + wordLen-1; matcher guard exactly `dist > DictLen()`. The compression-ratio bounds themselves (match-finder effectiveness) are NOT decided "
      "and exit 0 says nothing about them.", TRUST, "DESIGN.md §4 C17")

claim("C02", "specification constants, finite-domain evaluation of codec tables/encodings, expression/coverage templates over the SSA, wiring and typestate rules",
      "Decides that the writer-side tables, constants, formulas and wiring equal the formats' - exactly the things reader and writer SHARE, so that a deviation keeps every "
      "round-trip test green: ~45 constants, magic bytes, polynomials, padLen, check ids, little-endian and uvarint encodings, CRC coverage of header/footer/block header/index, "
      "record order, unpadded-size and backward-size formulas, block trailer, chunk header codec and sequencing, dictionary-size code, coder state tables, probability update, "
      "context formulas, codec geometry. Not decided: that an independent decoder recovers the bytes (range-coder arithmetic, codec loops); raw-chunk 64 KiB bound.",
      TRUST + "Specification values frozen in tm.go / tables.go.", "DESIGN.md §4 C02")

claim("C03", "finite-domain table extraction vs specification (completeness direction), per-kind path rules, symbolic extraction of the rep permutation per decision path",
      "Decides that the reader-side tables accept at least everything the format allows and apply the prescribed resets, and that every decision path of decoder.readOp "
      "updates rep distances / coder state / length coder as the LZMA operation tree prescribes (symbolic walk), plus window = max(declared, configured), size fields by flag "
      "and order, fresh check per block, model constants/tables/formulas = specification. These are the constructs a greedy in-house encoder never emits (rep2/rep3 chains, "
      "mid-stream property changes, dictionary resets), so no existing test reaches them. Not decided: bit-level decoding and ring-buffer copying; equality with a reference decoder.",
      TRUST, "DESIGN.md §4 C03")

claim("C06", "finite-domain evaluation of the header codec; guard obligations and event rules for the explicit-size contract",
      "Decides the contract plumbing: header codec both ways with the all-ones size exactly for size < 0; Close fails with errSize unless written == announced size, before the "
      "encoder is closed; Write computes remaining = size - (Compressed()+Buffered()), truncates and reports ErrNoSpace; fill() guarantees SizeInHeader || EOSMarker; the end "
      "marker is written exactly when requested; properties byte codec; reader window; matcher guards; no sink error masked. Not decided: losslessness.",
      TRUST, "DESIGN.md §4 C06")

claim("C07", "specification tables/constants by finite-domain evaluation, symbolic rep-permutation extraction, must-precede rule",
      "Decides: the model shared by encoder and decoder (state rows, probability update, context formulas, codec geometry, constants) equals the LZMA specification; every "
      "decision path of readOp matches the operation tree; header codec; reader window = max(header, configured, 4096); the declared size is tested before the first operation "
      "is read on every path (size 0 without marker ends cleanly). Not decided: the reference decoder's verdict on emitted bytes; range-coder bit-exactness.",
      TRUST, "DESIGN.md §4 C07")


# ---- additions after the second round of seeded changes (DESIGN.md §12) ----
ADD = {
 "C01": ("encoder/decoder sibling agreement by normalised symbolic terms (TERM) incl. bit-vector identity; ring-modulus linear forms; deep-copy exhaustiveness",
         " Added (DESIGN §12): SIB-OP / SIB-CODEC - encoder and decoder code the same bits with the same probability indices, contexts, exit conditions and rep updates on every "
         "decision path, and every bit-level codec decodes the value it encodes (symbolic bit vectors, all inputs); RING-MOD wrap modulus of every circular-buffer index; COPY-ALL "
         "(state snapshot carries every field); COUNT, SEQ-BWHASH (block check covers exactly the block's bytes); LIVE-LOOKAHEAD (a legal BufSize cannot stall the writer)."),
 "C02": ("encoder/decoder sibling agreement by normalised symbolic terms; check-coverage and wiring rules",
         " Added (DESIGN §12): SIB-OP / SIB-CODEC (the decoder side is pinned to the LZMA specification by TM-REP/CE tables, the encoder side must mirror it term by term), COPY-ALL, "
         "COUNT, SEQ-BWHASH, WR-DICT-BLOCK (declared dictionary size of every block = capacity its encoder uses)."),
 "C03": ("encoder/decoder sibling agreement by normalised symbolic terms; ring-modulus linear forms",
         " Added (DESIGN §12): SIB-OP / SIB-CODEC (index terms, contexts, exit conditions, offsets of every codec path; distance-slot formulas as normal-form templates), RING-MOD on the "
         "decoder window, exact writeMatch guards (a stricter guard rejects valid streams), COUNT, SEQ-RAWFILL (raw chunk larger than the window), little-endian check encoding."),
 "C05": ("path rules on the end-of-data decisions", " Added: SEQ-RAWFILL, SEQ-DREAD (a failing decompress is returned at once, never followed by the eos test), EF-IO over the whole reader cone."),
 "C06": ("sibling agreement by normalised symbolic terms; sign-exact guard; liveness bound",
         " Added: OB-SIZE-SIGN (size 0 is an announced size), LIVE-LOOKAHEAD, SIB-OP / SIB-CODEC, RING-MOD."),
 "C07": ("sibling agreement by normalised symbolic terms", " Added: SIB-OP / SIB-CODEC (encoder mirrors the specification-pinned decoder), RING-MOD (decoder window), OB-SIZE-SIGN."),
 "C08": ("sibling agreement by normalised symbolic terms; partial-order event rules; ring-modulus linear forms",
         " Added: flushChunk as a partial order over dependent steps; RING-MOD (CopyN supplies raw chunk payloads), COPY-ALL, SIB-OP / SIB-CODEC, SEQ-BUDGET (budget recomputed after every flush), "
         "LIVE-LOOKAHEAD. Not decided: the numeric margin opLenMargin (seed C08-4 survives, DESIGN §15)."),
 "C10": ("deferred-closure rule; library reader error provenance", " Added: SEQ-DEFER-RESULT (a deferred closure cannot overwrite a failure with nil: exit status), EF-IO over the library reader cone and SEQ-DREAD (truncated input is not accepted)."),
 "C11": ("constructor results on error paths", " Added: SEQ-NIL-ON-ERR (no half-built reader installed with an error), startChunk effects (new properties => state sized for them)."),
 "C13": ("counting wrappers by normalised terms", " Added: COUNT (counters advance by delivered, not requested bytes: independence from source fragmentation), SEQ-DREAD, multi-stream rules (stable EOF)."),
 "C14": ("closure capture scan of package initialisation", " Added: GL-INIT-CLOSURE (no closure built during package initialisation captures a shared object, e.g. one hash for all blocks)."),
 "C15": ("path rule for `--`; deferred-closure rule", " Added: SEQ-DASHDASH, SEQ-DEFER-RESULT, reader window = max(declared, configured) (files from other presets decode)."),
 "C16": ("path rules on raw chunks and the chunk budget", " Added: SEQ-RAWFILL, SEQ-BUDGET."),
 "C17": ("allocation / budget / ring-modulus structural preconditions", " Added: WR-HTALLOC (hash chain covers the whole dictionary), SEQ-BUDGET, RING-MOD on the match finders. Still only structural preconditions of the bounds."),
 "C18": ("wiring of the declared size per block", " Added: WR-DICT-BLOCK (every block header declares the capacity its own encoder uses)."),
 "C04": ("width-aware formula templates", ""),
 "C09": ("fail-stop and deferred-call rules", ""),
 "C12": ("container and chunk rules per member", ""),
}
ADD3 = {
 "C01": " Round 3: SIB-REOPEN, WR-ENCDICT, WR-DICT-ENC, dictionary-code rules (CE-DICT-ENC, CE-FILTER).",
 "C02": " Round 3: TM-INDEX, OB-LCLP, RING-MOD, WR-DICT-ENC, WR-ENCDICT.",
 "C03": " Round 3: TM-INDEX, OB-BYTEAT, SIB-REOPEN, WR-LITINIT, SEQ-NIL-DECODER.",
 "C04": " Round 3: OB-V23-ONLY; width-aware formula templates (32-bit wrap before widening).",
 "C05": " Round 3: %w wrapping keeps the raw-EOF tag (errors.Is still interprets a wrapped EOF).",
 "C06": " Round 3: WR-ENCDICT, EF-DEFER-FLUSH.",
 "C07": " Round 3: TM-INDEX, exact decoder guards, OB-BYTEAT.",
 "C08": " Round 3: SEQ-FAILSTOP, SIB-REOPEN, OB-M1.",
 "C09": " Round 3: SEQ-FAILSTOP, EF-DEFER-FLUSH, EF-IO replaced-after-known-failure.",
 "C10": " Round 3: EF-EOF over the library reader cone, EF-DEFER-FLUSH.",
 "C11": " Round 3: WR-LITINIT, SEQ-NIL-DECODER, SEQ-ADVANCE (n <= len(p)).",
 "C12": " Round 3: container checks with exact relations and LZMA2 chunk effects for every member of a chain.",
 "C13": " Round 3: SEQ-ADVANCE, OB-V23-ONLY, container checks.",
 "C15": " Round 3: the library bundle behind gxz (spec constants, SIB-OP / SIB-CODEC, container reader/writer rules, chunk rules) because every library defect is a gxz defect.",
 "C16": " Round 3: OB-BYTEAT, SIB-REOPEN, SEQ-NIL-DECODER, width-aware +1 size roles.",
 "C17": " Round 3: WR-PEEKLEN, SEQ-FEED. Not decided: tuning constants (seed C17-9).",
 "C18": " Round 3: WR-DICT-ENC, WR-ENCDICT.",
}
for pid, text in ADD3.items():
    tech, t0 = ADD[pid]
    ADD[pid] = (tech, t0 + text)
ADD4 = {
 "C01": " Round 4: SEQ-ADVANCE exact offsets for the write loops (xz.Writer.Write, Writer2.Write, encoder.Write).",
 "C02": " Round 4: TM-RC (range-coder state transformers equal frozen templates in 32-bit arithmetic).",
 "C03": " Round 4: TM-RC.",
 "C07": " Round 4: TM-RC, CE-VALIDDICT, EF-IO over the classic Writer cone.",
 "C08": " Round 4: SEQ-ADVANCE exact offsets, SEQ-RAWFILL (library LZMA2 reader side), OB-LCLP.",
 "C10": " Round 4: the xz reader's container checks (corrupt input must be noticed for the run to fail).",
 "C11": " Round 4: width-aware arithmetic roles (8/16-bit wrap), SEQ-ADVANCE exact offsets.",
 "C12": " Round 4: WR-SAME-SOURCE, TM-XZW check encoding.",
 "C13": " Round 4: WR-SAME-SOURCE, SEQ-ADVANCE exact offsets.",
 "C15": " Round 4: CE-VALIDDICT (also through ValidHeader when the predicate is folded into it).",
 "C17": " Round 4: WR-ENCDICT.",
}
ADD5 = {
 "C03": " Round 5: WR-READFROM, SIB-REOPEN-STATE.",
 "C06": " Round 5: CE-RING-ACCOUNT, TM-ENCAVAIL.",
 "C15": " Round 5: CE-DICT-ENC (lib).",
 "C18": " Round 5: reader-side filter property obligations.",
 "C04": " Round 5: SEQ-BLOCKEND.",
 "C05": " Round 5: SEQ-BLOCKEND, WR-READFROM.",
 "C13": " Round 5: SEQ-BLOCKEND, WR-READFROM.",
 "C14": " Round 5: GL-GLOBAL no longer skips methods named init.",
 "C16": " Round 5: EF-EOF over the LZMA2 reader, decoder dictionary window guards, WR-READFROM; TM-OPMARGIN; WR-RAWCOPY.",
 "C01": " Round 5: SIB-REOPEN-STATE, CE-RING-ACCOUNT, TM-ENCAVAIL, CE-CHUNKHDR. TM-OPMARGIN (opLenMargin covers the largest operation plus closing the range coder; found and fixed a defect, DESIGN 12.6); WR-RAWCOPY (raw chunk only while the encoder dictionary holds it; defect fixed, DESIGN 12.7).",
 "C08": " TM-OPMARGIN (opLenMargin covers the largest operation plus closing the range coder; found and fixed a defect, DESIGN 12.6); WR-RAWCOPY (raw chunk only while the encoder dictionary holds it; defect fixed, DESIGN 12.7).",
}
ADD6 = {
 "C02": " Round 6: OB-RAWCHOICE.",
 "C03": " Round 6: SEQ-APPLY, WMW-RING.",
 "C04": " Round 6: CE-ALLZEROS, SEQ-APPLY; EF-IO replaced-error repair.",
 "C05": " Round 6: SEQ-READER-INIT.",
 "C07": " Round 6: WR-LITINIT.",
 "C08": " Round 6: TM-ENCAVAIL.",
 "C09": " Round 6: EF-IO replaced-error repair (the unrelated-condition excuse ends once the error was tested).",
 "C10": " Round 6: SEQ-APPLY and decoder window guards (lib).",
 "C11": " Round 6: OB-ARRSLICE (interval analysis), WMW-RING, SEQ-APPLY.",
 "C12": " Round 6: WR-WRITETO, CE-ALLZEROS, GL-GLOBAL/GL-NONDET over the reader.",
 "C13": " Round 6: WR-WRITETO.",
 "C15": " Round 6: TM-XZW check encoding (lib).",
 "C17": " Round 6: WR-DICT-ENC, WR-DICT-BLOCK.",
}
ADD7 = {
 "C01": " Round 7: COPY-ALL struct-value repair, SEQ-W2-SPLIT.",
 "C03": " Round 7: OB-EOS-DIST, SEQ-R2-EOF, WR-BLOCK-SOURCE.",
 "C04": " Round 7: TM-XZW check encoding.",
 "C05": " Round 7: WR-WRITETO, WMW-RING.",
 "C06": " Round 7: CE-LZMA-VERIFY.",
 "C07": " Round 7: OB-EOS-DIST, CE-LZMA-VERIFY.",
 "C08": " Round 7: SEQ-W2-SPLIT.",
 "C10": " Round 7: LZMA2 writer chunk discipline and COPY-ALL (lib).",
 "C11": " Round 7: SIB-OP, CE-CHECKID.",
 "C12": " Round 7: SEQ-R2-EOF, WR-BLOCK-SOURCE.",
 "C13": " Round 7: SEQ-R2-EOF, WR-BLOCK-SOURCE.",
 "C14": " Round 7: WMW-PROPS.",
 "C15": " Round 7: CE-CHUNKHDR, OB-LCLP (lib).",
 "C16": " Round 7: SEQ-W2-SPLIT, SEQ-R2-EOF, WMC-READ.",
 "C17": " Round 7: SEQ-W2-SPLIT.",
}
ADD8 = {
 "C01": " Round 8: CE-MATCHLEN, OB-DICTCAP-RANGE.",
 "C03": " Round 8: OB-DICTCAP-RANGE.",
 "C05": " Round 8: EF-IO: formatting without %w is not reporting.",
 "C06": " Round 8: CE-MATCHLEN, WR-LZMA-HDRDICT, SEQ-D1.",
 "C07": " Round 8: WR-LZMA-HDRDICT.",
 "C08": " Round 8: CE-DEFAULT-CTYPE, SIB-REOPEN-STATE.",
 "C09": " Round 8: EF-IO: formatting without %w is not reporting.",
 "C10": " Round 8: CE-CHUNKHDR (lib).",
 "C11": " Round 8: SEQ-RAWFILL.",
 "C12": " Round 8: SIB-REOPEN-STATE; GL-GLOBAL follows locals and interface invokes.",
 "C14": " Round 8: GL-GLOBAL follows locals and interface invokes.",
 "C15": " Round 8: CE-CHUNK-AUTOMATON (lib).",
 "C16": " Round 8: CE-DEFAULT-CTYPE.",
 "C17": " Round 8: CE-MATCHLEN, WR-BLOCKSIZE-DEFAULT.",
 "C18": " Round 8: OB-DICTCAP-RANGE.",
}
ADD9 = {
 "C01": " Round 9: TM-XZW (writer container format: varints of every varint encoder of the package by evaluation, CRC placement, index) also for the round trip; COPY-ALL fresh storage under a whole-struct copy; SEQ-W2-SPLIT decided per path when a helper cuts the segment.",
 "C02": " Round 9: TM-XZW block-trailer-always (every successful Close writes padding + check), uvarint-encoder:<fn>; COPY-ALL (whole-struct copy, fresh storage).",
 "C03": " Round 9: OB V22 presence by guard / by (flags, mask); V23-always; guards of helpers called several times are taken per call site.",
 "C04": " Round 9: OB V23-always (the upper size bounds are tested on every return without error, per call site, by relation refutation); V14/V15 second spellings; frozen package-level tables are constants (filter id set, property length).",
 "C05": " Round 9: EF origin ordinals by effective position; validation errors that do not depend on the source failure.",
 "C08": " Round 9: COPY-ALL (whole-struct copy then deep copies, fresh storage); SEQ-W2-SPLIT per path.",
 "C09": " Round 9: PN type-assert justification through multi-result helpers.",
 "C11": " Round 9: EF-IO / EF-DROP over the reader cone (a dropped error lets the reader go on with a nil range decoder).",
 "C12": " Round 9: OB V23/V24 per call site with relation refutation (n == size excludes n < size).",
 "C13": " Round 9: as C12.",
 "C14": " Round 9: GL-GLOBAL accepts package-level tables that are only read (frozen).",
 "C16": " Round 9: CE reads frozen package-level tables (chunk automaton as map / array literals); SEQ-STARTCHUNK resolves the state a helper returns.",
 "C18": " Round 9: CE models closures and sort.Search (EncodeDictCap as a binary search).",
}
ADD10 = {
 "C01": " Round 10: CE-WRITEMATCH (decoder match copy = sequential LZ copy on all states of small rings), CE-COPYN (raw chunk payload out of the encoder ring).",
 "C03": " Round 10: CE-WRITEMATCH, CE-STATE-RESET (Reset = newState cell by cell); the position mask is whichever state field holds 2^pb-1 after Reset.",
 "C04": " Round 10: V13-stored-index-fresh (the stored index records are not read into the measured ones); forwarding wrappers.",
 "C06": " Round 10: CE-WRITEMATCH.",
 "C07": " Round 10: CE-WRITEMATCH.",
 "C08": " Round 10: CE-COPYN.",
 "C10": " Round 10: CE-COPYN, CE-WRITEMATCH (lib).",
 "C12": " Round 10: SEQ-ADVANCE (streams and blocks of a chain are decoded behind what the previous ones delivered).",
 "C16": " Round 10: CE-STATE-RESET, CE-COPYN.",
}
ADD11 = {
 "C15": " After round 10: CE-FORMAT-NORM (normalizeFormat evaluated for all documented and some undocumented -F names with and without -d: xz / lzma / auto only when decompressing, alone is lzma, others refused).",
 "C17": " After round 10: CE-BT-WRITE (binTree.Write(p) = WriteByte for every byte of p, evaluated on trees of 3 and 5 nodes).",
}
ADD12 = {
 "C05": " Round 11: NEWAPI (exported methods of xz.Reader / lzma.Reader / lzma.Reader2 outside the known entry points - new io.WriterTo, io.ByteReader ... that io.Copy or bufio pick up by type assertion - are entry points of their own: EF-EOF, EF-IO and EF-DROP over what only they reach).",
 "C09": " Round 11: NEWAPI (new exported methods of the public reader and writer types are judged as entry points: EF-EOF, EF-IO, EF-DROP).",
 "C06": " Round 11: WR-LZMA-HDRDICT (c): no function of the classic writer's cone overwrites header.dictCap except through g(dictCap, size) that evaluates (CE, grid around 2^n and 3*2^(n-1)) to at least min(dictCap, size).",
 "C07": " Round 11: WR-LZMA-HDRDICT (c): no function of the classic writer's cone overwrites header.dictCap except through g(dictCap, size) that evaluates (CE, grid around 2^n and 3*2^(n-1)) to at least min(dictCap, size); math/bits counted by the evaluator.",
}
for pid, text in ADD12.items():
    ADD11[pid] = ADD11.get(pid, "") + text
for pid, text in ADD11.items():
    ADD10[pid] = ADD10.get(pid, "") + text
for pid, text in ADD10.items():
    ADD9[pid] = ADD9.get(pid, "") + text
for pid, text in ADD9.items():
    ADD8[pid] = ADD8.get(pid, "") + text
for pid, text in ADD8.items():
    ADD7[pid] = ADD7.get(pid, "") + text
for pid, text in ADD7.items():
    ADD6[pid] = ADD6.get(pid, "") + text
for pid, text in ADD6.items():
    ADD5[pid] = ADD5.get(pid, "") + text
for pid, text in ADD5.items():
    ADD4[pid] = ADD4.get(pid, "") + text
for pid, text in ADD4.items():
    tech, t0 = ADD[pid]
    ADD[pid] = (tech, t0 + text)
for pid, (tech, text) in ADD.items():
    t0, x0, n0, r0 = CLAIMS[pid]
    CLAIMS[pid] = (t0 + "; " + tech, x0 + text, n0 + "TERM normal forms (term.go), LIN (lin.go), reference tables knownfuncs.txt / knownedges.txt / knownsyms.txt (new helpers are transparent, pure renames are resolved). ", r0 + ", §12")

NOT_YET = "not yet decided: rules under construction (DESIGN.md §10); no claim is made"

def main():
    listed = subprocess.run(["/verif/bin/xzverify", "list"], capture_output=True, text=True).stdout.split()
    checks, na = [], []
    for pid in ALL:
        if pid in CLAIMS and pid in listed:
            tech, text, note, ref = CLAIMS[pid]
            checks.append({
                "property_id": pid,
                "quick_cmd": f"/verif/bin/xzverify check {pid} --tier quick",
                "thorough_cmd": f"/verif/bin/xzverify check {pid} --tier thorough",
                "evidence_file": f"/verif/evidence/{pid}.json",
                "replay_cmd_template": "/verif/bin/xzverify explain {path}",
                "engine": "xzverify",
                "level_claimed": {"category": "other", "text": text, "design_ref": ref},
                "level_note": note,
                "technique": "static analysis: " + tech,
            })
        else:
            na.append({"property_id": pid, "reason": NOT_YET})
    m = {
        "version": 1,
        "setup_cmd": "cd /verif/checker && GOFLAGS=-mod=mod GOPROXY=off GOSUMDB=off GOTOOLCHAIN=local GOWORK=off go build -o /verif/bin/xzverify .",
        "hooks": {
            "guard": "verif",
            "enable": "none needed: the checks read /repo's source (type-checked SSA of the working tree); nothing is compiled into /repo and no hook commits exist",
            "baseline_off_cmd": "cd /repo && go test -mod=mod -vet=off -count=1 ./...",
            "source_commits": [],
            "add_only": True,
        },
        "engines": [{
            "name": "xzverify", "path": "checker/",
            "serves_properties": [c["property_id"] for c in checks],
            "kind_free_text": "repository-specific static analyser over go/packages + go/ssa + VTA call graph (path-sensitive walker with helper inlining, error provenance, finite-domain table extraction, guard obligations, typestate/ordering, globals/lockset, panic census, spec constants/templates, normalised symbolic terms with interval and bit-vector reasoning for encoder/decoder sibling agreement, linear forms)",
        }],
        "checks": checks,
        "not_applicable": na,
        "notes": "Static-analysis family only (DESIGN.md). Every check loads /repo's current working tree, reports violations as a specific construct "
                 "(function, call site, path) and prints what was analysed into its evidence file. Genuine defects found were repaired with fix: commits, "
                 "listed in known_findings.txt.",
    }
    json.dump(m, open("/verif/MANIFEST.json", "w"), indent=1)
    print("claimed:", [c["property_id"] for c in checks])

main()

#!/usr/bin/env python3
"""Run every xzverify check against behaviour-preserving refactorings (false-alarm test).

usage: refeval.py <dir with patch.diff> ...
For each: scratch worktree of /repo HEAD, git apply, go build + test suite (must pass), then
every check; any non-zero exit is a FALSE ALARM to be fixed in the checker.
"""
import json, os, subprocess, sys, tempfile, shutil, re
from concurrent.futures import ThreadPoolExecutor
ENV = dict(os.environ, GOFLAGS='-mod=mod', GOPROXY='off', GOSUMDB='off', GOTOOLCHAIN='local')
def sh(cmd, **k):
    return subprocess.run(cmd, capture_output=True, text=True, shell=isinstance(cmd, str), **k)
allprops = sh(['/verif/bin/xzverify', 'list']).stdout.split()
base = tempfile.mkdtemp(prefix='refeval-')
bad = 0
for d in sys.argv[1:]:
    d = d.rstrip('/'); name = os.path.basename(d)
    wt = os.path.join(base, 'wt')
    sh(['git', '-C', '/repo', 'worktree', 'add', '--detach', wt, 'HEAD'])
    try:
        r = sh(['git', '-C', wt, 'apply', os.path.join(os.path.abspath(d), 'patch.diff')])
        if r.returncode != 0:
            print(f'{name}: patch does not apply'); continue
        r = sh('go build ./... && go test -mod=mod -vet=off -count=1 ./...', cwd=wt, env=ENV)
        if r.returncode != 0:
            print(f'{name}: SUITE FAILS with the refactoring (not behaviour-preserving?)'); continue
        def one(p):
            h = os.path.join(base, 'home-' + p); os.makedirs(h + '/evidence', exist_ok=True)
            shutil.copy('/verif/known_findings.txt', h)
            return p, sh(['/verif/bin/xzverify', 'check', p], env=dict(os.environ, XZVERIFY_REPO=wt, XZVERIFY_HOME=h))
        fired = {}
        with ThreadPoolExecutor(9) as ex:
            for p, r in ex.map(one, allprops):
                if r.returncode != 0:
                    fired[p] = sorted(set(re.findall(r'^(?:FAIL|UNDECIDED) (\S+) (\S+)', r.stdout, re.M)))
        if fired:
            bad += 1
            rules = sorted({f'{a} {b}' for v in fired.values() for a, b in v})
            print(f'ALARM {name}: props {sorted(fired)}')
            for x in rules[:12]: print('     ', x)
        else:
            print(f'quiet {name}')
        sys.stdout.flush()
    finally:
        sh(['git', '-C', '/repo', 'worktree', 'remove', '--force', wt])
shutil.rmtree(base, ignore_errors=True)
sh(['git', '-C', '/repo', 'worktree', 'prune'])
print('false alarms:', bad)

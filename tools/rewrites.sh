#!/bin/bash
# Mechanical rewrite test (DESIGN.md §13.2e): applies one behaviour-preserving rewrite (an expression
# rule of gofmt -r, or a statement-level rule of tools/astrw) at a time to every non-test Go file of a scratch copy of /repo, keeps the copy if it
# builds, vets and passes the test suite, runs all 18 quick checks on it and reports every check that
# is not silent. Every line "ALARM ..." is a false alarm of the checker.
#
# usage: tools/rewrites.sh            (all rewrites below)
#        tools/rewrites.sh tag ...    (only these)
export GOFLAGS=-mod=mod GOPROXY=off GOSUMDB=off GOTOOLCHAIN=local GOWORK=off
BIN=${XZVERIFY_BIN:-/verif/bin/xzverify}
TMP=${TMPDIR:-/tmp}
RULES='eqswap|a == b -> b == a
neswap|a != b -> b != a
ltswap|a < b -> b > a
leswap|a <= b -> b >= a
gtswap|a > b -> b < a
geswap|a >= b -> b <= a
neg-ne|a != b -> !(a == b)
neg-eq|a == b -> !(a != b)
neg-lt|a < b -> !(a >= b)
neg-ge|a >= b -> !(a < b)
neg-gt|a > b -> !(a <= b)
neg-le|a <= b -> !(a > b)
andswap|a & b -> b & a
orswap|a | b -> b | a
xorswap|a ^ b -> b ^ a
mulswap|a * b -> b * a
demorgan-and|a && b -> !(!a || !b)
demorgan-or|a || b -> !(!a && !b)
slicehigh|a[b:] -> a[b:len(a)]
slicelow|a[:b] -> a[0:b]
notbool|!a -> a == false
plus1|a + 1 -> 1 + a
mul2shl|a * 4 -> a << 2
shl8mul|a << 8 -> a * 256
lenzero|len(a) == 0 -> len(a) < 1
gt0|a > 0 -> a >= 1
lt0|a < 0 -> a <= -1
ast-swapelse|if c {A} else {B}  ->  if !(c) {B} else {A}
ast-incdec|x++  ->  x += 1
ast-opassign|x op= y  ->  x = x op (y)
ast-andsplit|if a && b {X}  ->  if a { if b {X} }
ast-orsplit|if a || b {..return}  ->  if a {..return}; if b {..return}
ast-forbreak|for c {B}  ->  for { if !(c) {break}; B }
ast-if2switch|if / else if / else chain  ->  switch { case ...: }'
total=0; kept=0; alarms=0
while IFS='|' read -r tag rule; do
  if [ $# -gt 0 ] && ! echo " $* " | grep -q " $tag "; then continue; fi
  total=$((total+1))
  d=$(mktemp -d $TMP/xzv-rewrite-XXXXXX)
  cp -a /repo/. $d/ && rm -rf $d/.git
  case $tag in
  ast-*) # statement-level rewrites: tools/astrw (go/ast), built on first use
    [ -x $TMP/xzv-astrw ] || ( cd /verif/tools/astrw && go build -o $TMP/xzv-astrw . )
    ( cd $d && $TMP/xzv-astrw ${tag#ast-} $(find . -name '*.go' ! -name '*_test.go') ) ;;
  *) ( cd $d && gofmt -r "$rule" -w $(find . -name '*.go' ! -name '*_test.go') 2>/dev/null ) ;;
  esac
  if ! ( cd $d && go build ./... 2>/dev/null && go vet ./... >/dev/null 2>&1 && go test -count=1 ./... >/dev/null 2>&1 ); then
    echo "skip  $tag (does not build / vet / pass the suite)"; rm -rf $d; continue
  fi
  kept=$((kept+1))
  bad=$( for p in $($BIN list); do
    ( out=$(XZVERIFY_REPO=$d XZVERIFY_HOME=$d/.xzv-$p $BIN check $p --tier quick 2>&1) || echo -n " $p[$(echo "$out" | grep -m1 '^FAIL\|^UNDEC' | cut -c1-90)]" ) &
  done; wait )
  if [ -n "$bad" ]; then alarms=$((alarms+1)); echo "ALARM $tag ($rule):$bad"; else echo "quiet $tag ($rule)"; fi
  rm -rf $d
done <<< "$RULES"
echo "rewrites: $total rules, $kept build, vet and pass the suite, $alarms raise an alarm"
[ $alarms -eq 0 ]

#!/usr/bin/env python3
"""why.py <dir with patch.diff> <prop>[,<prop>...] : apply the patch in a scratch worktree, print the FAIL/UNDECIDED lines of the checks; with --keep print the worktree path and leave it."""
import os, subprocess, sys, tempfile, shutil
keep = '--keep' in sys.argv
args = [a for a in sys.argv[1:] if a != '--keep']
d, props = args[0].rstrip('/'), args[1].split(',')
base = tempfile.mkdtemp(prefix='why-'); wt = base + '/wt'
def sh(*a, **k): return subprocess.run(a, capture_output=True, text=True, **k)
sh('git', '-C', '/repo', 'worktree', 'add', '--detach', wt, 'HEAD')
try:
    r = sh('git', '-C', wt, 'apply', os.path.abspath(d) + '/patch.diff')
    if r.returncode: print('patch does not apply', r.stderr)
    os.makedirs(base + '/home/evidence'); shutil.copy('/verif/known_findings.txt', base + '/home')
    for p in props:
        r = sh('/verif/bin/xzverify', 'check', p, env=dict(os.environ, XZVERIFY_REPO=wt, XZVERIFY_HOME=base + '/home'))
        lines = r.stdout.splitlines()
        for i, l in enumerate(lines):
            if l.startswith(('FAIL', 'UNDECIDED')):
                print(p, l[:700])
                for m in lines[i+1:i+4]:
                    if m.startswith('    '): print('      ', m.strip()[:300])
    if keep:
        print('worktree kept at', wt, '(remove with: git -C /repo worktree remove --force', wt + ')')
finally:
    if not keep:
        sh('git', '-C', '/repo', 'worktree', 'remove', '--force', wt); shutil.rmtree(base, ignore_errors=True)

#!/usr/bin/env python3
"""Confirms seeded changes and stores them under /verif/seeded/<name>/.

For each seed directory (patch.diff, demonstration *_test.go, meta.json written by an
independent sub-agent) this script, in a scratch worktree of /repo HEAD (never in /repo):
  1. places the demonstration and runs it on the unchanged tree   -> must PASS
  2. applies patch.diff and runs the existing test suite          -> must PASS
  3. runs the demonstration with the change                       -> must FAIL
  4. runs every xzverify check with XZVERIFY_REPO=<worktree>      -> which properties fire
Only seeds for which 1-3 hold are kept. meta.json is extended with what was run and seen.

usage: confirm_seeds.py <seed dir> ...
"""
import json, os, re, shutil, subprocess, sys, tempfile, glob

ENV = dict(os.environ, GOFLAGS='-mod=mod', GOPROXY='off', GOSUMDB='off', GOTOOLCHAIN='local')

def sh(cmd, cwd=None, env=None, timeout=900):
    try:
        p = subprocess.run(cmd, shell=isinstance(cmd, str), cwd=cwd, env=env or ENV, capture_output=True, text=True, timeout=timeout)
        return p.returncode, p.stdout + p.stderr
    except subprocess.TimeoutExpired:
        return 124, 'timeout'

def demo_place(meta, seed, wt):
    demo = [f for f in os.listdir(seed) if f.endswith('_test.go') or f.endswith('.sh')]
    if not demo:
        return None, None
    f = demo[0]
    path = meta.get('demo_path', '')
    m = re.match(r'^([\w./-]+)', path.strip())
    rel = m.group(1) if m else f
    if not rel.endswith(f) and not rel.endswith('.go') and not rel.endswith('.sh'):
        rel = os.path.join(rel, f)
    if os.path.basename(rel) != f and rel.endswith('/'):
        rel = rel + f
    dst = os.path.join(wt, rel)
    os.makedirs(os.path.dirname(dst), exist_ok=True)
    shutil.copy(os.path.join(seed, f), dst)
    return f, rel

def main():
    allprops = subprocess.run(['/verif/bin/xzverify', 'list'], capture_output=True, text=True).stdout.split()
    base = tempfile.mkdtemp(prefix='confirm-')
    home = os.path.join(base, 'home'); os.makedirs(home + '/evidence')
    shutil.copy('/verif/known_findings.txt', home)
    summary = []
    for seed in sys.argv[1:]:
        seed = seed.rstrip('/')
        name = ('rev-' if '/rev/' in seed else '') + os.path.basename(seed)
        meta = {}
        try: meta = json.load(open(os.path.join(seed, 'meta.json')))
        except Exception: pass
        wt = os.path.join(base, 'wt')
        sh(['git', '-C', '/repo', 'worktree', 'add', '--detach', wt, 'HEAD'])
        rec = {'name': name}
        try:
            demo_file, rel = demo_place(meta, seed, wt)
            cmd = meta.get('demo_cmd', '')
            cmd = re.sub(r'^(\w+=\S+\s+)+', '', cmd)  # env prefix is provided by us
            if not demo_file or not cmd:
                rec['status'] = 'no demonstration'
            else:
                rc0, out0 = sh(cmd, cwd=wt)
                rec['demo_clean_rc'] = rc0
                rc, out = sh(['git', 'apply', os.path.abspath(os.path.join(seed, 'patch.diff'))], cwd=wt)
                if rc != 0:
                    rec['status'] = 'patch does not apply: ' + out.strip()[:200]
                else:
                    os.rename(os.path.join(wt, rel), os.path.join(base, 'demo.tmp'))
                    rcs, outs = sh('go build ./... && go test -mod=mod -vet=off -count=1 ./...', cwd=wt)
                    rec['suite_with_change_rc'] = rcs
                    os.rename(os.path.join(base, 'demo.tmp'), os.path.join(wt, rel))
                    rc1, out1 = sh(cmd, cwd=wt)
                    rec['demo_changed_rc'] = rc1
                    rec['demo_changed_tail'] = '\n'.join(out1.strip().splitlines()[-6:])[:900]
                    ok = rc0 == 0 and rcs == 0 and rc1 != 0
                    rec['status'] = 'confirmed' if ok else 'NOT confirmed'
                    os.remove(os.path.join(wt, rel))
            fired = {}
            if rec.get('status', '').startswith('confirmed') or name.startswith('rev-'):
                if name.startswith('rev-') and 'status' not in rec:
                    sh(['git', 'apply', os.path.abspath(os.path.join(seed, 'patch.diff'))], cwd=wt)
                from concurrent.futures import ThreadPoolExecutor
                def one(p):
                    h = os.path.join(base, 'home-' + p); os.makedirs(h + '/evidence', exist_ok=True)
                    shutil.copy('/verif/known_findings.txt', h)
                    env = dict(os.environ, XZVERIFY_REPO=wt, XZVERIFY_HOME=h)
                    return p, sh(['/verif/bin/xzverify', 'check', p], env=env)
                with ThreadPoolExecutor(9) as ex:
                    for p, (rcx, outx) in ex.map(one, allprops):
                        if rcx != 0:
                            rules = sorted(set(re.findall(r'^(?:FAIL|UNDECIDED) (\S+) (\S+)', outx, re.M)))
                            fired[p] = [f'{a} {b}' for a, b in rules][:8]
            rec['caught_by'] = fired
            own = meta.get('property')
            rec['caught_by_own_property'] = bool(own and own in fired)
            if rec.get('status') == 'confirmed':
                dst = os.path.join('/verif/seeded', name)
                os.makedirs(dst, exist_ok=True)
                shutil.copy(os.path.join(seed, 'patch.diff'), dst)
                if demo_file:
                    shutil.copy(os.path.join(seed, demo_file), dst)
                m2 = dict(meta)
                m2['confirmed_by_framework_author'] = {
                    'how': 'tools/confirm_seeds.py in a scratch worktree of /repo HEAD: demo on the unchanged tree, git apply patch.diff, existing suite (go test -mod=mod -vet=off -count=1 ./...), demo again',
                    'demo_on_unchanged_tree': 'pass' if rec['demo_clean_rc'] == 0 else f"rc={rec['demo_clean_rc']}",
                    'existing_suite_with_change': 'pass' if rec['suite_with_change_rc'] == 0 else f"rc={rec['suite_with_change_rc']}",
                    'demo_with_change': 'FAIL (as required)' if rec['demo_changed_rc'] != 0 else 'passes (!)',
                    'demo_output_tail': rec.get('demo_changed_tail', ''),
                    'repo_commit': subprocess.run(['git', '-C', '/repo', 'rev-parse', '--short', 'HEAD'], capture_output=True, text=True).stdout.strip(),
                }
                m2['xzverify'] = {'properties_that_report_a_violation': fired, 'caught_by_own_property': rec['caught_by_own_property']}
                json.dump(m2, open(os.path.join(dst, 'meta.json'), 'w'), indent=1)
        finally:
            sh(['git', '-C', '/repo', 'worktree', 'remove', '--force', wt])
        summary.append(rec)
        print(json.dumps({k: rec[k] for k in rec if k not in ('demo_changed_tail',)}))
        sys.stdout.flush()
    shutil.rmtree(base, ignore_errors=True)
    sh(['git', '-C', '/repo', 'worktree', 'prune'])
    old = []
    try: old = json.load(open('/verif/seeded/SUMMARY.json'))
    except Exception: pass
    names = {r['name'] for r in summary}
    merged = [r for r in old if r['name'] not in names] + summary
    merged.sort(key=lambda r: r['name'])
    json.dump(merged, open('/verif/seeded/SUMMARY.json', 'w'), indent=1)

main()

#!/bin/bash
# Mechanical rename test (DESIGN.md §13.2e): renames identifiers of /repo one at a time in a
# scratch copy (gofmt -r 'name -> nameZq' over all Go files), keeps the copy if it still builds
# and vets, runs all 18 quick checks on it and reports every check that is not silent.
# A rename changes no behaviour, so every line "ALARM ..." is a false alarm of the checker.
#
# usage: tools/renames.sh [count] [seed]      (default: 40 names, seed 1)
#        tools/renames.sh -n name1 name2 ...  (these names)
export GOFLAGS=-mod=mod GOPROXY=off GOSUMDB=off GOTOOLCHAIN=local GOWORK=off
BIN=${XZVERIFY_BIN:-/verif/bin/xzverify}
TMP=${TMPDIR:-/tmp}
if [ "$1" = "-n" ]; then
  shift; names="$*"
else
  names=$(python3 - "${1:-40}" "${2:-1}" <<'EOF'
import random, sys
n, seed = int(sys.argv[1]), int(sys.argv[2])
random.seed(seed)
c = set()
for l in open('/verif/checker/knownsyms.txt'):
    f = l.rstrip('\n').split('\t')
    if len(f) != 5: continue
    if f[0] == 'func':
        name = f[2].split('.')[-1]
        if not any(f[2].startswith(p) for p in ('xz.', 'lzma.', 'gxz.', '(*xz.', '(*lzma.', '(*gxz.', '(xz.', '(lzma.', '(gxz.')): continue
    elif f[1] in ('xz', 'lzma', 'gxz'):
        name = f[2].split('.')[-1]
    else:
        continue
    if name[0].islower() and len(name) >= 3 and name not in ('new', 'init', 'main', 'len', 'cap', 'copy', 'append', 'make', 'max', 'min'):
        c.add(name)
c = sorted(c)
random.shuffle(c)
print(' '.join(c[:n]))
EOF
)
fi
total=0; kept=0; alarms=0
for name in $names; do
  total=$((total+1))
  d=$(mktemp -d $TMP/xzv-rename-XXXXXX)
  cp -a /repo/. $d/ && rm -rf $d/.git
  ( cd $d && gofmt -r "$name -> ${name}Zq" -w $(find . -name '*.go') 2>/dev/null )
  if ! ( cd $d && go build ./... 2>/dev/null && go vet ./... >/dev/null 2>&1 ) || diff -rq /repo $d -x .git >/dev/null 2>&1; then
    echo "skip  $name (does not build / vet, or nothing renamed)"; rm -rf $d; continue
  fi
  kept=$((kept+1))
  bad=$( for p in $($BIN list); do
    ( out=$(XZVERIFY_REPO=$d XZVERIFY_HOME=$d/.xzv-$p $BIN check $p --tier quick 2>&1) || echo -n " $p[$(echo "$out" | grep -m1 '^FAIL\|^UNDEC' | cut -c1-90)]" ) &
  done; wait )
  if [ -n "$bad" ]; then alarms=$((alarms+1)); echo "ALARM $name:$bad"; else echo "quiet $name"; fi
  rm -rf $d
done
echo "renames: $total names, $kept build and vet, $alarms raise an alarm"
[ $alarms -eq 0 ]

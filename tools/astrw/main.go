// astrw: statement-level behaviour-preserving rewrites of Go files in place.
// usage: astrw <mode> file.go...   modes: swapelse, incdec, opassign
package main

import (
	"bytes"
	"go/ast"
	"go/format"
	"go/parser"
	"go/token"
	"os"
)

func main() {
	mode := os.Args[1]
	for _, fn := range os.Args[2:] {
		fset := token.NewFileSet()
		f, err := parser.ParseFile(fset, fn, nil, parser.ParseComments)
		if err != nil {
			continue
		}
		changed := false
		ast.Inspect(f, func(n ast.Node) bool {
			switch mode {
			case "swapelse":
				if is, ok := n.(*ast.IfStmt); ok {
					if eb, ok := is.Else.(*ast.BlockStmt); ok {
						is.Cond = &ast.UnaryExpr{Op: token.NOT, X: &ast.ParenExpr{X: is.Cond}}
						is.Body, is.Else = eb, is.Body
						changed = true
					}
				}
			case "incdec":
				if bl, ok := n.(*ast.BlockStmt); ok {
					for i, st := range bl.List {
						if id, ok := st.(*ast.IncDecStmt); ok {
							op := token.ADD_ASSIGN
							if id.Tok == token.DEC {
								op = token.SUB_ASSIGN
							}
							bl.List[i] = &ast.AssignStmt{Lhs: []ast.Expr{id.X}, Tok: op, Rhs: []ast.Expr{&ast.BasicLit{Kind: token.INT, Value: "1"}}}
							changed = true
						}
					}
				}
				if fs, ok := n.(*ast.ForStmt); ok {
					if id, ok := fs.Post.(*ast.IncDecStmt); ok {
						op := token.ADD_ASSIGN
						if id.Tok == token.DEC {
							op = token.SUB_ASSIGN
						}
						fs.Post = &ast.AssignStmt{Lhs: []ast.Expr{id.X}, Tok: op, Rhs: []ast.Expr{&ast.BasicLit{Kind: token.INT, Value: "1"}}}
						changed = true
					}
				}
			case "andsplit":
				if bl, ok := n.(*ast.BlockStmt); ok {
					for _, st := range bl.List {
						if is, ok := st.(*ast.IfStmt); ok && is.Else == nil && is.Init == nil {
							if be, ok := is.Cond.(*ast.BinaryExpr); ok && be.Op == token.LAND {
								inner := &ast.IfStmt{Cond: be.Y, Body: is.Body}
								is.Cond = be.X
								is.Body = &ast.BlockStmt{List: []ast.Stmt{inner}}
								changed = true
							}
						}
					}
				}
			case "orsplit":
				if bl, ok := n.(*ast.BlockStmt); ok {
					var out []ast.Stmt
					for _, st := range bl.List {
						if is, ok := st.(*ast.IfStmt); ok && is.Else == nil && is.Init == nil && len(is.Body.List) > 0 {
							_, endsRet := is.Body.List[len(is.Body.List)-1].(*ast.ReturnStmt)
							if be, ok := is.Cond.(*ast.BinaryExpr); ok && be.Op == token.LOR && endsRet && len(is.Body.List) <= 2 {
								out = append(out, &ast.IfStmt{Cond: be.X, Body: is.Body}, &ast.IfStmt{Cond: be.Y, Body: is.Body})
								changed = true
								continue
							}
						}
						out = append(out, st)
					}
					bl.List = out
				}
			case "forbreak":
				if fs, ok := n.(*ast.ForStmt); ok && fs.Cond != nil && fs.Post == nil {
					hasContinue := false
					ast.Inspect(fs.Body, func(m ast.Node) bool {
						if b, ok := m.(*ast.BranchStmt); ok && b.Tok == token.CONTINUE {
							hasContinue = true
						}
						return true
					})
					if !hasContinue {
						brk := &ast.IfStmt{Cond: &ast.UnaryExpr{Op: token.NOT, X: &ast.ParenExpr{X: fs.Cond}}, Body: &ast.BlockStmt{List: []ast.Stmt{&ast.BranchStmt{Tok: token.BREAK}}}}
						fs.Body.List = append([]ast.Stmt{brk}, fs.Body.List...)
						fs.Cond = nil
						changed = true
					}
				}
			case "if2switch":
				if bl, ok := n.(*ast.BlockStmt); ok {
					for i, st := range bl.List {
						is, ok := st.(*ast.IfStmt)
						if !ok || is.Init != nil || is.Else == nil {
							continue
						}
						sw := &ast.SwitchStmt{Body: &ast.BlockStmt{}}
						cur := is
						okChain := true
						for cur != nil {
							if cur.Init != nil {
								okChain = false
								break
							}
							sw.Body.List = append(sw.Body.List, &ast.CaseClause{List: []ast.Expr{cur.Cond}, Body: cur.Body.List})
							switch e := cur.Else.(type) {
							case *ast.IfStmt:
								cur = e
							case *ast.BlockStmt:
								sw.Body.List = append(sw.Body.List, &ast.CaseClause{Body: e.List})
								cur = nil
							default:
								cur = nil
							}
						}
						hasBreak := false
						ast.Inspect(is, func(m ast.Node) bool {
							if b, ok := m.(*ast.BranchStmt); ok && b.Tok == token.BREAK {
								hasBreak = true
							}
							return true
						})
						if okChain && !hasBreak {
							bl.List[i] = sw
							changed = true
						}
					}
				}
			case "elseflat":
				if bl, ok := n.(*ast.BlockStmt); ok {
					var out []ast.Stmt
					for _, st := range bl.List {
						if is, ok := st.(*ast.IfStmt); ok && len(is.Body.List) > 0 {
							_, endsRet := is.Body.List[len(is.Body.List)-1].(*ast.ReturnStmt)
							if eb, isB := is.Else.(*ast.BlockStmt); isB && endsRet && is.Init == nil {
								is.Else = nil
								out = append(out, is)
								out = append(out, eb.List...)
								changed = true
								continue
							}
						}
						out = append(out, st)
					}
					bl.List = out
				}
			case "elsewrap":
				if bl, ok := n.(*ast.BlockStmt); ok {
					for i, st := range bl.List {
						if is, ok := st.(*ast.IfStmt); ok && is.Else == nil && len(is.Body.List) > 0 && i+1 < len(bl.List) {
							_, endsRet := is.Body.List[len(is.Body.List)-1].(*ast.ReturnStmt)
							hasDecl := false
							for _, r := range bl.List[i+1:] {
								if _, isL := r.(*ast.LabeledStmt); isL {
									hasDecl = true
								}
							}
							if endsRet && !hasDecl {
								rest := append([]ast.Stmt{}, bl.List[i+1:]...)
								if _, lastRet := rest[len(rest)-1].(*ast.ReturnStmt); lastRet {
									is.Else = &ast.BlockStmt{List: rest}
									bl.List = bl.List[:i+1]
									changed = true
								}
								break
							}
						}
					}
				}
			case "opassign":
				if as, ok := n.(*ast.AssignStmt); ok && len(as.Lhs) == 1 && len(as.Rhs) == 1 {
					ops := map[token.Token]token.Token{token.ADD_ASSIGN: token.ADD, token.SUB_ASSIGN: token.SUB, token.MUL_ASSIGN: token.MUL, token.OR_ASSIGN: token.OR, token.AND_ASSIGN: token.AND, token.SHL_ASSIGN: token.SHL, token.SHR_ASSIGN: token.SHR, token.XOR_ASSIGN: token.XOR}
					if op, ok := ops[as.Tok]; ok {
						if _, simple := as.Lhs[0].(*ast.Ident); simple {
							as.Rhs[0] = &ast.BinaryExpr{X: as.Lhs[0], Op: op, Y: &ast.ParenExpr{X: as.Rhs[0]}}
							as.Tok = token.ASSIGN
							changed = true
						} else if se, isSel := as.Lhs[0].(*ast.SelectorExpr); isSel {
							if _, base := se.X.(*ast.Ident); base {
								as.Rhs[0] = &ast.BinaryExpr{X: as.Lhs[0], Op: op, Y: &ast.ParenExpr{X: as.Rhs[0]}}
								as.Tok = token.ASSIGN
								changed = true
							}
						}
					}
				}
			}
			return true
		})
		if changed {
			var buf bytes.Buffer
			if format.Node(&buf, fset, f) == nil {
				os.WriteFile(fn, buf.Bytes(), 0o644)
			}
		}
	}
}

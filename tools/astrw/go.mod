module astrw
go 1.23

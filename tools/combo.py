#!/usr/bin/env python3
"""Interaction tests for the checker (never part of a verdict on /repo).

  combo.py pairs N [seed]     N random pairs of behaviour-preserving refactorings that apply together:
                              every check must stay silent on the combination.
  combo.py mixed N [seed]     N random (refactoring, seeded change) pairs that apply together: the check of
                              the seeded change's own property must still report it.

Each combination is applied to a scratch worktree of /repo HEAD under $TMPDIR; build and test suite must
pass for a combination to count. Results are printed and appended to /verif/COMBOS.md by the caller.
"""
import json, os, random, subprocess, sys, tempfile, shutil, re
from concurrent.futures import ThreadPoolExecutor

ENV = dict(os.environ, GOFLAGS='-mod=mod', GOPROXY='off', GOSUMDB='off', GOTOOLCHAIN='local')


def sh(cmd, **k):
    return subprocess.run(cmd, capture_output=True, text=True, shell=isinstance(cmd, str), **k)


def files_of(patch):
    return set(re.findall(r'^\+\+\+ b/(\S+)', open(patch).read(), re.M))


def run_checks(base, wt, props):
    def one(p):
        h = os.path.join(base, 'home-' + p)
        os.makedirs(h + '/evidence', exist_ok=True)
        shutil.copy('/verif/known_findings.txt', h)
        r = sh(['/verif/bin/xzverify', 'check', p], env=dict(os.environ, XZVERIFY_REPO=wt, XZVERIFY_HOME=h))
        rules = sorted(set(re.findall(r'^(?:FAIL|UNDECIDED) (\S+) (\S+)', r.stdout, re.M)))
        return p, r.returncode, [f'{a} {b}' for a, b in rules][:5]
    with ThreadPoolExecutor(9) as ex:
        return list(ex.map(one, props))


def main():
    mode, n = sys.argv[1], int(sys.argv[2])
    rnd = random.Random(int(sys.argv[3]) if len(sys.argv) > 3 else 1)
    allprops = sh(['/verif/bin/xzverify', 'list']).stdout.split()
    benign = sorted(d for d in os.listdir('/verif/benign') if os.path.exists(f'/verif/benign/{d}/patch.diff'))
    seeds = sorted(d for d in os.listdir('/verif/seeded') if os.path.exists(f'/verif/seeded/{d}/patch.diff'))
    catch = json.load(open('/verif/seeded/CATCH.json'))
    base = tempfile.mkdtemp(prefix='combo-')
    done = bad = tried = 0
    while done < n and tried < n * 30:
        tried += 1
        a = rnd.choice(benign)
        pa = f'/verif/benign/{a}/patch.diff'
        if mode == 'pairs':
            b = rnd.choice(benign)
            if b == a:
                continue
            pb = f'/verif/benign/{b}/patch.diff'
        else:
            b = rnd.choice(seeds)
            own = b.split('-')[0]
            if own not in catch.get(b, {}):
                continue  # only changes the checker reports on their own
            pb = f'/verif/seeded/{b}/patch.diff'
        # prefer combinations that meet in the same file: more interesting than disjoint ones
        if not (files_of(pa) & files_of(pb)) and rnd.random() < 0.6:
            continue
        wt = os.path.join(base, 'wt')
        sh(['git', '-C', '/repo', 'worktree', 'add', '--detach', wt, 'HEAD'])
        try:
            if sh(['git', '-C', wt, 'apply', pa]).returncode != 0 or sh(['git', '-C', wt, 'apply', pb]).returncode != 0:
                continue
            if sh('go build ./... && go test -mod=mod -vet=off -count=1 -timeout 300s ./...', cwd=wt, env=ENV).returncode != 0:
                continue
            done += 1
            if mode == 'pairs':
                res = run_checks(base, wt, allprops)
                fired = {p: r for p, rc, r in res if rc != 0}
                if fired:
                    bad += 1
                    print(f'ALARM {a} + {b}: {fired}')
                else:
                    print(f'quiet {a} + {b}')
            else:
                res = run_checks(base, wt, [own])
                p, rc, rules = res[0]
                if rc == 0:
                    bad += 1
                    print(f'LOST  {b} under {a}: {own} is silent')
                else:
                    print(f'kept  {b} under {a}: {rules[:2]}')
            sys.stdout.flush()
        finally:
            sh(['git', '-C', '/repo', 'worktree', 'remove', '--force', wt])
    shutil.rmtree(base, ignore_errors=True)
    sh(['git', '-C', '/repo', 'worktree', 'prune'])
    print(f'{mode}: {done} combinations, {bad} problems')


main()
